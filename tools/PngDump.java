import java.awt.image.BufferedImage;
import java.awt.image.Raster;
import java.io.*;
import javax.imageio.ImageIO;

/** Independent PNG decoder (javax.imageio) used to cross-check Png.tla (the specification as PNG encoder).
 *  Per file one line: name width height bands, then the raster samples (full depth, as stored) pixel by pixel. */
public class PngDump {
    public static void main(String[] a) throws Exception {
        for (String f : a) {
            BufferedImage im = ImageIO.read(new File(f));
            if (im == null) { System.out.println(f + " UNREADABLE"); continue; }
            Raster r = im.getRaster();
            StringBuilder sb = new StringBuilder();
            sb.append(f).append(' ').append(im.getWidth()).append(' ').append(im.getHeight()).append(' ').append(r.getNumBands());
            for (int y = 0; y < im.getHeight(); y++)
                for (int x = 0; x < im.getWidth(); x++)
                    for (int b = 0; b < r.getNumBands(); b++)
                        sb.append(' ').append(r.getSample(x, y, b));
            System.out.println(sb);
        }
    }
}
