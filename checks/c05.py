"""C05 - encryption round-trips for every strength, configuration and password.
Specs: specs/crypto/{Crypto,EncEnvelope,MCEnc,EncTrace}.tla, specs/syntax/PdfFile.tla"""
import os
import vlib

LEVEL = "model_checking"


def describe(rej, case):
    f = case[0]
    d = {"class": rej["event"].get("ev"), "library": f.get("lib"), "built": f.get("built"), "error": f.get("err"),
         "file_length": len(f.get("bytes", []))}
    for k in ("strength", "cfg", "userText", "owner", "p", "opt", "name"):
        if k in f:
            d[k] = f[k]
    return d


def run(ctx):
    thorough = ctx.tier == "thorough"
    ctx.rule = ("EncEnvelope.tla is a reader of encrypted files written from ISO 32000 (7.6.1-7.6.5; ISO 32000-2 7.6.4): it finds /Encrypt "
                "and /ID in the newest trailer (classic or cross-reference stream) when the top level of the file is known, derives the "
                "file key from a password with Crypto.tla (Algorithms 2/2.A, 6/7, 2.B), decrypts object streams as streams before the "
                "reference file reader PdfFile.tla lexes them, decrypts strings and stream data of direct objects with the object key "
                "(RC4 / AES-CBC with the IV in front; AESV3 with the file key), leaves compressed objects, the cross-reference stream, "
                "the /Encrypt dictionary and - with EncryptMetadata false - the metadata stream alone.  MCEnc (TLC) enumerates strength x "
                "writer configuration (table / cross-reference stream / object streams, compression on and off, header version) x user and "
                "owner password class (empty, ASCII, delimiters, Latin-1, CJK + astral, 40 characters) x permission pattern.  The library "
                "writes each; EncTrace requires (chk_spec) that the independent reader finds a well-formed envelope, that both passwords "
                "authenticate and give the same key, that a wrong password does not, that title, author (UTF-16), page text and a page-label prefix (a string under /P of an ordinary dictionary) are found "
                "by decryption and occur nowhere in the clear, that /Perms matches /P; and (chk_lib) that the library reports the file "
                "encrypted, refuses a wrong password, returns nothing readable while locked, unlocks with either password, reads title, "
                "author, page text and the label prefix back, and reports the permissions written.  Non-trivial = every case; distinct by hash.")
    ctx.assumptions = ["MD5/SHA-2/AES/zlib are python hashlib / cryptography / zlib, not oxidizePdf code",
                       "the document content is fixed: a title (ASCII), an author (outside PDFDocEncoding, hence UTF-16BE), an empty subject, a page-label prefix, one tagged line of page text, a text annotation with contents, a link with a URI, two form fields (a name, a value, one filled after assembly so that its widget carries an appearance stream) and a structure tree with an /ID and an /Alt - each a marker that decryption must find and the raw file must not contain; the quantifier is over strength x configuration x passwords x permissions",
                       "for revisions 2-4 the independent reader is given the password bytes the library fed to the algorithms (UTF-8); the encoding question itself is C23's open finding and is checked against ISO in C06",
                       "a wrong password is the user password with two characters put in front"]
    cfg = "MCEnc_thorough" if thorough else "MCEnc"
    of = os.path.join(ctx.work, "enc.out")
    res = vlib.tlc("crypto", "MCEnc", cfg=cfg, workers=1, timeout=600, out_file=of)
    vlib.tlc_must_pass(res, cfg)
    ctx.add_tlc(res)
    ctx.exhaustive = False
    tp = os.path.join(ctx.work, "enc.ndjson")
    vlib.vh(["c05", "run", "--in", of, "--out", tp], timeout=3000)
    vlib.validate_cases(ctx, "crypto", "EncTrace", tp, "encrypted-document", describe=describe, timeout=6000, marker="file", libs=("syntax", "lib"))
    evs = vlib.read_ndjson(tp)
    by = {}
    for e in evs:
        if e["ev"] != "file":
            continue
        k = "%s/%s" % (e["strength"], "objstm" if e["cfg"]["objstm"] else ("xrefstm" if e["cfg"]["xref"] else "table"))
        by[k] = by.get(k, 0) + 1
        ctx.count_case({k2: e[k2] for k2 in ("strength", "cfg", "userText", "owner", "p")}, True)
    ctx.extra["cases_by_strength_and_layout"] = by
    for e in evs:
        if e["ev"] == "file" and e["cfg"]["objstm"]:
            ctx.sample({"strength": e["strength"], "cfg": e["cfg"], "user_password_bytes": e["user"], "owner_password_bytes": e["owner"], "p": e["p"],
                        "file_length": len(e["bytes"]), "library": e["lib"]})
            break

    def marker_lost(evs):
        for e in evs:
            if e["ev"] == "file" and e["built"]:
                e["lib"]["userMarkers"][1] = False
                return True
        return False

    def wrong_accepted(evs):
        for e in evs:
            if e["ev"] == "file" and e["built"]:
                e["lib"]["wrongRefused"] = False
                return True
        return False

    def perms_differ(evs):
        for e in evs:
            if e["ev"] == "file" and e["built"]:
                e["lib"]["permBits"] = e["lib"]["permBits"] - 8
                return True
        return False

    def ciphertext_touched(evs):
        for e in evs:
            if e["ev"] == "file" and e["built"]:
                b = bytes(e["bytes"])
                i = b.find(b"stream\n")
                if i < 0:
                    continue
                # every stream of the file (the page content is one of them; appearance streams and metadata come before it)
                while i >= 0:
                    if b[i - 3:i] != b"end":
                        j = b.find(b"endstream", i)
                        for k in range(i + 7, min(i + 7 + 160, j if j > 0 else len(b))):
                            e["bytes"][k] ^= 0x10
                    i = b.find(b"stream\n", i + 7)
                return True
        return False

    def encrypt_dropped(evs):
        for e in evs:
            if e["ev"] == "file" and e["built"]:
                b = bytes(e["bytes"])
                i = b.rfind(b"/Encrypt ")
                if i < 0:
                    continue
                e["bytes"][i + 1] = ord("X")
                return True
        return False

    for m, what in ((marker_lost, "library lost the page text after unlocking"), (wrong_accepted, "library accepted a wrong password"),
                    (perms_differ, "library reports other permissions"), (ciphertext_touched, "one bit flipped in each of the first 160 ciphertext bytes of every stream"),
                    (encrypt_dropped, "/Encrypt renamed in the trailer")):
        vlib.expect_reject(ctx, "crypto", "EncTrace", tp, m, what, marker="file", libs=("syntax", "lib"))
