"""C20 - writing the same document twice gives identical bytes.  Specs: specs/doc/Determinism.tla (+ MCDoc generator)"""
import os
import vlib
import c03

LEVEL = "model_checking"


def run(ctx):
    thorough = ctx.tier == "thorough"
    ctx.rule = ("Determinism.tla: serialisation is a function of (document, configuration, clock) - the acceptor remembers the first "
                "SHA-256 seen per document and rejects any later different one; with the clock running, differing byte ranges must lie "
                "inside explicitly time-dependent fields.  Documents are the MCDoc (TLC) enumeration (pages, content programs, "
                "information strings, every unencrypted writer configuration, dates set explicitly); each is serialised three times "
                "in one process (twice from one Document value, once rebuilt) and again in two further processes (fresh hash seeds).  "
                "Non-trivial = every document; distinct by hash.")
    ctx.assumptions = ["the clock is held fixed by set_creation_date/set_modification_date and serialising through PdfWriter::write_document (Document::to_bytes* stamp the modification date themselves)",
                       "time-dependent fields are located textually (/CreationDate, /ModDate, xmp:CreateDate, xmp:ModifyDate, xmp:MetadataDate) in uncompressed classic-table output"]
    of = c03.generate_docs(ctx, thorough)
    evs = []
    for proc in range(3):
        dp = os.path.join(ctx.work, "digests_%d.ndjson" % proc)
        vlib.vh(["c03", "digest", "--in", of, "--proc", proc, "--out", dp], timeout=3000)
        evs += vlib.read_ndjson(dp)
    fp = os.path.join(ctx.work, "free.ndjson")
    vlib.vh(["c03", "free", "--in", of, "--cases", 8 if thorough else 3, "--out", fp], timeout=3000)
    frees = vlib.read_ndjson(fp)
    evs.sort(key=lambda e: (e["key"], e["proc"], e["rep"]))
    # cases: one per document key; free-clock events form their own cases
    tr = []
    last = None
    for e in evs:
        if e["key"] != last:
            tr.append({"ev": "doc", "key": e["key"], "cfg": e["cfg"]})
            last = e["key"]
        tr.append(e)
    for f in frees:
        tr.append({"ev": "doc", "key": "free%d" % f["case"], "cfg": f["cfg"]})
        tr.append(f)
    tp = os.path.join(ctx.work, "determinism.ndjson")
    vlib.write_ndjson(tp, tr)

    def describe(rej, case):
        return {"class": rej["event"].get("ev"), "document": case[0]["key"], "config": case[0]["cfg"],
                "serialisations": [{k: e.get(k) for k in ("proc", "rep", "len")} | {"sha256": bytes(e.get("digest", [])).hex()} for e in case[1:] if e["ev"] == "ser"],
                "free_clock": [e for e in case[1:] if e["ev"] == "free"]}

    vlib.validate_cases(ctx, "doc", "DeterminismTrace", tp, "determinism", describe=describe, timeout=1500, marker="doc")
    for e in tr:
        if e["ev"] == "doc":
            ctx.count_case(e["key"], True)
    ctx.extra["serialisations"] = len(evs)
    ctx.extra["free_clock_pairs"] = len(frees)
    ctx.sample({"document": evs[0]["key"], "config": evs[0]["cfg"], "sha256": [bytes(e["digest"]).hex() for e in evs[:3]]})
    if frees:
        ctx.sample({"free_clock": frees[0]})

    def flip(evs2):
        for e in evs2:
            if e["ev"] == "ser" and e["proc"] == 2 and e["digest"]:
                e["digest"][0] ^= 1
                return True
        return False

    def stray_diff(evs2):
        for e in evs2:
            if e["ev"] == "free":
                e["diffs"].append([3, 5])
                return True
        return False

    vlib.expect_reject(ctx, "doc", "DeterminismTrace", tp, flip, "digest of a third-process serialisation changed", marker="doc")
    if frees:
        vlib.expect_reject(ctx, "doc", "DeterminismTrace", tp, stray_diff, "a differing byte range outside every time field", marker="doc")
