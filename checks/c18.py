"""C18 - page-tree navigation.  Specs: specs/doc/{PageTree,MCPageTree,PageTreeTrace}.tla, specs/syntax/PdfFile.tla"""
import json
import os
import random
import vlib

LEVEL = "model_checking"


def random_trees(path, seed, n):
    rnd = random.Random(seed)
    with open(path, "w") as f:
        for k in range(n):
            size = rnd.randint(4, 26)
            parent, depth = [0], [1]
            path_ = [1]
            for i in range(2, size + 1):
                # preorder: the parent lies on the path to the previous node
                cut = rnd.randint(1, len(path_))
                path_ = path_[:cut]
                while len(path_) >= 7:
                    path_.pop()
                p = path_[-1]
                parent.append(p)
                path_.append(i)
            haskid = [False] * (size + 1)
            for i in range(2, size + 1):
                haskid[parent[i - 1]] = True
            kind = ["pages" if (haskid[i] or i == 1 or (rnd.random() < 0.05 and i == size)) else "page" for i in range(1, size + 1)]
            sets = {a: [(a == "mb" and i == 1) or rnd.random() < p for i in range(1, size + 1)] for a, p in (("mb", 0.3), ("crop", 0.2), ("rot", 0.3), ("res", 0.3))}
            tree = {"n": size, "parent": parent, "kind": kind, "sets": sets}
            f.write(json.dumps({"tree": tree, "kidsIndirect": rnd.random() < 0.5, "countOff": rnd.choice([0, 0, 0, 1, 3]), "form": rnd.choice(["table", "stream"]),
                                "variant": rnd.choice(["plain", "plain", "plain", "cycle", "shared"]), "reverse": rnd.random() < 0.5}) + "\n")


def run(ctx):
    thorough = ctx.tier == "thorough"
    ctx.rule = ("PageTree.tla defines the page list of a tree given in preorder: leaves in document order, each with the value of every "
                "inheritable attribute (MediaBox, CropBox, Rotate, Resources) set by its nearest ancestor-or-self.  MCPageTree (TLC) "
                "enumerates every tree shape up to MaxNodes nodes / MaxDepth levels under several attribute-placement patterns "
                "(root only, everywhere, leaves only, second level only, staggered, empty intermediate node), kids arrays direct or "
                "indirect, /Count right or wrong, classic or stream cross-reference, plus a cyclic and a shared-kid variant.  Each is "
                "serialised by the independent writer synth; the reference reader PdfFile.tla (inside TLC) must find the expected list "
                "(premise and second opinion) and the library's page_count/get_page under the default, lenient and strict presets must "
                "return it exactly (object, boxes, rotation, font keys); malformed trees must end in a value or an error within 15 s "
                "and return only genuine pages.  Seeded random trees up to 26 nodes and depth 7 go the same way.  Non-trivial = tree "
                "with an attribute inherited across at least one level; distinct by hash.")
    ctx.assumptions = ["files come from the harness' own serializer (synth), validated per case by PdfFile.tla", "hang = no answer within 15 s"]
    cfg = "MCPageTree_thorough" if thorough else "MCPageTree"
    of = os.path.join(ctx.work, "trees.out")
    res = vlib.tlc("doc", "MCPageTree", cfg=cfg, workers=1, timeout=900, out_file=of)
    vlib.tlc_must_pass(res, cfg)
    ctx.add_tlc(res)
    ctx.exhaustive = True
    rp = os.path.join(ctx.work, "random.ndjson")
    random_trees(rp, ctx.seed, 150 if thorough else 40)
    both = os.path.join(ctx.work, "trees.in")
    with open(both, "w") as fo:
        for p in (of, rp):
            with open(p) as fi:
                for line in fi:
                    if line.startswith('<<"REPLAY"') or line.startswith("{"):
                        fo.write(line)
    tp = os.path.join(ctx.work, "trees.ndjson")
    vlib.vh(["c18", "run", "--in", both, "--out", tp], timeout=3000)

    def describe(rej, case):
        c = case[0]
        if rej["event"].get("ev") == "chk_ref" and c["variant"] == "plain":
            # the reference reader disagrees with the abstraction on a file we wrote ourselves: our tools are wrong, not the library
            raise vlib.ToolError("PdfFile and PageTree disagree on a synthesized tree: %s" % json.dumps(c["tree"]))
        return {"class": "page_tree", "tree": c["tree"], "variant": c["variant"], "kidsIndirect": c["kidsIndirect"], "countOff": c["countOff"], "form": c["form"],
                "library": {k: {"outcome": v["outcome"], "count": v["count"], "err": v["err"], "pages": v["pages"][:12]} for k, v in c["lib"].items()},
                "file": bytes(c["bytes"]).decode("latin1")[:3000]}

    vlib.validate_cases(ctx, "doc", "PageTreeTrace", tp, "tree", describe=describe, timeout=6000, marker="tree")
    cases = vlib.split_cases(vlib.read_ndjson(tp), marker="tree")
    for c in cases:
        t = c[0]["tree"]
        inherited = any(t["sets"][a][i] and t["kind"][i] == "pages" for a in t["sets"] for i in range(t["n"]))
        ctx.count_case([t, c[0]["variant"], c[0]["kidsIndirect"], c[0]["countOff"], c[0]["form"]], inherited)
    for c in cases:
        if c[0]["tree"]["n"] >= 5 and c[0]["variant"] == "plain":
            ctx.sample({"tree": c[0]["tree"], "library_default": {"count": c[0]["lib"]["default"]["count"], "pages": c[0]["lib"]["default"]["pages"][:3]}})
            break

    def rot(evs):
        for e in evs:
            if e["ev"] == "tree" and e["variant"] == "plain" and e["countOff"] == 0 and e["lib"]["lenient"]["pages"]:
                e["lib"]["lenient"]["pages"][0]["rotate"] += 90
                return True
        return False

    def swap(evs):
        for e in evs:
            if e["ev"] == "tree" and e["variant"] == "plain" and e["countOff"] == 0 and len(e["lib"]["default"]["pages"]) >= 2:
                p = e["lib"]["default"]["pages"]
                p[0], p[1] = p[1], p[0]
                return True
        return False

    def hang(evs):
        for e in evs:
            if e["ev"] == "tree" and e["variant"] == "cycle":
                e["lib"]["strict"]["outcome"] = "hang"
                return True
        return False

    vlib.expect_reject(ctx, "doc", "PageTreeTrace", tp, rot, "rotation of the first page +90 under the lenient preset", marker="tree")
    vlib.expect_reject(ctx, "doc", "PageTreeTrace", tp, swap, "first two pages swapped under the default preset", marker="tree")
    vlib.expect_reject(ctx, "doc", "PageTreeTrace", tp, hang, "cyclic tree reported as a hang", marker="tree")
