"""C19 - damaged cross-reference data is reconstructed faithfully.  Specs: specs/xref/{XRefDamage,DamageTrace}.tla, specs/syntax/PdfFile.tla"""
import os
import vlib
import c03

LEVEL = "model_checking"


def run(ctx):
    thorough = ctx.tier == "thorough"
    ctx.rule = ("XRefDamage.tla models a single-revision classic file abstractly (body never touched; table entries, subsection header, "
                "trailer, startxref) with a fixed catalogue of damage actions - shift every offset, redirect one entry (to 0, into "
                "another object, to EOF), delete the table, garble the subsection header, delete startxref, point it at 0 / EOF / "
                "mid-body, truncate the trailer; TLC checks that every reachable damaged state really makes the cross-reference "
                "data lie and emits every fault sequence of one or two operations.  Base files are library-written documents (MCDoc, "
                "classic configuration) and synthesized page trees; PdfFile.tla checks the premise on each (valid, one classic "
                "section, no object stream) and that the library's intact reading is the reference reading.  Each fault sequence is "
                "applied to each base; under the recovery-enabled presets (lenient, skip_errors) the library must return the intact "
                "catalog, page count and every object's value.  Non-trivial = every (base, fault sequence); distinct by hash.")
    ctx.assumptions = ["an in-use entry flipped to free is not damage any reader could detect (the file stays valid and says the object is free) and is left out of the catalogue",
                       "a too-large subsection count is applied only to single-subsection tables (the library documents a flexible entry syntax under which a following subsection header reads as an entry)",
                       "pairs whose second operation needs a pointer the first one destroyed are not realisable and are skipped",
                       "recovery-enabled = ParseOptions::lenient() and ParseOptions::skip_errors(); no answer within 20 s counts as a hang"]
    res = vlib.tlc("xref", "XRefDamage", workers=1, timeout=600, out_file=os.path.join(ctx.work, "damage.out"))
    vlib.tlc_must_pass(res, "XRefDamage")
    ctx.add_tlc(res)
    ctx.exhaustive = True
    docs = c03.generate_docs(ctx, False)
    trees = os.path.join(ctx.work, "trees.out")
    rt = vlib.tlc("doc", "MCPageTree", workers=1, timeout=600, out_file=trees)
    vlib.tlc_must_pass(rt, "MCPageTree")
    ctx.add_tlc(rt)
    tp = os.path.join(ctx.work, "damage.ndjson")
    vlib.vh(["c19", "run", "--docs", docs, "--trees", trees, "--damages", os.path.join(ctx.work, "damage.out"), "--out", tp,
             "--maxdocs", 8 if thorough else 3, "--maxtrees", 6 if thorough else 2, "--stride", 1 if thorough else 1], timeout=3000)
    evs = vlib.read_ndjson(tp)
    # one case per base: header, premise check, then its damaged variants; re-arranged so that every damaged variant is
    # its own case (base record repeated by reference through `base` name would not be visible to TLC) - keep bases whole
    def describe(rej, case):
        e = rej["event"]
        if e.get("ev") == "chk_base":
            raise vlib.ToolError("premise failed on base %s: %s" % (case[0].get("name"), rej.get("problems")))
        ops = e.get("ops", [])
        cls = "xref_offsets_wrong_but_parseable" if any(o["op"] in ("shift_all", "corrupt_entry") for o in ops) else "recovery_differs"
        return {"class": cls, "base": case[0].get("name"), "ops": ops,
                "lenient": {k: e["lenient"].get(k) for k in ("outcome", "err", "count")}, "skip_errors": {k: e["skip_errors"].get(k) for k in ("outcome", "err", "count")},
                "intact_count": case[0]["intact"]["count"], "damaged_tail": e.get("tail"),
                "objects_that_differ": [n for n in case[0]["intact"]["objects"] if e["lenient"]["objects"].get(n) != case[0]["intact"]["objects"][n]][:12]}

    # a rejected damaged variant is isolated together with its base: put each variant in a case of its own
    flat = []
    base = None
    for e in evs:
        if e["ev"] == "base":
            base = e
        elif e["ev"] == "chk_base":
            flat += [base, e]
        else:
            flat += [dict(base, ev="base", skip=True), e]
    # the premise is checked once per base (first occurrence); later repetitions carry skip = True and are only headers
    vlib.write_ndjson(tp, flat)
    vlib.validate_cases(ctx, "xref", "DamageTraceCases", tp, "damage", describe=describe, timeout=6000, marker="base")
    n = 0
    for e in flat:
        if e["ev"] == "damaged":
            n += 1
            ctx.count_case([e["base"], e["ops"]], True)
    ctx.extra["damaged_variants"] = n
    ctx.extra["bases"] = sum(1 for e in evs if e["ev"] == "base")
    for e in flat:
        if e["ev"] == "damaged" and len(e["ops"]) == 2 and e["ops"][0]["op"] == "delete_startxref":
            ctx.sample({"base": e["base"], "ops": e["ops"], "lenient": {k: e["lenient"][k] for k in ("outcome", "count")}})
            break

    def lose_page(evs2):
        for e in evs2:
            if e["ev"] == "damaged" and e["ops"][0]["op"] == "delete_table" and e["lenient"]["outcome"] == "value":
                e["lenient"]["count"] -= 1
                return True
        return False

    def wrong_obj(evs2):
        for e in evs2:
            if e["ev"] == "damaged" and e["ops"][0]["op"] == "startxref_to" and e["skip_errors"]["outcome"] == "value":
                k = sorted(e["skip_errors"]["objects"])[0]
                e["skip_errors"]["objects"][k] = {"t": "null"}
                return True
        return False

    vlib.expect_reject(ctx, "xref", "DamageTraceCases", tp, lose_page, "page count after recovery one less", marker="base")
    vlib.expect_reject(ctx, "xref", "DamageTraceCases", tp, wrong_obj, "one recovered object replaced by null", marker="base")
