"""C07 - stream filters.  Specs: specs/filters/{Filters,MCFilters,MCFiltersLong,FiltersTrace}.tla"""
import os
import random
import vlib

LEVEL = "model_checking"


def long_vectors(path, seed, n, maxlen):
    rnd = random.Random(seed)
    evs = []
    for k in range(n):
        ln = maxlen if k == 0 else rnd.randint(300, maxlen)
        mode = k % 3
        if mode == 0:
            d = [rnd.randrange(256) for _ in range(ln)]          # a new table entry almost every byte
        elif mode == 1:
            d = [rnd.choice((0, 1, 255)) for _ in range(ln)]    # long matches
        else:
            d = []
            while len(d) < ln:
                d += [rnd.randrange(256)] * rnd.randint(1, 40)
            d = d[:ln]
        # clr: a Clear code after every clr-th code.  97 keeps the width at 9 bits; 300 and 1100 put the Clear where the
        # width is already 10 / 12 bits (the decoder must fall back to 9 bits for the very next code)
        evs.append({"data": d, "early": k % 2, "clr": (300, 97, 1100, 0)[k % 4]})
    # short streams whose LAST data code is the first code after a Clear (the decoder's "no previous code" branch): the
    # initial Clear of a one-byte stream, and a Clear placed right in front of the last code
    for early in (0, 1):
        evs.append({"data": [65], "early": early, "clr": 0})
        evs.append({"data": [65, 66, 67], "early": early, "clr": 2})
        evs.append({"data": [1, 2, 3, 4, 5, 6, 7], "early": early, "clr": 6})
    # the same without any DecodeParms (EarlyChange at its default)
    evs.append({"data": [65], "early": 1, "clr": 0, "bare": True})
    evs.append({"data": [65, 66, 67], "early": 1, "clr": 2, "bare": True})
    evs.append({"data": [rnd.randrange(256) for _ in range(400)], "early": 1, "clr": 97, "bare": True})
    vlib.write_ndjson(path, evs)


def generate(ctx, thorough):
    cfg = "MCFilters_thorough" if thorough else "MCFilters"
    of = os.path.join(ctx.work, "filters.out")
    res = vlib.tlc("filters", "MCFilters", cfg=cfg, workers=1, timeout=3000, out_file=of, xmx="6g")
    vlib.tlc_must_pass(res, cfg)
    ctx.add_tlc(res)
    vp = os.path.join(ctx.work, "vectors.ndjson")
    long_vectors(vp, ctx.seed, 8 if thorough else 3, 4600 if thorough else 1300)
    of2 = os.path.join(ctx.work, "filters_long.out")
    res = vlib.tlc("filters", "MCFiltersLong", workers=1, timeout=3000, out_file=of2, env={"VECTORS": vp}, xmx="6g")
    vlib.tlc_must_pass(res, "MCFiltersLong")
    ctx.add_tlc(res)
    both = os.path.join(ctx.work, "cases.out")
    with open(both, "w") as fo:
        for p in (of, of2):
            with open(p) as fi:
                for line in fi:
                    if line.startswith('<<"REPLAY"'):
                        fo.write(line)
    return both


def describe(rej, case):
    c = case[0]
    d = {"class": "decode", "filters": c.get("filters"), "kind": c.get("kind"), "style": c.get("style")}
    for k in ("enc", "data", "dec", "mid"):
        if k in c:
            d[k] = c[k] if len(c[k]) <= 200 else {"len": len(c[k]), "head": c[k][:64]}
    for k in ("err", "panic"):
        if k in c:
            d[k] = c[k]
    return d


def run(ctx):
    thorough = ctx.tier == "thorough"
    ctx.rule = ("Filters.tla holds reference encoders and decoder machines for ASCIIHex, ASCII85, RunLength, LZW (both EarlyChange "
                "settings) and the TIFF/PNG predictors; Flate's codec is the zlib primitive.  MCFilters (TLC) encodes every byte string "
                "over {0,1,127,128,254,255} up to MaxLen plus run/zero-group/long strings under every filter and permitted variation "
                "(letter case, white space, dropped final hex digit, literal vs repeat runs, mid-stream Clear), a grid of predictor "
                "parameters (Predictor 2,10..15 x Colors 1..4 x BitsPerComponent 1,2,4,8,16 x Columns) and all two-filter chains, checks "
                "that the reference decoder inverts the reference encoder, and prints every (filters, encoded, data).  MCFiltersLong "
                "encodes driver-supplied long strings that cross every LZW code width and fill the table.  The harness hands each to "
                "PdfStream::decode (varying the equivalent /Filter and /DecodeParms spellings); FiltersTrace re-decodes with the "
                "reference machines (one TLC step per byte for long inputs) and requires library result = reference result = data.  "
                "Seeded long inputs encoded by third-party encoders (weezl LZW, flate2 + arbitrary predictor rows) go the same way.  "
                "Non-trivial = encoded length >= 2; distinct by hash.")
    ctx.assumptions = ["FlateDecode's inflate/deflate is zlib (python) inside TLC and flate2 in the harness; CCITTFaxDecode, DCTDecode and JBIG2Decode are not specified here",
                       "white space inserted by the reference encoders is drawn from TAB, LF, FF, CR, SPACE"]
    both = generate(ctx, thorough)
    ctx.exhaustive = True
    tp = os.path.join(ctx.work, "filters.ndjson")
    vlib.vh(["c07", "run", "--in", both, "--long", 60 if thorough else 12, "--maxlen", 9000 if thorough else 1500, "--seed", ctx.seed,
             "--out", tp], timeout=3000)
    vlib.validate_cases(ctx, "filters", "FiltersTrace", tp, "filter", describe=describe, timeout=3000, marker="case")
    evs = vlib.read_ndjson(tp)
    cases = vlib.split_cases(evs, marker="case")
    widths = 0
    for c in cases:
        h = c[0]
        ctx.count_case([h["filters"], h["enc"]], len(h["enc"]) >= 2)
        if h["kind"] == "long" and h["filters"][0]["name"] == "LZWDecode" and len(h.get("dec", [])) > 600:
            widths += 1
    ctx.extra["long_lzw_vectors_crossing_code_widths"] = widths
    for c in cases:
        if c[0]["kind"] == "chain" and len(c[0]["data"]) >= 2:
            ctx.sample({k: c[0][k] for k in ("filters", "enc", "data", "dec") if k in c[0]})
            break
    for c in cases:
        if c[0]["kind"] == "pred" and c[0]["filters"][0]["parms"]["Predictor"] == 2:
            ctx.sample({k: c[0][k] for k in ("filters", "enc", "data", "dec") if k in c[0]})
            break

    def flip_out(evs):
        for e in evs:
            if e["ev"] == "case" and e["kind"] == "long" and len(e.get("dec", [])) > 500:
                e["dec"][400] ^= 1
                if e["data"]:
                    e["data"][400] ^= 1
                return True
        return False

    def short_out(evs):
        for e in evs:
            if e["ev"] == "case" and e["kind"] == "single" and len(e.get("dec", [])) >= 2:
                e["dec"] = e["dec"][:-1]
                return True
        return False

    def wrong_pred(evs):
        for e in evs:
            if e["ev"] == "case" and e["kind"] == "pred" and e["filters"][0]["parms"]["Predictor"] == 12 and len(e.get("dec", [])) >= 4:
                e["dec"][-1] = (e["dec"][-1] + 1) % 256
                e["data"][-1] = e["dec"][-1]
                return True
        return False

    vlib.expect_reject(ctx, "filters", "FiltersTrace", tp, flip_out, "one bit of a long decoded output flipped (data flipped alike)", marker="case")
    vlib.expect_reject(ctx, "filters", "FiltersTrace", tp, short_out, "last decoded byte dropped", marker="case")
    vlib.expect_reject(ctx, "filters", "FiltersTrace", tp, wrong_pred, "last byte after PNG Up prediction altered", marker="case")
