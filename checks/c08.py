"""C08 - bounded decoding.  Specs: specs/filters/{Filters,BoundedDecode}.tla (vectors shared with C07)"""
import os
import vlib
import c07

LEVEL = "model_checking"


def run(ctx):
    thorough = ctx.tier == "thorough"
    ctx.rule = ("BoundedDecode.tla states the contract of PdfStream::decode_with_limit as a trace acceptor: never a panic; an Ok result "
                "has at most L bytes; a well-formed stream whose reference decoding (every stage, including a predictor's input, "
                "computed by Filters.tla inside TLC) fits in L decodes to exactly the unbounded result; the unbounded result never "
                "exceeds 256 MiB.  Streams: the reference encodings of C07 (TLC-enumerated, every filter/variation/predictor/chain), "
                "seeded long third-party encodings, and seeded malformed inputs with extreme DecodeParms (only the first two clauses "
                "apply); each under L in {0, 1, |f|-1, |f|, |f|+1, 2|f|+3, |encoded|, |predictor input|, 2^31}.  Thorough adds three "
                "decompression bombs (RunLength, Flate, LZW above the ceiling).  Non-trivial = a bounded call with 0 < L; distinct by hash.")
    ctx.assumptions = ["'decodes fully within the limit' is read as: every intermediate result of the reference decoding fits in L "
                       "(the weakest demand the statement supports)",
                       "filters without a bounded decoder (CCITTFax, DCT, JBIG2) are outside the generated space"]
    both = c07.generate(ctx, thorough)
    tp = os.path.join(ctx.work, "filters.ndjson")
    t8 = os.path.join(ctx.work, "bounded.ndjson")
    args = ["c07", "run", "--in", both, "--long", 40 if thorough else 12, "--maxlen", 6000 if thorough else 1500, "--seed", ctx.seed,
            "--out", tp, "--out8", t8, "--limit-every", 2 if thorough else 5, "--malformed", 6000 if thorough else 1200]
    if thorough:
        args += ["--bombs", 1]
    vlib.vh(args, timeout=3000)

    def describe(rej, case):
        d = c07.describe(rej, case)
        d["class"] = rej["event"].get("ev")
        if rej["event"].get("ev") == "bounded":
            d["bounded"] = rej["event"]
        d["flen"] = case[0].get("flen")
        return d

    vlib.validate_cases(ctx, "filters", "BoundedDecode", t8, "bounded", describe=describe, timeout=3000, marker="case")
    evs = vlib.read_ndjson(t8)
    cases = vlib.split_cases(evs, marker="case")
    nb = 0
    for c in cases:
        for e in c[1:]:
            nb += 1
            ctx.count_case([c[0]["filters"], c[0]["enc"][:64], len(c[0]["enc"]), e["L"]], e["L"] > 0)
    ctx.extra["bounded_calls"] = nb
    ctx.extra["malformed_streams"] = sum(1 for c in cases if c[0]["kind"] == "malformed")
    for c in cases:
        if c[0]["kind"] == "pred" and len(c) > 3:
            ctx.sample({"filters": c[0]["filters"], "enc": c[0]["enc"], "flen": c[0]["flen"], "calls": c[1:]})
            break

    def too_long(evs):
        for e in evs:
            if e["ev"] == "bounded" and e["r"] == "ok" and e["rlen"] == e["L"] and e["L"] > 0:
                e["rlen"] += 1
                return True
        return False

    def spurious_err(evs):
        for i, e in enumerate(evs):
            if e["ev"] == "bounded" and e["r"] == "ok" and e["L"] >= 2147483647:
                j = i
                while evs[j]["ev"] != "case":
                    j -= 1
                if evs[j]["wellformed"]:
                    e["r"], e["rlen"], e["eq"] = "err", -1, False
                    return True
        return False

    def differs(evs):
        for i, e in enumerate(evs):
            if e["ev"] == "bounded" and e["r"] == "ok" and e["eq"] and e["L"] >= 2147483647:
                j = i
                while evs[j]["ev"] != "case":
                    j -= 1
                if evs[j]["wellformed"]:
                    e["eq"] = False
                    return True
        return False

    vlib.expect_reject(ctx, "filters", "BoundedDecode", t8, too_long, "bounded result one byte longer than the limit", marker="case")
    vlib.expect_reject(ctx, "filters", "BoundedDecode", t8, spurious_err, "error although everything fits in the limit", marker="case")
    vlib.expect_reject(ctx, "filters", "BoundedDecode", t8, differs, "bounded result differs from the unbounded one", marker="case")
