"""C03 - written files are structurally valid.  Specs: specs/syntax/{PdfLex,PdfFile,ContentOps,MCContent,MCDoc,FileTrace}.tla
(shared with C02 and C20: generate_docs / run_docs)"""
import os
import vlib

LEVEL = "model_checking"


def generate_docs(ctx, thorough):
    cfg = "MCDoc_thorough" if thorough else "MCDoc"
    of = os.path.join(ctx.work, "docs.out")
    res = vlib.tlc("syntax", "MCDoc", cfg=cfg, workers=1, timeout=900, out_file=of)
    vlib.tlc_must_pass(res, cfg)
    ctx.add_tlc(res)
    return of


def run_docs(ctx, of, keep):
    """Run the documents through the writer and the library's reader; keep only the check events in `keep`."""
    tp = os.path.join(ctx.work, "files_all.ndjson")
    vlib.vh(["c03", "run", "--in", of, "--out", tp], timeout=3000)
    evs = [e for e in vlib.read_ndjson(tp) if e["ev"] == "file" or e["ev"] in keep]
    out = os.path.join(ctx.work, "files.ndjson")
    vlib.write_ndjson(out, evs)
    return out


def describe(rej, case):
    c = case[0]
    d = {"class": rej["event"].get("ev"), "config": c["prog"].get("cfg"), "program": c["prog"], "built": c.get("built"), "build_error": c.get("err"),
         "file_length": len(c.get("bytes", []))}
    if c.get("built"):
        d["library"] = {k: c["lib"].get(k) for k in ("open", "err", "recovery", "pageCount")}
        b = bytes(c["bytes"])
        d["file_head"] = b[:1500].decode("latin1")
        d["file_tail"] = b[-600:].decode("latin1")
    return d


def run(ctx):
    thorough = ctx.tier == "thorough"
    ctx.rule = ("PdfFile.tla is the reference file reader: PdfLex over the whole file (one TLC step per byte) with token offsets and stream "
                "extents, object streams lexed from their zlib-inflated payload, classic cross-reference tables read byte by byte in "
                "the 20-byte format at the offset startxref names, cross-reference streams through /W and /Index (sparse ones row by "
                "row), /Prev chains merged newest first.  Verdict: header, %%EOF, startxref last, every section readable where the file "
                "says it is, every in-use entry pointing at the exact byte of its object (or at its slot in an object stream, with "
                "the pair table right), /Size = highest number + 1, object 0 free, /Root a catalog, every reference resolving, no "
                "object defined twice, stream /Length exact (the lexer finds endstream there), every token lexically valid.  MCDoc "
                "(TLC) enumerates documents: 1-3 pages x sizes x rotations x content programs of the C21 vocabulary x information "
                "strings over hostile classes (delimiters, backslash, CR/LF, NUL, Latin-1, PDFDoc-only, CJK, astral, BOM look-alikes, "
                "300 characters) x every writer configuration.  The library's strict parser must open each file without entering "
                "recovery (hook) and read every in-use object as the value the reference reader resolves.  Non-trivial = every "
                "document; distinct by hash.")
    ctx.assumptions = ["zlib inflate of object-stream / cross-reference-stream payloads is the python primitive",
                       "the configuration (object streams, cross-reference stream, uncompressed) is not generated: its cross-reference stream alone is 6 MB because object streams are numbered from 1 000 000",
                       "documents are authored through Document/Page/GraphicsContext/TextContext only (no images, fonts, forms, annotations, encryption: those are C24, C13, C10, C05)"]
    of = generate_docs(ctx, thorough)
    tp = run_docs(ctx, of, ("chk_file", "chk_lib"))
    ctx.exhaustive = False
    vlib.validate_cases(ctx, "syntax", "FileTrace", tp, "file", describe=describe, timeout=6000, marker="file")
    cases = vlib.split_cases(vlib.read_ndjson(tp), marker="file")
    total = 0
    for c in cases:
        ctx.count_case(c[0]["prog"], True)
        total += len(c[0].get("bytes", []))
    ctx.extra["bytes_lexed_by_reference_reader"] = total
    c = cases[min(5, len(cases) - 1)][0]
    ctx.sample({"config": c["prog"]["cfg"], "info": c["prog"]["info"], "pages": [{k: p[k] for k in ("w", "h", "rot", "kind")} for p in c["prog"]["pages"]],
                "file_length": len(c["bytes"])})

    def shift_offset(evs):
        # make one classic xref entry point one byte too far
        for e in evs:
            if e["ev"] == "file" and not e["prog"]["cfg"]["xref"]:
                b = bytes(e["bytes"])
                i = b.rfind(b"\nxref\n")
                j = b.find(b" 00000 n", i)
                if i >= 0 and j > 10:
                    digits = b[j - 10:j]
                    new = ("%010d" % (int(digits) + 1)).encode()
                    e["bytes"][j - 10:j] = list(new)
                    return True
        return False

    def wrong_length(evs):
        for e in evs:
            if e["ev"] == "file" and not e["prog"]["cfg"]["compress"]:
                b = bytes(e["bytes"])
                i = b.find(b"/Length ")
                if i >= 0:
                    j = i + 8
                    k = j
                    while 48 <= b[k] <= 57:
                        k += 1
                    new = str(int(b[j:k]) + 1).encode()
                    if len(new) == k - j:
                        e["bytes"][j:k] = list(new)
                        return True
        return False

    def lib_differs(evs):
        for e in evs:
            if e["ev"] == "file" and e["built"]:
                for k, v in e["lib"]["objects"].items():
                    if v.get("t") == "dict" and v["v"]:
                        v["v"][0]["v"] = {"t": "null"}
                        return True
        return False

    def recovered(evs):
        for e in evs:
            if e["ev"] == "file" and e["built"]:
                e["lib"]["recovery"] = 1
                return True
        return False

    vlib.expect_reject(ctx, "syntax", "FileTrace", tp, shift_offset, "one cross-reference offset off by one", marker="file")
    vlib.expect_reject(ctx, "syntax", "FileTrace", tp, wrong_length, "a stream /Length off by one", marker="file")
    vlib.expect_reject(ctx, "syntax", "FileTrace", tp, lib_differs, "a value in the library's reading of an object replaced by null", marker="file")
    vlib.expect_reject(ctx, "syntax", "FileTrace", tp, recovered, "library reported entering recovery", marker="file")
