"""C03 - written files are structurally valid.  Specs: specs/syntax/{PdfLex,PdfFile,ContentOps,MCContent,MCDoc,FileTrace}.tla
(shared with C02 and C20: generate_docs / run_docs)"""
import os
import vlib

LEVEL = "model_checking"


def generate_docs(ctx, thorough):
    cfg = "MCDoc_thorough" if thorough else "MCDoc"
    of = os.path.join(ctx.work, "docs.out")
    res = vlib.tlc("syntax", "MCDoc", cfg=cfg, workers=1, timeout=900, out_file=of)
    vlib.tlc_must_pass(res, cfg)
    ctx.add_tlc(res)
    return of


def run_docs(ctx, of, keep):
    """Run the documents through the writer and the library's reader; keep only the check events in `keep`."""
    tp = os.path.join(ctx.work, "files_all.ndjson")
    vlib.vh(["c03", "run", "--in", of, "--out", tp], timeout=3000)
    evs = [e for e in vlib.read_ndjson(tp) if e["ev"] == "file" or e["ev"] in keep]
    out = os.path.join(ctx.work, "files.ndjson")
    vlib.write_ndjson(out, evs)
    return out


def describe(rej, case):
    c = case[0]
    d = {"class": rej["event"].get("ev"), "config": c["prog"].get("cfg"), "program": c["prog"], "built": c.get("built"), "build_error": c.get("err"),
         "file_length": len(c.get("bytes", []))}
    if c.get("built"):
        d["library"] = {k: c["lib"].get(k) for k in ("open", "err", "recovery", "pageCount")}
        b = bytes(c["bytes"])
        d["file_head"] = b[:1500].decode("latin1")
        d["file_tail"] = b[-600:].decode("latin1")
    return d


def run(ctx):
    thorough = ctx.tier == "thorough"
    ctx.rule = ("PdfFile.tla is the reference file reader: PdfLex over the whole file (one TLC step per byte) with token offsets and stream "
                "extents, object streams lexed from their zlib-inflated payload, classic cross-reference tables read byte by byte in "
                "the 20-byte format at the offset startxref names, cross-reference streams through /W and /Index (sparse ones row by "
                "row), /Prev chains merged newest first.  Verdict: header, %%EOF, startxref last, every section readable where the file "
                "says it is, every in-use entry pointing at the exact byte of its object (or at its slot in an object stream, with "
                "the pair table right), /Size = highest number + 1, object 0 free, /Root a catalog, every reference resolving, no "
                "object defined twice, stream /Length exact (the lexer finds endstream there), every token lexically valid.  MCDoc "
                "(TLC) enumerates documents: 1-3 pages x sizes x rotations x content programs of the C21 vocabulary x information "
                "strings over hostile classes (delimiters, backslash, CR/LF, NUL, Latin-1, PDFDoc-only, CJK, astral, BOM look-alikes, "
                "300 characters) x every writer configuration.  The library's strict parser must open each file without entering "
                "recovery (hook) and read every in-use object as the value the reference reader resolves.  Interactive documents "
                "(MCDoc.DocX): annotations of 14 kinds in every position of a page's list and form fields of 6 kinds (FormManager) "
                "with hostile partial names, values and export names, widgets of one field on one or two pages; module Interactive "
                "is the reference reading of 12.5 / 12.7: each page's /Annots lists exactly the authored annotations in order with "
                "the authored subtype, rectangle and decoded text entries, /AcroForm /Fields lists each authored field once "
                "under its decoded name with the authored type, value and kind flags, every widget names its field as /Parent; a field "
                "filled after assembly (Document::fill_field) carries the filled text as /V and each of its widgets an /AP /N form "
                "XObject (any bounding box of positive extent) whose content (lexed by PdfLex) shows exactly that text.  "
                "Tagged documents (MCDoc.DocT): pages of 1-3 marked-content sequences and a structure tree of 3-5 elements of "
                "varying shape owning them across pages; module Tagged is the reference reading of 14.7: the hierarchy under "
                "/StructTreeRoot is the authored tree (types, /P back-links, kids in order, marked-content references, decoded "
                "attributes), every tagged page has its own /StructParents key, and the /ParentTree number tree leads from each "
                "owned MCID to its element, an MCID the page content really opens.  "
                "Non-trivial = every document; distinct by hash.")
    ctx.assumptions = ["zlib inflate of object-stream / cross-reference-stream payloads is the python primitive",
                       "the configuration (object streams, cross-reference stream, uncompressed) is not generated: its cross-reference stream alone is 6 MB because object streams are numbered from 1 000 000",
                       "documents are authored through Document/Page/GraphicsContext/TextContext, the annotation builders and FormManager (no embedded fonts, large images or encryption here: those are C13, C24, C05); file-attachment annotations are left out (the builder is a documented stub that drops the file data), link annotations to pages are left out (the API takes an object reference the caller cannot know)"]
    of = generate_docs(ctx, thorough)
    tp = run_docs(ctx, of, ("chk_file", "chk_lib", "chk_interactive", "chk_tagged"))
    ctx.exhaustive = False
    vlib.validate_cases(ctx, "syntax", "FileTrace", tp, "file", describe=describe, timeout=6000, marker="file")
    cases = vlib.split_cases(vlib.read_ndjson(tp), marker="file")
    total = 0
    for c in cases:
        ctx.count_case(c[0]["prog"], True)
        total += len(c[0].get("bytes", []))
    ctx.extra["bytes_lexed_by_reference_reader"] = total
    c = cases[min(5, len(cases) - 1)][0]
    ctx.sample({"config": c["prog"]["cfg"], "info": c["prog"]["info"], "pages": [{k: p[k] for k in ("w", "h", "rot", "kind")} for p in c["prog"]["pages"]],
                "file_length": len(c["bytes"])})

    def shift_offset(evs):
        # make one classic xref entry point one byte too far
        for e in evs:
            if e["ev"] == "file" and not e["prog"]["cfg"]["xref"]:
                b = bytes(e["bytes"])
                i = b.rfind(b"\nxref\n")
                j = b.find(b" 00000 n", i)
                if i >= 0 and j > 10:
                    digits = b[j - 10:j]
                    new = ("%010d" % (int(digits) + 1)).encode()
                    e["bytes"][j - 10:j] = list(new)
                    return True
        return False

    def wrong_length(evs):
        for e in evs:
            if e["ev"] == "file" and not e["prog"]["cfg"]["compress"]:
                b = bytes(e["bytes"])
                i = b.find(b"/Length ")
                if i >= 0:
                    j = i + 8
                    k = j
                    while 48 <= b[k] <= 57:
                        k += 1
                    new = str(int(b[j:k]) + 1).encode()
                    if len(new) == k - j:
                        e["bytes"][j:k] = list(new)
                        return True
        return False

    def lib_differs(evs):
        for e in evs:
            if e["ev"] == "file" and e["built"]:
                for k, v in e["lib"]["objects"].items():
                    if v.get("t") == "dict" and v["v"]:
                        v["v"][0]["v"] = {"t": "null"}
                        return True
        return False

    def recovered(evs):
        for e in evs:
            if e["ev"] == "file" and e["built"]:
                e["lib"]["recovery"] = 1
                return True
        return False

    def annot_text(evs):
        for e in evs:
            if e["ev"] == "file" and e["built"]:
                for pg in e["prog"]["pages"]:
                    for a in pg.get("annots", []):
                        if a.get("text"):
                            a["text"][0] += 1
                            return True
        return False

    def annot_order(evs):
        for e in evs:
            if e["ev"] == "file" and e["built"]:
                for pg in e["prog"]["pages"]:
                    an = pg.get("annots", [])
                    for i in range(len(an) - 1):
                        if an[i]["k"] != an[i + 1]["k"]:
                            an[i], an[i + 1] = an[i + 1], an[i]
                            return True
        return False

    def field_name(evs):
        for e in evs:
            if e["ev"] == "file" and e["built"] and e["prog"].get("fields"):
                e["prog"]["fields"][0]["name"][0] += 1
                return True
        return False

    def widget_field(evs):
        for e in evs:
            if e["ev"] == "file" and e["built"] and len(e["prog"].get("fields", [])) >= 2:
                for pg in e["prog"]["pages"]:
                    for a in pg.get("annots", []):
                        if a["k"] == "widget":
                            a["field"] = 1 if a["field"] != 1 else 2
                            return True
        return False

    def tag_owner(evs):
        for e in evs:
            if e["ev"] == "file" and e["built"]:
                t = e["prog"].get("tags", [])
                src = [x for x in t if x["mcids"]]
                if len(t) >= 3 and src:
                    m = src[0]["mcids"].pop(0)
                    dst = [x for x in t if x is not src[0] and x["parent"] != 0][0]
                    dst["mcids"].append(m)
                    return True
        return False

    def tag_shape(evs):
        for e in evs:
            if e["ev"] == "file" and e["built"] and len(e["prog"].get("tags", [])) >= 4:
                t = e["prog"]["tags"][3]
                t["parent"] = 1 if t["parent"] != 1 else 2
                return True
        return False

    vlib.expect_reject(ctx, "syntax", "FileTrace", tp, tag_owner, "an authored marked-content reference moved to another structure element", marker="file")
    vlib.expect_reject(ctx, "syntax", "FileTrace", tp, tag_shape, "an authored structure element hung under another parent", marker="file")
    def fill_text(evs):
        for e in evs:
            if e["ev"] == "file" and e["built"]:
                for f in e["prog"].get("fields", []):
                    if f.get("fill"):
                        f["fill"][0] += 1
                        return True
        return False

    vlib.expect_reject(ctx, "syntax", "FileTrace", tp, fill_text, "one character of the text a field was filled with changed", marker="file")
    vlib.expect_reject(ctx, "syntax", "FileTrace", tp, annot_text, "one character of an authored annotation text changed", marker="file")
    vlib.expect_reject(ctx, "syntax", "FileTrace", tp, annot_order, "two authored annotations of a page swapped", marker="file")
    vlib.expect_reject(ctx, "syntax", "FileTrace", tp, field_name, "one character of an authored field name changed", marker="file")
    vlib.expect_reject(ctx, "syntax", "FileTrace", tp, widget_field, "an authored widget attributed to another field", marker="file")
    vlib.expect_reject(ctx, "syntax", "FileTrace", tp, shift_offset, "one cross-reference offset off by one", marker="file")
    vlib.expect_reject(ctx, "syntax", "FileTrace", tp, wrong_length, "a stream /Length off by one", marker="file")
    vlib.expect_reject(ctx, "syntax", "FileTrace", tp, lib_differs, "a value in the library's reading of an object replaced by null", marker="file")
    vlib.expect_reject(ctx, "syntax", "FileTrace", tp, recovered, "library reported entering recovery", marker="file")
