"""C21 - content streams.  Specs: specs/syntax/{PdfLex,ContentOps,MCContent,ContentTrace}.tla"""
import json
import os
import random
from decimal import Decimal
import vlib

LEVEL = "model_checking"

FONTS = ["Helvetica", "Helvetica-Bold", "Times-Roman", "Times-BoldItalic", "Courier", "Courier-Oblique"]


def rnum(rnd):
    k = rnd.randrange(10)
    if k == 0:
        return {"txt": rnd.choice(["NaN", "inf", "-inf"]), "micro": 0, "kind": "zero", "digits": "", "neg": False}
    d = Decimal(rnd.randint(-1999999, 1999999)) / Decimal(10 ** rnd.choice([0, 1, 2, 3]))
    if abs(d) > 1999:
        d = d / 1000
    return {"txt": format(d, "f"), "micro": int(d * 1000000), "kind": "fin", "digits": "", "neg": False}


def runit(rnd):
    d = Decimal(rnd.randint(0, 10000)) / Decimal(10000)
    return {"txt": format(d, "f"), "micro": int(d * 1000000), "kind": "fin", "digits": "", "neg": False}


def rcol(rnd):
    kind = rnd.choice(["gray", "rgb", "cmyk"])
    return {"k": kind, "v": [runit(rnd) for _ in range({"gray": 1, "rgb": 3, "cmyk": 4}[kind])]}


def rtext(rnd, winansi):
    pool = list(range(32, 127)) + [40, 41, 92, 13, 10, 9] * 3
    if winansi:
        pool += [233, 8364, 8226, 255, 169, 163, 196]
    return [rnd.choice(pool) for _ in range(rnd.randint(0, 24))]


def random_programs(path, seed, n):
    rnd = random.Random(seed)
    out = []
    for _ in range(n):
        if rnd.random() < 0.5:
            prog = []
            for _ in range(rnd.randint(5, 40)):
                c = rnd.choice(["move_to", "line_to", "curve_to", "rect", "close_path", "stroke", "fill", "fill_stroke", "set_line_width",
                                "set_line_cap", "set_line_join", "save_state", "restore_state", "transform", "translate", "scale", "end_path",
                                "clip", "clip_even_odd", "set_fill_color", "set_stroke_color", "begin_text", "end_text", "set_font",
                                "set_text_position", "show_text", "set_word_spacing", "set_character_spacing", "draw_text"])
                call = {"c": c, "n": []}
                arity = {"move_to": 2, "line_to": 2, "curve_to": 6, "rect": 4, "set_line_width": 1, "transform": 6, "translate": 2, "scale": 2,
                         "set_text_position": 2, "set_word_spacing": 1, "set_character_spacing": 1, "set_font": 1}.get(c, 0)
                call["n"] = [rnum(rnd) for _ in range(arity)]
                if c in ("set_line_cap", "set_line_join"):
                    call["i"] = rnd.randrange(3)
                if c in ("set_fill_color", "set_stroke_color"):
                    call["col"] = rcol(rnd)
                if c == "set_font":
                    call["name"] = list(rnd.choice(FONTS).encode())
                if c == "show_text":
                    call["t"] = rtext(rnd, False)
                if c == "draw_text":
                    call["n"] = [rnum(rnd), rnum(rnd)]
                    call["t"] = [rnd.choice(list(range(32, 127)) + [40, 41, 92, 13, 10, 9, 128, 159, 160, 233, 254, 255]) for _ in range(rnd.randint(0, 20))]
                prog.append(call)
            out.append({"kind": "g", "prog": prog})
        else:
            prog = []
            kind = rnd.choice(["t", "p"])
            depth = 0
            for _ in range(rnd.randint(3, 25)):
                c = rnd.choice(["set_font", "at", "write", "write", "set_character_spacing", "set_word_spacing", "set_horizontal_scaling",
                                "set_leading", "set_text_rise", "set_rendering_mode", "set_fill_color", "set_stroke_color"]
                               + (["begin_marked_content", "begin_marked_content_with_actual_text", "end_marked_content"] if kind == "p" else []))
                call = {"c": c, "n": []}
                arity = {"set_font": 1, "at": 2, "set_character_spacing": 1, "set_word_spacing": 1, "set_leading": 1, "set_text_rise": 1}.get(c, 0)
                call["n"] = [rnum(rnd) for _ in range(arity)]
                if c == "set_horizontal_scaling":
                    d = Decimal(rnd.randint(0, 1900)) / Decimal(100)
                    call["n"] = [{"txt": format(d, "f"), "micro": int(d * 1000000), "kind": "fin", "digits": "", "neg": False}]
                if c == "set_rendering_mode":
                    call["i"] = rnd.randrange(8)
                if c in ("set_fill_color", "set_stroke_color"):
                    call["col"] = rcol(rnd)
                if c == "set_font":
                    call["name"] = list(rnd.choice(FONTS).encode())
                if c == "write":
                    call["t"] = rtext(rnd, True)
                if c.startswith("begin_marked"):
                    call["name"] = list(rnd.choice(["P", "Span", "H1", "Artifact"]).encode())
                    depth += 1
                    if c.endswith("actual_text"):
                        call["t"] = [rnd.choice([65, 233, 8364, 20013, 128512, 40, 41, 92, 32]) for _ in range(rnd.randint(0, 8))]
                if c == "end_marked_content":
                    if depth == 0:
                        continue
                    depth -= 1
                prog.append(call)
            out.append({"kind": kind, "prog": prog})
    with open(path, "w") as f:
        for o in out:
            f.write(json.dumps(o, separators=(",", ":")) + "\n")


def run(ctx):
    thorough = ctx.tier == "thorough"
    ctx.rule = ("ContentOps.tla holds the operator vocabulary with operand types and the authoring model (which operators each call of "
                "GraphicsContext, TextContext and Page's marked-content API must emit, with fill/stroke colour state, the save/restore "
                "stack and the sticky text-state parameters).  MCContent (TLC) enumerates every call with every numeric class in every "
                "operand position (zero, negative zero, rounding ties, 1e-7, +-2000, NaN, infinities, 1e15), colour/state interplay, "
                "every subset of text-state parameters, strings over the byte classes of literal strings and WinAnsi, marked content "
                "with /ActualText.  The library's emitted bytes are read by the reference lexer PdfLex inside TLC (one step per byte), "
                "grouped into operators and matched against the model within the documented rounding; ContentParser's lenient and "
                "strict parses must give the same operators.  Seeded random programs of 5-40 calls go the same way.  Termination: "
                "seeded arbitrary and grammar-mutated byte strings through both parsers under a 10 s watchdog.  Non-trivial = program "
                "with a numeric or string operand; distinct by hash.")
    ctx.assumptions = ["text is drawn from the WinAnsi repertoire (the lossy encode of other characters is documented)",
                       "the miter limit and flatness are generated inside the domains the API clamps them to",
                       "operators that set a text-state parameter or colour to its initial value may appear in addition (they change nothing)"]
    of = os.path.join(ctx.work, "content.out")
    res = vlib.tlc("syntax", "MCContent", workers=1, timeout=900, out_file=of)
    vlib.tlc_must_pass(res, "MCContent")
    ctx.add_tlc(res)
    ctx.exhaustive = True
    rp = os.path.join(ctx.work, "random.ndjson")
    random_programs(rp, ctx.seed, 600 if thorough else 120)
    both = os.path.join(ctx.work, "programs.in")
    with open(both, "w") as fo:
        for p in (of, rp):
            with open(p) as fi:
                for line in fi:
                    if line.startswith('<<"REPLAY"') or line.startswith("{"):
                        fo.write(line)
    tp = os.path.join(ctx.work, "content.ndjson")
    vlib.vh(["c21", "run", "--in", both, "--out", tp], timeout=1500)

    def describe(rej, case):
        c = case[0]
        return {"class": rej["event"].get("ev"), "kind": c.get("kind"), "program": c.get("prog"), "emitted": c.get("text"),
                "library_parse": c.get("parsed"), "strict_ok": c.get("strict"), "build_error": c.get("err")}

    vlib.validate_cases(ctx, "syntax", "ContentTrace", tp, "content", describe=describe, timeout=3000, marker="case")
    cases = vlib.split_cases(vlib.read_ndjson(tp), marker="case")
    for c in cases:
        prog = c[0]["prog"]
        ctx.count_case([c[0]["kind"], prog], any(x.get("n") or x.get("t") for x in prog))
    for c in cases:
        if c[0]["kind"] == "p" and len(c[0]["prog"]) >= 3:
            ctx.sample({"kind": "p", "prog": c[0]["prog"], "emitted": c[0]["text"]})
            break
    for c in cases:
        if c[0]["kind"] == "g" and len(c[0]["prog"]) >= 6:
            ctx.sample({"kind": "g", "prog": c[0]["prog"][:6], "emitted": c[0]["text"][:300]})
            break
    # termination
    fz = os.path.join(ctx.work, "fuzz.ndjson")
    vlib.vh(["c21", "fuzz", "--cases", 20000 if thorough else 3000, "--seed", ctx.seed, "--out", fz], timeout=3000)
    fevs = vlib.read_ndjson(fz)
    bad = [e for e in fevs if e["outcome"] != "value"]
    ok, rej, res = vlib.trace_validate("syntax", "ContentTrace", fz, timeout=1500)
    ctx.add_tlc(res)
    ctx.traces += 1
    ctx.evaluations += len(fevs)
    ctx.extra["fuzz_inputs"] = len(fevs)
    if not ok:
        for e in bad[:5]:
            ctx.violation({"what": "parsing arbitrary bytes as a content stream did not end in a value or an error", "class": "termination",
                           "outcome": e["outcome"], "bytes": e["bytes"]})
        if not bad:
            raise vlib.ToolError("fuzz trace rejected without a bad outcome")

    def digit(evs):
        for e in evs:
            if e["ev"] == "case" and e["kind"] == "g" and len(e["prog"]) == 1 and e["prog"][0]["c"] == "rect" and 49 in e["bytes"]:
                e["bytes"][e["bytes"].index(49)] = 50
                return True
        return False

    def drop_op(evs):
        for e in evs:
            if e["ev"] == "case" and e["kind"] == "t" and len(e["parsed"]["ops"]) >= 6:
                del e["parsed"]["ops"][2]
                return True
        return False

    def wrong_string(evs):
        for e in evs:
            if e["ev"] == "case" and e["kind"] == "t" and any(x["c"] == "write" and len(x["t"]) >= 2 for x in e["prog"]):
                for o in e["parsed"]["ops"]:
                    if o["op"] == "Tj" and len(o["args"][0]["b"]) >= 2:
                        o["args"][0]["b"][0] ^= 1
                        return True
        return False

    vlib.expect_reject(ctx, "syntax", "ContentTrace", tp, digit, "a digit of an emitted rect operand changed", marker="case")
    vlib.expect_reject(ctx, "syntax", "ContentTrace", tp, drop_op, "an operator removed from the library's parse", marker="case")
    vlib.expect_reject(ctx, "syntax", "ContentTrace", tp, wrong_string, "a byte of a parsed Tj string changed", marker="case")
