"""C24 - embedded raster images decode to the pixels that were supplied.  Specs: specs/image/{Png,MCPng,PngTrace}.tla"""
import json
import os
import subprocess
import zlib
import vlib

LEVEL = "model_checking"


def java_crosscheck(ctx, cases):
    """The specification is the PNG ENCODER here; javax.imageio (an independent decoder) must read every file it wrote
    and find the samples the specification says it put in.  A disagreement discredits the oracle, not the library."""
    d = os.path.join(ctx.work, "png")
    os.makedirs(d, exist_ok=True)
    for f in os.listdir(d):
        os.remove(os.path.join(d, f))
    files = []
    for k, c in enumerate(cases):
        p = os.path.join(d, "%04d.png" % k)
        with open(p, "wb") as f:
            f.write(bytes(c["png"]))
        files.append(p)
    try:
        subprocess.run(["javac", "-d", d, os.path.join(vlib.VERIF, "tools", "PngDump.java")], check=True, stdout=subprocess.PIPE, stderr=subprocess.PIPE, timeout=300)
        out = subprocess.run(["java", "-Djava.awt.headless=true", "-cp", d, "PngDump"] + files, check=True, stdout=subprocess.PIPE, stderr=subprocess.PIPE, text=True, timeout=600).stdout
    except Exception as e:  # noqa
        raise vlib.ToolError("independent PNG decoder (javax.imageio) could not be run: %s" % e)

    def chans(ct):
        return {0: 1, 2: 3, 3: 1, 4: 2, 6: 4}[ct]

    def sample(im, x, y, c):
        if im["ct"] == 3:
            return (x * 3 + y * 5 + im["seed"]) % len(im["pal"])
        if im["ct"] in (0, 2) and im["trns"] and (x + 2 * y) % 5 == 0:
            return im["trns"][c - 1]
        if im["ct"] in (0, 2) and im["trns"] and (x + 2 * y) % 5 in (1, 2):
            t = im["trns"][c - 1]
            hit = c == (1 if (x + 2 * y) % 5 == 1 else chans(im["ct"]))
            return (t + 1 if t % 2 == 0 else t - 1) if hit else t
        return (x * 2503 + y * 7919 + c * 1237 + im["seed"] * 97) % (2 ** im["bd"])

    lines = [l.split() for l in out.splitlines() if l.strip()]
    if len(lines) != len(cases):
        raise vlib.ToolError("javax.imageio read %d of %d files" % (len(lines), len(cases)))
    for c, p in zip(cases, lines):
        im = c["im"]
        if p[1] == "UNREADABLE":
            raise vlib.ToolError("javax.imageio cannot read a file Png.tla wrote: %s" % json.dumps(im))
        w, h, nb = int(p[1]), int(p[2]), int(p[3])
        v = list(map(int, p[4:]))
        ch = chans(im["ct"])
        ok = (w, h) == (im["w"], im["h"])
        for y in range(h):
            for x in range(w):
                got = v[(y * w + x) * nb:(y * w + x) * nb + nb]
                want = [sample(im, x, y, cc + 1) for cc in range(ch)]
                if got[:ch] == want and nb in (ch, ch + 1):
                    continue
                # imageio expands low-depth grey with a transparent colour to 8-bit grey + alpha; only the grey level is
                # compared (its alpha for a 1-bit image with transparent colour 1 is 255, against PNG 11.3.2.1 - the
                # cross-check is about the bytes Png.tla wrote, and the grey level settles that)
                if im["ct"] == 0 and im["trns"] and nb == 2 and got[0] == want[0] * 255 // (2 ** im["bd"] - 1):
                    continue
                ok = False
        if not ok:
            raise vlib.ToolError("javax.imageio reads other samples than Png.tla wrote: %s" % json.dumps(im))
    ctx.extra["png_files_crosschecked_with_javax_imageio"] = len(cases)


def run(ctx):
    thorough = ctx.tier == "thorough"
    ctx.rule = ("Png.tla is a PNG ENCODER written from ISO/IEC 15948: samples as a fixed function of position, packed at 1/2/4/8/16 bits, "
                "scanlines filtered with any cycle of the five filter types, Adam7 pass by pass, zlib and CRC-32 primitives, IHDR / PLTE / "
                "tRNS / one or two IDAT / an ancillary chunk / IEND - and Pixels(im): the colour and alpha every conforming decoder must "
                "find (sub-byte samples scaled to 8 bits, 16-bit samples truncated or rounded, palette entries, alpha from the alpha "
                "channel, from per-entry tRNS or from the one transparent colour).  MCPng (TLC) writes files over colour type x depth x "
                "interlace x size (1x1 .. 17x5, widths that are no multiple of 8) x palette / tRNS (with pixels that miss the transparent colour by the lowest bit of one channel) x filter cycle, plus raw RGB / RGBA / "
                "grey buffers; javax.imageio cross-checks every file the specification wrote.  The library embeds each image in a "
                "document; the image XObject and its soft mask are fetched from the written file; PngTrace (TLC) inflates the stored "
                "data itself and requires dimensions, colour space, depth and every sample to be the PNG's pixels.  Non-trivial = "
                "every image; distinct by hash.")
    ctx.assumptions = ["zlib and CRC-32 are python zlib, not oxidizePdf code",
                       "images are at most 17 x 9 pixels; 16-bit samples may be reduced to 8 bits by truncation or by rounding",
                       "an image XObject with /DecodeParms, /Decode or a colour-key /Mask is reported as unexpected rather than interpreted (the library writes none)"]
    cfg = "MCPng_thorough" if thorough else "MCPng"
    of = os.path.join(ctx.work, "png.out")
    res = vlib.tlc("image", "MCPng", cfg=cfg, workers=1, timeout=3000, out_file=of, libs=("filters", "lib"))
    vlib.tlc_must_pass(res, cfg)
    ctx.add_tlc(res)
    ctx.exhaustive = False
    cases = []
    for l in open(of):
        if l.startswith('<<"REPLAY"'):
            c = json.loads(json.loads(l[len('<<"REPLAY", '):-3]))
            if "png" in c:
                cases.append(c)
    java_crosscheck(ctx, cases)
    tp = os.path.join(ctx.work, "png.ndjson")
    vlib.vh(["c24", "run", "--in", of, "--out", tp], timeout=3000)

    def describe(rej, case):
        e = case[0]
        d = {"class": "image_pixels", "ok": e["ok"], "err": e["err"], "stored": {k: {kk: vv for kk, vv in v.items() if kk != "data"} for k, v in e["stored"].items()}}
        if "im" in e:
            d["image"] = {k: e["im"][k] for k in ("ct", "bd", "w", "h", "il", "trns", "fts", "seed", "split")}
            d["png_bytes"] = e["png"]
        else:
            d["raw"] = {k: e[k] for k in ("raw", "w", "h", "data")}
        return d

    # one event per case: cases are their own markers
    evs = vlib.read_ndjson(tp)
    vlib.validate_cases(ctx, "image", "PngTrace", tp, "image", describe=describe, timeout=9000, marker=("png", "raw"), libs=("filters", "lib"))
    by = {}
    for e in evs:
        if e["ev"] == "png":
            im = e["im"]
            k = "ct%d/bd%d/%s" % (im["ct"], im["bd"], "adam7" if im["il"] else "plain")
            by[k] = by.get(k, 0) + 1
            ctx.count_case(im, True)
        else:
            by["raw/" + e["raw"]] = by.get("raw/" + e["raw"], 0) + 1
            ctx.count_case({"raw": e["raw"], "w": e["w"], "h": e["h"], "data": e["data"]}, True)
    ctx.extra["images_by_kind"] = by
    for e in evs:
        if e["ev"] == "png" and e["im"]["il"] == 1 and e["im"]["ct"] == 3 and e["im"]["trns"]:
            ctx.sample({"image": {k: e["im"][k] for k in ("ct", "bd", "w", "h", "il", "trns", "fts")}, "png_length": len(e["png"]),
                        "stored": {k: {kk: vv for kk, vv in v.items() if kk != "data"} for k, v in e["stored"].items()}})
            break

    def restore(x, data):
        x["data"] = list(zlib.compress(bytes(data))) if x["filter"] == "FlateDecode" else list(data)

    def pixel_changed(evs2):
        for e in evs2:
            if e["ev"] == "png" and e["ok"] and e["im"]["w"] > 2:
                x = e["stored"]["image"]
                d = bytearray(zlib.decompress(bytes(x["data"])) if x["filter"] == "FlateDecode" else bytes(x["data"]))
                d[len(d) // 2] = (d[len(d) // 2] + 3) % 256
                restore(x, d)
                return True
        return False

    def alpha_lost(evs2):
        for e in evs2:
            if e["ev"] == "png" and e["ok"] and e["stored"]["smask"]["present"]:
                e["stored"]["smask"]["present"] = False
                return True
        return False

    def refused(evs2):
        for e in evs2:
            if e["ev"] == "png" and e["ok"]:
                e["ok"] = False
                e["err"] = "refused"
                return True
        return False

    def raw_changed(evs2):
        for e in evs2:
            if e["ev"] == "raw" and e["raw"] == "gray" and e["w"] * e["h"] > 2:
                e["stored"]["image"]["data"][1] ^= 1
                return True
        return False

    def wrong_depth(evs2):
        for e in evs2:
            if e["ev"] == "png" and e["ok"]:
                e["stored"]["image"]["bpc"] = 16
                return True
        return False

    for m, what in ((pixel_changed, "one stored sample changed"), (alpha_lost, "soft mask dropped"), (refused, "a conforming PNG refused"),
                    (raw_changed, "one sample of a raw grey buffer changed"), (wrong_depth, "bits per component misdeclared")):
        vlib.expect_reject(ctx, "image", "PngTrace", tp, m, what, marker=("png", "raw"), libs=("filters", "lib"))
