"""C09 - serialized objects parse back to the same value.  Specs: specs/syntax/{PdfLex,MCObjValues,ObjTrace}.tla"""
import os
import vlib

LEVEL = "model_checking"


def run(ctx):
    thorough = ctx.tier == "thorough"
    ctx.rule = ("MCObjValues (TLC) builds the value space bottom-up: every string and name over a 16-byte alphabet (one byte per "
                "lexical class: regular, space, each delimiter, backslash, CR, LF, '#', NUL, 0x80, 0xFF) up to StrLen bytes, extreme "
                "integers and reals as literals, references, and containers/streams of representatives.  Each value is handed to the "
                "three real serializers (streaming, object-stream buffer, incremental update) through cfg-guarded hooks; the bytes are "
                "read by the TLA+ reference reader PdfLex (one TLC step per byte, silent steps of ObjTrace) and by the library's parser; "
                "both must return exactly that one value (reals within 1e-6).  Seeded random trees add depth and unicode names.  "
                "Non-trivial = value containing a byte outside [A-Za-z0-9]; distinct by hash.")
    ctx.assumptions = ["serializer hooks call the private serializers directly (verif_serialize, verif_incremental_write_object)",
                       "string values that are not valid UTF-8 go in as Object::ByteString (bytes must round-trip), the others as Object::String (a text string: the characters must round-trip under TextString!DecodeText)"]
    cfg = "MCObjValues_thorough" if thorough else "MCObjValues"
    vf = os.path.join(ctx.work, "values.out")
    res = vlib.tlc("syntax", "MCObjValues", cfg=cfg, workers=1, timeout=3000, out_file=vf, xmx="8g")
    vlib.tlc_must_pass(res, cfg)
    ctx.add_tlc(res)
    ctx.exhaustive = True
    tp = os.path.join(ctx.work, "objects.ndjson")
    vlib.vh(["c09", "run", "--in", vf, "--random", 3000 if thorough else 400, "--seed", ctx.seed, "--out", tp], timeout=3000)

    def describe(rej, case):
        c = case[0]
        return {"class": rej["event"].get("ev"), "via": c.get("via"), "value": c.get("value"), "bytes_text": c.get("text"),
                "library_parsed": c.get("parsed")}

    vlib.validate_cases(ctx, "syntax", "ObjTrace", tp, "object", describe=describe, timeout=3000, marker="case")
    evs = vlib.read_ndjson(tp)
    cases = vlib.split_cases(evs, marker="case")

    def nontrivial(v):
        if isinstance(v, dict):
            if v.get("t") in ("str", "name"):
                return any(not (48 <= b <= 57 or 65 <= b <= 90 or 97 <= b <= 122) for b in v.get("b", []))
            if v.get("t") == "text":
                return any(not (48 <= b <= 57 or 65 <= b <= 90 or 97 <= b <= 122) for b in v.get("cps", []))
            return any(nontrivial(x) for x in v.values())
        if isinstance(v, list):
            return any(nontrivial(x) for x in v)
        return False

    for c in cases:
        ctx.count_case([c[0]["via"], c[0]["value"]], nontrivial(c[0]["value"]))
    for c in cases:
        if c[0]["value"]["t"] == "dict" and nontrivial(c[0]["value"]):
            ctx.sample({k: c[0][k] for k in ("via", "value", "text", "parsed")})
            break

    def flip_byte(evs):
        for e in evs:
            if e["ev"] == "case" and e["value"]["t"] == "text" and len(e["value"]["cps"]) >= 1 and e["bytes"] and e["bytes"][0] == 40 and 65 in e["bytes"]:
                e["bytes"][e["bytes"].index(65)] = 66
                return True
        return False

    def wrong_parsed(evs):
        for e in evs:
            if e["ev"] == "case" and e["parsed"].get("t") == "int":
                e["parsed"]["s"] = e["parsed"]["s"] + "0"
                return True
        return False

    def trailing(evs):
        for e in evs:
            if e["ev"] == "case" and e["value"]["t"] == "name" and e["bytes"]:
                e["bytes"] += [32, 49]
                return True
        return False

    vlib.expect_reject(ctx, "syntax", "ObjTrace", tp, flip_byte, "one byte of a serialized string changed", marker="case")
    vlib.expect_reject(ctx, "syntax", "ObjTrace", tp, wrong_parsed, "library-parsed integer altered", marker="case")
    vlib.expect_reject(ctx, "syntax", "ObjTrace", tp, trailing, "trailing token after the object", marker="case")
