"""C02 - written documents read back with the same content.  Specs: specs/syntax/{PdfFile,ContentOps,MCDoc,FileTrace}.tla"""
import os
import vlib
import c03

LEVEL = "model_checking"


def run(ctx):
    thorough = ctx.tier == "thorough"
    ctx.rule = ("For every document program MCDoc (TLC) enumerates (pages x sizes x rotations x content programs x information strings x "
                "writer configurations) the written bytes are read twice: by the reference reader PdfFile.tla (file scan, object "
                "streams, page tree walked in document order with inherited attributes, each page's content streams decoded and "
                "lexed by PdfLex inside TLC) and by the library (PdfReader/PdfDocument page list, ContentParser on the decoded "
                "content).  Both must give the authored page count, MediaBox, rotation and - through the authoring model of "
                "ContentOps.tla - the authored content operators with operands within the documented rounding.  Interactive documents "
                "(annotations of 14 kinds, form fields of 6 kinds; module Interactive) must in addition show, to the reference reader, "
                "exactly the authored annotations on each page and the authored fields under /AcroForm; tagged documents (module Tagged) "
                "the authored structure tree, with the parent tree leading from every owned marked-content sequence to its element.  Non-trivial = "
                "document with at least one numeric or string operand in its content; distinct by hash.")
    ctx.assumptions = ["content authoring API subset as in C21; annotations and form fields as in C03 (MCDoc.DocX); images and outlines are covered by C24 and C28",
                       "a page carries either a graphics program or a text/marked-content program, so that the order in which Page interleaves its two contexts is not part of the expectation",
                       "(object streams, cross-reference stream, uncompressed) not generated, see C03"]
    of = c03.generate_docs(ctx, thorough)
    tp = c03.run_docs(ctx, of, ("chk_pages", "chk_interactive", "chk_tagged"))
    vlib.validate_cases(ctx, "syntax", "FileTrace", tp, "readback", describe=c03.describe, timeout=6000, marker="file")
    cases = vlib.split_cases(vlib.read_ndjson(tp), marker="file")
    for c in cases:
        ctx.count_case(c[0]["prog"], any(x.get("n") or x.get("t") for pg in c[0]["prog"]["pages"] for x in pg["prog"]))
    c = cases[min(7, len(cases) - 1)][0]
    ctx.sample({"config": c["prog"]["cfg"], "pages": c["prog"]["pages"][:1], "library_page": {k: c["lib"]["pages"][0].get(k) for k in ("mediaBox", "rotate")}})

    def rot(evs):
        for e in evs:
            if e["ev"] == "file" and e["built"] and e["lib"]["pages"]:
                e["lib"]["pages"][0]["rotate"] += 90
                return True
        return False

    def drop_op(evs):
        for e in evs:
            if e["ev"] == "file" and e["built"] and e["lib"]["pages"] and len(e["lib"]["pages"][0]["content"]["parsed"]["ops"]) >= 3:
                del e["lib"]["pages"][0]["content"]["parsed"]["ops"][1]
                return True
        return False

    def content_byte(evs):
        for e in evs:
            if e["ev"] == "file" and e["built"] and not e["prog"]["cfg"]["compress"] and e["prog"]["pages"][0]["kind"] == "g":
                b = bytes(e["bytes"])
                i = b.find(b"\nstream\n")          # the first stream of the file is the first page's content
                if i > 0:
                    k = i + 8
                    while k < len(b) and not (48 <= b[k] <= 57):
                        k += 1
                    if k < len(b):
                        e["bytes"][k] = 57 if b[k] != 57 else 56
                        return True
        return False

    vlib.expect_reject(ctx, "syntax", "FileTrace", tp, rot, "library page rotation +90", marker="file")
    vlib.expect_reject(ctx, "syntax", "FileTrace", tp, drop_op, "an operator removed from the library's re-read content", marker="file")
    vlib.expect_reject(ctx, "syntax", "FileTrace", tp, content_byte, "a digit of a written rect operand changed in the file", marker="file")
