"""C25 - single-byte encodings vs ISO 32000-1 Annex D.  Specs: specs/text/{EncodingTables,Encodings,MCEncodings,EncodingsTrace}.tla"""
import os
import vlib

LEVEL = "model_checking"


def run(ctx):
    ctx.rule = ("Exhaustive: for each of the four encodings the library's decode of every byte and the result of both encoders on "
                "every one of the 1 112 064 Unicode scalar values are recorded (reduced to the accepted <<scalar, byte>> pairs) and judged "
                "by Encodings.tla (DecodeOK, StrictOK, InverseOK, LossyOK); the parser-side decoders are judged by DecodeOK.  TLC first "
                "checks that the table-driven reference codec satisfies the same requirements.  Non-trivial = an observation of an "
                "encoder over all scalar values or of a decoder over all bytes (15 observations, all distinct).")
    ctx.assumptions = ["the Annex D tables are a transcription (bin/gen_encodings.py), cross-checked against python's cp1252 / mac_roman "
                       "codecs (all differences are the documented PDF-specific ones) and against TextString's PDFDoc decoder"]
    res = vlib.tlc("text", "MCEncodings", workers=1, timeout=900, out_file=os.path.join(ctx.work, "tables.out"))
    vlib.tlc_must_pass(res, "MCEncodings")
    ctx.add_tlc(res)
    ctx.extra["assigned_codes"] = dict(res.prints).get("SIZES")
    tp = os.path.join(ctx.work, "observed.ndjson")
    vlib.vh(["c25", "observe", "--out", tp])
    evs = vlib.read_ndjson(tp)
    # validate each observation on its own (a decoder observation is prepended for the inverse check)
    dec_by_enc = {}
    for e in evs:
        if e["ev"] == "decode" and e.get("api") == "text::TextEncoding":
            dec_by_enc[e["enc"]] = e
    for i, e in enumerate(evs):
        p = os.path.join(ctx.work, "obs_%d.ndjson" % i)
        seq = [e] if e["ev"] == "decode" else [dec_by_enc[e["enc"]], e]
        vlib.write_ndjson(p, seq)
        ok, rej, r = vlib.trace_validate("text", "EncodingsTrace", p, timeout=900)
        ctx.add_tlc(r)
        ctx.note_known_from_tlc(r) if (e["ev"] == "decode" or True) else None
        ctx.traces += 1
        ctx.count_case([e["enc"], e["ev"], e.get("api")], True)
        if not ok:
            small = {k: v for k, v in e.items() if k != "pairs"}
            if "pairs" in e:
                small["accepted_pairs"] = len(e["pairs"])
                small["pairs_head"] = e["pairs"][120:140]
            ctx.violation({"what": "the library's %s of %s is not what Annex D requires" % (e["ev"], e["enc"]),
                           "class": "encoding_%s_%s" % (e["enc"], e["ev"]), "observation": small})
    ctx.exhaustive = True
    ctx.evaluations = sum(e.get("scalars", 256) for e in evs)
    ctx.sample({"enc": "WinAnsi", "decode_0x80_0x9F": dec_by_enc["WinAnsi"]["dec"][128:160]})

    # B3: a corrupted observation must be rejected
    def corrupt(kind):
        e = [x for x in evs if x["enc"] == "WinAnsi" and x["ev"] == kind][0]
        import copy
        c = copy.deepcopy(e)
        if kind == "decode":
            c["dec"][0xE9] = 0xE8
        else:
            for p in c["pairs"]:
                if p[0] == 0x20AC:
                    p[1] = 0x81
        p = os.path.join(ctx.work, "corrupt_%s.ndjson" % kind)
        vlib.write_ndjson(p, [c] if kind == "decode" else [dec_by_enc["WinAnsi"], c])
        ok, rej, r = vlib.trace_validate("text", "EncodingsTrace", p)
        ctx.add_tlc(r)
        if ok:
            raise vlib.ToolError("B3 self-test failed: corrupted WinAnsi %s accepted" % kind)
        ctx.extra.setdefault("b3_rejections", []).append("WinAnsi %s corrupted" % kind)

    corrupt("decode")
    corrupt("strict")
