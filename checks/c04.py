"""C04 - newest revision wins.  Specs: specs/xref/{XRefChain,MCXRefChain,XRefChainTrace}.tla; harness synth"""
import os
import vlib

LEVEL = "model_checking"


def run(ctx):
    thorough = ctx.tier == "thorough"
    ctx.rule = ("XRefChain.tla: revisions (table or stream form; per object keep/direct/in-object-stream/free) and the reader "
                "(last startxref, parse, follow /Prev, first mention wins).  TLC explores every history up to MaxRevs revisions over "
                "2 objects, checks NewestWins and characterises the pinned two-map merge (wrong exactly on a stale compressed entry); "
                "it also must refute that merge (negative control).  B1: every history (plus random deeper ones from -simulate over 3 "
                "objects x 5 revisions) is serialised by the independent writer synth and opened with the default/strict/lenient "
                "presets; each object's marker must be the one the spec names; direct-only histories are also opened with the "
                "startxref zeroed and with every xref keyword garbled (recovery scan).  B2: seeded random histories over up to 5 "
                "objects x 7 revisions are recorded (rev/open/read events) and validated by XRefChainTrace (ParseSection steps are "
                "silent).  Non-trivial = history where some object is mentioned by >= 2 revisions; distinct by construction / hash.")
    ctx.assumptions = ["files are produced by the harness' own serializer (synth); its undamaged output is cross-checked by requiring the "
                       "library's strict parser to open it and find one page"]
    cfg = "MCXRefChain_thorough" if thorough else "MCXRefChain"
    hist = os.path.join(ctx.work, "hist.out")
    res = vlib.tlc("xref", "MCXRefChain", cfg=cfg, workers=8, timeout=3000, out_file=hist, coverage=True)
    vlib.tlc_must_pass(res, cfg)
    ctx.add_tlc(res)
    neg = vlib.tlc("xref", "MCXRefChain", cfg="MCXRefChain_neg", workers=4, timeout=600)
    ctx.add_tlc(neg)
    if neg.ok or "ImplAlwaysRight" not in (neg.violation or ""):
        raise vlib.ToolError("negative control failed: TLC did not refute the pinned two-map merge")
    ctx.extra["negative_control"] = "TLC refutes ImplAlwaysRight (two-map merge) as expected"
    sim = os.path.join(ctx.work, "sim.out")
    rs = vlib.tlc("xref", "MCXRefChain", cfg="MCXRefChain_sim", workers=1, timeout=900, out_file=sim,
                  simulate=1500 if thorough else 250, depth=14, seed=ctx.seed)
    vlib.tlc_must_pass(rs, "MCXRefChain_sim")
    ctx.add_tlc(rs)
    ctx.exhaustive = True
    for name, f in (("exhaustive", hist), ("simulated", sim)):
        ro = f + ".replayed"
        vlib.vh(["c04", "replay", "--in", f, "--out", ro], timeout=3000)
        for ev in vlib.read_ndjson(ro):
            if ev["ev"] == "summary":
                if ev["cases"] == 0:
                    raise vlib.ToolError("no histories generated (%s)" % name)
                ctx.evaluations += ev["cases"]
                ctx.traces += ev["cases"]
                ctx.count_distinct(name, ev["with_redefinition"])
                ctx.extra["b1_%s_histories" % name] = ev["cases"]
                ctx.extra["b1_%s_recovery_histories" % name] = ev["recovery_cases"]
            else:
                d = ev["detail"]
                cls = "stale_definition" if d.get("stale_definition") else str(d.get("what"))[:40]
                ctx.violation({"what": "reader resolves an object to something other than its most recent definition",
                               "class": cls, "preset": ev["preset"], "history": ev["revs"], "detail": d})
    with open(hist) as f:
        import json
        for line in f:
            if line.startswith('<<"REPLAY"') and "instm" in line and "free" in line:
                ctx.sample(json.loads(json.loads(line[len('<<"REPLAY", '):-3])), limit=1)
                break
    # B2
    tp = os.path.join(ctx.work, "recorded.ndjson")
    vlib.vh(["c04", "record", "--seed", ctx.seed, "--cases", 600 if thorough else 150, "--out", tp])
    vlib.validate_cases(ctx, "xref", "XRefChainTrace", tp, "recorded",
                        describe=lambda rej, case: {"class": "trace_" + rej["event"].get("ev", "?"),
                                                    "history": [e for e in case if e["ev"] == "rev"]})
    cases = vlib.split_cases(vlib.read_ndjson(tp))
    for c in cases:
        revs = [e for e in c if e["ev"] == "rev"]
        k = c[0]["objects"]
        ctx.count_case(c, any(sum(1 for r in revs if r["ops"][i] != "keep") >= 2 for i in range(k)))
    ctx.sample({"recorded_head": cases[1][:8]})

    def wrong_value(evs):
        for e in evs:
            if e["ev"] == "read" and e["value"] > 200:
                e["value"] -= 100
                return True
        return False

    def wrong_null(evs):
        for e in evs:
            if e["ev"] == "read" and e["value"] == 0 and e["g"] > 0:
                e["value"] = 100 + e["n"]
                return True
        return False

    vlib.expect_reject(ctx, "xref", "XRefChainTrace", tp, wrong_value, "a read returns the previous revision's marker")
    vlib.expect_reject(ctx, "xref", "XRefChainTrace", tp, wrong_null, "a freed object reads as its old value")
