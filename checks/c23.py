"""C23 - cryptographic building blocks.  Specs: specs/crypto/{Rc4,Crypto,MCCrypto,CryptoTrace}.tla"""
import os
import vlib

LEVEL = "model_checking"


def run(ctx):
    thorough = ctx.tier == "thorough"
    ctx.rule = ("Rc4.tla specifies RC4 in full; Crypto.tla transcribes the standard security handler: password padding, Algorithms 1, 2, "
                "3, 4/5, 6, 7 (revisions 2-4), AES-CBC with PKCS#7 and IV placement over the AES block primitive, the revision 5 entries "
                "and Algorithm 2.B / 8-10 / Perms of revision 6; MD5, SHA-2 and AES are third-party primitives called through IOExec.  "
                "MCCrypto (TLC) enumerates inputs by class: RC4 keys of 1..256 bytes x data of 0..300 bytes; AES-128/256 x IV x data lengths "
                "around the block size; revisions/key lengths x user and owner passwords (empty, short, '(' and '\\\\', 31/32/33/40 bytes, "
                "Latin-1) x permissions x file ids x object ids (a deterministic stride of the product); revision 5/6 passwords incl. "
                "non-BMP and 127 bytes.  The harness calls the library's public functions; CryptoTrace recomputes every value (inverting "
                "those that contain random IVs or salts) and checks the accept/reject verdicts.  Non-trivial = every case; distinct by hash.")
    ctx.assumptions = ["MD5/SHA-2/AES are python hashlib / cryptography (OpenSSL), not oxidizePdf code",
                       "passwords for revisions 2-4 are drawn from ASCII and U+00A1..U+00FF, where PDFDocEncoding is the code point; SASLprep is the identity on the generated revision 5/6 passwords",
                       "an owner password given as \"\" is treated as a password (the 'no owner password: use the user password' substitution is the caller's)"]
    cfg = "MCCrypto_thorough" if thorough else "MCCrypto"
    of = os.path.join(ctx.work, "crypto.out")
    res = vlib.tlc("crypto", "MCCrypto", cfg=cfg, workers=1, timeout=1500, out_file=of)
    vlib.tlc_must_pass(res, cfg)
    ctx.add_tlc(res)
    ctx.exhaustive = False
    tp = os.path.join(ctx.work, "crypto.ndjson")
    vlib.vh(["c23", "run", "--in", of, "--out", tp], timeout=1500)

    def describe(rej, case):
        e = rej["event"]
        d = {"class": e.get("alg"), "case": {k: v for k, v in e.items() if k not in ("ev",)}}
        return d

    vlib.validate_cases(ctx, "crypto", "CryptoTrace", tp, "crypto", describe=describe, timeout=3000, marker="case")
    evs = vlib.read_ndjson(tp)
    by = {}
    for e in evs:
        by[e["alg"] + (str(e.get("R", "")))] = by.get(e["alg"] + str(e.get("R", "")), 0) + 1
        ctx.count_case({k: e[k] for k in ("alg", "key", "data", "iv", "R", "n", "user", "owner", "P", "id", "obj", "encMeta") if k in e}, True)
    ctx.extra["cases_by_algorithm"] = by
    for e in evs:
        if e["alg"] == "r234" and e["R"] == 3 and e["user"] and e["owner"]:
            ctx.sample({k: e[k] for k in ("alg", "R", "n", "user", "owner", "P", "id", "O", "U", "key", "objkey")})
            break
    for e in evs:
        if e["alg"] == "r56" and e["R"] == 6:
            ctx.sample({k: e[k] for k in ("alg", "R", "user", "owner", "P", "encMeta", "U", "UE", "Perms")})
            break

    def flip_rc4(evs):
        for e in evs:
            if e["alg"] == "rc4" and len(e["out"]) > 20:
                e["out"][17] ^= 4
                e["streamed"][17] ^= 4
                return True
        return False

    def flip_key(evs):
        for e in evs:
            if e["alg"] == "r234" and e["R"] == 3 and e["userUtf8"] == e["user"] and e["ownerUtf8"] == e["owner"]:
                e["key"]["v"][0] ^= 1
                return True
        return False

    def accept_wrong(evs):
        for e in evs:
            if e["alg"] == "r56" and e["R"] == 5 and len(e["userUtf8"]) < 100 and "vUserWrong" in e:
                e["vUserWrong"]["b"] = True
                return True
        return False

    def bad_pad(evs):
        for e in evs:
            if e["alg"] == "aes" and len(e["data"]) == 15:
                e["enc"]["v"][-1] ^= 1
                return True
        return False

    vlib.expect_reject(ctx, "crypto", "CryptoTrace", tp, flip_rc4, "one RC4 output byte changed", marker="case")
    vlib.expect_reject(ctx, "crypto", "CryptoTrace", tp, flip_key, "one bit of a revision 3 file key changed", marker="case")
    vlib.expect_reject(ctx, "crypto", "CryptoTrace", tp, accept_wrong, "wrong revision 5 user password accepted", marker="case")
    vlib.expect_reject(ctx, "crypto", "CryptoTrace", tp, bad_pad, "last AES-CBC ciphertext byte changed", marker="case")
