"""C23 - cryptographic building blocks.  Specs: specs/crypto/{Rc4,Crypto,MCCrypto,CryptoTrace}.tla"""
import json
import os
import vlib

LEVEL = "model_checking"


def boundary_2b(seed, want):
    """(password, salt, u) triples on which Algorithm 2.B stops exactly at / just before / just after its boundary."""
    import subprocess
    code = r"""
import hashlib, json, sys
from cryptography.hazmat.primitives.ciphers import Cipher, algorithms, modes
def run(pw, salt, u):
    K = hashlib.sha256(pw + salt + u).digest(); r = 0
    while True:
        c = Cipher(algorithms.AES(K[:16]), modes.CBC(K[16:32])).encryptor(); E = c.update((pw + K + u) * 64) + c.finalize()
        K = [hashlib.sha256, hashlib.sha384, hashlib.sha512][sum(E[:16]) % 3](E).digest(); r += 1
        if r >= 64 and E[-1] <= r - 32: return r, E[-1]
seed, want = int(sys.argv[1]), int(sys.argv[2]); out = {"on": [], "beside": []}
i = 0
while (len(out["on"]) < want or len(out["beside"]) < 1) and i < 4000:
    pw = ("password%d" % (seed * 4000 + i)).encode(); salt = bytes([(seed + i + k) % 256 for k in range(8)]); u = bytes(range(48)) if i % 2 else b""
    r, last = run(pw, salt, u)
    kind = "on" if last == r - 32 else ("beside" if last == r - 33 else None)
    if kind and len(out[kind]) < want: out[kind].append({"alg": "h2b", "pw": list(pw), "salt": list(salt), "u": list(u), "rounds": r, "last": last})
    i += 1
print(json.dumps(out["on"] + out["beside"][:1]))
"""
    p = subprocess.run(["/usr/bin/python3", "-c", code, str(seed), str(want)], stdout=subprocess.PIPE, stderr=subprocess.PIPE, text=True, timeout=600)
    if p.returncode != 0:
        raise vlib.ToolError("boundary search failed: " + p.stderr[-500:])
    return json.loads(p.stdout)


def run(ctx):
    thorough = ctx.tier == "thorough"
    ctx.rule = ("Rc4.tla specifies RC4 in full; Crypto.tla transcribes the standard security handler: password padding, Algorithms 1, 2, "
                "3, 4/5, 6, 7 (revisions 2-4), AES-CBC with PKCS#7 and IV placement over the AES block primitive, the revision 5 entries "
                "and Algorithm 2.B / 8-10 / Perms of revision 6; MD5, SHA-2 and AES are third-party primitives called through IOExec.  "
                "MCCrypto (TLC) enumerates inputs by class: RC4 keys of 1..256 bytes x data of 0..300 bytes; AES-128/256 x IV x data lengths "
                "around the block size; revisions/key lengths x user and owner passwords (empty, short, '(' and '\\\\', 31/32/33/40 bytes, "
                "Latin-1) x permissions x file ids x object ids (a deterministic stride of the product); revision 5/6 passwords incl. "
                "non-BMP and 127 bytes.  The harness calls the library's public functions; CryptoTrace recomputes every value (inverting "
                "those that contain random IVs or salts) and checks the accept/reject verdicts.  Non-trivial = every case; distinct by hash.")
    ctx.assumptions = ["MD5/SHA-2/AES are python hashlib / cryptography (OpenSSL), not oxidizePdf code",
                       "passwords for revisions 2-4 are drawn from ASCII and U+00A1..U+00FF, where PDFDocEncoding is the code point; SASLprep is the identity on the generated revision 5/6 passwords",
                       "an owner password given as \"\" is treated as a password (the 'no owner password: use the user password' substitution is the caller's)"]
    cfg = "MCCrypto_thorough" if thorough else "MCCrypto"
    of = os.path.join(ctx.work, "crypto.out")
    res = vlib.tlc("crypto", "MCCrypto", cfg=cfg, workers=1, timeout=1500, out_file=of)
    vlib.tlc_must_pass(res, cfg)
    ctx.add_tlc(res)
    ctx.exhaustive = False
    # Algorithm 2.B inputs chosen ON its termination boundary (last byte of E = round - 32 at the first round >= 64 that
    # could end the loop) and just beside it; they are found with the primitives themselves, the expected hash is still
    # computed by Crypto.tla when the library's answer is validated
    with open(of, "a") as f:
        for c in boundary_2b(ctx.seed, 4 if thorough else 2):
            f.write(json.dumps(c, separators=(",", ":")) + "\n")
    tp = os.path.join(ctx.work, "crypto.ndjson")
    vlib.vh(["c23", "run", "--in", of, "--out", tp], timeout=1500)

    def describe(rej, case):
        e = rej["event"]
        d = {"class": e.get("alg"), "case": {k: v for k, v in e.items() if k not in ("ev",)}}
        return d

    vlib.validate_cases(ctx, "crypto", "CryptoTrace", tp, "crypto", describe=describe, timeout=3000, marker="case")
    evs = vlib.read_ndjson(tp)
    by = {}
    for e in evs:
        by[e["alg"] + (str(e.get("R", "")))] = by.get(e["alg"] + str(e.get("R", "")), 0) + 1
        ctx.count_case({k: e[k] for k in ("alg", "key", "data", "iv", "R", "n", "user", "owner", "P", "id", "obj", "encMeta", "pw", "salt", "u") if k in e}, True)
    ctx.extra["cases_by_algorithm"] = by
    for e in evs:
        if e["alg"] == "r234" and e["R"] == 3 and e["user"] and e["owner"]:
            ctx.sample({k: e[k] for k in ("alg", "R", "n", "user", "owner", "P", "id", "O", "U", "key", "objkey")})
            break
    for e in evs:
        if e["alg"] == "r56" and e["R"] == 6:
            ctx.sample({k: e[k] for k in ("alg", "R", "user", "owner", "P", "encMeta", "U", "UE", "Perms")})
            break

    def flip_rc4(evs):
        for e in evs:
            if e["alg"] == "rc4" and len(e["out"]) > 20:
                e["out"][17] ^= 4
                e["streamed"][17] ^= 4
                return True
        return False

    def flip_key(evs):
        for e in evs:
            if e["alg"] == "r234" and e["R"] == 3 and e["userUtf8"] == e["user"] and e["ownerUtf8"] == e["owner"]:
                e["key"]["v"][0] ^= 1
                return True
        return False

    def accept_wrong(evs):
        for e in evs:
            if e["alg"] == "r56" and e["R"] == 5 and len(e["userUtf8"]) < 100 and "vUserWrong" in e:
                e["vUserWrong"]["b"] = True
                return True
        return False

    def bad_pad(evs):
        for e in evs:
            if e["alg"] == "aes" and len(e["data"]) == 15:
                e["enc"]["v"][-1] ^= 1
                return True
        return False

    vlib.expect_reject(ctx, "crypto", "CryptoTrace", tp, flip_rc4, "one RC4 output byte changed", marker="case")
    vlib.expect_reject(ctx, "crypto", "CryptoTrace", tp, flip_key, "one bit of a revision 3 file key changed", marker="case")
    vlib.expect_reject(ctx, "crypto", "CryptoTrace", tp, accept_wrong, "wrong revision 5 user password accepted", marker="case")
    vlib.expect_reject(ctx, "crypto", "CryptoTrace", tp, bad_pad, "last AES-CBC ciphertext byte changed", marker="case")
