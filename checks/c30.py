"""C30 - user-chosen resource names cannot break the page.  Specs: specs/doc/MCNames.tla, specs/syntax/{PdfFile,ContentOps,FileTrace}.tla"""
import os
import vlib
import c03

LEVEL = "model_checking"


def run(ctx):
    thorough = ctx.tier == "thorough"
    ctx.rule = ("MCNames (TLC) enumerates pages that register images, shadings and form XObjects under user-chosen names - plain, with a "
                "space, every delimiter, '#', a literal '#20', TAB, NUL, non-ASCII, empty, 130 bytes, and pairs that collide if only one "
                "side escapes - and then use them (Do / sh).  A name the API refuses costs nothing; for every accepted name the reference "
                "reader PdfFile.tla must find it (decoded by the reference lexer to exactly the bytes given) as a key of the page's "
                "/XObject or /Shading dictionary resolving to an object of the intended kind, every name the content stream invokes must "
                "be such a key, the content must be the authored operators (ContentOps model) for the reference reader and for the "
                "library's re-read, and the whole file must be structurally valid.  Non-trivial = a document with a name outside "
                "[A-Za-z0-9]; distinct by hash.")
    ctx.assumptions = ["resource kinds covered: images (Page::add_image/draw_image), shadings (add_shading/paint_shading), form XObjects (add_form_xobject + Do); "
                       "custom fonts, patterns, ExtGStates, colour spaces and form-field names are not generated here",
                       "names are the UTF-8 bytes of the Rust string handed to the API"]
    cfg = "MCNames_thorough" if thorough else "MCNames"
    of = os.path.join(ctx.work, "names.out")
    res = vlib.tlc("doc", "MCNames", cfg=cfg, workers=1, timeout=600, out_file=of)
    vlib.tlc_must_pass(res, cfg)
    ctx.add_tlc(res)
    tp = c03.run_docs(ctx, of, ("chk_file", "chk_pages", "chk_resources"))

    def describe(rej, case):
        d = c03.describe(rej, case)
        d["resources"] = case[0]["prog"]["pages"][0].get("resources")
        d["accepted"] = case[0].get("accepted")
        return d

    vlib.validate_cases(ctx, "syntax", "FileTrace", tp, "names", describe=describe, timeout=6000, marker="file")
    cases = vlib.split_cases(vlib.read_ndjson(tp), marker="file")
    acc = rej = 0
    for c in cases:
        rs = c[0]["prog"]["pages"][0]["resources"]
        ctx.count_case(c[0]["prog"], any(not (48 <= b <= 57 or 65 <= b <= 90 or 97 <= b <= 122) for r in rs for b in r["name"]) or any(not r["name"] for r in rs))
        for a in c[0].get("accepted", [[]])[0]:
            acc += 1 if a else 0
            rej += 0 if a else 1
    ctx.extra["names_accepted_by_api"] = acc
    ctx.extra["names_refused_by_api"] = rej
    for c in cases:
        rs = c[0]["prog"]["pages"][0]["resources"]
        if any(32 in r["name"] for r in rs) and c[0]["built"] and not c[0]["prog"]["cfg"]["compress"]:
            b = bytes(c[0]["bytes"])
            k = b.find(b"/XObject")
            ctx.sample({"resources": rs, "accepted": c[0]["accepted"], "xobject_dict_as_written": b[k:k + 160].decode("latin1")})
            break

    def key_byte(evs):
        for e in evs:
            if e["ev"] == "file" and e["built"] and not e["prog"]["cfg"]["compress"] and not e["prog"]["cfg"]["objstm"]:
                b = bytes(e["bytes"])
                k = b.find(b"/XObject <<\n/")
                if k > 0 and 65 <= b[k + 13] <= 122:
                    e["bytes"][k + 13] = b[k + 13] + 1
                    return True
        return False

    def wrong_kind(evs):
        for e in evs:
            if e["ev"] == "file" and e["built"]:
                for r in e["prog"]["pages"][0]["resources"]:
                    if r["kind"] == "image":
                        r["kind"] = "form"
                        return True
        return False

    vlib.expect_reject(ctx, "syntax", "FileTrace", tp, key_byte, "first byte of an /XObject key changed in the file", marker="file")
    vlib.expect_reject(ctx, "syntax", "FileTrace", tp, wrong_kind, "an image resource claimed to be a form XObject", marker="file")
