"""C12 - font subsetting keeps every requested glyph intact.  Specs: specs/font/{Sfnt,Cff,MCSubset,SubsetTrace}.tla"""
import os
import struct
import vlib

LEVEL = "model_checking"


def run(ctx):
    thorough = ctx.tier == "thorough"
    ctx.rule = ("Sfnt.tla is a reader of sfnt files transcribed from the OpenType specification (table directory, head / hhea / maxp / "
                "hmtx, loca + glyf with simple glyphs - flags with repeats, short / same / long coordinates - and composite glyphs with "
                "their component records, cmap formats 4 and 12), reading the file a few bytes at a time through the file-slice "
                "primitive.  Outline(font, gid) is a glyph's shape without glyph numbers: points of a simple glyph; for a composite the "
                "placement of each component and the component's own Outline.  Cff.tla reads CFF (INDEX, DICT, Top / Private DICT, "
                "FDArray / FDSelect) and expands a Type 2 charstring into its program with every callsubr / callgsubr replaced by the "
                "subroutine's program (bias, hintmask bytes located by counting stems).  MCSubset (TLC) picks fonts of the repository "
                "(TrueType Roboto with composite accented glyphs; CFF Source Sans 3) x character sets of 1..150 characters over Latin, "
                "accented, Greek, Cyrillic, symbols, ligatures and characters the font does not map, on both sides of the skip-subsetting "
                "thresholds, and glyph-id driven subsets.  SubsetTrace (TLC) requires: the TrueType subset is well-formed (tables inside "
                "the file, loca monotone within glyf, hmtx covering maxp's glyph count); every requested character the original cmap "
                "maps has a glyph in the returned mapping whose Outline / charstring program and advance width equal the original's; "
                "characters the font does not map get none.  Non-trivial = every case; distinct by hash.")
    ctx.assumptions = ["fonts: /repo/test-pdfs/Roboto-Regular.ttf and SourceSans3-Regular.otf (the third bundled font file is empty in this checkout)",
                       "hinting instructions of TrueType glyphs are not compared (they do not change the outline); table checksums are not verified",
                       "CFF glyphs are compared as expanded charstring programs (numbers by value, operators, hint masks) minus the width argument, plus the advance width derived from it"]
    cfg = "MCSubset_thorough" if thorough else "MCSubset"
    of = os.path.join(ctx.work, "subset.out")
    res = vlib.tlc("font", "MCSubset", cfg=cfg, workers=1, timeout=900, out_file=of)
    vlib.tlc_must_pass(res, cfg)
    ctx.add_tlc(res)
    ctx.exhaustive = False
    tp = os.path.join(ctx.work, "subset.ndjson")
    fd = os.path.join(ctx.work, "fonts")
    vlib.vh(["c12", "run", "--in", of, "--out", tp, "--dir", fd], timeout=3000)

    def describe(rej, case):
        e = case[0]
        return {"class": "subset_glyph", "font": e["font"], "chars": e["chars"], "gids": e.get("gids"), "ok": e["ok"], "err": e["err"], "subsetLen": e["subsetLen"],
                "identical_to_original": e["same"], "rawCff": e["rawCff"], "mapping": e["mapping"][:40]}

    vlib.validate_cases(ctx, "font", "SubsetTrace", tp, "subsetting", describe=describe, timeout=9000, marker="subset", libs=("lib",))
    evs = vlib.read_ndjson(tp)
    by = {}
    for e in evs:
        k = "%s/%s/%s" % (e["font"], "gids" if "gids" in e else "chars", "full-font" if e["same"] else "subset")
        by[k] = by.get(k, 0) + 1
        ctx.count_case({"font": e["font"], "chars": e["chars"], "gids": e.get("gids")}, True)
    ctx.extra["cases_by_font_and_outcome"] = by
    ctx.extra["glyphs_compared"] = sum(len(e["mapping"]) for e in evs)
    for e in evs:
        if e["font"] == "roboto" and len(e["chars"]) >= 30:
            ctx.sample({"font": e["font"], "chars": e["chars"][:40], "original_length": os.path.getsize(e["orig"]), "subset_length": e["subsetLen"], "mapping": e["mapping"][:12]})
            break

    def swapped(font):
        def m(evs2):
            for e in evs2:
                if e["font"] == font and "gids" not in e and len(e["mapping"]) >= 4:
                    a, b = e["mapping"][1], e["mapping"][2]
                    a["g"], b["g"] = b["g"], a["g"]
                    return True
            return False
        return m

    def dropped(evs2):
        for e in evs2:
            if e["font"] == "roboto" and "gids" not in e and len(e["mapping"]) >= 4:
                del e["mapping"][0]
                return True
        return False

    def advance_changed(evs2):
        for e in evs2:
            if e["font"] == "roboto" and "gids" not in e and len(e["mapping"]) >= 4 and not e["same"]:
                d = bytearray(open(e["subset"], "rb").read())
                n = struct.unpack(">H", d[4:6])[0]
                for i in range(n):
                    tag, _, off, ln = struct.unpack(">4sIII", d[12 + 16 * i:28 + 16 * i])
                    if tag == b"hmtx":
                        g = e["mapping"][1]["g"]
                        d[off + 4 * g + 1] ^= 1
                p = e["subset"] + ".corrupt"
                open(p, "wb").write(bytes(d))
                e["subset"] = p
                return True
        return False

    def loca_broken(evs2):
        for e in evs2:
            if e["font"] == "roboto" and not e["same"]:
                d = bytearray(open(e["subset"], "rb").read())
                n = struct.unpack(">H", d[4:6])[0]
                for i in range(n):
                    tag, _, off, ln = struct.unpack(">4sIII", d[12 + 16 * i:28 + 16 * i])
                    if tag == b"loca":
                        d[off + ln - 1] = 255
                        d[off + ln - 2] = 255
                p = e["subset"] + ".corrupt2"
                open(p, "wb").write(bytes(d))
                e["subset"] = p
                return True
        return False

    for m, what in ((swapped("roboto"), "two TrueType glyphs swapped in the mapping"), (swapped("sourcesans"), "two CFF glyphs swapped in the mapping"),
                    (dropped, "a requested character dropped from the mapping"), (advance_changed, "one advance width of the subset changed"),
                    (loca_broken, "last loca entry of the subset beyond glyf")):
        vlib.expect_reject(ctx, "font", "SubsetTrace", tp, m, what, marker="subset", libs=("lib",))
