"""C29 - the object cache is a bounded LRU map.  Specs: specs/conc/{Lru,MCLru,LruTrace,LruLin,MCLruLin,LruLinTrace}.tla"""
import json
import os
import vlib

LEVEL = "model_checking"


def run(ctx):
    thorough = ctx.tier == "thorough"
    ctx.rule = ("B1: every history of exactly L calls (get/put/clear over 3 keys, capacities 0..4) enumerated by TLC "
                "(MCLru, Mode=hist) and every transition of the abstract state graph over 4 keys x 2 values "
                "(Mode=graph) replayed on the real LruCache with ret/len compared after each call and the "
                "eviction order probed at the end; B2: seeded random sequential histories and concurrent "
                "ObjectCache runs validated by LruTrace/LruLinTrace.  Non-trivial = the history evicts at least "
                "once (B1) / the case has >= 1 put on a full cache (B2); B1 cases are distinct by construction (leaves of the TLC enumeration / distinct transitions), B2 cases by hash.")
    ctx.assumptions = ["concurrent runs explore the schedules the OS happens to produce; the linearizability "
                       "search over each recorded history is exhaustive"]

    # 1. design-level model checking + B1 behaviours -----------------------------------------
    cfg = "MCLru_hist7" if thorough else "MCLru_hist"
    out1 = os.path.join(ctx.work, "hist.out")
    res = vlib.tlc("conc", "MCLru", cfg=cfg, workers=8 if thorough else 4, timeout=3000, out_file=out1)
    vlib.tlc_must_pass(res, cfg)
    ctx.add_tlc(res)
    res2 = vlib.tlc("conc", "MCLru", cfg="MCLru_graph", workers=1, coverage=True, out_file=os.path.join(ctx.work, "graph.out"))
    vlib.tlc_must_pass(res2, "MCLru_graph")
    ctx.add_tlc(res2)
    res3 = vlib.tlc("conc", "MCLruLin", workers=4, timeout=1800,
                    cfg="MCLruLin3" if thorough else "MCLruLin")
    vlib.tlc_must_pass(res3, "MCLruLin")
    ctx.add_tlc(res3)
    ctx.exhaustive = True

    for name in ("hist", "graph"):
        rout = os.path.join(ctx.work, name + ".replayed")
        vlib.vh(["c29", "replay", "--in", os.path.join(ctx.work, name + ".out"), "--out", rout])
        for ev in vlib.read_ndjson(rout):
            if ev["ev"] == "summary":
                ctx.evaluations += ev["cases"]
                ctx.traces += ev["cases"]
                ctx.extra["b1_%s_cases" % name] = ev["cases"]
                ctx.extra["b1_%s_with_eviction" % name] = ev["with_eviction"]
                ctx.count_distinct(name, ev["with_eviction"])
                if ev["cases"] == 0:
                    raise vlib.ToolError("TLC produced no behaviours for " + name)
            else:
                ctx.violation({"what": "LruCache diverges from Lru.tla", "source": name, "cap": ev["case"]["cap"],
                               "detail": ev["detail"], "history": ev["case"]["hist"]})
    # the replay harness counts distinct histories itself (TLC leaves are distinct by construction)
    with open(os.path.join(ctx.work, "hist.out")) as f:
        for line in f:
            if line.startswith('<<"REPLAY"'):
                ctx.sample(json.loads(json.loads(line[len('<<"REPLAY", '):-3])), limit=2)
                if len(ctx.samples) >= 2:
                    break

    # 2. B2 sequential -----------------------------------------------------------------------
    seqp = os.path.join(ctx.work, "seq.ndjson")
    vlib.vh(["c29", "record", "--seed", ctx.seed, "--cases", 60 if thorough else 20, "--len", 400 if thorough else 200,
             "--out", seqp])
    vlib.validate_cases(ctx, "conc", "LruTrace", seqp, "sequential")
    seq_cases = vlib.split_cases(vlib.read_ndjson(seqp))
    nontriv = 0
    for c in seq_cases:
        ctx.evaluations += 1
        full_put = any(e["ev"] == "put" and i > 0 and c[i - 1].get("len") == c[0]["cap"] and e["len"] == c[0]["cap"]
                       and c[0]["cap"] > 0 for i, e in enumerate(c))
        if full_put:
            ctx.nontrivial.add(vlib.canon_hash(c))
            nontriv += 1
    ctx.sample({"sequential_trace_head": seq_cases[0][:6]})

    # 3. B2 concurrent -----------------------------------------------------------------------
    for threads, ops, cases in ((2, 5, 40), (3, 4, 40)) + (((4, 4, 60), (3, 6, 60)) if thorough else ()):
        cp = os.path.join(ctx.work, "conc_%d_%d.ndjson" % (threads, ops))
        vlib.vh(["c29", "conc", "--seed", ctx.seed + threads, "--cases", cases, "--threads", threads, "--ops", ops,
                 "--stress", (150 if thorough else 40) if threads == 2 else 0, "--out", cp])
        vlib.validate_cases(ctx, "conc", "LruLinTrace", cp, "concurrent")
        cc = vlib.split_cases(vlib.read_ndjson(cp))
        ctx.extra["unlogged_stress_states_observed"] = ctx.extra.get("unlogged_stress_states_observed", 0) + sum(
            1 for c in cc for e in c if e["ev"] == "stress")
        for c in cc:
            ctx.evaluations += 1
            # non-trivial: two calls actually overlapped in real time
            open_calls, overlapped = 0, False
            for e in c:
                if e["ev"] == "inv":
                    open_calls += 1
                    overlapped = overlapped or open_calls > 1
                elif e["ev"] == "ret":
                    open_calls -= 1
            if overlapped:
                ctx.nontrivial.add(vlib.canon_hash(c))
        if threads == 3 and ops == 4:
            ctx.sample({"concurrent_trace_head": cc[0][:8]})


    # 4. B3 ---------------------------------------------------------------------------------
    def flip_ret(evs):
        for e in evs:
            if e["ev"] == "get" and e["ret"] != 0:
                e["ret"] += 1
                return True
        return False

    def flip_len(evs):
        for e in evs:
            if e["ev"] == "put" and e["len"] > 1:
                e["len"] -= 1
                return True
        return False

    def flip_conc(evs):
        for e in evs:
            if e["ev"] == "ret" and e["ret"] != 0:
                e["ret"] += 7
                return True
        return False

    vlib.expect_reject(ctx, "conc", "LruTrace", seqp, flip_ret, "get result +1")
    vlib.expect_reject(ctx, "conc", "LruTrace", seqp, flip_len, "len after put -1")
    vlib.expect_reject(ctx, "conc", "LruLinTrace", os.path.join(ctx.work, "conc_3_4.ndjson"), flip_conc, "ret value +7")
