"""C27 - page labels.  Specs: specs/doc/{PageLabels,MCPageLabels,PageLabelsTrace}.tla"""
import os
import vlib

LEVEL = "model_checking"


def describe(rej, case):
    ev = rej["event"]
    d = {"event_kind": ev.get("ev")}
    if ev.get("ev") == "probe":
        d["class"] = "panic_large_start" if ev.get("outcome") == "panic" else "probe"
        d["probe"] = {k: ev.get(k) for k in ("style", "start", "offset", "detail")}
    elif ev.get("ev") in ("dict", "filedict"):
        d["class"] = "written_dict_differs"
        d["via"] = ev.get("ev")
    elif ev.get("ev") == "label":
        d["class"] = "wrong_label"
    return d


def run(ctx):
    thorough = ctx.tier == "thorough"
    ctx.rule = ("B1: TLC (MCPageLabels) formats every number 1..MaxN in the five numeric styles and enumerates every "
                "set of <= MaxRanges ranges (6 styles x 2 prefixes x boundary starts x start pages) with the labels of "
                "pages 0..7; each label is compared with PageLabelTree::get_label (through the page index and through "
                "the range's start value).  B2: seeded random range sets with large starts/unicode prefixes; every "
                "get_label result, the to_dict projection, its from_dict round trip and the /PageLabels object of a "
                "written file are validated by PageLabelsTrace.  Non-trivial = label of a number > 26 (where the styles "
                "diverge) for B1 (distinct by construction), a case with >= 2 ranges for B2 (distinct by hash).")
    ctx.assumptions = ["labels of numbers above 2^31-1 are checked for outcome class only (TLC integers are 32-bit)",
                       "the /PageLabels object of the written file is located and tokenised with the library's own reader; "
                       "the raw /P bytes are decoded by TextString.tla"]
    cfg = "MCPageLabels_thorough" if thorough else "MCPageLabels"
    out = os.path.join(ctx.work, "b1.out")
    res = vlib.tlc("doc", "MCPageLabels", cfg=cfg, workers=8 if thorough else 4, out_file=out, timeout=3000, coverage=True)
    vlib.tlc_must_pass(res, cfg)
    ctx.add_tlc(res)
    ctx.exhaustive = True
    rout = os.path.join(ctx.work, "b1.replayed")
    vlib.vh(["c27", "replay", "--in", out, "--out", rout])
    for ev in vlib.read_ndjson(rout):
        if ev["ev"] == "summary":
            if ev["cases"] == 0:
                raise vlib.ToolError("no behaviours generated")
            ctx.evaluations += ev["labels"]
            ctx.traces += ev["cases"]
            ctx.count_distinct("fmt", ev["labels_past_26"])
            ctx.extra["b1_labels_compared"] = ev["labels"]
        else:
            ev.pop("ev")
            ev["what"] = "label differs from ISO 32000-1 12.4.2"
            ctx.violation(ev)
    with open(out) as f:
        for line in f:
            if line.startswith('<<"REPLAY"') and '\\"tree\\"' in line and '\\"page\\":2' in line:
                import json
                ctx.sample(json.loads(json.loads(line[len('<<"REPLAY", '):-3])), limit=1)
                break

    # B2
    tp = os.path.join(ctx.work, "b2.ndjson")
    vlib.vh(["c27", "record", "--seed", ctx.seed, "--cases", 150 if thorough else 40, "--out", tp])
    vlib.validate_cases(ctx, "doc", "PageLabelsTrace", tp, "recorded", describe=describe)
    cases = vlib.split_cases(vlib.read_ndjson(tp))
    for c in cases:
        ctx.evaluations += sum(1 for e in c if e["ev"] in ("label", "dict", "probe"))
        if sum(1 for e in c if e["ev"] == "add") >= 2:
            ctx.nontrivial.add(vlib.canon_hash(c))
    ctx.sample({"recorded_trace_head": cases[0][:8]})

    # B3
    def wrong_label(evs):
        for e in evs:
            if e["ev"] == "label" and e["some"] and e["text"] and e["text"][-1].isdigit():
                e["text"] = e["text"][:-1] + ("7" if e["text"][-1] != "7" else "8")
                return True
        return False

    def wrong_dict(evs):
        for e in evs:
            if e["ev"] == "dict" and e["nums"]:
                e["nums"][0]["hasSt"] = True
                e["nums"][0]["st"] = e["nums"][0]["st"] + 3
                return True
        return False

    vlib.expect_reject(ctx, "doc", "PageLabelsTrace", tp, wrong_label, "last digit of a decimal label changed")
    vlib.expect_reject(ctx, "doc", "PageLabelsTrace", tp, wrong_dict, "/St of a written range +3")
