"""C16 - page operations.  Specs: specs/doc/{PageOps,MCPageOps,PageOpsTrace}.tla, specs/syntax/PdfFile.tla"""
import os
import vlib

LEVEL = "model_checking"


def run(ctx):
    thorough = ctx.tier == "thorough"
    ctx.rule = ("PageOps.tla: every page operation as a function from the source page sequence to the produced documents (sequences of "
                "[source page, rotation it must show]); MCPageOps (TLC) checks the algebra and enumerates extract (all / single / range "
                "/ list, in and out of bounds), reorder (including repeats and omissions), reverse, swap, move, rotate (90/180/270 over "
                "every range), split by single pages / chunk size / split points / ranges, for 1..MaxPages pages.  The real operations "
                "run on a synthesized source with non-zero box origins, inherited MediaBox and /Rotate, rotations -90 and 450, a "
                "CropBox and per-page font keys; every produced file is read by PdfFile.tla inside TLC and by the library and must be "
                "the prescribed sequence (source page identified by its content; MediaBox with origin, CropBox, font key, rotation = "
                "original + requested mod 360); out-of-bounds requests must be refused; the parts of a split merged back must be the "
                "original.  Non-trivial = operation on a source of at least two pages; distinct by hash.")
    ctx.assumptions = ["sources are written by the harness' own serializer (synth)", "chunk size 0, invalid split points and ranges with start > end are not generated"]
    cfg = "MCPageOps_thorough" if thorough else "MCPageOps"
    of = os.path.join(ctx.work, "ops.out")
    res = vlib.tlc("doc", "MCPageOps", cfg=cfg, workers=1, timeout=900, out_file=of)
    vlib.tlc_must_pass(res, cfg)
    ctx.add_tlc(res)
    ctx.exhaustive = True
    tp = os.path.join(ctx.work, "ops.ndjson")
    vlib.vh(["c16", "run", "--in", of, "--dir", os.path.join(ctx.work, "files"), "--out", tp, "--stride", 1], timeout=3000)

    def describe(rej, case):
        c = case[0]
        d = {"class": rej["event"].get("ev"), "pages": c["n"], "operation": c["op"], "outcome": c["outcome"], "error": c["err"], "documents_produced": c["outputs"]}
        outs = [e for e in case if e["ev"] in ("out", "merged")]
        d["library_reading"] = [[{k: p.get(k) for k in ("shows", "mediaBox", "cropBox", "rotate")} for p in o["lib"]["pages"]] for o in outs][:4]
        return d

    vlib.validate_cases(ctx, "doc", "PageOpsTrace", tp, "pageop", describe=describe, timeout=6000, marker="op")
    cases = vlib.split_cases(vlib.read_ndjson(tp), marker="op")
    for c in cases:
        ctx.count_case([c[0]["n"], c[0]["op"]], c[0]["n"] >= 2)
    for c in cases:
        if c[0]["op"]["k"] == "move" and c[0]["n"] == 3 and c[0]["outcome"] == "ok":
            ctx.sample({"pages": 3, "op": c[0]["op"], "library_reading": [{k: p.get(k) for k in ("shows", "mediaBox", "rotate")} for p in c[1]["lib"]["pages"]]})
            break

    def box(evs):
        for e in evs:
            if e["ev"] == "out" and e["lib"]["pages"]:
                e["lib"]["pages"][0]["mediaBox"][0] = 0
                return True
        return False

    def order(evs):
        for e in evs:
            if e["ev"] == "out" and len(e["lib"]["pages"]) >= 2 and e["lib"]["pages"][0]["shows"] != e["lib"]["pages"][1]["shows"]:
                p = e["lib"]["pages"]
                p[0]["shows"], p[1]["shows"] = p[1]["shows"], p[0]["shows"]
                return True
        return False

    def accepted(evs):
        for i, e in enumerate(evs):
            if e["ev"] == "op" and e["outcome"] == "err":
                e["outcome"] = "ok"
                return True
        return False

    vlib.expect_reject(ctx, "doc", "PageOpsTrace", tp, box, "MediaBox origin of a produced page set to 0", marker="op")
    vlib.expect_reject(ctx, "doc", "PageOpsTrace", tp, order, "two produced pages swapped in the library's reading", marker="op")
    vlib.expect_reject(ctx, "doc", "PageOpsTrace", tp, accepted, "an out-of-bounds request reported as done", marker="op")
