"""C01 - reading any byte sequence never crashes, hangs or exhausts memory.
Specs: specs/robust/{FaultGrammar,MCFaults,RobustTrace}.tla"""
import json
import os
import subprocess
import time
import vlib

LEVEL = "model_checking"
PRESETS = ["strict", "default", "tolerant", "lenient", "skip_errors"]


def run_cases(bases, cases_path, trace, work, seed, ncases, wall_per_case=120, vh=None):
    """Drive `vh c01 run`; a dead or stuck worker is data: the case in flight gets the outcome "abort" / "timeout"
    under every preset, and the worker is restarted behind it."""
    prog = os.path.join(work, "progress")
    if os.path.exists(trace):
        os.remove(trace)
    start = 0
    deaths = 0
    while start < ncases:
        with open(prog, "w") as f:
            f.write("%d\n" % start)
        p = subprocess.Popen([vh or vlib.VH, "c01", "run", "--bases", bases, "--in", cases_path, "--out", trace, "--progress", prog, "--from", str(start), "--seed", str(seed)],
                             stdout=subprocess.DEVNULL, stderr=subprocess.PIPE, preexec_fn=lambda: __import__("resource").setrlimit(__import__("resource").RLIMIT_AS, (4 << 30, 4 << 30)))
        last, last_t, why = None, time.time(), None
        while True:
            try:
                p.wait(timeout=2)
                break
            except subprocess.TimeoutExpired:
                cur = open(prog).read().strip()
                if cur != last:
                    last, last_t = cur, time.time()
                elif time.time() - last_t > wall_per_case:
                    p.kill()
                    p.wait()
                    why = "timeout"
                    break
        cur = open(prog).read().strip()
        if cur == "done" and p.returncode == 0:
            return deaths
        if p.returncode == 2:
            raise vlib.ToolError("vh c01 run: " + p.stderr.read().decode()[-2000:])
        ci = int(cur.split(":")[0])
        deaths += 1
        if deaths > 200:
            raise vlib.ToolError("the worker died more than 200 times")
        err = p.stderr.read().decode(errors="replace")[-400:]
        case = None
        with open(cases_path) as f:
            k = -1
            for line in f:
                if line.startswith('<<"REPLAY"') or line.startswith("{"):
                    k += 1
                    if k == ci:
                        case = line
                        break
        c = json.loads(json.loads(case[len('<<"REPLAY", '):-3])) if case.startswith("<<") else json.loads(case)
        out = why or "abort"
        ev = {"ev": "case", "case": ci, "base": c["base"], "faults": c["faults"], "len": 0, "outcomes": {p_: out for p_ in PRESETS}, "cpu_ms": 0, "peak_kb": 0,
              "died": "signal %s" % (-p.returncode) if p.returncode and p.returncode < 0 else ("exit %s" % p.returncode), "stderr": err}
        with open(trace, "a") as f:
            f.write(json.dumps(ev, separators=(",", ":")) + "\n")
        start = ci + 1
    return deaths


def validate_robust(ctx, trace_path, bases_events, kind):
    """RobustTrace (TLC) judges every case; a rejected case is recorded and taken out, the rest is validated again."""
    evs = vlib.read_ndjson(trace_path)
    rounds = 0
    while True:
        tp = trace_path + ".v%d" % rounds
        vlib.write_ndjson(tp, bases_events + evs)
        ok, rej, res = vlib.trace_validate("robust", "RobustTrace", tp, timeout=3000)
        ctx.add_tlc(res)
        if ok:
            return
        idx = rej["idx"] - 1 - len(bases_events)
        if idx < 0 or idx >= len(evs):
            raise vlib.ToolError("RobustTrace rejected a base event: %s" % json.dumps(rej)[:400])
        e = evs[idx]
        bad = {p: o for p, o in e["outcomes"].items() if o not in ("ok", "err")}
        rec = {"what": "the reader did not answer with a value or an error", "kind": kind, "class": "reader_" + (sorted(set(bad.values()))[0] if bad else "budget"),
               "bomb": e["faults"][0].get("name", "") if e["faults"][0]["k"] == "bomb" else "",
               "base": e["base"], "faults": e["faults"], "outcomes": e["outcomes"], "panics": e.get("panics", {}), "died": e.get("died"), "stderr": e.get("stderr"),
               "cpu_ms": e["cpu_ms"], "peak_kb": e["peak_kb"], "problems": [v for tag, v in res.prints if tag == "PROBLEMS"][-1:],
               "reproduce": "vh c01 run --bases work/C01/bases.ndjson --in <file with this case as one JSON line {base, faults}> --out t --progress p"}
        ctx.violation(rec)
        del evs[idx]
        rounds += 1
        if rounds > 25:
            return


def run(ctx):
    thorough = ctx.tier == "thorough"
    ctx.rule = ("FaultGrammar.tla defines the hostile inputs: base files of known structure (every decoding filter with its parameters, "
                "predictors, strings with octal and hex escapes, rotated pages, two revisions chained by /Prev with free entries, a "
                "cross-reference stream with /W /Index and an uncompressed object stream with /N /First, a library-written file) with "
                "their NUMERIC SLOTS - every number token a reader interprets, labelled by what it feeds - and the faults: a slot "
                "overwritten by a boundary literal of its class (-1, 0, 2^8, 2^16, 2^31-1, 2^31, 2^32-1, 2^32, 2^63-1, 2^63, 2^64, 2^128, their "
                "negatives, reals, signs alone; octal 400/777, hex strings of odd length, ASCII85 groups above 2^32-1), truncation, "
                "deletion, duplication, zeroing, 0xFF-filling and bit-flipping of ranges at 64 positions, structural keywords replaced, "
                "random bytes with and without a header, pairs of slot faults, the startxref block moved in front of the cross-reference section it "
                "names with that section cut after 0-12 lines (a valid pointer into a section that ends with the file), and small valid "
                "files with a run of 4 000 or 200 000 skipped tokens (comment, blank, line end, NUL) at each of 16 syntactic places.  MCFaults (TLC) enumerates the cases; the harness "
                "applies each to its base and navigates the result under the five presets (open, page count, metadata, catalog, each page, "
                "resources, annotations, content streams, text extraction with and without layout, every stream object decoded) on a thread "
                "with an 8 MB stack, with processor time and peak live memory measured.  RobustTrace (TLC) requires of every recorded case "
                "that its faults are faults of the grammar and that the answer under every preset is a value or an error - not a panic, "
                "not a dead process, not a timeout - within 60 s of processor time and 1 GB + 64 x input of live memory.  Non-trivial = "
                "every case; distinct by hash.")
    ctx.assumptions = ["the library-written base with object streams is not used: its cross-reference stream has a million entries (object stream number 1000000) and costs 10-20 s per read in the unoptimised build",
                       "budgets are those of a build with the library at opt-level 1, overflow and debug assertions on; inputs are a few KB; the thorough tier repeats the stack-depth families (runs, bombs, self-referential and deeply nested bodies) on a build with the library at opt-level 0",
                       "a process killed by a signal (stack overflow, abort on allocation failure) or stuck for 120 s wall time is recorded as the answer of the case in flight"]
    bases = os.path.join(ctx.work, "bases.ndjson")
    vlib.vh(["c01", "bases", "--out", bases])
    base_events = []
    bt = os.path.join(ctx.work, "bases_tlc.ndjson")
    with open(bt, "w") as f:
        for b in vlib.read_ndjson(bases):
            rec = {"name": b["name"], "nslots": b["nslots"], "classes": [s["class"] for s in b["slots"]], "ntails": b["ntails"], "nbodies": b["nbodies"], "nrefs": b["nrefs"]}
            f.write(json.dumps(rec) + "\n")
            base_events.append(dict(rec, ev="base"))
            ctx.extra.setdefault("bases", {})[b["name"]] = {"bytes": b["len"], "slots": b["nslots"], "slot_classes": b["classes"]}
    res = vlib.tlc("robust", "FaultGrammar", cfg="FaultGrammarMC", workers=1, timeout=300)
    vlib.tlc_must_pass(res, "FaultGrammarMC")
    ctx.add_tlc(res)
    cfg = "MCFaults_thorough" if thorough else "MCFaults"
    of = os.path.join(ctx.work, "faults.out")
    res = vlib.tlc("robust", "MCFaults", cfg=cfg, workers=1, env={"BASES": bt}, timeout=1800, out_file=of)
    vlib.tlc_must_pass(res, cfg)
    ctx.add_tlc(res)
    ctx.exhaustive = False
    n = sum(1 for l in open(of) if l.startswith('<<"REPLAY"'))
    if n < 1000:
        raise vlib.ToolError("fault catalogue too small: %d" % n)
    tp = os.path.join(ctx.work, "robust.ndjson")
    deaths = run_cases(bases, of, tp, ctx.work, ctx.seed, n, wall_per_case=900 if thorough else 240)
    ctx.extra["worker_deaths"] = deaths
    validate_robust(ctx, tp, base_events, "fault-case")
    if thorough:
        # the stack-depth families once more on a build with the library at opt-level 0 (cargo's default for a user's debug
        # build): recursion that an optimised build turns into a loop is still recursion there
        vh0 = vlib.build_harness_unoptimised()
        sub = []
        for l in open(of):
            if l.startswith('<<"REPLAY"'):
                c = json.loads(json.loads(l[len('<<"REPLAY", '):-3]))
                ks = [f["k"] for f in c["faults"]]
                if "run" in ks or "bomb" in ks or any(f["k"] == "body" and f["val"] in ("deep", "deepdict", "self", "next") for f in c["faults"]):
                    sub.append(c)
        of0 = os.path.join(ctx.work, "faults0.ndjson")
        vlib.write_ndjson(of0, sub)
        tp0 = os.path.join(ctx.work, "robust0.ndjson")
        deaths0 = run_cases(bases, of0, tp0, ctx.work, ctx.seed, len(sub), wall_per_case=900, vh=vh0)
        ctx.extra["unoptimised_pass"] = {"cases": len(sub), "worker_deaths": deaths0}
        validate_robust(ctx, tp0, base_events, "fault-case-unoptimised-build")
        ctx.traces += 1
        for e in vlib.read_ndjson(tp0):
            ctx.count_case({"base": e["base"], "faults": e["faults"], "build": "opt-level 0"}, True)
    ctx.traces += 1
    evs = vlib.read_ndjson(tp)
    if len(evs) != n:
        raise vlib.ToolError("recorded %d cases of %d" % (len(evs), n))
    kinds, answers = {}, {}
    classes = {}
    slotclass = {b["name"]: b["classes"] for b in base_events}
    for e in evs:
        k = "+".join(f["k"] for f in e["faults"])
        kinds[k] = kinds.get(k, 0) + 1
        for f in e["faults"]:
            if f["k"] == "slot":
                c = slotclass[e["base"]][f["slot"]]
                classes[c] = classes.get(c, 0) + 1
        for p, o in e["outcomes"].items():
            answers[o] = answers.get(o, 0) + 1
        ctx.count_case({"base": e["base"], "faults": e["faults"]}, True)
    ctx.extra["cases_by_fault_kind"] = kinds
    ctx.extra["slot_faults_by_class"] = classes
    ctx.extra["answers"] = answers
    ctx.extra["max_cpu_ms"] = max(e["cpu_ms"] for e in evs)
    ctx.extra["max_peak_kb"] = max(e["peak_kb"] for e in evs)
    if answers.get("err", 0) == 0 or answers.get("ok", 0) == 0:
        raise vlib.ToolError("vacuous run: answers %s" % answers)
    for e in evs:
        if e["outcomes"]["strict"] == "err" and e["outcomes"]["lenient"] == "ok":
            ctx.sample({"base": e["base"], "faults": e["faults"], "outcomes": e["outcomes"], "cpu_ms": e["cpu_ms"], "peak_kb": e["peak_kb"]})
            break

    # B3: the acceptance is not vacuous
    def panic_answer(evs2):
        for e in evs2:
            if e.get("ev") == "case":
                e["outcomes"]["tolerant"] = "panic"
                return True
        return False

    def dead_worker(evs2):
        for e in evs2:
            if e.get("ev") == "case":
                for p in e["outcomes"]:
                    e["outcomes"][p] = "abort"
                return True
        return False

    def over_time(evs2):
        for e in evs2:
            if e.get("ev") == "case":
                e["cpu_ms"] = 61000
                return True
        return False

    def over_memory(evs2):
        for e in evs2:
            if e.get("ev") == "case":
                e["peak_kb"] = 3000000
                return True
        return False

    def outside_grammar(evs2):
        for e in evs2:
            if e.get("ev") == "case" and e["faults"][0]["k"] == "slot":
                e["faults"][0]["val"] = "12345"
                return True
        return False

    small = os.path.join(ctx.work, "robust_b3.ndjson")
    vlib.write_ndjson(small, base_events + evs[:40])
    for m, what in ((panic_answer, "answer 'panic' under one preset"), (dead_worker, "process died on a case"), (over_time, "processor time beyond the budget"),
                    (over_memory, "live memory beyond the budget"), (outside_grammar, "a fault that is not of the grammar")):
        vlib.expect_reject(ctx, "robust", "RobustTrace", small, m, what, marker="nomarker")
