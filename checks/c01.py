"""C01 - reading any byte sequence never crashes, hangs or exhausts memory.
Specs: specs/robust/{FaultGrammar,MCFaults,RobustTrace}.tla"""
import json
import os
import subprocess
import time
import vlib

LEVEL = "model_checking"
PRESETS = ["strict", "default", "tolerant", "lenient", "skip_errors"]


def run_cases(bases, cases_path, trace, work, seed, ncases, wall_per_case=120):
    """Drive `vh c01 run`; a dead or stuck worker is data: the case in flight gets the outcome "abort" / "timeout"
    under every preset, and the worker is restarted behind it."""
    prog = os.path.join(work, "progress")
    if os.path.exists(trace):
        os.remove(trace)
    start = 0
    deaths = 0
    while start < ncases:
        with open(prog, "w") as f:
            f.write("%d\n" % start)
        p = subprocess.Popen([vlib.VH, "c01", "run", "--bases", bases, "--in", cases_path, "--out", trace, "--progress", prog, "--from", str(start), "--seed", str(seed)],
                             stdout=subprocess.DEVNULL, stderr=subprocess.PIPE, preexec_fn=lambda: __import__("resource").setrlimit(__import__("resource").RLIMIT_AS, (8 << 30, 8 << 30)))
        last, last_t, why = None, time.time(), None
        while True:
            try:
                p.wait(timeout=2)
                break
            except subprocess.TimeoutExpired:
                cur = open(prog).read().strip()
                if cur != last:
                    last, last_t = cur, time.time()
                elif time.time() - last_t > wall_per_case:
                    p.kill()
                    p.wait()
                    why = "timeout"
                    break
        cur = open(prog).read().strip()
        if cur == "done" and p.returncode == 0:
            return deaths
        if p.returncode == 2:
            raise vlib.ToolError("vh c01 run: " + p.stderr.read().decode()[-2000:])
        ci = int(cur)
        deaths += 1
        if deaths > 200:
            raise vlib.ToolError("the worker died more than 200 times")
        err = p.stderr.read().decode(errors="replace")[-400:]
        case = None
        with open(cases_path) as f:
            k = -1
            for line in f:
                if line.startswith('<<"REPLAY"') or line.startswith("{"):
                    k += 1
                    if k == ci:
                        case = line
                        break
        c = json.loads(json.loads(case[len('<<"REPLAY", '):-3])) if case.startswith("<<") else json.loads(case)
        out = why or "abort"
        ev = {"ev": "case", "case": ci, "base": c["base"], "faults": c["faults"], "len": 0, "outcomes": {p_: out for p_ in PRESETS}, "cpu_ms": 0, "peak_kb": 0,
              "died": "signal %s" % (-p.returncode) if p.returncode and p.returncode < 0 else ("exit %s" % p.returncode), "stderr": err}
        with open(trace, "a") as f:
            f.write(json.dumps(ev, separators=(",", ":")) + "\n")
        start = ci + 1
    return deaths
