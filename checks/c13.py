"""C13 - text in embedded fonts is recoverable exactly.  Specs: specs/font/{Sfnt,Cff,FontEmbed,MCEmbed,EmbedTrace}.tla + specs/syntax/PdfFile.tla"""
import os
import vlib

LEVEL = "model_checking"


def run(ctx):
    thorough = ctx.tier == "thorough"
    ctx.rule = ("FontEmbed.tla reads, with the reference file reader PdfFile.tla and the font readers Sfnt.tla / Cff.tla, everything a "
                "consumer of embedded-font text needs from the written file: the page's show operators and their fonts, the Type0 "
                "font and its descendant CIDFont, /W and /DW, /CIDToGIDMap, the ToUnicode CMap (bfchar and bfrange sections, UTF-16 "
                "surrogates), the CFF charset, and the embedded program (FontFile2 TrueType, FontFile3 bare CFF).  MCEmbed (TLC) "
                "generates pages of lines (TrueType Roboto, CFF Source Sans 3, standard Helvetica; sizes; strings over Latin, "
                "accented Latin, Greek, Cyrillic, punctuation with repeated characters; both custom fonts on one page; two pages) x four "
                "writer configurations.  EmbedTrace (TLC) requires for every authored line: the shown codes mapped through ToUnicode "
                "are the author's text (the specification is the independent extractor); every code's glyph exists in the embedded "
                "program and is the ORIGINAL font's glyph for that character (same outline / charstring program); the declared width "
                "equals the glyph's advance in thousandths of the em (within one unit); and the library's extractor returns the "
                "author's characters page by page.  Non-trivial = every document; distinct by hash.")
    ctx.assumptions = ["fonts: Roboto (TrueType) and Source Sans 3 (CFF); the bundled CJK font file is empty in this checkout, so CJK / astral repertoires are not exercised",
                       "text is compared on its non-white-space characters for the library's extractor, exactly for the ToUnicode reading",
                       "declared widths may differ from advance x 1000 / unitsPerEm by rounding (one unit)"]
    cfg = "MCEmbed_thorough" if thorough else "MCEmbed"
    of = os.path.join(ctx.work, "embed.out")
    res = vlib.tlc("font", "MCEmbed", cfg=cfg, workers=1, timeout=900, out_file=of)
    vlib.tlc_must_pass(res, cfg)
    ctx.add_tlc(res)
    ctx.exhaustive = False
    tp = os.path.join(ctx.work, "embed.ndjson")
    vlib.vh(["c13", "run", "--in", of, "--out", tp], timeout=3000)

    def describe(rej, case):
        e = case[0]
        return {"class": "embedded_font_text", "cfg": e["cfg"], "ok": e["ok"], "err": e["err"], "file_length": len(e["bytes"]),
                "pages": [[{"font": ln["font"], "size": ln["size"], "text": "".join(chr(c) for c in ln["text"])} for ln in pg] for pg in e["pages"]],
                "library_text": ["".join(chr(c) for c in t) for t in e["libText"]]}

    vlib.validate_cases(ctx, "font", "EmbedTrace", tp, "embedded-font-document", describe=describe, timeout=9000, marker="file", libs=("lib", "syntax"))
    evs = [e for e in vlib.read_ndjson(tp) if e["ev"] == "file"]
    nl = 0
    for e in evs:
        nl += sum(len(pg) for pg in e["pages"])
        ctx.count_case({"pages": e["pages"], "cfg": e["cfg"]}, True)
    ctx.extra["documents"] = len(evs)
    ctx.extra["lines"] = nl
    ctx.extra["characters_in_custom_fonts"] = sum(len(ln["text"]) for e in evs for pg in e["pages"] for ln in pg if ln["font"] != "helvetica")
    ctx.sample({"pages": [[{"font": ln["font"], "text": "".join(chr(c) for c in ln["text"])} for ln in pg] for pg in evs[0]["pages"]], "file_length": len(evs[0]["bytes"]),
                "library_text": ["".join(chr(c) for c in t) for t in evs[0]["libText"]]})

    def custom_line(e):
        for pi, pg in enumerate(e["pages"]):
            for li, ln in enumerate(pg):
                if ln["font"] != "helvetica" and len(ln["text"]) >= 3:
                    return pi, li
        return None

    def text_changed(evs2):
        for e in evs2:
            if e["ev"] == "file" and custom_line(e):
                pi, li = custom_line(e)
                e["pages"][pi][li]["text"][1] = 1 + e["pages"][pi][li]["text"][1] % 120 + 33 if e["pages"][pi][li]["text"][1] != 66 else 67
                return True
        return False

    def width_changed(evs2):
        for e in evs2:
            if e["ev"] == "file" and not e["cfg"]["compress"] and not e["cfg"]["objstm"]:
                b = bytes(e["bytes"])
                i = b.find(b"/W [")
                if i < 0:
                    continue
                j = b.find(b"[", i + 4)
                if b[j + 1:j + 2].isdigit():
                    e["bytes"][j + 1] = ord("9") if b[j + 1] != ord("9") else ord("1")
                    return True
        return False

    def tounicode_changed(evs2):
        for e in evs2:
            if e["ev"] == "file" and not e["cfg"]["compress"] and not e["cfg"]["objstm"]:
                b = bytes(e["bytes"])
                i = b.find(b"beginbfchar")
                if i < 0:
                    i = b.find(b"beginbfrange")
                if i < 0:
                    continue
                j = b.find(b"> <", i)
                e["bytes"][j + 6] = ord("F") if b[j + 6] != ord("F") else ord("E")
                return True
        return False

    def lib_text_changed(evs2):
        for e in evs2:
            if e["ev"] == "file" and e["libText"] and len(e["libText"][0]) > 2:
                e["libText"][0][0] = 63 if e["libText"][0][0] != 63 else 64
                return True
        return False

    for m, what in ((text_changed, "authored text differs in one character"), (width_changed, "one declared width changed in the file"),
                    (tounicode_changed, "one ToUnicode target changed in the file"), (lib_text_changed, "library extraction differs in one character")):
        vlib.expect_reject(ctx, "font", "EmbedTrace", tp, m, what, marker="file", libs=("lib", "syntax"))
