"""C11 - text extraction conserves every drawn character.  Specs: specs/text/{TextShow,MCText,TextTrace}.tla"""
import os
import vlib

LEVEL = "model_checking"


def run(ctx):
    thorough = ctx.tier == "thorough"
    ctx.rule = ("TextShow.tla says what a page SHOWS: a page program over BT/ET, Tf Td TD Tm T* Tc Tw Tz TL Ts Tr, the show operators Tj TJ ' \", "
                "q/Q/cm, form XObjects invoked with Do (shown each time, nested), /Artifact scopes (BMC and BDC forms), /Span scopes and "
                "/ActualText replacement; strings of a simple font with WinAnsiEncoding and of a Type0/Identity-H font whose ToUnicode CMap "
                "maps CIDs to one, several (ligature) or supplementary-plane code points.  Shown(program, include_artifacts) is the sequence "
                "of characters shown; positions and matrices do not enter it.  MCText (TLC) generates programs of eight families (line "
                "moves, kerned TJ arrays, ' and \" with spacing/scaling/rise/render modes, Tm and cm with rotation, mirroring and shear "
                "under nested q/Q, composite font mixed with simple font, forms shown twice and forms showing forms, marked content, dense "
                "overlapping shows) with the ExtractionOptions combinations to run (all 128 for every seventh case).  The harness "
                "serializes each program with its own serializer into a file built by synth, extracts twice per combination; TextTrace "
                "(TLC) requires the multiset of non-whitespace characters extracted to equal that of Shown, and the second extraction to "
                "equal the first.  Non-trivial = every (case, options) pair; distinct by hash.")
    ctx.assumptions = ["the alphabets contain no hyphen (merge_hyphenated removes line-end hyphens by design) and no invisible render modes (Tr 3, 7)",
                       "text stays on a 2000 x 2000 page; fonts are not embedded (Helvetica; a Type0 font described by its dictionaries and ToUnicode only)",
                       "an /ActualText scope contributes its replacement text once, and nothing of what is shown inside it; artifacts are excluded unless include_artifacts"]
    cfg = "MCText_thorough" if thorough else "MCText"
    of = os.path.join(ctx.work, "text.out")
    res = vlib.tlc("text", "MCText", cfg=cfg, workers=1, timeout=900, out_file=of)
    vlib.tlc_must_pass(res, cfg)
    ctx.add_tlc(res)
    ctx.exhaustive = False
    tp = os.path.join(ctx.work, "text.ndjson")
    vlib.vh(["c11", "run", "--in", of, "--out", tp], timeout=3000)

    def describe(rej, case):
        e = case[0]
        return {"class": "text_not_conserved", "content_stream": e["content"][:1500], "forms": {k: len(v) for k, v in e["forms"].items()},
                "runs": [{"bits": r["bits"], "text": "".join(chr(c) for c in r["first"]["text"])[:300], "err": r["first"]["err"], "again": r["again"]} for r in e["runs"][:6]]}

    vlib.validate_cases(ctx, "text", "TextTrace", tp, "page-program", describe=describe, timeout=6000, marker="page")
    evs = vlib.read_ndjson(tp)
    pairs = 0
    for e in evs:
        for r in e["runs"]:
            pairs += 1
            ctx.count_case({"prog": e["prog"], "bits": r["bits"]}, True)
    ctx.extra["cases"] = len(evs)
    ctx.extra["case_option_pairs"] = pairs
    for e in evs:
        if e["forms"].get("Fm1"):
            ctx.sample({"content_stream": e["content"][:600], "extracted_default": "".join(chr(c) for c in e["runs"][0]["first"]["text"])})
            break

    def lost(evs2):
        for e in evs2:
            r = e["runs"][1]["first"]["text"]
            for i, c in enumerate(r):
                if c > 32:
                    del r[i]
                    return True
        return False

    def doubled(evs2):
        for e in evs2:
            r = e["runs"][0]["first"]["text"]
            r.append(r[0] if r[0] > 32 else 65)
            return True
        return False

    def unstable(evs2):
        evs2[0]["runs"][2]["again"] = False
        return True

    def artifact_leak(evs2):
        for e in evs2:
            if any(it["k"] == "artifact" for it in e["prog"]):
                for r in e["runs"]:
                    if (r["bits"] // 32) % 2 == 0:
                        r["first"]["text"] += [72, 69, 65, 68, 69, 82, 55]
                        return True
        return False

    for m, what in ((lost, "one extracted character removed"), (doubled, "one extracted character doubled"), (unstable, "second extraction differs"),
                    (artifact_leak, "artifact text present although artifacts are excluded")):
        vlib.expect_reject(ctx, "text", "TextTrace", tp, m, what, marker="page")
