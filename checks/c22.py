"""C22 - batch processing.  Specs: specs/conc/{Batch,MCBatch,BatchTrace}.tla; hooks in /repo batch/worker.rs"""
import json
import os
import subprocess
import vlib

LEVEL = "model_checking"


def cfg_key(c):
    return (c["n"], c["w"], tuple(c["outcome"]), c["stopOnError"], c["preCancel"])


def run_vh_resumable(ctx, args, out, total_hint, what):
    """Run a harness mode that may exit 3 when the library hangs (watchdog); record the hang and resume."""
    skip = 0
    hangs = 0
    while True:
        a = list(args) + ["--out", out] + (["--skip", skip] if skip else [])
        rc, so, se = vlib.vh(a, check=False, timeout=3600)
        if rc == 0:
            return
        if rc != 3:
            raise vlib.ToolError("vh %s exited %d: %s" % (what, rc, se[-2000:]))
        evs = vlib.read_ndjson(out)
        hang = [e for e in evs if e["ev"] == "hang"][-1]
        hangs += 1
        ctx.violation({"what": "batch execution did not terminate within 20 s (hang)", "class": "hang",
                       "mode": what, "config": hang.get("config")})
        skip = hang["case"] + 1
        if hangs > 5:
            return


def run(ctx):
    thorough = ctx.tier == "thorough"
    ctx.rule = ("Batch.tla explored exhaustively by TLC (all outcome vectors ok/err/panic x stop_on_error x pre-cancel x "
                "user cancel at any point, all interleavings of dispatcher, W workers and collector) with the C22 invariants "
                "and termination under weak fairness.  B1: for every configuration the set of final summaries Batch allows "
                "is computed by TLC; BatchProcessor::execute is run on each configuration (custom and built-in jobs, "
                "perturbed timing, several repetitions) and the observed summary/progress/op-runs must be in the set.  "
                "B2: executions of WorkerPool::process_jobs recorded at the hooked linearization points (exact order) are "
                "validated by BatchTrace with the invariants evaluated at every step.  Non-trivial: B1 configuration with a "
                "failing or panicking job; B2 execution in which two jobs were in flight at the same time.")
    ctx.assumptions = ["free-running executions explore the schedules produced by the OS plus seeded sleeps/yields at every hook "
                       "gate; the exhaustive interleaving coverage is on the model",
                       "hooks serialise the hooked critical sections under one global lock (exact event order); this removes "
                       "no behaviour of the pool, only simultaneity of individual atomic steps"]
    # 1. design ------------------------------------------------------------------------------------------------
    mcs = ["MCBatch_2_2", "MCBatch_3_1"] + (["MCBatch_3_2"] if thorough else [])
    for c in mcs:
        res = vlib.tlc("conc", "MCBatch", cfg=c, workers=8, timeout=3000, out_file=os.path.join(ctx.work, c + ".out"),
                       coverage=(c == "MCBatch_2_2"))
        vlib.tlc_must_pass(res, c)
        ctx.add_tlc(res)
    finals = ["MCBatchFinal_2_1", "MCBatchFinal_2_2", "MCBatchFinal_3_1", "MCBatchFinal_3_2"] + (["MCBatchFinal_3_3"] if thorough else [])
    allowed = {}
    for c in finals:
        of = os.path.join(ctx.work, c + ".out")
        res = vlib.tlc("conc", "MCBatch", cfg=c, workers=8, timeout=3000, out_file=of)
        vlib.tlc_must_pass(res, c)
        ctx.add_tlc(res)
        with open(of) as f:
            for line in f:
                if line.startswith('<<"REPLAY"'):
                    r = json.loads(json.loads(line[len('<<"REPLAY", '):-3]))
                    allowed.setdefault(cfg_key(r), set()).add(json.dumps(
                        {k: r[k] for k in ("results", "successful", "failed", "running", "completed", "failedJobs", "opRuns")},
                        sort_keys=True))
    ctx.exhaustive = True
    ctx.extra["b1_configurations"] = len(allowed)

    # 2. B1: final outcomes of BatchProcessor::execute -------------------------------------------------------------
    cfgs = os.path.join(ctx.work, "configs.ndjson")
    keys = sorted(allowed.keys(), key=lambda k: json.dumps(k))
    vlib.write_ndjson(cfgs, [{"n": k[0], "w": k[1], "outcome": list(k[2]), "stopOnError": k[3], "preCancel": k[4]} for k in keys])
    fo = os.path.join(ctx.work, "finals.ndjson")
    run_vh_resumable(ctx, ["c22", "final", "--in", cfgs, "--dir", os.path.join(ctx.work, "files"), "--reps", 4 if thorough else 2],
                     fo, len(keys), "final")
    nfinal = 0
    for ev in vlib.read_ndjson(fo):
        if ev["ev"] == "hang":
            continue
        c = ev["config"]
        k = cfg_key(c)
        ctx.count_case(["final", ev["kind"], c], any(o != "ok" for o in c["outcome"]))
        if ev["ev"] == "final_error":
            ctx.violation({"what": "execute() returned an error", "class": "execute_error", "config": c, "msg": ev["msg"]})
            continue
        nfinal += 1
        prog = ev["progress"] or {"running": None, "completed": None, "failedJobs": None}
        obs = {"results": ev["results"], "successful": ev["successful"], "failed": ev["failed"], "running": prog["running"],
               "completed": prog["completed"], "failedJobs": prog["failedJobs"], "opRuns": ev["opRuns"]}
        ok = False
        for a in allowed[k]:
            al = json.loads(a)
            if ev["kind"] == "builtin":
                # whether a failing built-in job "ran" is not observable (no output file either way)
                al["opRuns"] = [x if o == "ok" else -1 for x, o in zip(al["opRuns"], c["outcome"])]
            if al == obs and ev["total"] == c["n"]:
                ok = True
                break
        if not ok:
            cls = "missing_results" if len(ev["results"]) != c["n"] else "final_state_not_allowed"
            ctx.violation({"what": "final summary is not one Batch.tla allows for this configuration", "class": cls,
                           "jobs": ev["kind"], "config": c, "observed": obs, "total_jobs": ev["total"],
                           "allowed_count": len(allowed[k])})
        if nfinal == 5:
            ctx.sample({"b1_final": {"config": c, "observed": obs}})
    ctx.traces += nfinal
    ctx.extra["b1_final_runs"] = nfinal

    # 2b. unlogged stress: only the final state is observed; it must satisfy OneResultEach and CountsMatch ---------
    sp = os.path.join(ctx.work, "stress.ndjson")
    vlib.vh(["c22", "stress", "--batches", 12000 if thorough else 3000, "--out", sp], timeout=1800)
    sevs = vlib.read_ndjson(sp)
    hung = [e for e in sevs if e["ev"] == "hang"]
    for e in hung[:3]:
        ctx.violation({"what": "execute() did not return within 20 s", "class": "hang", "config": e})
    finals_only = [e for e in sevs if e["ev"] == "stress_final"]
    vlib.write_ndjson(sp, finals_only)
    ok_s, rej_s, res_s = vlib.trace_validate("conc", "BatchTrace", sp)
    ctx.add_tlc(res_s)
    ctx.traces += len(finals_only)
    ctx.evaluations += len(finals_only)
    ctx.extra["unlogged_stress_batches"] = len(finals_only)
    if not ok_s:
        ctx.violation({"what": "final state of a batch (16 succeeding jobs, 4 workers, synchronized completion) violates OneResultEach/CountsMatch",
                       "class": "stress_final_state", "observed": rej_s["event"]})

    # 3. B2: recorded executions ---------------------------------------------------------------------------------
    tp = os.path.join(ctx.work, "trace.ndjson")
    ncases = 600 if thorough else 150
    run_vh_resumable(ctx, ["c22", "trace", "--seed", ctx.seed, "--cases", ncases, "--maxn", 6 if thorough else 4,
                           "--maxw", 4 if thorough else 3], tp, ncases, "trace")
    evs = [e for e in vlib.read_ndjson(tp)]
    # a hang leaves a reset line without events followed by a hang marker: drop those two
    clean, i = [], 0
    while i < len(evs):
        if evs[i]["ev"] == "reset" and i + 1 < len(evs) and evs[i + 1]["ev"] == "hang":
            i += 2
            continue
        clean.append(evs[i])
        i += 1
    vlib.write_ndjson(tp, clean)

    def describe(rej, case):
        ev = rej["event"]
        d = {"class": "trace_rejected_at_" + ev.get("ev", "?"), "config": {k: case[0][k] for k in ("n", "w", "outcome", "stopOnError", "preCancel", "cancelIn")}}
        return d

    # Regression of the trace specification itself (not of the library): the legal schedule "job 1 fails and records
    # the failure while job 2 is already inside its operation, then job 2 calls cancel()" - a store to a flag that is
    # already set - must be accepted.  A UserCancel guarded by ~cancel rejected it, and whether the OS produced
    # that schedule decided whether the check raised a false alarm.
    st = os.path.join(vlib.SPECS, "conc", "selftest", "batch_cancel_after_store.ndjson")
    ok_st, rej_st, res_st = vlib.trace_validate("conc", "BatchTrace", st)
    ctx.add_tlc(res_st)
    if not ok_st:
        raise vlib.ToolError("BatchTrace rejects the legal schedule %s at %s" % (st, rej_st))

    vlib.validate_cases(ctx, "conc", "BatchTrace", tp, "recorded", describe=describe)
    cases = vlib.split_cases(clean)
    for c in cases:
        inflight, overlap = 0, False
        for e in c:
            if e["ev"] == "j_start":
                inflight += 1
                overlap = overlap or inflight > 1
            elif e["ev"] == "w_done":
                inflight -= 1
        ctx.count_case(c, overlap)
    ctx.sample({"b2_trace_head": cases[0][:14]})

    # 4. B3 -------------------------------------------------------------------------------------------------------
    def drop_store(evs):
        for i, e in enumerate(evs):
            if e["ev"] == "j_cstore":
                del evs[i]
                return True
        return False

    def flip_kind(evs):
        for e in evs:
            if e["ev"] == "c_recv" and e["kind"] == "ok":
                e["kind"] = "fail"
                return True
        return False

    def drop_result(evs):
        for e in evs:
            if e["ev"] == "summary" and e["len"] > 1:
                e["len"] -= 1
                return True
        return False

    def swap_load_start(evs):
        for i in range(len(evs) - 1):
            if evs[i]["ev"] == "j_start" and evs[i + 1]["ev"] == "j_cload" and evs[i]["j"] == evs[i + 1]["j"]:
                evs[i], evs[i + 1] = evs[i + 1], evs[i]
                return True
        return False

    vlib.expect_reject(ctx, "conc", "BatchTrace", tp, drop_store, "one cancel-store event removed")
    vlib.expect_reject(ctx, "conc", "BatchTrace", tp, flip_kind, "collected result kind ok -> fail")
    vlib.expect_reject(ctx, "conc", "BatchTrace", tp, drop_result, "summary one result short")
    vlib.expect_reject(ctx, "conc", "BatchTrace", tp, swap_load_start, "cancel-load moved before job start")
