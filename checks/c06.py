"""C06 - encrypted files interoperate with an independent implementation.
Specs: specs/crypto/{Crypto,EncEnvelope,EncWriter,MCEncW,EncTrace}.tla, specs/syntax/PdfFile.tla"""
import json
import os
import vlib
import c05

LEVEL = "model_checking"

QUICK_FIXTURES = "aes128_ctm_user,aes256r6_unicode,rc4-40_empty,rc4-128_user,aes256r5_user"


def boundary_passwords(seed, want):
    """User passwords for which Algorithm 2.B, run on EncWriter's validation salt (Salt(1)), ends exactly on its termination
    boundary (last byte of E = round - 32 at the round that ends the loop).  Found with the primitives; the hash itself is
    computed by Crypto.tla when the file is written and read."""
    import subprocess
    code = r"""
import hashlib, json, sys
from cryptography.hazmat.primitives.ciphers import Cipher, algorithms, modes
def run(pw, salt, u):
    K = hashlib.sha256(pw + salt + u).digest(); r = 0
    while True:
        c = Cipher(algorithms.AES(K[:16]), modes.CBC(K[16:32])).encryptor(); E = c.update((pw + K + u) * 64) + c.finalize()
        K = [hashlib.sha256, hashlib.sha384, hashlib.sha512][sum(E[:16]) % 3](E).digest(); r += 1
        if r >= 64 and E[-1] <= r - 32: return r, E[-1]
seed, want = int(sys.argv[1]), int(sys.argv[2]); out = []
salt = bytes([(1 * 53 + i * 29) % 256 for i in range(1, 9)])
i = 0
while len(out) < want and i < 20000:
    pw = ("bnd%d" % (seed * 20000 + i)).encode()
    r, last = run(pw, salt, b"")
    if last == r - 32: out.append(list(pw))
    i += 1
print(json.dumps(out))
"""
    p = subprocess.run(["/usr/bin/python3", "-c", code, str(seed), str(want)], stdout=subprocess.PIPE, stderr=subprocess.PIPE, text=True, timeout=900)
    if p.returncode != 0:
        raise vlib.ToolError("boundary search failed: " + p.stderr[-500:])
    out = json.loads(p.stdout)
    if len(out) < want:
        raise vlib.ToolError("no boundary password found")
    return out


def run(ctx):
    thorough = ctx.tier == "thorough"
    ctx.rule = ("The independent implementation is the specification.  (1) EncWriter.tla ENCRYPTS: it serializes a small document "
                "(catalog with a text string, page tree, page, content stream, font, information dictionary, XMP metadata stream, a "
                "stream with a string in its dictionary) byte for byte and encrypts it as ISO 32000 prescribes - revisions 2, 3, 4 with "
                "a V2 and with an AESV2 crypt filter, 5 and 6; classic table, cross-reference stream, cross-reference stream + object "
                "stream (members in the clear inside an encrypted container, /Encrypt direct); raw and FlateDecode streams; metadata "
                "encrypted or left in the clear; PDFDocEncoding (R <= 4) and UTF-8 (R >= 5) passwords incl. empty, non-ASCII and longer "
                "than 32 bytes.  MCEncW (TLC) emits the files; the library must open each with either password, refuse a wrong one and "
                "return all six plaintexts from where they belong; EncEnvelope (the specification's reader) must do the same.  (2) "
                "EncEnvelope DECRYPTS third-party files: every qpdf-produced fixture of the repository is read by the specification and "
                "by the library, and both must find the fixture's marker in the first page's content.  (3) The converse - files encrypted "
                "by the library decrypt in the independent reader - is C05's chk_spec, run here on a sample.  Non-trivial = every file; "
                "distinct by hash.")
    ctx.assumptions = ["MD5/SHA-2/AES/zlib are python hashlib / cryptography / zlib, not oxidizePdf code",
                       "qpdf itself is not installed in the sandbox: third-party files are the repository's qpdf fixtures (no object streams), and the object-stream, metadata and stream-dictionary shapes come from EncWriter.tla",
                       "salts, IVs and the revision 5/6 file key of EncWriter are fixed arithmetic sequences (any value is conforming)"]
    ctx.exhaustive = False
    # (1) files encrypted by the specification
    cfg = "MCEncW_thorough" if thorough else "MCEncW"
    of = os.path.join(ctx.work, "encw.out")
    bp = os.path.join(ctx.work, "boundary.ndjson")
    with open(bp, "w") as f:
        for pw in boundary_passwords(ctx.seed, 3 if thorough else 1):
            f.write(json.dumps({"pw": pw}) + "\n")
    res = vlib.tlc("crypto", "MCEncW", cfg=cfg, workers=1, timeout=3000, out_file=of, libs=("lib",), env={"BOUNDARY": bp})
    vlib.tlc_must_pass(res, cfg)
    ctx.add_tlc(res)
    tp = os.path.join(ctx.work, "encw.ndjson")
    vlib.vh(["c05", "read", "--in", of, "--out", tp], timeout=3000)
    vlib.validate_cases(ctx, "crypto", "EncTrace", tp, "specification-encrypted", describe=c05.describe, timeout=9000, marker="file", libs=("syntax", "lib"))
    by = {}
    for e in vlib.read_ndjson(tp):
        if e["ev"] != "file":
            continue
        o = e["opt"]
        k = "R%d%s/%s" % (o["rev"], "aes" if o["aes"] else "rc4", o["layout"])
        by[k] = by.get(k, 0) + 1
        ctx.count_case(o, True)
    ctx.extra["specification_encrypted_by_revision_and_layout"] = by
    # (2) third-party fixtures
    fp = os.path.join(ctx.work, "fixtures.ndjson")
    args = ["c05", "fixtures", "--out", fp]
    if not thorough:
        args += ["--only", QUICK_FIXTURES]
    vlib.vh(args, timeout=3000)
    vlib.validate_cases(ctx, "crypto", "EncTrace", fp, "qpdf-fixture", describe=c05.describe, timeout=9000, marker="file", libs=("syntax", "lib"))
    names = [e["name"] for e in vlib.read_ndjson(fp) if e["ev"] == "file"]
    if len(names) < (16 if thorough else 5):
        raise vlib.ToolError("expected fixtures are missing: %s" % names)
    for n in names:
        ctx.count_case({"fixture": n}, True)
    ctx.extra["fixtures"] = names
    # (3) converse: a sample of library-encrypted files read by the specification (object streams included)
    cases = [{"strength": s, "cfg": {"xref": x, "objstm": o, "compress": c, "version": "1.7"}, "user": [117, 115, 114], "owner": [111, 119, 110], "p": -3904}
             for (s, x, o, c) in (("rc4_128", True, True, True), ("aes256", True, True, False), ("aes128", False, False, False))]
    cf = os.path.join(ctx.work, "converse.in")
    with open(cf, "w") as f:
        for c in cases:
            f.write(json.dumps(c) + "\n")
    cp = os.path.join(ctx.work, "converse.ndjson")
    vlib.vh(["c05", "run", "--in", cf, "--out", cp], timeout=3000)
    vlib.validate_cases(ctx, "crypto", "EncTrace", cp, "library-encrypted", describe=c05.describe, timeout=6000, marker="file", libs=("syntax", "lib"))
    for c in cases:
        ctx.count_case(c, True)
    for e in vlib.read_ndjson(tp):
        if e["ev"] == "file" and e["opt"]["layout"] == "objstm" and e["opt"]["rev"] >= 4:
            ctx.sample({"opt": e["opt"], "file_length": len(e["bytes"]), "library": e["lib"]})
            break

    def string_lost(evs):
        for e in evs:
            if e["ev"] == "file":
                e["lib"]["ownerMarkers"][2] = False
                return True
        return False

    def clear_string(evs):
        # a string of the object stream written in the clear next to the container: "plaintext left in the clear"
        for e in evs:
            if e["ev"] == "file":
                e["bytes"] = e["bytes"] + [ord(x) for x in "% TITLE_MARKER_4711\n"]
                return True
        return False

    def container_touched(evs):
        for e in evs:
            if e["ev"] == "file" and e["opt"]["layout"] == "objstm":
                b = bytes(e["bytes"])
                i = b.find(b"/ObjStm")
                j = b.find(b"stream\n", i)
                e["bytes"][j + 7 + 18] ^= 1
                return True
        return False

    def fixture_marker(evs):
        for e in evs:
            if e["ev"] == "file":
                e["lib"]["userMarkers"][0] = False
                return True
        return False

    vlib.expect_reject(ctx, "crypto", "EncTrace", tp, string_lost, "library lost the catalog string with the owner password", marker="file", libs=("syntax", "lib"))
    vlib.expect_reject(ctx, "crypto", "EncTrace", tp, clear_string, "title also present in the clear", marker="file", libs=("syntax", "lib"))
    vlib.expect_reject(ctx, "crypto", "EncTrace", tp, container_touched, "one bit of the encrypted object stream flipped", marker="file", libs=("syntax", "lib"))
    vlib.expect_reject(ctx, "crypto", "EncTrace", fp, fixture_marker, "library lost the fixture's marker", marker="file", libs=("syntax", "lib"))
