"""C15 - the document-to-chunks pipeline preserves content and provenance.
Specs: specs/rag/{DocFlow,MCDocFlow,DocFlowTrace}.tla"""
import os
import vlib

LEVEL = "model_checking"


def run(ctx):
    thorough = ctx.tier == "thorough"
    ctx.rule = ("DocFlow.tla: a document as its author sees it - pages of blocks (headings of three levels told apart by font size, "
                "paragraphs of 1-3 lines, list items, tables), each block with a unique marker - the heading stack a reader keeps across "
                "the whole document (page breaks do not touch it), and what makes a set of chunks SOUND: every block's markers in exactly "
                "one chunk, once; a chunk's page numbers exactly the pages of the blocks it holds; its heading path the governing "
                "structure of every block it holds; identifiers pairwise distinct.  MCDocFlow (TLC) generates 1-3 page documents (sections "
                "running over page breaks, documents that start without a heading, at most one table per page) x five chunking "
                "configurations, and checks that the ideal chunking is sound in the model.  The harness authors each document with the "
                "library's API, writes it, reopens it, chunks it twice, and authors and chunks it once more; DocFlowTrace (TLC) requires "
                "the chunks to be sound, the second run to serialize identically, and the identifiers of the re-authored copy to be the "
                "same.  Non-trivial = every document; distinct by hash.")
    ctx.assumptions = ["headings are bold 24 / 18 / 14 pt over 10 pt body text, one line each; lists are '- ' lines indented by 18 pt; tables have a header row and one body row",
                       "page numbers in chunks are 0-based page indices (the library's convention)",
                       "two headings of the same level never follow each other directly (they read as one two-line heading); the last heading of a page may be followed by a heading of another level",
                       "content is found by markers, not by comparing whole texts (the pipeline re-flows separators)"]
    cfg = "MCDocFlow_thorough" if thorough else "MCDocFlow"
    of = os.path.join(ctx.work, "docs.out")
    res = vlib.tlc("rag", "MCDocFlow", cfg=cfg, workers=1, timeout=900, out_file=of)
    vlib.tlc_must_pass(res, cfg)
    ctx.add_tlc(res)
    ctx.exhaustive = False
    tp = os.path.join(ctx.work, "docs.ndjson")
    vlib.vh(["c15", "run", "--in", of, "--out", tp], timeout=3000)

    def describe(rej, case):
        e = case[0]
        return {"class": "chunks_unsound", "cfg": e["cfg"], "pages": [[b["kind"] + str(b["id"]) for b in p] for p in e["pages"]], "ok": e["ok"], "err": e["err"],
                "again": e["again"], "sameIdsReauthored": e["sameIdsReauthored"],
                "chunks": [{k: c[k] for k in ("index", "markers", "occurrences", "pages", "path", "types")} for c in e["chunks"]]}

    vlib.validate_cases(ctx, "rag", "DocFlowTrace", tp, "document", describe=describe, timeout=6000, marker="doc")
    evs = vlib.read_ndjson(tp)
    multi = 0
    for e in evs:
        spans = any(len(c["pages"]) > 1 for c in e["chunks"])
        multi += 1 if spans else 0
        ctx.count_case({"pages": e["pages"], "cfg": e["cfg"]}, True)
    ctx.extra["documents"] = len(evs)
    ctx.extra["documents_with_a_chunk_spanning_pages"] = multi
    ctx.extra["chunks"] = sum(len(e["chunks"]) for e in evs)
    for e in evs:
        if len(e["pages"]) >= 2 and any(len(c["pages"]) > 1 for c in e["chunks"]):
            ctx.sample({"pages": [[b["kind"] + str(b["id"]) for b in p] for p in e["pages"]], "cfg": e["cfg"],
                        "chunks": [{k: c[k] for k in ("markers", "pages", "path", "types")} for c in e["chunks"]]})
            break

    def sound_case(evs2):
        # a case that is accepted without the help of a known-finding deviation
        for e in evs2:
            if e["ok"] and all(not (c["types"] == ["table"] and not any(m.startswith("T") for m in c["markers"])) for c in e["chunks"]) and len(e["chunks"]) >= 3:
                return e
        return None

    def lost(evs2):
        e = sound_case(evs2)
        if e is None:
            return False
        for i, c in enumerate(e["chunks"]):
            if any(m.startswith("P") for m in c["markers"]):
                del e["chunks"][i]
                return True
        return False

    def wrong_page(evs2):
        e = sound_case(evs2)
        if e is None:
            return False
        e["chunks"][1]["pages"] = [p + 1 for p in e["chunks"][1]["pages"]]
        return True

    def wrong_path(evs2):
        e = sound_case(evs2)
        if e is None:
            return False
        for c in e["chunks"]:
            if c["path"] and any(m.startswith("P") for m in c["markers"]):
                c["path"] = c["path"][:-1]
                return True
        return False

    def twice(evs2):
        e = sound_case(evs2)
        if e is None:
            return False
        e["chunks"].append(dict(e["chunks"][1], index=99, id="x"))
        return True

    def unstable(evs2):
        e = sound_case(evs2)
        if e is None:
            return False
        e["sameIdsReauthored"] = False
        return True

    for m, what in ((lost, "a chunk with a paragraph removed"), (wrong_page, "page numbers shifted"), (wrong_path, "heading path shortened"),
                    (twice, "a chunk emitted twice"), (unstable, "identifiers differ for the re-authored copy")):
        vlib.expect_reject(ctx, "rag", "DocFlowTrace", tp, m, what, marker="doc")
