"""C10 - text given through the API reads back unchanged.  Specs: specs/syntax/{TextString,MCTextStrings,TextTrace}.tla"""
import os
import vlib

LEVEL = "model_checking"


def run(ctx):
    thorough = ctx.tier == "thorough"
    ctx.rule = ("MCTextStrings (TLC) checks the reference text-string decoder on every sequence up to MaxLen characters over one "
                "representative per class (ASCII, space, delimiters, CR, LF, TAB, Latin-1, soft hyphen, PDFDoc-only bullet/Lslash/euro, "
                "CJK, astral, U+FEFF): UTF-16BE+BOM, UTF-8+BOM and ASCII renderings decode to the text, raw UTF-8 does not.  Every such "
                "text (plus seeded random longer ones) goes through the eight+ entry points: six Info fields, outline title, "
                "annotation /Contents, incremental text note, form-field value written whole and applied as an incremental fill, "
                "under the four writer configurations.  TextTrace requires DecodeText(raw bytes in the file) = text and the library's "
                "own read-back = text.  Non-trivial = text with a non-ASCII character; distinct by hash of (entry, text).")
    ctx.assumptions = ["the string object is located and tokenised with the library's reader; its raw bytes are decoded by TextString.tla"]
    cfg = "MCTextStrings_thorough" if thorough else "MCTextStrings"
    tf = os.path.join(ctx.work, "texts.out")
    res = vlib.tlc("syntax", "MCTextStrings", cfg=cfg, workers=1, timeout=3000, out_file=tf, xmx="8g")
    vlib.tlc_must_pass(res, cfg)
    ctx.add_tlc(res)
    ctx.exhaustive = True
    tp = os.path.join(ctx.work, "texts.ndjson")
    vlib.vh(["c10", "run", "--in", tf, "--random", 400 if thorough else 60, "--seed", ctx.seed, "--out", tp], timeout=3000)

    def describe(rej, case):
        e = rej["event"]
        return {"class": "text_mismatch" if e.get("found") else "text_not_written", "entry": e.get("entry"), "config": e.get("config"),
                "text": e.get("text"), "raw": e.get("raw"), "library_read": e.get("lib"), "error": e.get("error")}

    vlib.validate_cases(ctx, "syntax", "TextTrace", tp, "text", describe=describe, timeout=3000, marker="text")
    evs = vlib.read_ndjson(tp)
    for e in evs:
        if e["ev"] != "text":
            ctx.violation({"what": "document with this text could not be written or re-opened", "class": e["ev"], "detail": e})
            continue
        ctx.count_case([e["entry"], e["cps"]], any(c > 127 for c in e["cps"]))
    for e in evs:
        if e["ev"] == "text" and any(c > 255 for c in e["cps"]) and e["found"]:
            ctx.sample({k: e[k] for k in ("entry", "config", "text", "cps", "raw", "lib")})
            break

    def wrong_raw(evs):
        for e in evs:
            if e["ev"] == "text" and e["found"] and len(e["raw"]) > 3 and e["raw"][0] == 254:
                e["raw"][-1] ^= 1
                return True
        return False

    def wrong_lib(evs):
        for e in evs:
            if e["ev"] == "text" and e["hasLib"] and e["lib"]:
                e["lib"][0] += 1
                return True
        return False

    vlib.expect_reject(ctx, "syntax", "TextTrace", tp, wrong_raw, "last byte of a UTF-16 text string flipped", marker="text")
    vlib.expect_reject(ctx, "syntax", "TextTrace", tp, wrong_lib, "library read-back altered", marker="text")
