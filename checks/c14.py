"""C14 - RAG chunking contract.  Specs: specs/rag/{Chunker,MCChunker,ChunkerTrace}.tla"""
import os
import vlib

LEVEL = "model_checking"


def run(ctx):
    thorough = ctx.tier == "thorough"
    ctx.rule = ("Chunker.tla is the contract (cursor over whole elements / consecutive fragments, budget on the measured text, "
                "heading of the section the chunk starts in).  TLC (MCChunker) explores every abstract input up to MaxLen "
                "elements over kind x size x heading and every contract-respecting emission, checking that the contract is "
                "always completable and covers every token exactly once in order; every enumerated input is concretised and "
                "run through HybridChunker::chunk and chunk_with_graph under a rotating configuration (budget, merge policy, "
                "merge_adjacent, propagate_headings, context mode, additive / non-additive counter), plus seeded random longer "
                "sequences (stale/absent/duplicate headings, empty texts, multi-sentence texts).  Each run's chunks are "
                "validated by ChunkerTrace; a second run must give identical chunks.  Non-trivial = run that needed a split "
                "(fragment) or produced >= 2 chunks with >= 1 merged chunk; distinct by hash.")
    ctx.assumptions = ["the token counter is an input: 'measured' is the injected counter applied by the harness to the chunk's emitted text",
                       "text is compared on its non-white-space characters (chunkers may re-flow white space)"]
    cfgs = ["MCChunker"] + (["MCChunker_thorough"] if thorough else [])
    inputs = os.path.join(ctx.work, "inputs.out")
    for c in cfgs:
        res = vlib.tlc("rag", "MCChunker", cfg=c, workers=8, timeout=3000, out_file=inputs, coverage=(c == "MCChunker"))
        vlib.tlc_must_pass(res, c)
        ctx.add_tlc(res)
    ctx.exhaustive = True
    tp = os.path.join(ctx.work, "chunks.ndjson")
    vlib.vh(["c14", "run", "--in", inputs, "--random", 1500 if thorough else 300, "--maxlen", 40 if thorough else 25, "--seed", ctx.seed,
             "--out", tp], timeout=3000)

    def describe(rej, case):
        h = case[0]
        return {"class": "rejected_at_" + rej["event"].get("ev", "?"), "entry": h["entry"],
                "config": {k: h[k] for k in ("maxTokens", "propagate", "mergeAdjacent", "policy", "counter")},
                "input": [[e["kind"], e["heading"]["text"] if e["heading"]["has"] else None, e["text"][:40]] for e in h["input"]]}

    vlib.validate_cases(ctx, "rag", "ChunkerTrace", tp, "chunking", describe=describe, timeout=3000)
    cases = vlib.split_cases(vlib.read_ndjson(tp))
    for c in cases:
        emits = [e for e in c if e["ev"] == "emit"]
        inp = {e["nows"] for e in c[0]["input"]}
        frag = any(len(e["chunk"]["elems"]) == 1 and e["chunk"]["elems"][0]["nows"] not in inp for e in emits)
        merged = any(len(e["chunk"]["elems"]) > 1 for e in emits)
        ctx.count_case(c, frag or (len(emits) >= 2 and merged))
    for c in cases:
        if any(len(e["chunk"]["elems"]) > 1 for e in c if e["ev"] == "emit") and len(c) > 5:
            ctx.sample({"chunking_case": c[:6]})
            break

    def drop_chunk(evs):
        for i, e in enumerate(evs):
            if e["ev"] == "emit" and i + 1 < len(evs) and evs[i + 1]["ev"] == "emit":
                del evs[i]
                return True
        return False

    def over_budget(evs):
        mt = 0
        for e in evs:
            if e["ev"] == "reset":
                mt = e["maxTokens"]
            if e["ev"] == "emit" and not e["chunk"]["oversized"]:
                e["chunk"]["measured"] = mt + 1
                return True
        return False

    def wrong_heading(evs):
        for e in evs:
            if e["ev"] == "emit" and e["chunk"]["heading"]["has"]:
                e["chunk"]["heading"]["text"] += "x"
                return True
        return False

    def swap_chunks(evs):
        for i in range(len(evs) - 1):
            if evs[i]["ev"] == "emit" and evs[i + 1]["ev"] == "emit" and evs[i]["chunk"]["elems"] != evs[i + 1]["chunk"]["elems"]:
                evs[i], evs[i + 1] = evs[i + 1], evs[i]
                return True
        return False

    vlib.expect_reject(ctx, "rag", "ChunkerTrace", tp, drop_chunk, "one chunk dropped")
    vlib.expect_reject(ctx, "rag", "ChunkerTrace", tp, over_budget, "measured size above budget on a chunk not flagged oversized")
    vlib.expect_reject(ctx, "rag", "ChunkerTrace", tp, wrong_heading, "heading context altered")
    vlib.expect_reject(ctx, "rag", "ChunkerTrace", tp, swap_chunks, "two chunks swapped")
