"""C28 - outlines and destinations.  Specs: specs/doc/{Outline,MCOutline,OutlineTrace}.tla"""
import os
import vlib

LEVEL = "model_checking"


def run(ctx):
    thorough = ctx.tier == "thorough"
    ctx.rule = ("TLC (MCOutline) reaches every authored forest up to MaxItems items (every shape x every open/closed "
                "assignment, destinations spread over the pages), checks that the reference writer algorithm satisfies the "
                "reader-side link/count/destination rules and that the pinned flat numbering is wrong exactly when an item "
                "with a child has a following sibling.  Every forest is built through OutlineItem/OutlineBuilder, written "
                "(default/legacy configs), re-opened, and the outline objects are validated by OutlineTrace (walk by "
                "/First//Next, consistency of /Prev//Last//Parent, signed /Count, /Dest page reference, titles decoded by "
                "TextString).  Seeded random larger forests add titles with delimiters/unicode, named destinations and the "
                "xref-stream/object-stream configs.  Non-trivial = forest with an item that has both a child and a following "
                "sibling, or a closed item containing a closed item with children; distinct by construction (TLC) / hash.")
    ctx.assumptions = ["outline objects are located and tokenised by the library's own reader; link structure, counts, "
                       "destinations and title decoding are judged by the TLA+ reader"]
    cfg = "MCOutline_thorough" if thorough else "MCOutline"
    fo = os.path.join(ctx.work, "forests.out")
    res = vlib.tlc("doc", "MCOutline", cfg=cfg, workers=8, timeout=3000, out_file=fo, coverage=True)
    vlib.tlc_must_pass(res, cfg)
    ctx.add_tlc(res)
    ctx.exhaustive = True
    tp = os.path.join(ctx.work, "outline.ndjson")
    vlib.vh(["c28", "run", "--in", fo, "--random", 600 if thorough else 150, "--seed", ctx.seed, "--maxitems", 14 if thorough else 10,
             "--out", tp], timeout=3000)

    def describe(rej, case):
        return {"class": rej["event"].get("ev"), "forest": {k: case[0].get(k) for k in ("par", "open", "page", "npages", "config", "viaBuilder", "titles_text")}}

    vlib.validate_cases(ctx, "doc", "OutlineTrace", tp, "outline", describe=describe, timeout=3000)
    cases = vlib.split_cases(vlib.read_ndjson(tp))
    for c in cases:
        a = c[0]
        par, opn = a["par"], a["open"]
        n = len(par)
        kids = lambda i: [k for k in range(1, n + 1) if par[k - 1] == i]
        child_and_sib = any(kids(i) and any(k > i and par[k - 1] == par[i - 1] for k in range(1, n + 1)) for i in range(1, n + 1))
        closed_nested = any((not opn[i - 1]) and any((not opn[k - 1]) and kids(k) for k in kids(i)) for i in range(1, n + 1))
        ctx.count_case(a, child_and_sib or closed_nested)
    ctx.sample({"authored": {k: cases[40][0][k] for k in ("par", "open", "page", "npages")}, "written": cases[40][1]})

    def break_next(evs):
        for e in evs:
            if e["ev"] == "written":
                for o in e["objs"]:
                    if o["next"] != 0:
                        o["next"] = 0
                        return True
        return False

    def break_count(evs):
        for e in evs:
            if e["ev"] == "written":
                for o in e["objs"]:
                    if o["hasCount"] and o["parent"] != 0:
                        o["count"] = -o["count"]
                        return True
        return False

    def break_dest(evs):
        for e in evs:
            if e["ev"] == "written" and len(e["pages"]) > 1:
                for o in e["objs"]:
                    if o["destKind"] == "ref":
                        o["destObj"] = [p for p in e["pages"] if p != o["destObj"]][0]
                        return True
        return False

    vlib.expect_reject(ctx, "doc", "OutlineTrace", tp, break_next, "one /Next link removed")
    vlib.expect_reject(ctx, "doc", "OutlineTrace", tp, break_count, "sign of one /Count flipped")
    vlib.expect_reject(ctx, "doc", "OutlineTrace", tp, break_dest, "one /Dest retargeted to another page")
