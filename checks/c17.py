"""C17 - incremental updates are append-only and take effect.  Specs: specs/xref/{IncrUpdate,MCIncr,IncrTrace}.tla, specs/syntax/PdfFile.tla"""
import os
import vlib

LEVEL = "model_checking"


def run(ctx):
    thorough = ctx.tier == "thorough"
    ctx.rule = ("IncrUpdate.tla: the abstract content of a form document (field values, text notes) under Fill, FillMany, NoteAdd, NoteUpdate, "
                "NoteRemove, with the refusals the API documents (value outside WinAnsiEncoding, blank note, unknown note) as edits that "
                "change nothing.  MCIncr (TLC) checks the model's frame conditions and emits histories of 1..MaxEdits edits over bases "
                "written with a classic table, a cross-reference stream, object streams, and uncompressed - including successive fills of "
                "different fields.  After every edit IncrTrace requires: the new file begins with the previous file's bytes; the "
                "reference reader PdfFile.tla (inside TLC) finds a sound file with exactly one more cross-reference section; every "
                "object the new section does not mention resolves as before; fields and notes - read by the reference reader (text "
                "strings decoded by TextString.tla) and by the library - are the model's.  Non-trivial = history with at least two "
                "accepted edits; distinct by hash.")
    ctx.assumptions = ["edits covered: IncrementalFormFiller::fill / fill_many and IncrementalTextNoteEditor::apply (one mutation per revision); page replacement and overlay are not exercised",
                       "bases are three-field, two-page form documents written by the library itself",
                       "a fill with a value outside WinAnsiEncoding may be refused (documented); it may also be accepted"]
    cfg = "MCIncr_thorough" if thorough else "MCIncr"
    of = os.path.join(ctx.work, "histories.out")
    res = vlib.tlc("xref", "MCIncr", cfg=cfg, workers=1, timeout=600, out_file=of)
    vlib.tlc_must_pass(res, cfg)
    ctx.add_tlc(res)
    tp = os.path.join(ctx.work, "histories.ndjson")
    vlib.vh(["c17", "run", "--in", of, "--out", tp], timeout=3000)

    def describe(rej, case):
        h = case[0]["hist"]
        edits = [{"edit": e["edit"], "accepted": e["ok"], "error": e["err"], "file_length": len(e["bytes"]),
                  "library": e["lib"]} for e in case if e["ev"] == "edit"]
        return {"class": rej["event"].get("ev"), "base": h["base"], "edits": edits[:6], "base_length": len(case[0]["bytes"])}

    vlib.validate_cases(ctx, "xref", "IncrTrace", tp, "history", describe=describe, timeout=6000, marker="base")
    cases = vlib.split_cases(vlib.read_ndjson(tp), marker="base")
    nacc = 0
    for c in cases:
        acc = sum(1 for e in c if e["ev"] == "edit" and e["ok"])
        nacc += acc
        ctx.count_case(c[0]["hist"], acc >= 2)
    ctx.extra["accepted_edits"] = nacc
    ctx.extra["refused_edits"] = sum(1 for c in cases for e in c if e["ev"] == "edit" and not e["ok"])
    for c in cases:
        if sum(1 for e in c if e["ev"] == "edit" and e["ok"]) >= 3:
            ctx.sample({"base": c[0]["hist"]["base"], "edits": c[0]["hist"]["edits"], "file_lengths": [len(c[0]["bytes"])] + [len(e["bytes"]) for e in c if e["ev"] == "edit"]})
            break

    def touch_prefix(evs):
        for e in evs:
            if e["ev"] == "edit" and e["ok"]:
                e["bytes"][40] = (e["bytes"][40] + 1) % 256
                return True
        return False

    def lib_value(evs):
        for e in evs:
            if e["ev"] == "edit" and e["ok"] and e["edit"]["k"] == "fill":
                for f in e["lib"]["fields"]:
                    if f["has"] and f["v"]:
                        f["v"][0] += 1
                        return True
        return False

    def lost_note(evs):
        for e in evs:
            if e["ev"] == "edit" and e["ok"] and e["edit"]["k"] == "note_add" and e["lib"]["notes"]:
                e["lib"]["notes"].pop()
                return True
        return False

    def spurious_refusal(evs):
        for e in evs:
            if e["ev"] == "edit" and e["ok"] and e["edit"]["k"] == "fill" and all(c < 127 for c in e["edit"]["v"]):
                # claim the edit was refused (file unchanged) although the value is encodable
                i = evs.index(e)
                j = i - 1
                while evs[j]["ev"] not in ("base", "edit"):
                    j -= 1
                e["ok"], e["err"], e["bytes"], e["lib"] = False, "claimed", evs[j]["bytes"], evs[j]["lib"]
                return True
        return False

    vlib.expect_reject(ctx, "xref", "IncrTrace", tp, touch_prefix, "one byte of the previous revision changed in the new file", marker="base")
    vlib.expect_reject(ctx, "xref", "IncrTrace", tp, lib_value, "library reads a different value for the filled field", marker="base")
    vlib.expect_reject(ctx, "xref", "IncrTrace", tp, lost_note, "library's note list lacks the note just added", marker="base")
    vlib.expect_reject(ctx, "xref", "IncrTrace", tp, spurious_refusal, "an encodable fill reported as refused", marker="base")
