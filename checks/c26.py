"""C26 - CMaps.  Specs: specs/text/{CMap,MCCMap,CMapTrace}.tla (+ syntax/PdfLex as tokenizer of builder output)"""
import os
import vlib

LEVEL = "model_checking"


def run(ctx):
    thorough = ctx.tier == "thorough"
    ctx.rule = ("CMap.tla defines look-up over abstract CMaps (bfchar, bfrange in offset form with big-endian carry, bfrange in array "
                "form, codespace membership; overlapping definitions give a set of admissible values).  TLC (MCCMap) checks the "
                "byte-string arithmetic and enumerates CMaps of 1-, 2- and 4-byte codes built from entries placed on the carry and "
                "surrogate boundaries (<00FE>..<0101>, destinations crossing <00FF>, surrogate pairs, multi-character destinations, "
                "overlaps), each with probe codes around every boundary, outside the codespace and of the wrong length.  Each CMap is "
                "rendered to CMap text (varying hex case/spacing), parsed by CMap::parse, and every probe's map()/to_unicode()/"
                "is_valid_code() result is validated by CMapTrace; seeded random CMaps add widths 1..4 and long ranges.  The builder "
                "half: random code->Unicode maps go through ToUnicodeCMapBuilder::build; its text is tokenised by PdfLex inside TLC and "
                "interpreted by CMap.tla, and must define exactly the map that went in.  Non-trivial = CMap with a range entry "
                "(carry arithmetic exercised) or a builder map; distinct by hash.")
    ctx.assumptions = ["generated CMaps keep their entries inside their own codespace and use codespace ranges whose per-byte "
                       "(rectangular) and linear readings coincide; where two entries define one code any defined value is accepted"]
    of = os.path.join(ctx.work, "cmaps.out")
    res = vlib.tlc("text", "MCCMap", workers=1, timeout=900, out_file=of)
    vlib.tlc_must_pass(res, "MCCMap")
    ctx.add_tlc(res)
    ctx.exhaustive = True
    tp = os.path.join(ctx.work, "cmap.ndjson")
    vlib.vh(["c26", "run", "--in", of, "--random", 400 if thorough else 60, "--builder", 120 if thorough else 20, "--buildermax", 230 if thorough else 60, "--seed", ctx.seed,
             "--out", tp], timeout=3000)
    evs = vlib.read_ndjson(tp)
    # cases start at reset / built
    norm = []
    for e in evs:
        if e["ev"] == "built":
            norm.append(dict(e, ev="reset", kind="built", cmap={"codespace": [], "entries": []}))
            norm.append(dict(e))
        else:
            norm.append(e)
    vlib.write_ndjson(tp, norm)

    def describe(rej, case):
        ev = rej["event"]
        d = {"class": ev.get("ev")}
        if ev.get("ev") == "probe":
            d["code"] = ev.get("code")
            d["library"] = {k: ev.get(k) for k in ("mapped", "uni", "uniSome", "valid")}
            d["cmap"] = case[0].get("cmap")
        elif ev.get("ev") in ("chk_built",):
            d["map"] = case[1].get("map") if len(case) > 1 else None
        return d

    vlib.validate_cases(ctx, "text", "CMapTrace", tp, "cmap", describe=describe, timeout=3000)
    cases = vlib.split_cases(norm)
    for c in cases:
        h = c[0]
        ctx.count_case(h.get("cmap") if h.get("kind") != "built" else c[1].get("map"),
                       h.get("kind") == "built" or any(e.get("k") in ("range", "arr") for e in h["cmap"]["entries"]))
    for c in cases:
        if len(c[0].get("cmap", {}).get("entries", [])) >= 2:
            ctx.sample({"cmap": c[0]["cmap"], "first_probes": c[1:4]})
            break

    def wrong_carry(evs):
        for e in evs:
            if e["ev"] == "probe" and e["mapped"]["some"] and len(e["mapped"]["bytes"]) == 2 and e["mapped"]["bytes"] == [1, 0]:
                e["mapped"]["bytes"] = [0, 0]
                return True
        return False

    def accept_outside(evs):
        for e in evs:
            if e["ev"] == "probe" and not e["mapped"]["some"] and len(e["code"]) == 2:
                e["mapped"] = {"some": True, "bytes": [0, 65]}
                e["uniSome"], e["uni"] = True, [65]
                return True
        return False

    def corrupt_built(evs):
        for e in evs:
            if e["ev"] == "built" and e["map"]:
                # flip one hex digit of the first destination in the produced text
                b = e["bytes"]
                txt = bytes(b).decode("latin-1")
                i = txt.find("beginbfchar")
                j = txt.find("> <", i)
                if j > 0:
                    k = j + 3
                    b[k] = ord("1") if b[k] != ord("1") else ord("2")
                    return True
        return False

    vlib.expect_reject(ctx, "text", "CMapTrace", tp, wrong_carry, "a destination that carries into the high byte reported without carry")
    vlib.expect_reject(ctx, "text", "CMapTrace", tp, accept_outside, "an undefined code reported as mapped")
    vlib.expect_reject(ctx, "text", "CMapTrace", tp, corrupt_built, "one hex digit of the builder's output changed")
