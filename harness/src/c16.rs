//! C16 - page operations: PageOps.tla cases on synthesized sources, outputs read by the library and by PdfFile.tla.
use crate::synth;
use crate::util::*;
use oxidize_pdf::operations::{
    extract_page_range_to_file, extract_pages_to_file, merge_pdf_files, move_pdf_page, reorder_pdf_pages, reverse_pdf_pages, rotate_pdf_pages, split_pdf, swap_pdf_pages,
    PageRange, RotateOptions, RotationAngle, SplitMode, SplitOptions,
};
use oxidize_pdf::parser::{ParseOptions, PdfObject, PdfReader};
use serde_json::{json, Value};
use std::io::Cursor;

pub fn main(a: &Args) {
    match a.pos.first().map(|s| s.as_str()) {
        Some("run") => run(a),
        _ => tool_error("c16 run"),
    }
}

fn r(n: u64) -> Value {
    json!({"ref": [n, 0]})
}
fn nm(s: &str) -> Value {
    json!({"n": s})
}
fn src_box(i: i64) -> [i64; 4] {
    // page 1 sits high on the sheet (its lower edge above its right edge: 701 > 351), page 3 away from the origin
    if i == 1 { [51, 701, 351, 1101] } else if i % 2 == 1 { [100 + i, 200 + i, 400 + i, 600 + i] } else { [10, 20, 310, 420] }
}
fn src_rot(i: i64) -> i64 {
    match i % 4 { 1 => 0, 2 => 90, 3 => -90, _ => 450 }
}

/// The source document of n pages (PageOps!SrcPage): page 1, an intermediate node holding pages 2 and 3, page 4.
/// Even pages inherit their MediaBox, page 3 inherits its /Rotate; every page has its own font key F<i>.
pub fn source(n: usize) -> Vec<u8> {
    let mut objects: Vec<Value> = Vec::new();
    objects.push(json!({"n": 1, "g": 0, "value": {"d": [["Type", nm("Catalog")], ["Pages", r(11)]]}}));
    objects.push(json!({"n": 5, "g": 0, "value": {"d": [["Type", nm("Font")], ["Subtype", nm("Type1")], ["BaseFont", nm("Helvetica")]]}}));
    let mut root_kids = vec![r(21)];
    let inner: Vec<u64> = (2..=n.min(3) as u64).collect();
    if !inner.is_empty() {
        root_kids.push(r(12));
        objects.push(json!({"n": 12, "g": 0, "value": {"d": [["Type", nm("Pages")], ["Parent", r(11)], ["Kids", inner.iter().map(|i| r(20 + i)).collect::<Vec<_>>()],
                                                         ["Count", inner.len()], ["MediaBox", [10, 20, 310, 420]], ["Rotate", -90]]}}));
    }
    if n >= 4 {
        root_kids.push(r(24));
    }
    objects.push(json!({"n": 11, "g": 0, "value": {"d": [["Type", nm("Pages")], ["Kids", root_kids], ["Count", n], ["MediaBox", [10, 20, 310, 420]]]}}));
    // images (PageOps!SrcDraws): page 1 draws two images that SHARE one soft mask, page 2 one with a mask of its own,
    // page 4 the first image of page 1 again (one object used from two pages)
    let image = |n: u64, data: [u8; 4], mask: u64| json!({"n": n, "g": 0, "dict": {"d": [["Type", nm("XObject")], ["Subtype", nm("Image")], ["Width", 2], ["Height", 2],
        ["ColorSpace", nm("DeviceGray")], ["BitsPerComponent", 8], ["SMask", r(mask)]]}, "data": data.to_vec(), "filter": null});
    let mask = |n: u64, data: [u8; 4]| json!({"n": n, "g": 0, "dict": {"d": [["Type", nm("XObject")], ["Subtype", nm("Image")], ["Width", 2], ["Height", 2],
        ["ColorSpace", nm("DeviceGray")], ["BitsPerComponent", 8]]}, "data": data.to_vec(), "filter": null});
    objects.push(image(41, [10, 20, 30, 40], 43));
    objects.push(image(42, [50, 60, 70, 80], 43));
    objects.push(mask(43, [0, 85, 170, 255]));
    objects.push(image(44, [1, 2, 3, 4], 45));
    objects.push(mask(45, [9, 8, 7, 6]));
    for i in 1..=n as i64 {
        let parent = if i == 2 || i == 3 { 12 } else { 11 };
        let xobjects: Vec<Value> = match i {
            1 => vec![json!(["Im1a", r(41)]), json!(["Im1b", r(42)])],
            2 => vec![json!(["Im2", r(44)])],
            4 => vec![json!(["Im4", r(41)])],
            _ => vec![],
        };
        let mut res = vec![json!(["Font", {"d": [[format!("F{i}"), r(5)]]}])];
        if !xobjects.is_empty() {
            res.push(json!(["XObject", {"d": xobjects}]));
        }
        let mut d = vec![json!(["Type", nm("Page")]), json!(["Parent", r(parent)]), json!(["Contents", r(30 + i as u64)]),
                         json!(["Resources", {"d": res}])];
        if i % 2 == 1 {
            d.push(json!(["MediaBox", src_box(i).to_vec()]));
        }
        if i % 3 == 0 {
            d.push(json!(["CropBox", [110, 210, 390, 590]]));
        }
        if i != 3 && src_rot(i) != 0 {
            d.push(json!(["Rotate", src_rot(i)]));
        }
        objects.push(json!({"n": 20 + i, "g": 0, "value": {"d": d}}));
        let draws = match i {
            1 => "q 20 0 0 20 60 710 cm /Im1a Do Q\nq 20 0 0 20 90 710 cm /Im1b Do Q\n",
            2 => "q 20 0 0 20 20 30 cm /Im2 Do Q\n",
            4 => "q 20 0 0 20 20 30 cm /Im4 Do Q\n",
            _ => "",
        };
        let content = format!("q\nBT\n/F{i} 12 Tf\n100 700 Td\n(PAGE {i}) Tj\nET\nQ\n{draws}");
        objects.push(json!({"n": 30 + i, "g": 0, "dict": {"d": []}, "data": content.into_bytes(), "filter": null}));
    }
    synth::build(&json!({"version": "1.7", "revisions": [{"objects": objects, "free": [], "xref": "table", "xref_n": 50, "trailer": [["Root", r(1)]]}]})).bytes
}

fn range_of(v: &Value) -> PageRange {
    match v["k"].as_str().unwrap() {
        "all" => PageRange::All,
        "single" => PageRange::Single(v["a"].as_u64().unwrap() as usize),
        "range" => PageRange::Range(v["a"].as_u64().unwrap() as usize, v["b"].as_u64().unwrap() as usize),
        _ => PageRange::List(v["l"].as_array().unwrap().iter().map(|x| x.as_u64().unwrap() as usize).collect()),
    }
}

fn micro(b: &[f64; 4]) -> Vec<i64> {
    b.iter().map(|x| ((x * 1e6).round() as i64).clamp(-2_000_000_000, 2_000_000_000)).collect()
}

/// The library's reading of an output document: per page boxes, rotation, font keys and which source page its
/// content shows ("(PAGE i) Tj").
fn view(bytes: &[u8]) -> Value {
    let b = bytes.to_vec();
    let r = std::panic::catch_unwind(move || {
        let reader = match PdfReader::new_with_options(Cursor::new(b), ParseOptions::default()) {
            Ok(r) => r,
            Err(e) => return json!({"open": false, "err": e.to_string(), "pages": []}),
        };
        let doc = reader.into_document();
        let n = doc.page_count().unwrap_or(0);
        let mut pages = Vec::new();
        for i in 0..n.min(40) {
            match doc.get_page(i) {
                Ok(pg) => {
                    let mut fonts: Vec<Vec<u8>> = Vec::new();
                    if let Some(res) = pg.get_resources() {
                        if let Some(PdfObject::Dictionary(f)) = res.get("Font") {
                            for k in f.0.keys() {
                                fonts.push(k.0.as_bytes().to_vec());
                            }
                        }
                    }
                    fonts.sort();
                    let content: Vec<u8> = doc.get_page_content_streams(&pg).map(|ss| ss.concat()).unwrap_or_default();
                    let text = String::from_utf8_lossy(&content).to_string();
                    let shown: Vec<i64> = text.match_indices("(PAGE ").filter_map(|(at, _)| text[at + 6..].chars().next().and_then(|c| c.to_digit(10)).map(|d| d as i64)).collect();
                    pages.push(json!({"ok": true, "mediaBox": micro(&pg.media_box), "cropBox": pg.crop_box.map(|b| micro(&b)).unwrap_or_default(), "rotate": pg.rotation,
                                      "fonts": fonts, "shows": shown}));
                }
                Err(_) => pages.push(json!({"ok": false, "mediaBox": [], "cropBox": [], "rotate": 0, "fonts": [], "shows": []})),
            }
        }
        json!({"open": true, "err": "", "pages": pages})
    });
    r.unwrap_or_else(|_| json!({"open": false, "err": "panic", "pages": []}))
}

fn run(a: &Args) {
    std::panic::set_hook(Box::new(|_| {}));
    let mut out = Out::file(a.req("out"));
    let dir = a.req("dir").to_string();
    std::fs::create_dir_all(&dir).unwrap();
    let stride = a.num("stride", 1) as usize;
    for (ci, c) in read_cases(a.req("in")).iter().enumerate() {
        if ci % stride != 0 {
            continue;
        }
        let n = c["n"].as_u64().unwrap() as usize;
        let op = &c["op"];
        let src = format!("{dir}/src_{n}.pdf");
        std::fs::write(&src, source(n)).unwrap();
        let outp = format!("{dir}/out_{ci}.pdf");
        let _ = std::fs::remove_file(&outp);
        let (src2, outp2, op2, dir2) = (src.clone(), outp.clone(), op.clone(), dir.clone());
        let res = std::panic::catch_unwind(move || -> Result<Vec<String>, String> {
            let one = |r: Result<(), oxidize_pdf::operations::OperationError>| r.map(|_| vec![outp2.clone()]).map_err(|e| e.to_string());
            match op2["k"].as_str().unwrap() {
                "extract" => match range_of(&op2["r"]) {
                    PageRange::List(l) => one(extract_pages_to_file(&src2, &l, &outp2)),
                    rg => one(extract_page_range_to_file(&src2, &rg, &outp2)),
                },
                "reorder" => one(reorder_pdf_pages(&src2, &outp2, op2["order"].as_array().unwrap().iter().map(|x| x.as_u64().unwrap() as usize).collect())),
                "reverse" => one(reverse_pdf_pages(&src2, &outp2)),
                "swap" => one(swap_pdf_pages(&src2, &outp2, op2["a"].as_u64().unwrap() as usize, op2["b"].as_u64().unwrap() as usize)),
                "move" => one(move_pdf_page(&src2, &outp2, op2["a"].as_u64().unwrap() as usize, op2["b"].as_u64().unwrap() as usize)),
                "rotate" => one(rotate_pdf_pages(&src2, &outp2, RotateOptions { pages: range_of(&op2["r"]),
                                                                               angle: RotationAngle::from_degrees(op2["angle"].as_i64().unwrap() as i32).map_err(|e| e.to_string())?,
                                                                               preserve_page_size: false })),
                k => {
                    let mode = match k {
                        "split_single" => SplitMode::SinglePages,
                        "split_chunks" => SplitMode::ChunkSize(op2["a"].as_u64().unwrap() as usize),
                        "split_at" => SplitMode::SplitAt(op2["pts"].as_array().unwrap().iter().map(|x| x.as_u64().unwrap() as usize).collect()),
                        _ => SplitMode::Ranges(op2["rs"].as_array().unwrap().iter().map(range_of).collect()),
                    };
                    let pattern = format!("{dir2}/part_{}_{{}}.pdf", op2.to_string().len());
                    split_pdf(&src2, SplitOptions { mode, output_pattern: pattern, preserve_metadata: true, optimize: false })
                        .map(|v| v.iter().map(|p| p.to_string_lossy().to_string()).collect())
                        .map_err(|e| e.to_string())
                }
            }
        });
        let (outcome, paths, err) = match res {
            Ok(Ok(p)) => ("ok", p, String::new()),
            Ok(Err(e)) => ("err", vec![], e),
            Err(_) => ("panic", vec![], "panic".to_string()),
        };
        out.line(&json!({"ev": "op", "case": ci, "n": n, "op": op, "outcome": outcome, "err": err, "outputs": paths.len()}));
        let mut part_paths = Vec::new();
        for (k, p) in paths.iter().enumerate() {
            let bytes = std::fs::read(p).unwrap_or_default();
            out.line(&json!({"ev": "out", "k": k + 1, "bytes": bytes, "lib": view(&bytes)}));
            out.line(&json!({"ev": "chk_out"}));
            part_paths.push(p.clone());
        }
        // a split's parts merged back
        if outcome == "ok" && op["k"].as_str().unwrap().starts_with("split_") && op["k"] != "split_ranges" {
            let merged = format!("{dir}/merged_{ci}.pdf");
            let pp = part_paths.clone();
            let m2 = merged.clone();
            let r = std::panic::catch_unwind(move || merge_pdf_files(&pp, &m2).map_err(|e| e.to_string()));
            let bytes = std::fs::read(&merged).unwrap_or_default();
            let ok = matches!(r, Ok(Ok(())));
            out.line(&json!({"ev": "merged", "ok": ok, "bytes": bytes, "lib": view(&bytes)}));
            out.line(&json!({"ev": "chk_merged"}));
            let _ = std::fs::remove_file(&merged);
        }
        out.line(&json!({"ev": "chk_op"}));
        for p in paths {
            let _ = std::fs::remove_file(p);
        }
    }
    out.flush();
}
