//! C24 - embedded raster images decode to the pixels that were supplied.
//!
//! Cases (MCPng.tla): a PNG file written by the specification, or a raw RGB / RGBA / grey buffer.  The image is
//! placed on a page, the document written, and the image XObject (and its soft mask) fetched from the written
//! file: dictionary entries and the stream data AS STORED (the specification applies the filter itself).
use crate::util::*;
use oxidize_pdf::graphics::{ColorSpace, Image};
use oxidize_pdf::parser::objects::{PdfDictionary, PdfObject};
use oxidize_pdf::parser::{ParseOptions, PdfReader};
use oxidize_pdf::{Document, Page};
use serde_json::{json, Value};
use std::io::Cursor;

pub fn main(a: &Args) {
    match a.pos.first().map(|s| s.as_str()) {
        Some("run") => run(a),
        _ => tool_error("c24 run"),
    }
}

fn bytes_of(v: &Value) -> Vec<u8> {
    v.as_array().map(|a| a.iter().map(|x| x.as_u64().unwrap_or(0) as u8).collect()).unwrap_or_default()
}

fn name_of(d: &PdfDictionary, k: &str) -> String {
    match d.get(k) {
        Some(PdfObject::Name(n)) => n.0.clone(),
        Some(PdfObject::Array(a)) => a.0.iter().map(|x| x.as_name().map(|n| n.0.clone()).unwrap_or_else(|| "?".into())).collect::<Vec<_>>().join("+"),
        None => "none".into(),
        _ => "?".into(),
    }
}
fn int_of(d: &PdfDictionary, k: &str) -> i64 {
    d.get(k).and_then(|o| o.as_integer()).unwrap_or(-1)
}

/// the image XObject `name` of page 0 as the written file holds it
fn stored(bytes: &[u8], name: &str) -> Result<Value, String> {
    let mut r = PdfReader::new_with_options(Cursor::new(bytes.to_vec()), ParseOptions::strict()).map_err(|e| e.to_string())?;
    let doc_pages = r.page_count().map_err(|e| e.to_string())?;
    if doc_pages < 1 {
        return Err("no page".into());
    }
    let doc = r.into_document();
    let pg = doc.get_page(0).map_err(|e| e.to_string())?;
    let res = doc.get_page_resources(&pg).map_err(|e| e.to_string())?.ok_or("no resources")?.clone();
    let xo = doc.resolve(res.get("XObject").ok_or("no /XObject")?).map_err(|e| e.to_string())?;
    let xo = xo.as_dict().ok_or("XObject not a dictionary")?.clone();
    let im = doc.resolve(xo.get(name).ok_or("image not in /XObject")?).map_err(|e| e.to_string())?;
    let st = im.as_stream().ok_or("image is not a stream")?.clone();
    let describe = |s: &oxidize_pdf::parser::objects::PdfStream| {
        json!({"present": true, "width": int_of(&s.dict, "Width"), "height": int_of(&s.dict, "Height"), "cs": name_of(&s.dict, "ColorSpace"), "bpc": int_of(&s.dict, "BitsPerComponent"),
               "filter": name_of(&s.dict, "Filter"), "parms": s.dict.get("DecodeParms").is_some(), "decode": s.dict.get("Decode").is_some(), "mask": s.dict.get("Mask").is_some(), "data": s.data.clone()})
    };
    let smask = match st.dict.get("SMask") {
        Some(o) => {
            let m = doc.resolve(o).map_err(|e| e.to_string())?;
            match m.as_stream() {
                Some(ms) => describe(ms),
                None => return Err("SMask is not a stream".into()),
            }
        }
        None => json!({"present": false, "width": 0, "height": 0, "cs": "none", "bpc": 0, "filter": "none", "parms": false, "decode": false, "mask": false, "data": []}),
    };
    Ok(json!({"image": describe(&st), "smask": smask}))
}

fn embed(img: Image) -> Result<Value, String> {
    let mut doc = Document::new();
    let mut page = Page::new(300.0, 300.0);
    page.add_image("Im1", img);
    page.draw_image("Im1", 10.0, 10.0, 100.0, 100.0).map_err(|e| e.to_string())?;
    doc.add_page(page);
    let bytes = doc.to_bytes().map_err(|e| e.to_string())?;
    stored(&bytes, "Im1")
}

fn run(a: &Args) {
    std::panic::set_hook(Box::new(|_| {}));
    let mut out = Out::file(a.req("out"));
    let none = json!({"image": {"present": false, "width": 0, "height": 0, "cs": "none", "bpc": 0, "filter": "none", "parms": false, "decode": false, "mask": false, "data": []},
                      "smask": {"present": false, "width": 0, "height": 0, "cs": "none", "bpc": 0, "filter": "none", "parms": false, "decode": false, "mask": false, "data": []}});
    for (ci, c) in read_cases(a.req("in")).iter().enumerate() {
        let c2 = c.clone();
        let r = std::panic::catch_unwind(move || -> Result<Value, String> {
            let img = if c2.get("png").is_some() {
                Image::from_png_data(bytes_of(&c2["png"])).map_err(|e| e.to_string())?
            } else {
                let (w, h, data) = (c2["w"].as_u64().unwrap() as u32, c2["h"].as_u64().unwrap() as u32, bytes_of(&c2["data"]));
                match c2["raw"].as_str().unwrap() {
                    "rgb" => Image::from_raw_data(data, w, h, ColorSpace::DeviceRGB, 8),
                    "rgba" => Image::from_rgba_data(data, w, h).map_err(|e| e.to_string())?,
                    _ => Image::from_gray_data(data, w, h).map_err(|e| e.to_string())?,
                }
            };
            embed(img)
        });
        let (ok, err, st) = match r {
            Ok(Ok(v)) => (true, String::new(), v),
            Ok(Err(e)) => (false, e, none.clone()),
            Err(_) => (false, "panic".to_string(), none.clone()),
        };
        let mut ev = c.as_object().unwrap().clone();
        ev.insert("ev".into(), json!(if c.get("png").is_some() { "png" } else { "raw" }));
        ev.insert("case".into(), json!(ci));
        ev.insert("ok".into(), json!(ok));
        ev.insert("err".into(), json!(err));
        ev.insert("stored".into(), st);
        out.line(&Value::Object(ev));
    }
    out.flush();
}
