//! C11 - text extraction conserves every drawn character.
//!
//! A case (from MCText.tla) is an abstract page program over the text-showing vocabulary; this module serializes
//! it into a content stream (its own serializer: nothing of the library's writer), wraps it in a file with synth
//! (Helvetica with WinAnsiEncoding as F1, a Type0 / Identity-H font with a ToUnicode CMap as F2, form XObjects),
//! and records what the library extracts under each requested ExtractionOptions combination.
use crate::util::*;
use oxidize_pdf::parser::{ParseOptions, PdfReader};
use oxidize_pdf::text::{ExtractionOptions, TextExtractor};
use serde_json::{json, Value};
use std::io::Cursor;

pub fn main(a: &Args) {
    match a.pos.first().map(|s| s.as_str()) {
        Some("run") => run(a),
        _ => tool_error("c11 run"),
    }
}

fn esc_literal(bytes: &[u8], out: &mut Vec<u8>) {
    out.push(b'(');
    for b in bytes {
        match b {
            b'(' | b')' | b'\\' => {
                out.push(b'\\');
                out.push(*b);
            }
            10 => out.extend_from_slice(b"\\n"),
            13 => out.extend_from_slice(b"\\r"),
            0..=31 | 127..=255 => out.extend_from_slice(format!("\\{:03o}", b).as_bytes()),
            _ => out.push(*b),
        }
    }
    out.push(b')');
}

/// a show string: F1 strings are bytes (one per character code), F2 strings 2-byte CIDs written in hex
fn ser_string(item: &Value, out: &mut Vec<u8>) {
    if let Some(cids) = item.get("cids").and_then(|c| c.as_array()) {
        out.push(b'<');
        for c in cids {
            out.extend_from_slice(format!("{:04X}", c.as_u64().unwrap_or(0)).as_bytes());
        }
        out.push(b'>');
    } else {
        let bytes: Vec<u8> = item["s"].as_array().map(|a| a.iter().map(|x| x.as_u64().unwrap_or(63) as u8).collect()).unwrap_or_default();
        esc_literal(&bytes, out);
    }
}

fn nums(item: &Value, out: &mut Vec<u8>) {
    for n in item["n"].as_array().unwrap_or(&Vec::new()) {
        out.extend_from_slice(n.as_str().unwrap_or("0").as_bytes());
        out.push(b' ');
    }
}

pub fn content_of(prog: &Value) -> Vec<u8> {
    let mut out = Vec::new();
    for it in prog.as_array().unwrap_or(&Vec::new()) {
        match it["k"].as_str().unwrap_or("") {
            "bt" => out.extend_from_slice(b"BT\n"),
            "et" => out.extend_from_slice(b"ET\n"),
            "q" => out.extend_from_slice(b"q\n"),
            "Q" => out.extend_from_slice(b"Q\n"),
            "op" => {
                nums(it, &mut out);
                out.extend_from_slice(it["op"].as_str().unwrap().as_bytes());
                out.push(b'\n');
            }
            "font" => {
                out.extend_from_slice(format!("/{} {} Tf\n", it["name"].as_str().unwrap(), it["size"].as_str().unwrap()).as_bytes());
            }
            "show" => {
                ser_string(it, &mut out);
                out.extend_from_slice(b" Tj\n");
            }
            "quote" => {
                ser_string(it, &mut out);
                out.extend_from_slice(b" '\n");
            }
            "dquote" => {
                out.extend_from_slice(format!("{} {} ", it["aw"].as_str().unwrap(), it["ac"].as_str().unwrap()).as_bytes());
                ser_string(it, &mut out);
                out.extend_from_slice(b" \"\n");
            }
            "showtj" => {
                out.push(b'[');
                for p in it["parts"].as_array().unwrap() {
                    if let Some(k) = p.get("kern") {
                        out.extend_from_slice(k.as_str().unwrap().as_bytes());
                    } else {
                        ser_string(p, &mut out);
                    }
                    out.push(b' ');
                }
                out.extend_from_slice(b"] TJ\n");
            }
            "form" => out.extend_from_slice(format!("/{} Do\n", it["name"].as_str().unwrap()).as_bytes()),
            "artifact" => out.extend_from_slice(b"/Artifact BMC\n"),
            "artifact_props" => out.extend_from_slice(b"/Artifact <</Type /Pagination>> BDC\n"),
            "actual" => {
                out.extend_from_slice(b"/Span <</ActualText ");
                // the replacement text as a UTF-16BE text string
                let mut b = vec![0xFEu8, 0xFF];
                for c in it["text"].as_array().unwrap() {
                    let ch = char::from_u32(c.as_u64().unwrap() as u32).unwrap_or('?');
                    let mut buf = [0u16; 2];
                    for u in ch.encode_utf16(&mut buf) {
                        b.extend_from_slice(&u.to_be_bytes());
                    }
                }
                esc_literal(&b, &mut out);
                out.extend_from_slice(b">> BDC\n");
            }
            "span" => out.extend_from_slice(b"/Span <</Lang (en)>> BDC\n"),
            "emc" => out.extend_from_slice(b"EMC\n"),
            other => tool_error(&format!("c11: item kind {other}")),
        }
    }
    out
}

fn nm(s: &str) -> Value {
    json!({ "n": s })
}
fn rf(k: u32) -> Value {
    json!({"ref": [k, 0]})
}
fn dd(pairs: Vec<(&str, Value)>) -> Value {
    json!({"d": pairs.into_iter().map(|(k, v)| json!([k, v])).collect::<Vec<_>>()})
}

fn tounicode(map: &Value, ranges: bool) -> Vec<u8> {
    let mut s = String::from("/CIDInit /ProcSet findresource begin\n12 dict begin\nbegincmap\n/CIDSystemInfo << /Registry (Adobe) /Ordering (UCS) /Supplement 0 >> def\n/CMapName /Adobe-Identity-UCS def\n/CMapType 2 def\n1 begincodespacerange\n<0000> <FFFF>\nendcodespacerange\n");
    let all = map.as_array().cloned().unwrap_or_default();
    let hex_u = |e: &Value| -> String {
        let mut u = String::new();
        for c in e["u"].as_array().unwrap() {
            let ch = char::from_u32(c.as_u64().unwrap() as u32).unwrap_or('?');
            let mut buf = [0u16; 2];
            for x in ch.encode_utf16(&mut buf) {
                u.push_str(&format!("{:04X}", x));
            }
        }
        u
    };
    // `ranges`: runs of consecutive CIDs are written as bfrange - the offset form when the targets are consecutive single
    // code points, the array form otherwise - and only the rest as bfchar
    let mut m: Vec<Value> = Vec::new();
    if ranges {
        let mut runs: Vec<Vec<Value>> = Vec::new();
        for e in &all {
            let cid = e["cid"].as_u64().unwrap();
            match runs.last_mut() {
                Some(r) if r.last().unwrap()["cid"].as_u64().unwrap() + 1 == cid => r.push(e.clone()),
                _ => runs.push(vec![e.clone()]),
            }
        }
        let mut lines = Vec::new();
        for r in runs {
            if r.len() < 2 {
                m.push(r[0].clone());
                continue;
            }
            let (lo, hi) = (r[0]["cid"].as_u64().unwrap(), r[r.len() - 1]["cid"].as_u64().unwrap());
            let single = r.iter().all(|e| e["u"].as_array().unwrap().len() == 1 && e["u"][0].as_u64().unwrap() < 0x10000);
            let consecutive = single && r.windows(2).all(|w| w[0]["u"][0].as_u64().unwrap() + 1 == w[1]["u"][0].as_u64().unwrap());
            if consecutive {
                lines.push(format!("<{:04X}> <{:04X}> <{}>", lo, hi, hex_u(&r[0])));
            } else {
                lines.push(format!("<{:04X}> <{:04X}> [{}]", lo, hi, r.iter().map(|e| format!("<{}>", hex_u(e))).collect::<Vec<_>>().join(" ")));
            }
        }
        s.push_str(&format!("{} beginbfrange\n{}\nendbfrange\n", lines.len(), lines.join("\n")));
    } else {
        m = all;
    }
    s.push_str(&format!("{} beginbfchar\n", m.len()));
    for e in &m {
        let cid = e["cid"].as_u64().unwrap();
        let mut u = String::new();
        for c in e["u"].as_array().unwrap() {
            let ch = char::from_u32(c.as_u64().unwrap() as u32).unwrap_or('?');
            let mut buf = [0u16; 2];
            for x in ch.encode_utf16(&mut buf) {
                u.push_str(&format!("{:04X}", x));
            }
        }
        s.push_str(&format!("<{:04X}> <{}>\n", cid, u));
    }
    s.push_str("endbfchar\nendcmap\nCMapName currentdict /CMap defineresource pop\nend\nend\n");
    s.into_bytes()
}

/// the file around a page program
pub fn build_file(case: &Value) -> Vec<u8> {
    let fonts = dd(vec![("F1", rf(5)), ("F2", rf(6))]);
    let forms = case["forms"].as_object().cloned().unwrap_or_default();
    let mut xobj = Vec::new();
    let mut objects = vec![
        json!({"n": 1, "g": 0, "value": dd(vec![("Type", nm("Catalog")), ("Pages", rf(2))])}),
        json!({"n": 2, "g": 0, "value": dd(vec![("Type", nm("Pages")), ("Kids", json!([rf(3)])), ("Count", json!(1))])}),
        json!({"n": 5, "g": 0, "value": dd(vec![("Type", nm("Font")), ("Subtype", nm("Type1")), ("BaseFont", nm("Helvetica")), ("Encoding", nm("WinAnsiEncoding"))])}),
        json!({"n": 6, "g": 0, "value": dd(vec![("Type", nm("Font")), ("Subtype", nm("Type0")), ("BaseFont", nm("VerifSans")), ("Encoding", nm("Identity-H")),
            ("DescendantFonts", json!([rf(7)])), ("ToUnicode", rf(9))])}),
        json!({"n": 7, "g": 0, "value": dd(vec![("Type", nm("Font")), ("Subtype", nm("CIDFontType2")), ("BaseFont", nm("VerifSans")),
            ("CIDSystemInfo", dd(vec![("Registry", json!({"s": "Adobe"})), ("Ordering", json!({"s": "Identity"})), ("Supplement", json!(0))])),
            ("FontDescriptor", rf(8)), ("DW", json!(1000))])}),
        json!({"n": 8, "g": 0, "value": dd(vec![("Type", nm("FontDescriptor")), ("FontName", nm("VerifSans")), ("Flags", json!(4)), ("FontBBox", json!([0, -200, 1000, 800])),
            ("ItalicAngle", json!(0)), ("Ascent", json!(800)), ("Descent", json!(-200)), ("CapHeight", json!(700)), ("StemV", json!(80))])}),
        json!({"n": 9, "g": 0, "dict": dd(vec![]), "data": tounicode(&case["f2map"], case["cmapRanges"].as_bool().unwrap_or(false)), "filter": "Flate"}),
    ];
    let mut k = 20u32;
    let mut form_ids = std::collections::BTreeMap::new();
    for name in forms.keys() {
        form_ids.insert(name.clone(), k);
        xobj.push((name.clone(), rf(k)));
        k += 1;
    }
    let xobj_dict = json!({"d": xobj.iter().map(|(n, r)| json!([n, r])).collect::<Vec<_>>()});
    for (name, prog) in &forms {
        let id = form_ids[name];
        // inside a form the two font names mean the OTHER font objects: a form's resources are its own (8.10.1)
        let form_fonts = dd(vec![("F1", rf(6)), ("F2", rf(5))]);
        objects.push(json!({"n": id, "g": 0, "dict": dd(vec![("Type", nm("XObject")), ("Subtype", nm("Form")), ("BBox", json!([0, 0, 2000, 2000])),
            ("Resources", dd(vec![("Font", form_fonts), ("XObject", xobj_dict.clone())]))]), "data": content_of(prog), "filter": null}));
    }
    objects.push(json!({"n": 3, "g": 0, "value": dd(vec![("Type", nm("Page")), ("Parent", rf(2)), ("MediaBox", json!([0, 0, 2000, 2000])), ("Contents", rf(4)),
        ("Resources", dd(vec![("Font", fonts.clone()), ("XObject", xobj_dict.clone())]))])}));
    objects.push(json!({"n": 4, "g": 0, "dict": dd(vec![]), "data": content_of(&case["prog"]), "filter": if case["flate"].as_bool().unwrap_or(false) { json!("Flate") } else { Value::Null }}));
    let plan = json!({"version": "1.7", "revisions": [{"objects": objects, "xref": "table", "trailer": [["Root", rf(1)]]}]});
    crate::synth::build(&plan).bytes
}

fn options_of(bits: u64) -> ExtractionOptions {
    ExtractionOptions {
        preserve_layout: bits & 1 != 0,
        sort_by_position: bits & 2 != 0,
        detect_columns: bits & 4 != 0,
        merge_hyphenated: bits & 8 != 0,
        reconstruct_paragraphs: bits & 16 != 0,
        include_artifacts: bits & 32 != 0,
        reorder_columns: bits & 64 != 0,
        ..ExtractionOptions::default()
    }
}

fn extract(bytes: &[u8], bits: u64) -> Value {
    let b = bytes.to_vec();
    let r = std::panic::catch_unwind(move || -> Result<String, String> {
        let reader = PdfReader::new_with_options(Cursor::new(b), ParseOptions::default()).map_err(|e| e.to_string())?;
        let doc = reader.into_document();
        let mut ex = TextExtractor::with_options(options_of(bits)).with_reading_order(bits & 128 != 0);
        let t = ex.extract_from_page(&doc, 0).map_err(|e| e.to_string())?;
        let mut all = t.text.clone();
        // in layout mode the fragments carry the text as well: they must tell the same story
        if !t.fragments.is_empty() && t.text.is_empty() {
            all = t.fragments.iter().map(|f| f.text.clone()).collect::<Vec<_>>().join("\n");
        }
        Ok(all)
    });
    match r {
        Ok(Ok(s)) => json!({"ok": true, "text": s.chars().map(|c| c as u32).collect::<Vec<u32>>(), "err": ""}),
        Ok(Err(e)) => json!({"ok": false, "text": [], "err": e}),
        Err(_) => json!({"ok": false, "text": [], "err": "panic"}),
    }
}

fn run(a: &Args) {
    std::panic::set_hook(Box::new(|_| {}));
    let mut out = Out::file(a.req("out"));
    for (ci, c) in read_cases(a.req("in")).iter().enumerate() {
        let bytes = build_file(c);
        let mut runs = Vec::new();
        for o in c["opts"].as_array().cloned().unwrap_or_default() {
            let bits = o.as_u64().unwrap_or(0);
            let first = extract(&bytes, bits);
            let second = extract(&bytes, bits);
            runs.push(json!({"bits": bits, "first": first, "again": second == first}));
        }
        let mut ev = c.as_object().unwrap().clone();
        ev.insert("ev".into(), json!("page"));
        ev.insert("case".into(), json!(ci));
        ev.insert("runs".into(), json!(runs));
        ev.insert("content".into(), json!(String::from_utf8_lossy(&content_of(&c["prog"])).to_string()));
        out.line(&Value::Object(ev));
    }
    out.flush();
}
