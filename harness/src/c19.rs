//! C19 - damaged cross-reference data: fault sequences from XRefDamage.tla applied to valid single-revision files.
use crate::proj::*;
use crate::util::*;
use oxidize_pdf::parser::{ParseOptions, PdfReader};
use serde_json::{json, Value};
use std::io::Cursor;

pub fn main(a: &Args) {
    match a.pos.first().map(|s| s.as_str()) {
        Some("run") => run(a),
        _ => tool_error("c19 run"),
    }
}

/// Where the cross-reference data of a classic single-revision file sits (found from the file's own startxref).
struct Layout {
    startxref_kw: usize,
    startxref_val: usize,
    startxref_digits: usize,
    xref: usize,
    header_line: usize,
    entries: Vec<(u32, usize)>, // object number -> offset of its 20-byte line
    trailer_kw: usize,
}

fn rfind(h: &[u8], n: &[u8]) -> Option<usize> {
    (0..=h.len().saturating_sub(n.len())).rev().find(|i| &h[*i..*i + n.len()] == n)
}
fn find_from(h: &[u8], n: &[u8], from: usize) -> Option<usize> {
    (from..=h.len().saturating_sub(n.len())).find(|i| &h[*i..*i + n.len()] == n)
}

fn layout(b: &[u8]) -> Option<Layout> {
    let kw = rfind(b, b"startxref")?;
    let mut v = kw + 9;
    if v >= b.len() { return None; }
    while v < b.len() && (b[v] == b'\n' || b[v] == b'\r' || b[v] == b' ') { v += 1; }
    let digits = b[v..].iter().take_while(|c| c.is_ascii_digit()).count();
    let xref: usize = std::str::from_utf8(&b[v..v + digits]).ok()?.parse().ok()?;
    if xref + 4 > b.len() || &b[xref..xref + 4] != b"xref" { return None; }
    let mut p = xref + 4;
    while b[p] == b'\n' || b[p] == b'\r' || b[p] == b' ' { p += 1; }
    let header_line = p;
    let line_end = (p..b.len()).find(|i| b[*i] == b'\n' || b[*i] == b'\r')?;
    let hdr = std::str::from_utf8(&b[p..line_end]).ok()?.trim().to_string();
    let mut it = hdr.split_whitespace();
    let first: u32 = it.next()?.parse().ok()?;
    let count: u32 = it.next()?.parse().ok()?;
    let mut e = line_end + 1;
    let mut entries = Vec::new();
    for i in 0..count {
        entries.push((first + i, e));
        e += 20;
    }
    let trailer_kw = find_from(b, b"trailer", e)?;
    Some(Layout { startxref_kw: kw, startxref_val: v, startxref_digits: digits, xref, header_line, entries, trailer_kw })
}

fn set_digits(b: &mut [u8], at: usize, width: usize, value: u64) {
    let s = format!("{:0width$}", value, width = width);
    let s = s.as_bytes();
    let s = &s[s.len() - width..];
    b[at..at + width].copy_from_slice(s);
}

/// Apply one damage operation of the catalogue (XRefDamage.tla).  `pick(n)`: abstract object 1 = the first in-use
/// entry, abstract object 2 = the last in-use entry.
fn damage(bytes: &mut Vec<u8>, op: &Value) -> bool {
    let l = match layout(bytes) {
        Some(l) => l,
        None => {
            // after delete_startxref / truncation the layout can no longer be found: later operations on the table
            // locate it by the keyword instead
            return damage_blind(bytes, op);
        }
    };
    let inuse: Vec<(u32, usize)> = l.entries.iter().filter(|(_, at)| bytes[*at + 17] == b'n').cloned().collect();
    let pick = |n: u64| -> Option<usize> { if inuse.is_empty() { None } else if n == 1 { Some(inuse[0].1) } else { Some(inuse[inuse.len() - 1].1) } };
    let k = op["k"].as_u64().unwrap();
    match op["op"].as_str().unwrap() {
        "shift_all" => {
            for (_, at) in &inuse {
                let cur: u64 = std::str::from_utf8(&bytes[*at..*at + 10]).unwrap().parse().unwrap();
                set_digits(bytes, *at, 10, cur + k);
            }
        }
        "corrupt_entry" => {
            if let Some(at) = pick(op["n"].as_u64().unwrap()) {
                let other = if inuse.len() > 1 { inuse[inuse.len() / 2].1 } else { at };
                let v = match k { 0 => 0u64, 1 => std::str::from_utf8(&bytes[other..other + 10]).unwrap().parse::<u64>().unwrap() + 3, _ => bytes.len() as u64 };
                set_digits(bytes, at, 10, v);
            }
        }
        "flip_free" => {
            if let Some(at) = pick(op["n"].as_u64().unwrap()) {
                bytes[at + 17] = b'f';
            }
        }
        "delete_table" => {
            for i in l.xref..l.trailer_kw {
                if bytes[i] != b'\n' && bytes[i] != b'\r' { bytes[i] = b' '; }
            }
        }
        "bad_subsection_header" => {
            let end = (l.header_line..bytes.len()).find(|i| bytes[*i] == b'\n' || bytes[*i] == b'\r').unwrap();
            // A count that is too large is only unambiguous damage when the table has one subsection: the library
            // documents a flexible entry syntax ("17 0 n", "17 0") for sloppy producers, under which the header line
            // of a following subsection reads as one more entry.
            let table_end = l.entries.last().map(|e| e.1 + 20).unwrap_or(end + 1);
            let rest = String::from_utf8_lossy(&bytes[table_end.min(l.trailer_kw)..l.trailer_kw]).trim().to_string();
            // Likewise a start that is one or two objects late: in a single-subsection table the last entry then names an
            // object at or beyond /Size, which is unambiguous; with further subsections the entries merely name other
            // objects of the file - cross-reference data that parses but lies, which is the offsets finding's territory.
            if (k == 0 || k >= 2) && !rest.is_empty() {
                return false;
            }
            let hdr = String::from_utf8_lossy(&bytes[l.header_line..end]).to_string();
            let mut it = hdr.split_whitespace();
            let (first, count): (u64, u64) = (it.next().and_then(|x| x.parse().ok()).unwrap_or(0), it.next().and_then(|x| x.parse().ok()).unwrap_or(0));
            let shifted = format!("{} {}", (first + k).saturating_sub(1), count);
            let repl: &[u8] = if k == 0 { b"0 99999" } else if k == 1 { b"x y" } else { shifted.as_bytes() };
            let mut line = repl.to_vec();
            while line.len() < end - l.header_line { line.push(b' '); }
            if line.len() == end - l.header_line {
                bytes[l.header_line..end].copy_from_slice(&line);
            } else {
                bytes.splice(l.header_line..end, line);
            }
        }
        "delete_startxref" => {
            let end = l.startxref_val + l.startxref_digits;
            for i in l.startxref_kw..end { bytes[i] = b' '; }
        }
        "startxref_to" => {
            let v = match k { 0 => 0u64, 1 => bytes.len() as u64, _ => (inuse.get(1).map(|e| std::str::from_utf8(&bytes[e.1..e.1 + 10]).unwrap().parse::<u64>().unwrap()).unwrap_or(20)) + 3 };
            let s = v.to_string().into_bytes();
            bytes.splice(l.startxref_val..l.startxref_val + l.startxref_digits, s);
        }
        "truncate_trailer" => {
            bytes.truncate(l.trailer_kw + 10);
        }
        other => tool_error(&format!("damage {other}")),
    }
    true
}

fn damage_blind(bytes: &mut Vec<u8>, op: &Value) -> bool {
    // the file's own pointers are gone; find the table by its keyword at a line start
    let xref = match rfind(bytes, b"\nxref").or_else(|| rfind(bytes, b"\rxref")) { Some(p) => p + 1, None => return false };
    let trailer_kw = find_from(bytes, b"trailer", xref).unwrap_or(bytes.len());
    match op["op"].as_str().unwrap() {
        "delete_table" => {
            for i in xref..trailer_kw { if bytes[i] != b'\n' && bytes[i] != b'\r' { bytes[i] = b' '; } }
            true
        }
        "truncate_trailer" => {
            if trailer_kw < bytes.len() { bytes.truncate(trailer_kw + 10); }
            true
        }
        _ => false, // the remaining operations need the pointers they would damage; the pair is not realisable
    }
}

/// generation number of each object, from the `N G obj` headers of the intact file
fn generations(b: &[u8]) -> std::collections::BTreeMap<u32, u16> {
    let mut m = std::collections::BTreeMap::new();
    let mut i = 0;
    while i + 4 <= b.len() {
        if &b[i..i + 4] == b" obj" {
            let mut j = i;
            while j > 0 && b[j - 1].is_ascii_digit() { j -= 1; }
            if j > 0 && b[j - 1] == b' ' && j < i {
                let mut k = j - 1;
                while k > 0 && b[k - 1].is_ascii_digit() { k -= 1; }
                let n = std::str::from_utf8(&b[k..j - 1]).ok().and_then(|s| s.parse::<u32>().ok());
                let g = std::str::from_utf8(&b[j..i]).ok().and_then(|s| s.parse::<u16>().ok());
                if let (Some(n), Some(g)) = (n, g) {
                    m.insert(n, g);
                }
            }
        }
        i += 1;
    }
    m
}

thread_local! { static GENS: std::cell::RefCell<std::collections::BTreeMap<u32, u16>> = const { std::cell::RefCell::new(std::collections::BTreeMap::new()) }; }

fn view(bytes: &[u8], numbers: &[u32], opts: ParseOptions) -> Value {
    let b = bytes.to_vec();
    let gens = GENS.with(|g| g.borrow().clone());
    let nums = numbers.to_vec();
    let (tx, rx) = std::sync::mpsc::channel();
    std::thread::spawn(move || {
        let r = std::panic::catch_unwind(move || {
            let mut reader = match PdfReader::new_with_options(Cursor::new(b), opts) {
                Ok(r) => r,
                Err(e) => return json!({"outcome": "error", "err": e.to_string(), "count": -1, "objects": {}, "catalog": {"t": "none"}}),
            };
            let mut objs = serde_json::Map::new();
            for n in nums {
                match reader.get_object(n, gens.get(&n).copied().unwrap_or(0)) {
                    Ok(o) => { objs.insert(n.to_string(), pobj_json(o)); }
                    Err(e) => { objs.insert(n.to_string(), json!({"t": "error", "msg": e.to_string()})); }
                }
            }
            let catalog = match reader.catalog() { Ok(d) => pdict_json(d), Err(e) => json!({"t": "error", "msg": e.to_string()}) };
            let count = reader.page_count().map(|n| n as i64).unwrap_or(-1);
            json!({"outcome": "value", "err": "", "count": count, "objects": objs, "catalog": catalog})
        });
        let _ = tx.send(r.unwrap_or_else(|_| json!({"outcome": "panic", "err": "panic", "count": -1, "objects": {}, "catalog": {"t": "none"}})));
    });
    rx.recv_timeout(std::time::Duration::from_secs(20)).unwrap_or_else(|_| json!({"outcome": "hang", "err": "no answer within 20 s", "count": -1, "objects": {}, "catalog": {"t": "none"}}))
}

fn run(a: &Args) {
    if std::env::var("VERIF_LOUD").is_err() { std::panic::set_hook(Box::new(|_| {})); }
    let mut out = Out::file(a.req("out"));
    let damages = read_cases(a.req("damages"));
    let stride = a.num("stride", 1) as usize;
    // base files: library-written documents (classic table, no object streams) and synthesized page trees
    let mut bases: Vec<(String, Vec<u8>)> = Vec::new();
    for (i, p) in read_cases(a.req("docs")).iter().enumerate() {
        if p["cfg"]["xref"].as_bool().unwrap() || p["cfg"]["objstm"].as_bool().unwrap() { continue; }
        if let Ok(mut d) = crate::c03::build_doc(p) {
            if let Ok(b) = crate::c03::write_doc(&mut d, &p["cfg"]) {
                bases.push((format!("doc{i}"), b));
            }
        }
        if bases.len() >= a.num("maxdocs", 4) as usize { break; }
    }
    if let Some(tp) = a.get("trees") {
        for (i, c) in read_cases(tp).iter().enumerate() {
            if c["form"] == "table" && c["variant"] == "plain" && c["countOff"] == 0 && c["tree"]["n"].as_u64().unwrap() >= 4 {
                bases.push((format!("tree{i}"), crate::synth::build(&crate::c18::plan_for(c)).bytes));
            }
            if bases.len() >= (a.num("maxdocs", 4) + a.num("maxtrees", 3)) as usize { break; }
        }
    }
    // a file as pdfTeX / Ghostscript spell it: dictionaries without spaces (/Type/Catalog), the catalog numbered AFTER
    // the page tree, catalog-level entries a reconstruction must not lose
    {
        let raw = |t: &str| json!({ "raw": t });
        let objects = vec![
            json!({"n": 2, "g": 0, "value": raw("<</Type/Pages/Kids[3 0 R 5 0 R]/Count 2>>")}),
            json!({"n": 3, "g": 0, "value": raw("<</Type/Page/Parent 2 0 R/MediaBox[0 0 200 100]/Contents 4 0 R>>")}),
            json!({"n": 4, "g": 0, "dict": {"d": []}, "data": b"0 0 m 10 10 l S".to_vec(), "filter": null}),
            json!({"n": 5, "g": 0, "value": raw("<</Type/Page/Parent 2 0 R/MediaBox[0 0 300 100]/Contents 6 0 R>>")}),
            json!({"n": 6, "g": 0, "dict": {"d": []}, "data": b"0 0 m 20 20 l S".to_vec(), "filter": null}),
            json!({"n": 9, "g": 0, "value": raw("<</Type/Catalog/Pages 2 0 R/PageLayout/OneColumn/Lang(en)>>")}),
        ];
        let plan = json!({"version": "1.4", "revisions": [{"objects": objects, "free": [], "xref": "table", "trailer": [["Root", {"ref": [9, 0]}]]}]});
        bases.push(("compact".to_string(), crate::synth::build(&plan).bytes));
        // the same file whose first content stream CONTAINS what looks like an object (a newer catalog, an object header in a
        // string): stream data is not file structure, a header scan must not harvest it
        let mut objects2 = plan["revisions"][0]["objects"].as_array().unwrap().clone();
        objects2[2] = json!({"n": 4, "g": 0, "dict": {"d": []},
            "data": b"0 0 m 10 10 l S\n(12 0 obj) Tj\n9 0 obj\n<</Type/Catalog/Pages 99 0 R/Decoy true>>\nendobj\n3 0 obj\n<</Type/Page/Decoy true>>\nendobj\n".to_vec(), "filter": null});
        let plan2 = json!({"version": "1.4", "revisions": [{"objects": objects2, "free": [], "xref": "table", "trailer": [["Root", {"ref": [9, 0]}]]}]});
        bases.push(("decoy".to_string(), crate::synth::build(&plan2).bytes));
        // the compact file with a lone CARRIAGE RETURN as end-of-line marker throughout (7.2.3 allows CR, LF or CR LF; only the
        // `stream` keyword must be followed by LF or CR LF), byte for byte as long as the original
        let mut cr = crate::synth::build(&plan).bytes;
        for i in 0..cr.len() {
            if cr[i] == b'\n' && !(i >= 6 && &cr[i - 6..i] == b"stream" && !(i >= 9 && &cr[i - 9..i - 6] == b"end")) {
                cr[i] = b'\r';
            }
        }
        bases.push(("cr_only".to_string(), cr));
        // an object with a non-zero generation number, referenced with it
        let objects3 = vec![
            json!({"n": 1, "g": 0, "value": raw("<</Type/Catalog/Pages 2 0 R>>")}),
            json!({"n": 2, "g": 0, "value": raw("<</Type/Pages/Kids[3 0 R]/Count 1>>")}),
            json!({"n": 3, "g": 0, "value": raw("<</Type/Page/Parent 2 0 R/MediaBox[0 0 200 100]/Contents 4 2 R/Annots 5 7 R>>")}),
            json!({"n": 4, "g": 2, "dict": {"d": []}, "data": b"0 0 m 10 10 l S".to_vec(), "filter": null}),
            json!({"n": 5, "g": 7, "value": raw("[]")}),
        ];
        let plan3 = json!({"version": "1.4", "revisions": [{"objects": objects3, "free": [], "xref": "table", "trailer": [["Root", {"ref": [1, 0]}]]}]});
        bases.push(("generations".to_string(), crate::synth::build(&plan3).bytes));
    }
    let mut case = 0usize;
    for (bi, (bname, base)) in bases.iter().enumerate() {
        let numbers = crate::c03::object_numbers(base);
        GENS.with(|g| *g.borrow_mut() = generations(base));
        let intact = view(base, &numbers, ParseOptions::lenient());
        out.line(&json!({"ev": "base", "name": bname, "bytes": base, "intact": intact}));
        out.line(&json!({"ev": "chk_base"}));
        for (di, d) in damages.iter().enumerate() {
            if (di + bi) % stride != 0 { continue; }
            let mut b = base.clone();
            let mut applied = true;
            for op in d["ops"].as_array().unwrap() {
                applied &= damage(&mut b, op);
            }
            if !applied || b == *base { continue; }
            case += 1;
            let damaged = view(&b, &numbers, ParseOptions::lenient());
            let skip = view(&b, &numbers, ParseOptions::skip_errors());
            let tolerant = view(&b, &numbers, ParseOptions::tolerant());
            out.line(&json!({"ev": "damaged", "case": case, "base": bname, "ops": d["ops"], "lenient": damaged, "skip_errors": skip, "tolerant": tolerant,
                             "tail": String::from_utf8_lossy(&b[b.len().saturating_sub(700)..])}));
        }
    }
    out.flush();
}
