//! C05 / C06 - encrypted documents: written by the library (every strength x writer configuration x passwords x
//! permissions), or taken from the repository's qpdf/pypdf-produced fixtures; read back by the library and handed
//! to the specification's decryptor (EncEnvelope.tla).
use crate::util::*;
use oxidize_pdf::document::{DocumentEncryption, EncryptionStrength};
use oxidize_pdf::encryption::Permissions;
use oxidize_pdf::parser::{ParseOptions, PdfReader};
use oxidize_pdf::text::Font;
use oxidize_pdf::{Document, Page};
use serde_json::{json, Value};
use std::io::Cursor;

pub fn main(a: &Args) {
    match a.pos.first().map(|s| s.as_str()) {
        Some("run") => run(a),
        Some("fixtures") => fixtures(a),
        Some("read") => read(a),
        _ => tool_error("c05 run|fixtures|read"),
    }
}

fn text_of(v: &Value) -> String {
    v.as_array().map(|a| a.iter().map(|x| char::from_u32(x.as_u64().unwrap() as u32).unwrap()).collect()).unwrap_or_default()
}
const TITLE: &str = "TITLE_MARKER_4711";
const BODY: &str = "BODY_MARKER_0815";
const LABEL: &str = "LABEL_MARKER_66"; // a page-label prefix: a string under the key /P of an ordinary dictionary
// the interactive layer and the logical structure carry strings and streams of their own
const ANNOT: &str = "ANNOT_CONTENTS_MARKER_21"; // /Contents of a text annotation
const URI: &str = "http://example.invalid/URI_MARKER_22"; // /URI of a link action (a string inside a nested dictionary)
const FNAME: &str = "FIELD_NAME_MARKER_23"; // /T of a form field
const FVALUE: &str = "FIELD_VALUE_MARKER_24"; // /V of a form field
const SID: &str = "STRUCT_ID_MARKER_25"; // /ID of a structure element: a string under the key /ID of an ordinary dictionary
const SALT: &str = "STRUCT_ALT_MARKER_26"; // /Alt of a structure element
const APTXT: &str = "APPEARANCE_MARKER_27"; // text a field is filled with: /V and the content of the widget's appearance stream
const AUTHOR: &str = "\u{c4}UTHOR_\u{3a9}_9"; // outside PDFDocEncoding: written as UTF-16BE

fn contains(h: &[u8], n: &[u8]) -> bool {
    !n.is_empty() && h.windows(n.len()).any(|w| w == n)
}

/// The library's handling of an encrypted file.  `markers`: (what, bytes) with what in {"title", "content"}.
fn library_view(bytes: &[u8], user: &str, owner: &str, wrong: &str) -> Value {
    let b = bytes.to_vec();
    let (user, owner, wrong) = (user.to_string(), owner.to_string(), wrong.to_string());
    let r = std::panic::catch_unwind(move || {
        let open = |pw: Option<&str>| -> Result<(PdfReader<Cursor<Vec<u8>>>, bool), String> {
            let mut r = PdfReader::new_with_options(Cursor::new(b.clone()), ParseOptions::default()).map_err(|e| e.to_string())?;
            let ok = match pw {
                Some(p) => r.unlock_with_password(p).unwrap_or(false),
                None => false,
            };
            Ok((r, ok))
        };
        let nums = crate::c03::object_numbers(&b);
        let read_markers = |r: PdfReader<Cursor<Vec<u8>>>| -> (Vec<bool>, u32) {
            let mut r = r;
            let md = r.metadata().ok();
            let title = md.as_ref().and_then(|m| m.title.clone()).unwrap_or_default();
            let author = md.as_ref().and_then(|m| m.author.clone()).unwrap_or_default();
            let perm = r.encryption_handler().map(|h| h.permissions().bits()).unwrap_or(0);
            let doc = r.into_document();
            let mut body = false;
            if let Ok(pg) = doc.get_page(0) {
                if let Ok(ss) = doc.get_page_content_streams(&pg) {
                    body = ss.iter().any(|s| contains(s, BODY.as_bytes()));
                }
            }
            let label = any_string_contains(&doc, &nums, LABEL.as_bytes());
            let mut found = vec![title == TITLE, body, author == AUTHOR, label];
            for m in [ANNOT, URI, FNAME, FVALUE, SID, SALT, APTXT] {
                found.push(any_string_contains(&doc, &nums, m.as_bytes()));
            }
            found.push(any_stream_contains(&doc, &nums, APTXT.as_bytes()));
            (found, perm)
        };
        let mut v = json!({"opened": false, "encrypted": false, "wrongRefused": false, "lockedLeak": false, "userUnlock": false, "ownerUnlock": false,
                           "userMarkers": [false], "ownerMarkers": [false], "permBits": 0, "err": ""});
        match open(None) {
            Ok((r, _)) => {
                v["opened"] = json!(true);
                v["encrypted"] = json!(r.is_encrypted());
                // while locked nothing of the plaintext may come out (unless the empty user password opens the file by itself)
                let auto = r.is_unlocked();
                let (m, _) = read_markers(r);
                v["lockedLeak"] = json!(!auto && m.iter().any(|x| *x));
            }
            Err(e) => {
                v["err"] = json!(e);
                return v;
            }
        }
        if let Ok((r, ok)) = open(Some(&wrong)) {
            let unlocked = ok || (r.is_unlocked() && !user.is_empty());
            v["wrongRefused"] = json!(!unlocked);
        }
        if let Ok((r, ok)) = open(Some(&user)) {
            v["userUnlock"] = json!(ok || r.is_unlocked());
            let (m, p) = read_markers(r);
            v["userMarkers"] = json!(m);
            v["permBits"] = json!(p as i64 - if p > 0x7FFF_FFFF { 1i64 << 32 } else { 0 });
        }
        if let Ok((r, ok)) = open(Some(&owner)) {
            v["ownerUnlock"] = json!(ok || r.is_unlocked());
            let (m, _) = read_markers(r);
            v["ownerMarkers"] = json!(m);
        }
        v
    });
    r.unwrap_or_else(|_| json!({"opened": false, "encrypted": false, "wrongRefused": false, "lockedLeak": false, "userUnlock": false, "ownerUnlock": false,
                                 "userMarkers": [false], "ownerMarkers": [false], "permBits": 0, "err": "panic"}))
}

fn pobj_has(o: &oxidize_pdf::parser::objects::PdfObject, want: &[u8]) -> bool {
    use oxidize_pdf::parser::objects::PdfObject;
    match o {
        PdfObject::String(s) => contains(s.as_bytes(), want),
        PdfObject::Array(a) => a.0.iter().any(|x| pobj_has(x, want)),
        PdfObject::Dictionary(d) => d.0.values().any(|x| pobj_has(x, want)),
        PdfObject::Stream(st) => st.dict.0.values().any(|x| pobj_has(x, want)),
        _ => false,
    }
}

/// Does some string of some object of the (unlocked) document contain `want`?
fn any_string_contains(doc: &oxidize_pdf::parser::PdfDocument<Cursor<Vec<u8>>>, nums: &[u32], want: &[u8]) -> bool {
    nums.iter().any(|n| doc.get_object(*n, 0).map(|o| pobj_has(&o, want)).unwrap_or(false))
}

/// Does the decoded data of some stream object of the (unlocked) document contain `want`?
fn any_stream_contains(doc: &oxidize_pdf::parser::PdfDocument<Cursor<Vec<u8>>>, nums: &[u32], want: &[u8]) -> bool {
    nums.iter().any(|n| doc.get_object(*n, 0).ok().and_then(|o| o.as_stream().and_then(|s| doc.decode_stream(s).ok())).map(|d| contains(&d, want)).unwrap_or(false))
}

fn markers() -> Value {
    json!([{"where": "info", "page": 0, "n": 0, "key": [84, 105, 116, 108, 101], "bytes": TITLE.as_bytes(), "secret": true},
           {"where": "content", "page": 1, "n": 0, "key": [], "bytes": BODY.as_bytes(), "secret": true},
           {"where": "info", "page": 0, "n": 0, "key": [65, 117, 116, 104, 111, 114],
            "bytes": AUTHOR.encode_utf16().flat_map(|u| u.to_be_bytes()).collect::<Vec<u8>>(), "secret": true},
           {"where": "anywhere", "page": 0, "n": 0, "key": [], "bytes": LABEL.as_bytes(), "secret": true},
           {"where": "anywhere", "page": 0, "n": 0, "key": [], "bytes": ANNOT.as_bytes(), "secret": true},
           {"where": "anywhere", "page": 0, "n": 0, "key": [], "bytes": URI.as_bytes(), "secret": true},
           {"where": "anywhere", "page": 0, "n": 0, "key": [], "bytes": FNAME.as_bytes(), "secret": true},
           {"where": "anywhere", "page": 0, "n": 0, "key": [], "bytes": FVALUE.as_bytes(), "secret": true},
           {"where": "anywhere", "page": 0, "n": 0, "key": [], "bytes": SID.as_bytes(), "secret": true},
           {"where": "anywhere", "page": 0, "n": 0, "key": [], "bytes": SALT.as_bytes(), "secret": true},
           {"where": "anywhere", "page": 0, "n": 0, "key": [], "bytes": APTXT.as_bytes(), "secret": true},
           {"where": "anystream", "page": 0, "n": 0, "key": [], "bytes": APTXT.as_bytes(), "secret": true}])
}

fn run(a: &Args) {
    std::panic::set_hook(Box::new(|_| {}));
    let mut out = Out::file(a.req("out"));
    for (ci, c) in read_cases(a.req("in")).iter().enumerate() {
        let user = text_of(&c["user"]);
        let owner = text_of(&c["owner"]);
        let p = c["p"].as_i64().unwrap();
        let strength = match c["strength"].as_str().unwrap() {
            "rc4_40" => EncryptionStrength::Rc4_40bit,
            "rc4_128" => EncryptionStrength::Rc4_128bit,
            "aes128" => EncryptionStrength::Aes128,
            _ => EncryptionStrength::Aes256,
        };
        let c2 = c.clone();
        let (u2, o2) = (user.clone(), owner.clone());
        let built = std::panic::catch_unwind(move || -> Result<Vec<u8>, String> {
            let mut doc = Document::new();
            doc.set_title(TITLE);
            doc.set_author(AUTHOR);
            doc.set_subject(""); // an empty string next to the others: under AES it still takes an IV and a padding block
            let mut page = Page::new(200.0, 100.0);
            let mcid = page.begin_marked_content("P").map_err(|e| e.to_string())?;
            page.text().set_font(Font::Helvetica, 12.0).at(10.0, 50.0).write(BODY).map_err(|e| e.to_string())?;
            page.end_marked_content().map_err(|e| e.to_string())?;
            {
                use oxidize_pdf::annotations::{Annotation, AnnotationType, LinkAnnotation};
                use oxidize_pdf::forms::{FormManager, TextField, Widget};
                use oxidize_pdf::geometry::{Point, Rectangle};
                use oxidize_pdf::structure::{StandardStructureType, StructTree, StructureElement};
                let rect = |y: f64| Rectangle::new(Point::new(10.0, y), Point::new(110.0, y + 14.0));
                page.add_annotation(Annotation::new(AnnotationType::Text, rect(5.0)).with_contents(ANNOT));
                page.add_annotation(LinkAnnotation::to_uri(rect(20.0), URI).to_annotation());
                let mut fm = FormManager::new();
                let (w1, w2) = (Widget::new(rect(60.0)), Widget::new(rect(80.0)));
                let f1 = fm.add_text_field(TextField::new(FNAME).with_value(FVALUE), w1.clone(), None).map_err(|e| e.to_string())?;
                let f2 = fm.add_text_field(TextField::new("second"), w2.clone(), None).map_err(|e| e.to_string())?;
                page.add_form_widget_with_ref(w1, f1).map_err(|e| e.to_string())?;
                page.add_form_widget_with_ref(w2, f2).map_err(|e| e.to_string())?;
                let mut tree = StructTree::new();
                let root = tree.set_root(StructureElement::new(StandardStructureType::Document).with_id(SID));
                let mut para = StructureElement::new(StandardStructureType::P).with_alt_text(SALT);
                para.add_mcid(0, mcid);
                tree.add_child(root, para)?;
                doc.set_struct_tree(tree);
                doc.set_form_manager(fm);
            }
            doc.add_page(page);
            doc.fill_field("second", APTXT).map_err(|e| e.to_string())?;
            doc.set_page_labels(oxidize_pdf::page_labels::PageLabelBuilder::new().prefix_pages(1, LABEL).build());
            doc.set_encryption(DocumentEncryption::new(u2, o2, Permissions::from_bits(p as u32), strength));
            doc.to_bytes_with_config(crate::c03::config_of(&c2["cfg"])).map_err(|e| e.to_string())
        });
        let mut ev = c.as_object().unwrap().clone();
        ev.insert("ev".into(), json!("file"));
        ev.insert("case".into(), json!(ci));
        ev.insert("userText".into(), c["user"].clone());
        ev.insert("user".into(), json!(user.as_bytes()));
        ev.insert("owner".into(), json!(owner.as_bytes()));
        let wrong = format!("#x{user}"); // differs in the first byte: R2-R4 look at 32 bytes only
        ev.insert("wrong".into(), json!(wrong.as_bytes()));
        ev.insert("markers".into(), markers());
        match built {
            Ok(Ok(bytes)) => {
                ev.insert("built".into(), json!(true));
                ev.insert("lib".into(), library_view(&bytes, &user, &owner, &wrong));
                ev.insert("bytes".into(), json!(bytes));
            }
            Ok(Err(e)) => {
                ev.insert("built".into(), json!(false));
                ev.insert("bytes".into(), json!([]));
                ev.insert("err".into(), json!(e));
            }
            Err(_) => {
                ev.insert("built".into(), json!(false));
                ev.insert("bytes".into(), json!([]));
                ev.insert("err".into(), json!("panic"));
            }
        }
        out.line(&Value::Object(ev));
        out.line(&json!({"ev": "chk_spec"}));
        out.line(&json!({"ev": "chk_lib"}));
    }
    out.flush();
}

/// The repository's third-party-produced fixtures (qpdf, pypdf): spec decryptor and library on each.
fn fixtures(a: &Args) {
    std::panic::set_hook(Box::new(|_| {}));
    let mut out = Out::file(a.req("out"));
    let dir = "/repo/oxidize-pdf-core/tests/fixtures";
    let only: Vec<String> = a.get("only").map(|s| s.split(',').map(|x| x.to_string()).collect()).unwrap_or_default();
    let mut names: Vec<String> = std::fs::read_dir(dir).map(|d| d.filter_map(|e| e.ok()).map(|e| e.file_name().to_string_lossy().to_string()).collect()).unwrap_or_default();
    names.sort();
    for name in names {
        if !name.starts_with("interop_qpdf_") || !name.ends_with(".pdf") {
            continue;
        }
        if !only.is_empty() && !only.iter().any(|o| name.contains(o.as_str())) {
            continue;
        }
        let bytes = std::fs::read(format!("{dir}/{name}")).unwrap_or_default();
        let (user, owner) = if name.contains("unicode") { ("contraseña_ñ", "dueño_café") } else if name.contains("empty") { ("", "ownerpw") } else { ("userpw", "ownerpw") };
        let marker = b"OXIDIZE_INTEROP_FIXTURE_MARKER_V1";
        // library side: the marker must come out of the first page's content after unlocking
        let lib = {
            let b = bytes.clone();
            let read = move |pw: &str| -> (bool, bool) {
                let r = std::panic::catch_unwind(|| {
                    let mut r = match PdfReader::new(Cursor::new(b.clone())) { Ok(r) => r, Err(_) => return (false, false) };
                    let ok = r.unlock_with_password(pw).unwrap_or(false) || r.is_unlocked();
                    let doc = r.into_document();
                    let found = doc.get_page(0).ok().and_then(|pg| doc.get_page_content_streams(&pg).ok()).map(|ss| ss.iter().any(|s| contains(s, marker))).unwrap_or(false);
                    (ok, found)
                });
                r.unwrap_or((false, false))
            };
            let (uo, um) = read(user);
            let (oo, om) = read(owner);
            let (wo, wm) = read("nope#");
            json!({"opened": true, "encrypted": true, "wrongRefused": !(wo && !user.is_empty()) && (user.is_empty() || !wm), "lockedLeak": false, "userUnlock": uo, "ownerUnlock": oo,
                   "userMarkers": [um], "ownerMarkers": [om], "permBits": 0, "err": ""})
        };
        out.line(&json!({"ev": "file", "name": name, "built": true, "bytes": bytes, "user": user.as_bytes(), "owner": owner.as_bytes(), "wrong": b"nope#".to_vec(),
                         "markers": [{"where": "content", "page": 1, "n": 0, "key": [], "bytes": marker.to_vec(), "secret": true}], "lib": lib}));
        out.line(&json!({"ev": "chk_spec"}));
        out.line(&json!({"ev": "chk_lib"}));
    }
    out.flush();
}

fn bytes_of(v: &Value) -> Vec<u8> {
    v.as_array().map(|a| a.iter().map(|x| x.as_u64().unwrap_or(0) as u8).collect()).unwrap_or_default()
}

/// Does the library, with this password, find marker `m` where it belongs?
fn marker_via_library(bytes: &[u8], pw: &[u8], m: &Value) -> (bool, bool) {
    use oxidize_pdf::parser::objects::PdfObject;
    let b = bytes.to_vec();
    let pw = pw.to_vec();
    let m = m.clone();
    let r = std::panic::catch_unwind(move || {
        let mut r = match PdfReader::new_with_options(Cursor::new(b), ParseOptions::default()) {
            Ok(r) => r,
            Err(_) => return (false, false),
        };
        // passwords are bytes in the file's own encoding; the API takes a &str: Latin-1 bytes map to the same code points
        let pws: String = match String::from_utf8(pw.clone()) {
            Ok(s) if m["utf8"].as_bool().unwrap_or(false) => s,
            _ => pw.iter().map(|b| *b as char).collect(),
        };
        let ok = r.unlock_with_password(&pws).unwrap_or(false) || r.is_unlocked();
        let want = bytes_of(&m["bytes"]);
        let key = String::from_utf8_lossy(&bytes_of(&m["key"])).to_string();
        let n = m["n"].as_u64().unwrap_or(0) as u32;
        let found = match m["where"].as_str().unwrap_or("") {
            "info" => r.metadata().ok().and_then(|md| md.title).map(|t| t.as_bytes() == &want[..]).unwrap_or(false),
            "content" => {
                let page = m["page"].as_u64().unwrap_or(1) as u32;
                let doc = r.into_document();
                doc.get_page(page - 1).ok().and_then(|pg| doc.get_page_content_streams(&pg).ok()).map(|ss| ss.iter().any(|s| contains(s, &want))).unwrap_or(false)
            }
            "string" => match r.get_object(n, 0) {
                Ok(PdfObject::Dictionary(d)) => d.get(&key).and_then(|o| o.as_string()).map(|s| s.as_bytes() == &want[..]).unwrap_or(false),
                Ok(PdfObject::Stream(st)) => st.dict.get(&key).and_then(|o| o.as_string()).map(|s| s.as_bytes() == &want[..]).unwrap_or(false),
                _ => false,
            },
            "stream" => {
                let opts = ParseOptions::default();
                match r.get_object(n, 0) {
                    Ok(PdfObject::Stream(st)) => st.decode(&opts).map(|d| contains(&d, &want)).unwrap_or(false),
                    _ => false,
                }
            }
            _ => false,
        };
        (ok, found)
    });
    r.unwrap_or((false, false))
}

/// Files encrypted by the specification (MCEncW): what the library makes of each.
fn read(a: &Args) {
    std::panic::set_hook(Box::new(|_| {}));
    let mut out = Out::file(a.req("out"));
    for (ci, c) in read_cases(a.req("in")).iter().enumerate() {
        let bytes = bytes_of(&c["bytes"]);
        let (user, owner, wrong) = (bytes_of(&c["user"]), bytes_of(&c["owner"]), bytes_of(&c["wrong"]));
        let utf8 = c["opt"]["rev"].as_i64().unwrap_or(0) >= 5;
        let ms: Vec<Value> = c["markers"].as_array().cloned().unwrap_or_default().into_iter().map(|mut m| { m["utf8"] = json!(utf8); m }).collect();
        let encrypted = PdfReader::new_with_options(Cursor::new(bytes.clone()), ParseOptions::default()).map(|r| r.is_encrypted()).unwrap_or(false);
        let mut um = Vec::new();
        let mut om = Vec::new();
        let (mut uo, mut oo, mut wo, mut wleak, mut lleak) = (true, true, false, false, false);
        for m in &ms {
            let (ok, f) = marker_via_library(&bytes, &user, m);
            uo &= ok;
            um.push(f);
            let (ok, f) = marker_via_library(&bytes, &owner, m);
            oo &= ok;
            om.push(f);
            let secret = m["secret"].as_bool().unwrap_or(true);
            let (ok, f) = marker_via_library(&bytes, &wrong, m);
            // with an empty user password the file opens by itself whatever is typed: that is not a wrong-password success
            if !user.is_empty() {
                wo |= ok;
                wleak |= f && secret;
            }
            let _ = &mut lleak;
        }
        // the permissions the library reports once unlocked
        let perm = {
            let (b, pw) = (bytes.clone(), user.clone());
            std::panic::catch_unwind(move || {
                let mut r = PdfReader::new_with_options(Cursor::new(b), ParseOptions::default()).ok()?;
                let pws: String = match String::from_utf8(pw.clone()) {
                    Ok(s) if utf8 => s,
                    _ => pw.iter().map(|b| *b as char).collect(),
                };
                let _ = r.unlock_with_password(&pws);
                r.encryption_handler().map(|h| h.permissions().bits())
            })
            .ok()
            .flatten()
            .map(|p| p as i64 - if p > 0x7FFF_FFFF { 1i64 << 32 } else { 0 })
            .unwrap_or(0)
        };
        let lib = json!({"opened": true, "encrypted": encrypted, "wrongRefused": !wo && !wleak, "lockedLeak": lleak, "userUnlock": uo, "ownerUnlock": oo,
                         "userMarkers": um, "ownerMarkers": om, "permBits": perm, "err": ""});
        let mut ev = c.as_object().unwrap().clone();
        ev.insert("ev".into(), json!("file"));
        ev.insert("case".into(), json!(ci));
        ev.insert("built".into(), json!(true));
        ev.insert("p".into(), c["opt"]["p"].clone());
        ev.insert("lib".into(), lib);
        out.line(&Value::Object(ev));
        out.line(&json!({"ev": "chk_spec"}));
        out.line(&json!({"ev": "chk_lib"}));
    }
    out.flush();
}
