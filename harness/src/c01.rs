//! C01 - reading any byte sequence never crashes, hangs or exhausts memory.
//!
//!   vh c01 bases --out bases.ndjson              the base files and their numeric slots (one line per base)
//!   vh c01 run --bases b --in cases --out trace --progress p [--from i]
//!                                                applies each fault of the grammar (FaultGrammar.tla) to its base and
//!                                                navigates the result under the five presets; one event per case.
//!
//! A panic is caught and recorded; a stack overflow, abort or endless loop kills this process: the driver sees
//! which case was in flight from the progress file, records it, and restarts behind it.
use crate::util::*;
use oxidize_pdf::parser::{ParseOptions, PdfDocument, PdfReader};
use oxidize_pdf::text::{ExtractionOptions, TextExtractor};
use serde_json::{json, Value};
use std::io::Cursor;
use std::io::Write as _;

pub fn main(a: &Args) {
    match a.pos.first().map(|s| s.as_str()) {
        Some("bases") => bases_cmd(a),
        Some("run") => run(a),
        Some("probe") => probe(a),
        _ => tool_error("c01 bases|run|probe"),
    }
}

// ---------------------------------------------------------------------------------------------------------------
// base files
// ---------------------------------------------------------------------------------------------------------------
fn n(s: &str) -> Value {
    json!({ "n": s })
}
fn r(k: u32) -> Value {
    json!({"ref": [k, 0]})
}
fn d(pairs: Vec<(&str, Value)>) -> Value {
    json!({"d": pairs.into_iter().map(|(k, v)| json!([k, v])).collect::<Vec<_>>()})
}

fn a85(data: &[u8]) -> Vec<u8> {
    let mut out = Vec::new();
    for ch in data.chunks(4) {
        let mut v: u32 = 0;
        for i in 0..4 {
            v = (v << 8) | *ch.get(i).unwrap_or(&0) as u32;
        }
        if ch.len() == 4 && v == 0 {
            out.push(b'z');
            continue;
        }
        let mut g = [0u8; 5];
        let mut x = v;
        for i in (0..5).rev() {
            g[i] = (x % 85) as u8 + 33;
            x /= 85;
        }
        out.extend_from_slice(&g[..ch.len() + 1]);
    }
    out.extend_from_slice(b"~>");
    out
}
fn hexenc(data: &[u8]) -> Vec<u8> {
    let mut o: Vec<u8> = data.iter().flat_map(|b| format!("{b:02X}").into_bytes()).collect();
    o.push(b'>');
    o
}
fn rle(data: &[u8]) -> Vec<u8> {
    let mut o = Vec::new();
    for ch in data.chunks(100) {
        o.push((ch.len() - 1) as u8);
        o.extend_from_slice(ch);
    }
    o.push(128);
    o
}
fn lzw(data: &[u8]) -> Vec<u8> {
    weezl::encode::Encoder::with_tiff_size_switch(weezl::BitOrder::Msb, 8).encode(data).unwrap_or_default()
}
fn zl(data: &[u8]) -> Vec<u8> {
    use flate2::write::ZlibEncoder;
    let mut e = ZlibEncoder::new(Vec::new(), flate2::Compression::default());
    e.write_all(data).unwrap();
    e.finish().unwrap()
}

const CONTENT: &str = "q 1 0 0 1 36 36 cm 0.5 w 10 20 100 50 re S Q\nBT /F1 12 Tf 72 700 Td 14 TL (Oct \\101\\102 \\53) Tj <48656C6C6F> Tj [(A) -120 (B)] TJ T* (x) ' 2 3 (y) \" ET\n";

fn stream(k: u32, pairs: Vec<(&str, Value)>, data: Vec<u8>) -> Value {
    json!({"n": k, "g": 0, "dict": d(pairs), "data": data, "filter": null})
}

/// every decoding filter with its parameters, strings with escapes, a rotated page, an image with a predictor
fn zoo() -> Vec<u8> {
    let c = CONTENT.as_bytes();
    // PNG-up rows for a 5 x 3 grey image, TIFF rows for a 4 x 2 RGB image
    let png: Vec<u8> = (0..3).flat_map(|row| std::iter::once(2u8).chain((0..5).map(move |x| (row * 7 + x) as u8))).collect();
    let tiff: Vec<u8> = (0..24).map(|x| (x * 5) as u8).collect();
    let parms = |p: i64, colors: i64, cols: i64| d(vec![("Predictor", json!(p)), ("Colors", json!(colors)), ("Columns", json!(cols)), ("BitsPerComponent", json!(8))]);
    let parms_b = |p: i64, colors: i64, cols: i64, bpc: i64| d(vec![("Predictor", json!(p)), ("Colors", json!(colors)), ("Columns", json!(cols)), ("BitsPerComponent", json!(bpc))]);
    // PNG rows of every filter type for pixels narrower than a byte (6 x 5 at 4 bits, 9 x 5 at 1 bit) and wider (2 x 3 RGB at 16 bits)
    let rows = |types: &[u8], len: usize, salt: u8| -> Vec<u8> { types.iter().enumerate().flat_map(|(y, t)| std::iter::once(*t).chain((0..len).map(move |x| (y as u8) * 31 + (x as u8) * 11 + salt))).collect() };
    let png4 = rows(&[0, 1, 2, 3, 4], 3, 5);
    let png1 = rows(&[4, 3, 1, 2, 0], 2, 9);
    let png16 = rows(&[1, 3, 4], 12, 3);
    let objects = vec![
        json!({"n": 1, "g": 0, "value": d(vec![("Type", n("Catalog")), ("Pages", r(2))])}),
        json!({"n": 2, "g": 0, "value": d(vec![("Type", n("Pages")), ("Kids", json!([r(3)])), ("Count", json!(1)), ("Rotate", json!(90))])}),
        json!({"n": 3, "g": 0, "value": d(vec![("Type", n("Page")), ("Parent", r(2)), ("MediaBox", json!([0, 0, 612, 792])), ("Rotate", json!(270)),
            ("Contents", json!([r(4), r(5), r(6), r(7), r(8), r(9)])),
            ("Resources", d(vec![("Font", d(vec![("F1", r(12))])), ("XObject", d(vec![("Im1", r(10)), ("Im2", r(11)), ("Im3", r(14)), ("Im4", r(15)), ("Im5", r(16))]))]))])}),
        stream(4, vec![], c.to_vec()),
        stream(5, vec![("Filter", n("ASCIIHexDecode"))], hexenc(c)),
        stream(6, vec![("Filter", n("ASCII85Decode"))], a85(c)),
        stream(7, vec![("Filter", n("LZWDecode")), ("DecodeParms", d(vec![("EarlyChange", json!(1))]))], lzw(c)),
        stream(8, vec![("Filter", n("RunLengthDecode"))], rle(c)),
        stream(9, vec![("Filter", json!([n("ASCII85Decode"), n("FlateDecode")]))], a85(&zl(c))),
        stream(10, vec![("Type", n("XObject")), ("Subtype", n("Image")), ("Width", json!(5)), ("Height", json!(3)), ("ColorSpace", n("DeviceGray")),
            ("BitsPerComponent", json!(8)), ("Filter", n("FlateDecode")), ("DecodeParms", parms(12, 1, 5))], zl(&png)),
        stream(11, vec![("Type", n("XObject")), ("Subtype", n("Image")), ("Width", json!(4)), ("Height", json!(2)), ("ColorSpace", n("DeviceRGB")),
            ("BitsPerComponent", json!(8)), ("Filter", n("LZWDecode")), ("DecodeParms", parms(2, 3, 4))], lzw(&tiff)),
        json!({"n": 12, "g": 0, "value": d(vec![("Type", n("Font")), ("Subtype", n("Type1")), ("BaseFont", n("Helvetica")), ("FirstChar", json!(32)), ("LastChar", json!(34)),
            ("Widths", json!([278, 278, 355]))])}),
        json!({"n": 13, "g": 0, "value": d(vec![("Title", json!({"s": "Zoo \\(1\\)"})), ("Custom", json!({"hex": [1, 2, 254]}))])}),
    ];
    let mut objects = objects;
    objects.push(stream(14, vec![("Type", n("XObject")), ("Subtype", n("Image")), ("Width", json!(6)), ("Height", json!(5)), ("ColorSpace", n("DeviceGray")),
        ("BitsPerComponent", json!(4)), ("Filter", n("FlateDecode")), ("DecodeParms", parms_b(15, 1, 6, 4))], zl(&png4)));
    objects.push(stream(15, vec![("Type", n("XObject")), ("Subtype", n("Image")), ("Width", json!(9)), ("Height", json!(5)), ("ColorSpace", n("DeviceGray")),
        ("BitsPerComponent", json!(1)), ("Filter", n("FlateDecode")), ("DecodeParms", parms_b(11, 1, 9, 1))], zl(&png1)));
    objects.push(stream(16, vec![("Type", n("XObject")), ("Subtype", n("Image")), ("Width", json!(2)), ("Height", json!(3)), ("ColorSpace", n("DeviceRGB")),
        ("BitsPerComponent", json!(16)), ("Filter", n("FlateDecode")), ("DecodeParms", parms_b(13, 3, 2, 16))], zl(&png16)));
    let plan = json!({"version": "1.7", "revisions": [{"objects": objects, "xref": "table", "trailer": [["Root", r(1)], ["Info", r(13)]]}]});
    crate::synth::build(&plan).bytes
}

/// two revisions chained by /Prev with a free entry; then the same content behind a cross-reference stream with an
/// uncompressed object stream (so that /N, /First and the pair table are numeric slots in the clear)
fn layered(xref_stream: bool) -> Vec<u8> {
    let c = b"BT /F1 9 Tf 10 10 Td (rev) Tj ET".to_vec();
    let page = |k: u32, content: u32| json!({"n": k, "g": 0, "value": d(vec![("Type", n("Page")), ("Parent", r(2)), ("MediaBox", json!([0, 0, 200, 100])), ("Contents", r(content)),
        ("Resources", d(vec![("Font", d(vec![("F1", r(7))]))]))])});
    let mut o1 = vec![
        json!({"n": 1, "g": 0, "value": d(vec![("Type", n("Catalog")), ("Pages", r(2))])}),
        json!({"n": 2, "g": 0, "value": d(vec![("Type", n("Pages")), ("Kids", if xref_stream { json!([r(3), r(5)]) } else { r(8) }), ("Count", json!(2))])}),
        page(3, 4),
        stream(4, vec![], c.clone()),
        page(5, 6),
        stream(6, vec![], c.clone()),
        json!({"n": 7, "g": 0, "value": d(vec![("Type", n("Font")), ("Subtype", n("Type1")), ("BaseFont", n("Courier"))])}),
    ];
    if !xref_stream {
        // the page tree root reaches its kids through an indirect array
        o1.push(json!({"n": 8, "g": 0, "value": [r(3), r(5)]}));
    }
    let mut o2 = vec![json!({"n": 2, "g": 0, "value": d(vec![("Type", n("Pages")), ("Kids", if xref_stream { json!([r(3)]) } else { r(9) }), ("Count", json!(1))])})];
    if !xref_stream {
        o2.push(json!({"n": 9, "g": 0, "value": [r(3)]}));
    }
    if xref_stream {
        for o in o1.iter_mut().chain(o2.iter_mut()) {
            if o.get("value").is_some() {
                o["instm"] = json!(if o["n"] == 2 && o["value"]["d"][2][1] == 1 { 21 } else { 20 });
            }
        }
    }
    let kind = if xref_stream { "stream" } else { "table" };
    let plan = json!({"version": "1.5", "revisions": [
        {"objects": o1, "xref": kind, "xref_n": 30, "objstm_compress": false, "trailer": [["Root", r(1)]]},
        {"objects": o2, "free": [{"n": 5, "g": 1}, {"n": 6, "g": 1}], "xref": kind, "xref_n": 31, "objstm_compress": false, "trailer": [["Root", r(1)]]}]});
    crate::synth::build(&plan).bytes
}

fn library_doc(modern: bool) -> Vec<u8> {
    use oxidize_pdf::text::Font;
    use oxidize_pdf::{Document, Page};
    let mut doc = Document::new();
    doc.set_title("C01 base");
    for i in 0..2 {
        let mut p = Page::new(300.0, 200.0);
        let _ = p.text().set_font(Font::Helvetica, 11.0).at(20.0, 150.0).write(&format!("page {i} text"));
        p.graphics().rectangle(10.0, 10.0, 50.0, 40.0).stroke();
        if i == 1 {
            p.set_rotation(90);
        }
        doc.add_page(p);
    }
    let cfg = json!({"xref": modern, "objstm": modern, "compress": modern, "version": if modern { "1.5" } else { "1.4" }});
    doc.to_bytes_with_config(crate::c03::config_of(&cfg)).unwrap_or_default()
}

pub fn bases() -> Vec<(String, Vec<u8>)> {
    vec![("zoo".into(), zoo()), ("layered_table".into(), layered(false)), ("layered_stream".into(), layered(true)), ("lib_classic".into(), library_doc(false))]
}

// ---------------------------------------------------------------------------------------------------------------
// numeric slots: every number token outside binary stream data, labelled by what it feeds
// ---------------------------------------------------------------------------------------------------------------
fn is_ws(b: u8) -> bool {
    matches!(b, 0 | 9 | 10 | 12 | 13 | 32)
}
fn is_delim(b: u8) -> bool {
    matches!(b, b'(' | b')' | b'<' | b'>' | b'[' | b']' | b'{' | b'}' | b'/' | b'%')
}

/// (offset, length, class)
pub fn slots(b: &[u8]) -> Vec<(usize, usize, String)> {
    let mut out = Vec::new();
    let mut i = 0;
    let mut last_name = String::new();
    let mut line_kind = String::new(); // "xref" while inside a cross-reference table
    let mut in_text_stream = false;
    while i < b.len() {
        // stream data: skipped unless it is printable (uncompressed content, ASCII filters)
        if b[i..].starts_with(b"stream") && (i == 0 || is_ws(b[i - 1]) || b[i - 1] == b'>') && !b[i.saturating_sub(3)..i].ends_with(b"end") {
            let s = i + 6 + if b[i + 6..].starts_with(b"\r\n") { 2 } else { 1 };
            let e = (s..b.len()).find(|k| b[*k..].starts_with(b"endstream")).unwrap_or(b.len());
            let printable = b[s..e].iter().all(|c| *c == 10 || *c == 13 || (32..127).contains(c));
            // only unfiltered data is token text (ASCII85 / hex data is printable too, but its characters are not tokens)
            let dict_from = (0..i).rev().find(|k| b[*k..].starts_with(b" obj")).unwrap_or(0);
            let filtered = (dict_from..i).any(|k| b[k..].starts_with(b"/Filter"));
            if !printable || filtered {
                i = e;
                continue;
            }
            in_text_stream = true;
            i = s;
            last_name = "content".into();
            continue;
        }
        if in_text_stream && b[i..].starts_with(b"endstream") {
            in_text_stream = false;
        }
        let c = b[i];
        if c == b'/' {
            let e = (i + 1..b.len()).find(|k| is_ws(b[*k]) || is_delim(b[*k])).unwrap_or(b.len());
            last_name = String::from_utf8_lossy(&b[i + 1..e]).to_string();
            i = e;
            continue;
        }
        if c == b'(' {
            // literal string: octal escapes are slots of their own
            let mut depth = 1;
            let mut k = i + 1;
            while k < b.len() && depth > 0 {
                match b[k] {
                    b'\\' => {
                        let ds = b[k + 1..].iter().take(3).take_while(|x| (b'0'..=b'7').contains(x)).count();
                        if ds > 0 {
                            out.push((k + 1, ds, "octal".to_string()));
                        }
                        k += 2;
                        continue;
                    }
                    b'(' => depth += 1,
                    b')' => depth -= 1,
                    _ => {}
                }
                k += 1;
            }
            i = k;
            continue;
        }
        if c == b'<' && i + 1 < b.len() && b[i + 1] == b'<' {
            i += 2;
            continue;
        }
        if c == b'<' && i + 1 < b.len() {
            let e = (i + 1..b.len()).find(|k| b[*k] == b'>').unwrap_or(b.len());
            if e > i + 1 && b[i + 1..e].iter().all(|x| x.is_ascii_hexdigit() || is_ws(*x)) {
                out.push((i + 1, e - i - 1, "hexstring".to_string()));
            }
            i = e + 1;
            continue;
        }
        if b[i..].starts_with(b"xref") && (i == 0 || is_ws(b[i - 1])) {
            line_kind = "xref".into();
            last_name = "xref".into();
            i += 4;
            continue;
        }
        if b[i..].starts_with(b"trailer") {
            line_kind.clear();
        }
        if b[i..].starts_with(b"startxref") {
            last_name = "startxref".into();
            line_kind.clear();
            i += 9;
            continue;
        }
        let starts_num = (c.is_ascii_digit() || ((c == b'-' || c == b'+' || c == b'.') && i + 1 < b.len() && (b[i + 1].is_ascii_digit() || b[i + 1] == b'.')))
            && (i == 0 || is_ws(b[i - 1]) || is_delim(b[i - 1]));
        if starts_num {
            let e = (i + 1..b.len()).find(|k| !(b[*k].is_ascii_digit() || b[*k] == b'.')).unwrap_or(b.len());
            if e == b.len() || is_ws(b[e]) || is_delim(b[e]) {
                let class = if line_kind == "xref" {
                    // "first count" header lines have two numbers, entries "offset gen n|f"
                    let ls = (0..i).rev().find(|k| b[*k] == b'\n').map(|k| k + 1).unwrap_or(0);
                    let le = (i..b.len()).find(|k| b[*k] == b'\n').unwrap_or(b.len());
                    let toks = String::from_utf8_lossy(&b[ls..le]).split_whitespace().count();
                    let first = b[ls..i].iter().all(|x| is_ws(*x));
                    match (toks, first) {
                        (2, true) => "xref.first",
                        (2, false) => "xref.count",
                        (_, true) => "xref.offset",
                        _ => "xref.gen",
                    }
                    .to_string()
                } else {
                    // `N G obj` headers
                    let rest = String::from_utf8_lossy(&b[e..(e + 12).min(b.len())]).to_string();
                    let mut it = rest.split_whitespace();
                    let (t1, t2) = (it.next().unwrap_or(""), it.next().unwrap_or(""));
                    if t2 == "obj" && t1.chars().all(|x| x.is_ascii_digit()) && !t1.is_empty() {
                        "objhdr.num".to_string()
                    } else if t1 == "obj" {
                        "objhdr.gen".to_string()
                    } else {
                        last_name.clone()
                    }
                };
                out.push((i, e - i, class));
                i = e;
                continue;
            }
        }
        i += 1;
    }
    // ASCII85 groups: the first full group of each ASCII85 stream
    let mut k = 0;
    while let Some(p) = (k..b.len()).find(|x| b[*x..].starts_with(b"/ASCII85Decode")) {
        if let Some(s) = (p..b.len()).find(|x| b[*x..].starts_with(b"stream\n")) {
            out.push((s + 7, 5, "a85group".to_string()));
            out.push((s + 7 + 10, 5, "a85group".to_string()));
        }
        k = p + 10;
    }
    out
}

/// end offsets of the data of unfiltered, printable streams (content streams in the clear)
pub fn stream_ends(b: &[u8]) -> Vec<usize> {
    let mut out = Vec::new();
    let mut i = 0;
    while i + 7 < b.len() {
        if b[i..].starts_with(b"stream\n") && !b[i.saturating_sub(3)..i].ends_with(b"end") {
            let s = i + 7;
            if let Some(e) = (s..b.len()).find(|k| b[*k..].starts_with(b"\nendstream")) {
                let dict_from = (0..i).rev().find(|k| b[*k..].starts_with(b" obj")).unwrap_or(0);
                let filtered = (dict_from..i).any(|k| b[k..].starts_with(b"/Filter"));
                if !filtered && e > s + 12 && b[s..e].iter().all(|c| *c == 10 || *c == 13 || (32..127).contains(c)) {
                    out.push(e);
                }
                i = e;
            }
        }
        i += 1;
    }
    out
}

/// (start, end, object number) of the body of every indirect object that is not a stream: the bytes between
/// `N G obj` and `endobj`
pub fn object_bodies(b: &[u8]) -> Vec<(usize, usize, u32)> {
    let mut out = Vec::new();
    let mut i = 0;
    while i + 5 < b.len() {
        if b[i..].starts_with(b" obj\n") || b[i..].starts_with(b" obj ") || b[i..].starts_with(b" obj<") {
            // object number: two integers before
            let mut j = i;
            while j > 0 && b[j - 1].is_ascii_digit() { j -= 1; }
            let mut k = j.saturating_sub(1);
            while k > 0 && b[k - 1].is_ascii_digit() { k -= 1; }
            let num: u32 = std::str::from_utf8(&b[k..j.saturating_sub(1)]).ok().and_then(|s| s.parse().ok()).unwrap_or(0);
            let s = i + 4;
            if let Some(e) = (s..b.len()).find(|x| b[*x..].starts_with(b"endobj")) {
                let body = &b[s..e];
                if num > 0 && !body.windows(6).any(|w| w == b"stream") {
                    out.push((s, e, num));
                }
                i = e;
            }
        }
        i += 1;
    }
    out
}

/// (start, length, containing object number) of every indirect reference `N G R` that stands in an object dictionary or
/// array (stream data is skipped: only what lies between `N G obj` and `stream` / `endobj` is scanned)
pub fn ref_sites(b: &[u8]) -> Vec<(usize, usize, u32)> {
    let mut out = Vec::new();
    let mut i = 0;
    while i + 5 < b.len() {
        if b[i..].starts_with(b" obj\n") || b[i..].starts_with(b" obj ") || b[i..].starts_with(b" obj<") {
            let mut j = i;
            while j > 0 && b[j - 1].is_ascii_digit() { j -= 1; }
            let mut k = j.saturating_sub(1);
            while k > 0 && b[k - 1].is_ascii_digit() { k -= 1; }
            let num: u32 = std::str::from_utf8(&b[k..j.saturating_sub(1)]).ok().and_then(|s| s.parse().ok()).unwrap_or(0);
            let s0 = i + 4;
            let e = (s0..b.len()).find(|x| b[*x..].starts_with(b"endobj") || b[*x..].starts_with(b"stream")).unwrap_or(b.len());
            // tokens `d+ d+ R` inside [s0, e)
            let mut p = s0;
            while p < e {
                if b[p].is_ascii_digit() && (p == s0 || !b[p - 1].is_ascii_alphanumeric() && b[p - 1] != b'.' && b[p - 1] != b'-' && b[p - 1] != b'#') {
                    let mut q = p;
                    while q < e && b[q].is_ascii_digit() { q += 1; }
                    if q < e && b[q] == b' ' {
                        let mut r2 = q + 1;
                        while r2 < e && b[r2].is_ascii_digit() { r2 += 1; }
                        if r2 > q + 1 && r2 + 1 < b.len() && b[r2] == b' ' && b[r2 + 1] == b'R' && (r2 + 2 >= b.len() || !b[r2 + 2].is_ascii_alphanumeric()) {
                            if num > 0 {
                                out.push((p, r2 + 2 - p, num));
                            }
                            p = r2 + 2;
                            continue;
                        }
                    }
                    p = q.max(p + 1);
                    continue;
                }
                p += 1;
            }
            i = e;
        }
        i += 1;
    }
    out
}

/// The object number a reference is retargeted to: the object holding the reference, or the first object of a kind
fn ref_target(b: &[u8], to: &str, holder: u32) -> Option<u32> {
    if to == "self" {
        return Some(holder);
    }
    let pat: &[u8] = match to {
        "catalog" => b"/Type /Catalog",
        "pages" => b"/Type /Pages",
        "page" => b"/Type /Page\n",
        "font" => b"/Type /Font",
        "stream" => b"stream\n",
        _ => return None,
    };
    let at = (0..b.len().saturating_sub(pat.len())).find(|i| b[*i..].starts_with(pat))?;
    // the object this occurrence lies in: the last `N G obj` before it
    let mut i = at;
    while i > 4 {
        if b[i..].starts_with(b" obj") {
            let mut j = i;
            while j > 0 && b[j - 1].is_ascii_digit() { j -= 1; }
            let mut k = j.saturating_sub(1);
            while k > 0 && b[k - 1].is_ascii_digit() { k -= 1; }
            return std::str::from_utf8(&b[k..j.saturating_sub(1)]).ok().and_then(|s| s.parse().ok());
        }
        i -= 1;
    }
    None
}

fn bases_cmd(a: &Args) {
    let mut out = Out::file(a.req("out"));
    for (name, b) in bases() {
        let sl = slots(&b);
        let mut classes = std::collections::BTreeMap::new();
        for (_, _, c) in &sl {
            *classes.entry(c.clone()).or_insert(0u32) += 1;
        }
        let (tails, bodies) = (stream_ends(&b), object_bodies(&b));
        out.line(&json!({"name": name, "len": b.len(), "nslots": sl.len(), "classes": classes, "ntails": tails.len(), "nbodies": bodies.len(), "nrefs": ref_sites(&b).len(),
                         "tails": tails, "bodies": bodies.iter().map(|(s, e, n)| json!([s, e, n])).collect::<Vec<_>>(),
                         "slots": sl.iter().map(|(o, l, c)| json!({"at": o, "len": l, "class": c})).collect::<Vec<_>>(), "bytes": b}));
    }
    out.flush();
}

// ---------------------------------------------------------------------------------------------------------------
// faults
// ---------------------------------------------------------------------------------------------------------------
/// Apply one fault of the grammar.  Positions of later faults refer to the ORIGINAL base: faults are applied from
/// the back so that earlier offsets stay valid.
fn apply(base: &[u8], sl: &[(usize, usize, String)], faults: &[Value], seed: u64) -> Option<Vec<u8>> {
    let mut b = base.to_vec();
    let mut edits: Vec<(usize, usize, Vec<u8>)> = Vec::new();
    for f in faults {
        match f["k"].as_str().unwrap_or("") {
            "slot" => {
                let i = f["slot"].as_u64()? as usize;
                let (at, len, _) = sl.get(i)?.clone();
                edits.push((at, len, f["val"].as_str()?.as_bytes().to_vec()));
            }
            "truncate" => {
                let at = b.len() * f["at"].as_u64()? as usize / 64;
                edits.push((at, b.len() - at, Vec::new()));
            }
            "delete" => {
                let at = b.len() * f["at"].as_u64()? as usize / 64;
                let len = (f["len"].as_u64()? as usize).min(b.len() - at);
                edits.push((at, len, Vec::new()));
            }
            "dup" => {
                let at = b.len() * f["at"].as_u64()? as usize / 64;
                let len = (f["len"].as_u64()? as usize).min(b.len() - at);
                edits.push((at, 0, b[at..at + len].to_vec()));
            }
            "zero" | "flip" | "ff" => {
                let at = b.len() * f["at"].as_u64()? as usize / 64;
                let len = (f["len"].as_u64()? as usize).min(b.len() - at);
                let kind = f["k"].as_str().unwrap();
                let mut rng = Rng::new(seed ^ (at as u64) << 8 ^ len as u64);
                let rep: Vec<u8> = b[at..at + len].iter().map(|x| match kind { "zero" => 0, "ff" => 255, _ => x ^ (1 << rng.below(8)) }).collect();
                edits.push((at, len, rep));
            }
            "random" => {
                let mut rng = Rng::new(seed ^ f["n"].as_u64()?);
                let len = f["len"].as_u64()? as usize;
                let mut v = if f["header"].as_bool().unwrap_or(false) { b"%PDF-1.7\n".to_vec() } else { Vec::new() };
                v.extend(rng.bytes(len));
                return Some(v);
            }
            "tail" => {
                // the last bytes of an unfiltered content stream overwritten (the stream keeps its length)
                let ends = stream_ends(base);
                let e = *ends.get(f["stream"].as_u64()? as usize % ends.len().max(1))?;
                let v = f["val"].as_str()?.as_bytes().to_vec();
                edits.push((e - v.len(), v.len(), v));
            }
            "body" => {
                // the body of a non-stream object replaced
                let bodies = object_bodies(base);
                let (s0, e0, num) = *bodies.get(f["obj"].as_u64()? as usize % bodies.len().max(1))?;
                let other = bodies.get((f["obj"].as_u64()? as usize + 1) % bodies.len().max(1)).map(|x| x.2).unwrap_or(num);
                let v = match f["val"].as_str()? {
                    "self" => format!("\n{num} 0 R\n"),
                    "next" => format!("\n{other} 0 R\n"),
                    "deep" => format!("\n{}{}\n", "[".repeat(3000), "]".repeat(3000)),
                    "deepdict" => format!("\n{}{}\n", "<</A ".repeat(2000), ">>".repeat(2000)),
                    lit => format!("\n{lit}\n"),
                };
                edits.push((s0, e0 - s0, v.into_bytes()));
            }
            "ref" => {
                // an indirect reference retargeted (same width: padded with blanks; a longer number leaves the base as it is)
                let sites = ref_sites(base);
                let (at, len, holder) = *sites.get(f["site"].as_u64()? as usize % sites.len().max(1))?;
                if let Some(t) = ref_target(base, f["to"].as_str()?, holder) {
                    let rep = format!("{t} 0 R");
                    if rep.len() <= len {
                        edits.push((at, len, format!("{rep:<len$}").into_bytes()));
                    }
                }
            }
            "bomb" => return Some(bomb(f["name"].as_str()?)),
            "run" => return Some(runfile(f["place"].as_str()?, f["filler"].as_str()?, f["n"].as_u64()? as usize)),
            "xrefcut" => {
                // the startxref block moved in front of the cross-reference section it names (the offset follows), and
                // that section cut after `lines` lines: a reader led by a valid pointer to a section that ends at end of file
                let kw = b"startxref";
                let k = (0..b.len().saturating_sub(kw.len())).rev().find(|i| b[*i..].starts_with(kw))?;
                let digits: String = b[k + kw.len()..].iter().skip_while(|c| c.is_ascii_whitespace()).take_while(|c| c.is_ascii_digit()).map(|c| *c as char).collect();
                let sx: usize = digits.parse().ok()?;
                if sx >= k {
                    return None;
                }
                let section = &b[sx..k];
                let lines = f["lines"].as_u64()? as usize;
                let mut cut = 0usize;
                let mut seen = 0usize;
                while cut < section.len() && seen < lines {
                    if section[cut] == b'\n' {
                        seen += 1;
                    }
                    cut += 1;
                }
                let mut block = Vec::new();
                for guess_digits in 1..12 {
                    let cand = format!("startxref\n{:0w$}\n%%EOF\n", 0, w = guess_digits);
                    let target = sx + cand.len();
                    let real = format!("startxref\n{}\n%%EOF\n", target);
                    if real.len() == cand.len() {
                        block = real.into_bytes();
                        break;
                    }
                }
                let mut v = b[..sx].to_vec();
                v.extend_from_slice(&block);
                v.extend_from_slice(&section[..cut]);
                match f["pad"].as_str()? {
                    "blank" => v.extend_from_slice(b"\n\r\n  \n"),
                    "comment" => v.extend_from_slice(b"% end\n%%EOF\n"),
                    _ => {}
                }
                return Some(v);
            }
            "keyword" => {
                // the k-th occurrence of a structural keyword replaced by another token
                let from = f["from"].as_str()?.as_bytes();
                let to = f["to"].as_str()?.as_bytes();
                let occ = f["occ"].as_u64()? as usize;
                let pos: Vec<usize> = (0..b.len().saturating_sub(from.len())).filter(|k| b[*k..].starts_with(from)).collect();
                // a keyword the base does not contain leaves the base as it is (still a case: the intact file)
                if let Some(at) = pos.get(occ % pos.len().max(1)) {
                    edits.push((*at, from.len(), to.to_vec()));
                }
            }
            _ => return None,
        }
    }
    edits.sort_by(|x, y| y.0.cmp(&x.0));
    for (at, len, rep) in edits {
        if at + len > b.len() {
            continue;
        }
        b.splice(at..at + len, rep);
    }
    Some(b)
}

/// Small files that ask for much: sizes, counts and nesting that a reader must bound by what the file really holds.
fn bomb(name: &str) -> Vec<u8> {
    let raw = |t: String| json!({ "raw": t });
    let page = |contents: u32| raw(format!("<</Type/Page/Parent 2 0 R/MediaBox[0 0 100 100]/Contents {contents} 0 R/Resources<</Font<</F1 5 0 R>>>>>>"));
    let font = json!({"n": 5, "g": 0, "value": raw("<</Type/Font/Subtype/Type1/BaseFont/Helvetica>>".into())});
    let doc = |content: Vec<u8>, flate: bool, kids: String, count: i64| -> Vec<u8> {
        let objects = vec![
            json!({"n": 1, "g": 0, "value": raw("<</Type/Catalog/Pages 2 0 R>>".into())}),
            json!({"n": 2, "g": 0, "value": raw(format!("<</Type/Pages/Kids[{kids}]/Count {count}>>"))}),
            json!({"n": 3, "g": 0, "value": page(4)}),
            json!({"n": 4, "g": 0, "dict": {"d": []}, "data": content, "filter": if flate { json!("Flate") } else { Value::Null }}),
            font.clone(),
        ];
        crate::synth::build(&json!({"version": "1.7", "revisions": [{"objects": objects, "xref": "table", "trailer": [["Root", {"ref": [1, 0]}]]}]})).bytes
    };
    match name {
        // 48 MB of content behind 48 KB of zlib
        "flate_content" => doc(vec![b' '; 48 << 20], true, "3 0 R".into(), 1),
        // a hundred thousand unbalanced q
        "deep_q" => doc(b"q ".repeat(100_000), true, "3 0 R".into(), 1),
        // one TJ array of a million elements
        "huge_tj" => {
            let mut c = b"BT /F1 9 Tf [".to_vec();
            c.extend(b"(a) -1 ".repeat(500_000));
            c.extend_from_slice(b"] TJ ET");
            doc(c, true, "3 0 R".into(), 1)
        }
        // a page tree that lists the same page 200 000 times and claims two billion pages
        "wide_kids" => doc(b"0 0 m".to_vec(), false, "3 0 R ".repeat(200_000), 2_000_000_000),
        // a cross-reference stream of two million (free) entries, 10 MB of zeros behind 10 KB
        "xref_entries" => {
            let mut b = b"%PDF-1.7\n1 0 obj\n<</Type/Catalog/Pages 2 0 R>>\nendobj\n2 0 obj\n<</Type/Pages/Kids[]/Count 0>>\nendobj\n".to_vec();
            let at = b.len();
            let data = zl(&vec![0u8; 5 * 2_000_000]);
            b.extend_from_slice(format!("3 0 obj\n<</Type/XRef/Size 2000000/W[1 3 1]/Root 1 0 R/Filter/FlateDecode/Length {}>>\nstream\n", data.len()).as_bytes());
            b.extend_from_slice(&data);
            b.extend_from_slice(format!("\nendstream\nendobj\nstartxref\n{at}\n%%EOF\n").as_bytes());
            b
        }
        // an object stream that announces a hundred million members
        "objstm_n" => {
            let objects = vec![
                json!({"n": 1, "g": 0, "value": raw("<</Type/Catalog/Pages 2 0 R>>".into())}),
                json!({"n": 2, "g": 0, "value": raw("<</Type/Pages/Kids[3 0 R]/Count 1>>".into())}),
                json!({"n": 3, "g": 0, "value": page(4)}),
                json!({"n": 4, "g": 0, "dict": {"d": []}, "data": b"0 0 m".to_vec(), "filter": null}),
                font.clone(),
                json!({"n": 6, "g": 0, "dict": {"d": [["Type", {"n": "ObjStm"}], ["N", 100000000], ["First", 10]]}, "data": b"7 0 8 2   1 2".to_vec(), "filter": null}),
            ];
            crate::synth::build(&json!({"version": "1.7", "revisions": [{"objects": objects, "xref": "table", "trailer": [["Root", {"ref": [1, 0]}]]}]})).bytes
        }
        // ---- small files whose STRUCTURE asks for unbounded work (each found by reading the code, then confirmed) ----
        // a composite font that names itself as its descendant; a ring of two
        "font_ring" | "font_ring2" => {
            let second = name == "font_ring2";
            let mut objects = vec![
                json!({"n": 1, "g": 0, "value": raw("<</Type/Catalog/Pages 2 0 R>>".into())}),
                json!({"n": 2, "g": 0, "value": raw("<</Type/Pages/Kids[3 0 R]/Count 1>>".into())}),
                json!({"n": 3, "g": 0, "value": page(4)}),
                json!({"n": 4, "g": 0, "dict": {"d": []}, "data": b"BT /F1 12 Tf (A) Tj ET".to_vec(), "filter": null}),
                json!({"n": 5, "g": 0, "value": raw(format!("<</Type/Font/Subtype/Type0/BaseFont/X/Encoding/Identity-H/DescendantFonts[{} 0 R]>>", if second { 6 } else { 5 }))}),
            ];
            if second {
                objects.push(json!({"n": 6, "g": 0, "value": raw("<</Type/Font/Subtype/Type0/BaseFont/Y/Encoding/Identity-H/DescendantFonts[5 0 R]>>".into())}));
            }
            crate::synth::build(&json!({"version": "1.7", "revisions": [{"objects": objects, "xref": "table", "trailer": [["Root", {"ref": [1, 0]}]]}]})).bytes
        }
        // a page-tree node that lists itself as its kid
        "pages_ring" => {
            let objects = vec![
                json!({"n": 1, "g": 0, "value": raw("<</Type/Catalog/Pages 2 0 R>>".into())}),
                json!({"n": 2, "g": 0, "value": raw("<</Type/Pages/Kids[2 0 R]/Count 1>>".into())}),
            ];
            crate::synth::build(&json!({"version": "1.7", "revisions": [{"objects": objects, "xref": "table", "trailer": [["Root", {"ref": [1, 0]}]]}]})).bytes
        }
        // a marked-content property list of 200 000 closing brackets; of 100 000 nested arrays
        "bdc_brackets" => { let mut c = b"/T <</K ".to_vec(); c.extend(b"]".repeat(200_000)); c.extend_from_slice(b">> BDC EMC"); doc(c, true, "3 0 R".into(), 1) }
        "bdc_nested" => { let mut c = b"/T <</K ".to_vec(); c.extend(b"[".repeat(100_000)); c.extend(b"]".repeat(100_000)); c.extend_from_slice(b">> BDC EMC"); doc(c, true, "3 0 R".into(), 1) }
        // a form XObject whose resources name itself and whose content paints it ten times
        "form_ring" => {
            let objects = vec![
                json!({"n": 1, "g": 0, "value": raw("<</Type/Catalog/Pages 2 0 R>>".into())}),
                json!({"n": 2, "g": 0, "value": raw("<</Type/Pages/Kids[3 0 R]/Count 1>>".into())}),
                json!({"n": 3, "g": 0, "value": raw("<</Type/Page/Parent 2 0 R/MediaBox[0 0 100 100]/Contents 4 0 R/Resources<</XObject<</F 7 0 R>>>>>>".into())}),
                json!({"n": 4, "g": 0, "dict": {"d": []}, "data": b"/F Do".to_vec(), "filter": null}),
                json!({"n": 7, "g": 0, "dict": {"d": [["Type", {"n": "XObject"}], ["Subtype", {"n": "Form"}], ["BBox", [0, 0, 10, 10]],
                       ["Resources", {"d": [["XObject", {"d": [["F", {"ref": [7, 0]}]]}]]}]]}, "data": b"/F Do ".repeat(10), "filter": null}),
            ];
            crate::synth::build(&json!({"version": "1.7", "revisions": [{"objects": objects, "xref": "table", "trailer": [["Root", {"ref": [1, 0]}]]}]})).bytes
        }
        // a ToUnicode stream of 400 000 usecmap operators; a ToUnicode entry of 100 KB shown a million times;
        // a /Contents array that names one 10 MB stream 100 000 times
        "usecmap_run" | "tounicode_expansion" | "contents_repeat" => {
            let cmap: Vec<u8> = if name == "usecmap_run" { b"usecmap ".repeat(400_000) } else {
                let mut c = b"/CIDInit /ProcSet findresource begin 12 dict begin begincmap 1 begincodespacerange <00> <FF> endcodespacerange 1 beginbfchar <41> <".to_vec();
                c.extend(b"0041".repeat(25_000));
                c.extend_from_slice(b"> endbfchar endcmap end end");
                c
            };
            let content: Vec<u8> = if name == "tounicode_expansion" { let mut c = b"BT /F1 12 Tf (".to_vec(); c.extend(b"A".repeat(1_000_000)); c.extend_from_slice(b") Tj ET"); c }
                                   else if name == "contents_repeat" { vec![b' '; 10_000_000] } else { b"BT /F1 12 Tf (A) Tj ET".to_vec() };
            let contents = if name == "contents_repeat" { format!("[{}]", "4 0 R ".repeat(100_000)) } else { "4 0 R".to_string() };
            let objects = vec![
                json!({"n": 1, "g": 0, "value": raw("<</Type/Catalog/Pages 2 0 R>>".into())}),
                json!({"n": 2, "g": 0, "value": raw("<</Type/Pages/Kids[3 0 R]/Count 1>>".into())}),
                json!({"n": 3, "g": 0, "value": raw(format!("<</Type/Page/Parent 2 0 R/MediaBox[0 0 100 100]/Contents {contents}/Resources<</Font<</F1 5 0 R>>>>>>"))}),
                json!({"n": 4, "g": 0, "dict": {"d": []}, "data": content, "filter": "Flate"}),
                json!({"n": 5, "g": 0, "value": raw("<</Type/Font/Subtype/Type1/BaseFont/Helvetica/ToUnicode 6 0 R>>".into())}),
                json!({"n": 6, "g": 0, "dict": {"d": []}, "data": cmap, "filter": "Flate"}),
            ];
            crate::synth::build(&json!({"version": "1.7", "revisions": [{"objects": objects, "xref": "table", "trailer": [["Root", {"ref": [1, 0]}]]}]})).bytes
        }
        // a stream dictionary that does not parse and declares /Length 2^62 (the reconstruction path reads /Length from the text)
        "length_recon" => {
            let mut b = b"%PDF-1.5\n".to_vec();
            let mut offs = Vec::new();
            for (k, body) in ["<< /Type /Catalog /Pages 2 0 R >>", "<< /Type /Pages /Kids [3 0 R] /Count 1 >>",
                              "<< /Type /Page /Parent 2 0 R /MediaBox [0 0 100 100] /Contents 4 0 R >>",
                              "<< /Length 4611686018427387904 /X >>\nstream\nx\nendstream"].iter().enumerate() {
                offs.push(b.len());
                b.extend_from_slice(format!("{} 0 obj\n{}\nendobj\n", k + 1, body).as_bytes());
            }
            let x = b.len();
            b.extend_from_slice(b"xref\n0 5\n0000000000 65535 f \n");
            for o in offs { b.extend_from_slice(format!("{:010} 00000 n \n", o).as_bytes()); }
            b.extend_from_slice(format!("trailer\n<< /Size 5 /Root 1 0 R >>\nstartxref\n{x}\n%%EOF\n").as_bytes());
            b
        }
        // an object stream whose 20 000 header pairs all name offset 0 of one 100 000-element array (the page's /Annots is one of them)
        "objstm_repeat" => {
            let (n_pairs, m) = (20_000usize, 100_000usize);
            let mut hdr = Vec::new();
            for i in 0..n_pairs { hdr.extend_from_slice(format!("{} 0 ", 11 + i).as_bytes()); }
            let mut payload = hdr.clone();
            payload.push(b'[');
            payload.extend(b"0 ".repeat(m));
            payload.push(b']');
            let z = zl(&payload);
            let mut b = b"%PDF-1.5\n".to_vec();
            let mut offs = std::collections::BTreeMap::new();
            let plain: Vec<(u32, Vec<u8>)> = vec![
                (1, b"<< /Type /Catalog /Pages 2 0 R >>".to_vec()), (2, b"<< /Type /Pages /Kids [3 0 R] /Count 1 >>".to_vec()),
                (3, b"<< /Type /Page /Parent 2 0 R /MediaBox [0 0 100 100] /Contents 4 0 R /Annots 11 0 R >>".to_vec()),
                (4, b"<< /Length 3 >>\nstream\nq Q\nendstream".to_vec()),
                (9, [format!("<< /Type /ObjStm /N {n_pairs} /First {} /Filter /FlateDecode /Length {} >>\nstream\n", hdr.len(), z.len()).as_bytes(), &z, b"\nendstream".as_slice()].concat())];
            for (k, body) in &plain {
                offs.insert(*k, b.len() as u32);
                b.extend_from_slice(format!("{k} 0 obj\n").as_bytes());
                b.extend_from_slice(body);
                b.extend_from_slice(b"\nendobj\n");
            }
            let x = b.len() as u32;
            let mut rows = Vec::new();
            for i in 0..12u32 {
                let (t, a, g): (u8, u32, u16) = if i == 0 { (0, 0, 65535) } else if let Some(o) = offs.get(&i) { (1, *o, 0) } else if i == 10 { (1, x, 0) } else if i == 11 { (2, 9, 0) } else { (0, 0, 0) };
                rows.push(t);
                rows.extend_from_slice(&a.to_be_bytes());
                rows.extend_from_slice(&g.to_be_bytes());
            }
            b.extend_from_slice(format!("10 0 obj\n<< /Type /XRef /Size 12 /W [1 4 2] /Root 1 0 R /Length {} >>\nstream\n", rows.len()).as_bytes());
            b.extend_from_slice(&rows);
            b.extend_from_slice(format!("\nendstream\nendobj\nstartxref\n{x}\n%%EOF\n").as_bytes());
            b
        }
        // no page tree, and a linearization dictionary (object 100) that announces 2^32 - 1 pages
        "linearized_n" => {
            let mut b = b"%PDF-1.4\n".to_vec();
            let o1 = b.len();
            b.extend_from_slice(b"1 0 obj\n<< /Type /Catalog >>\nendobj\n");
            let o100 = b.len();
            b.extend_from_slice(b"100 0 obj\n<< /Linearized 1 /N 4294967295 >>\nendobj\n");
            let x = b.len();
            b.extend_from_slice(format!("xref\n0 2\n0000000000 65535 f \n{o1:010} 00000 n \n100 1\n{o100:010} 00000 n \ntrailer\n<< /Size 101 /Root 1 0 R >>\nstartxref\n{x}\n%%EOF\n").as_bytes());
            b
        }
        // CCITT images whose declared geometry is far beyond their (empty) data
        "ccitt_columns" | "ccitt_rows" => {
            let parms = if name == "ccitt_columns" { "/K 0 /Columns 4294967295" } else { "/K -1 /Columns 80000 /Rows 400000" };
            let objects = vec![
                json!({"n": 1, "g": 0, "value": raw("<</Type/Catalog/Pages 2 0 R>>".into())}),
                json!({"n": 2, "g": 0, "value": raw("<</Type/Pages/Kids[3 0 R]/Count 1>>".into())}),
                json!({"n": 3, "g": 0, "value": raw("<</Type/Page/Parent 2 0 R/MediaBox[0 0 100 100]/Contents 4 0 R/Resources<</XObject<</I 5 0 R>>>>>>".into())}),
                json!({"n": 4, "g": 0, "dict": {"d": []}, "data": b"/I Do".to_vec(), "filter": null}),
                json!({"n": 5, "g": 0, "value": raw(format!("<</Type/XObject/Subtype/Image/Width 8/Height 8/ColorSpace/DeviceGray/BitsPerComponent 1/Filter/CCITTFaxDecode/DecodeParms<<{parms}>>/Length 0>>\nstream\n\nendstream"))}),
            ];
            crate::synth::build(&json!({"version": "1.7", "revisions": [{"objects": objects, "xref": "table", "trailer": [["Root", {"ref": [1, 0]}]]}]})).bytes
        }
        _ => b"%PDF-1.7\n".to_vec(),
    }
}

/// A small valid file (catalog, page tree, one page, one content stream, classic table; all offsets right) with a RUN of n
/// copies of a token every reader must skip - a comment, a blank, a line end, a NUL - at one syntactic place.
fn runfile(place: &str, filler: &str, n: usize) -> Vec<u8> {
    let unit: &[u8] = match filler {
        "comment" => b"%\n",
        "commentcr" => b"%x\r",
        "space" => b" ",
        "nl" => b"\n",
        "crlf" => b"\r\n",
        "semicolon" => b";",
        "rparen" => b")",
        "lbrace" => b"{",
        "rbrace" => b"}",
        "latin1" => b"\xE9",
        "bell" => b"\x07",
        "c1" => b"\x85",
        "ff" => b"\x0C",
        _ => b"\0",
    };
    let run = unit.repeat(n);
    let at = |p: &str| -> &[u8] { if p == place { &run } else { b"" } };
    let mut out: Vec<u8> = Vec::new();
    out.extend_from_slice(at("before_header"));
    out.extend_from_slice(b"%PDF-1.4\n");
    let mut offs = Vec::new();
    let content: Vec<u8> = [b"q 1 0 0 1 5 5 cm ".as_slice(), at("content"), b" 0 0 m 9 9 l S Q".as_slice()].concat();
    let bodies: Vec<Vec<u8>> = vec![
        [b"<< ".as_slice(), at("dict_inside"), b"/Type /Catalog /Pages ".as_slice(), at("dict_value"), b" 2 0 R >>".as_slice()].concat(),
        [b"<< /Type /Pages /Kids [".as_slice(), at("array_inside"), b" 3 0 R ] /Count 1 >>".as_slice()].concat(),
        b"<< /Type /Page /Parent 2 0 R /MediaBox [0 0 100 100] /Contents 4 0 R >>".to_vec(),
        [format!("<< /Length {} >>", content.len()).as_bytes(), at("before_stream_kw"), b"\nstream\n".as_slice(), &content, b"\nendstream".as_slice()].concat(),
    ];
    for (i, b) in bodies.iter().enumerate() {
        if i == 2 {
            out.extend_from_slice(at("between_objs"));
        }
        offs.push(out.len());
        out.extend_from_slice(format!("{} 0 obj\n", i + 1).as_bytes());
        if i == 2 {
            out.extend_from_slice(at("obj_before_value"));
        }
        out.extend_from_slice(b);
        if i == 2 {
            out.extend_from_slice(at("before_endobj"));
        }
        out.extend_from_slice(b"\nendobj\n");
    }
    let x = out.len();
    out.extend_from_slice(b"xref\n");
    out.extend_from_slice(at("xref_after_kw"));
    out.extend_from_slice(b"0 5\n0000000000 65535 f \n");
    for (i, o) in offs.iter().enumerate() {
        if i == 2 {
            out.extend_from_slice(at("xref_between_entries"));
        }
        out.extend_from_slice(format!("{:010} 00000 n \n", o).as_bytes());
    }
    out.extend_from_slice(at("before_trailer_kw"));
    out.extend_from_slice(b"trailer\n");
    out.extend_from_slice(at("before_trailer_dict"));
    out.extend_from_slice(b"<< /Size 5 /Root 1 0 R >>\nstartxref\n");
    out.extend_from_slice(at("after_startxref_kw"));
    out.extend_from_slice(format!("{x}\n").as_bytes());
    out.extend_from_slice(at("before_eof"));
    out.extend_from_slice(b"%%EOF\n");
    out.extend_from_slice(at("after_eof"));
    out
}

// ---------------------------------------------------------------------------------------------------------------
// navigation
// ---------------------------------------------------------------------------------------------------------------
fn presets() -> Vec<(&'static str, ParseOptions)> {
    vec![("strict", ParseOptions::strict()), ("default", ParseOptions::default()), ("tolerant", ParseOptions::tolerant()), ("lenient", ParseOptions::lenient()),
         ("skip_errors", ParseOptions::skip_errors())]
}

fn thread_cpu_ms() -> u64 {
    let mut ts = libc::timespec { tv_sec: 0, tv_nsec: 0 };
    unsafe {
        libc::clock_gettime(libc::CLOCK_THREAD_CPUTIME_ID, &mut ts);
    }
    ts.tv_sec as u64 * 1000 + ts.tv_nsec as u64 / 1_000_000
}

/// Open and walk: page count, each page, resources, content streams, every stream object decoded, text extraction.
fn navigate(bytes: Vec<u8>, opts: ParseOptions, numbers: &[u32]) -> &'static str {
    // the reader's own "all pages" call, on a reader of its own
    if let Ok(mut all) = PdfReader::new_with_options(Cursor::new(bytes.clone()), opts.clone()) {
        let _ = all.get_all_pages().map(|v| v.len());
    }
    let mut reader = match PdfReader::new_with_options(Cursor::new(bytes), opts) {
        Ok(r) => r,
        Err(_) => return "err",
    };
    let _ = reader.page_count();
    let _ = reader.metadata();
    let _ = reader.catalog().map(|_| ());
    let doc: PdfDocument<Cursor<Vec<u8>>> = reader.into_document();
    let n = doc.page_count().unwrap_or(0);
    // page 0 is asked for even when the count says there is none (a caller need not ask for the count first)
    for i in 0..n.min(8).max(1) {
        if let Ok(pg) = doc.get_page(i) {
            let _ = doc.get_page_resources(&pg).map(|_| ());
            let _ = doc.get_page_content_streams(&pg);
            let _ = doc.get_page_annotations(i);
        }
        let _ = doc.extract_text_from_page(i);
        let mut ex = TextExtractor::with_options(ExtractionOptions { preserve_layout: true, ..ExtractionOptions::default() });
        let _ = ex.extract_from_page(&doc, i);
    }
    for k in numbers {
        if let Ok(o) = doc.get_object(*k, 0) {
            if let Some(s) = o.as_stream() {
                let _ = doc.decode_stream(s);
            }
        }
    }
    "ok"
}

/// The images of the file through the bounded in-memory extractor, with limits a cautious caller would set
/// (16 M pixels and 64 MB per image, 64 images, 256 MB in all): the limits are the caller's protection, they must hold.
fn navigate_images(bytes: Vec<u8>, opts: ParseOptions) {
    use oxidize_pdf::operations::extract_images::{ExtractImagesOptions, ImageExtractionLimits, ImageExtractor};
    if let Ok(reader) = PdfReader::new_with_options(Cursor::new(bytes), opts) {
        let doc: PdfDocument<Cursor<Vec<u8>>> = reader.into_document();
        let mut ex = ImageExtractor::new(doc, ExtractImagesOptions { min_size: None, ..ExtractImagesOptions::default() });
        let _ = ex.extract_all_in_memory(ImageExtractionLimits { max_images: 64, max_encoded_bytes_per_image: 64 << 20, max_total_encoded_bytes: 256 << 20,
                                                                 max_decoded_pixels_per_image: 16_000_000 });
    }
}

fn run(a: &Args) {
    static LAST_PANIC: std::sync::Mutex<String> = std::sync::Mutex::new(String::new());
    std::panic::set_hook(Box::new(|info| {
        let loc = info.location().map(|l| format!("{}:{}", l.file().rsplit("oxidize-pdf-core/").next().unwrap_or(l.file()), l.line())).unwrap_or_default();
        let msg = info.payload().downcast_ref::<&str>().map(|s| s.to_string()).or_else(|| info.payload().downcast_ref::<String>().cloned()).unwrap_or_default();
        if let Ok(mut g) = LAST_PANIC.lock() {
            *g = format!("{loc}: {msg}");
        }
    }));
    let base_recs = read_cases(a.req("bases"));
    let bases: std::collections::BTreeMap<String, (Vec<u8>, Vec<(usize, usize, String)>)> = base_recs
        .iter()
        .map(|b| {
            let bytes: Vec<u8> = b["bytes"].as_array().unwrap().iter().map(|x| x.as_u64().unwrap() as u8).collect();
            let sl = b["slots"].as_array().unwrap().iter().map(|s| (s["at"].as_u64().unwrap() as usize, s["len"].as_u64().unwrap() as usize, s["class"].as_str().unwrap().to_string())).collect();
            (b["name"].as_str().unwrap().to_string(), (bytes, sl))
        })
        .collect();
    let cases = read_cases(a.req("in"));
    let from = a.num("from", 0) as usize;
    let seed = a.num("seed", 1);
    let progress = a.req("progress").to_string();
    let mut out = std::fs::OpenOptions::new().create(true).append(true).open(a.req("out")).unwrap_or_else(|e| tool_error(&e.to_string()));
    for (ci, c) in cases.iter().enumerate().skip(from) {
        std::fs::write(&progress, format!("{ci}\n")).ok();
        let (base, sl) = match bases.get(c["base"].as_str().unwrap_or("")) {
            Some(x) => x,
            None => tool_error("unknown base"),
        };
        let faults = c["faults"].as_array().cloned().unwrap_or_default();
        let bytes = match apply(base, sl, &faults, seed) {
            Some(b) => b,
            None => tool_error(&format!("fault not applicable: {}", c)),
        };
        let numbers: Vec<u32> = crate::c03::object_numbers(&bytes).into_iter().take(80).collect();
        let mut outcomes = serde_json::Map::new();
        let mut worst_ms = 0u64;
        let mut worst_kb = 0u64;
        let mut panics = serde_json::Map::new();
        for (pi, (pname, opts)) in presets().into_iter().enumerate() {
            // progress per preset: the driver's stall timer must see a slow case move
            std::fs::write(&progress, format!("{ci}:{pi}\n")).ok();
            let (b2, nums) = (bytes.clone(), numbers.clone());
            // the navigation runs on a thread with the 8 MB stack of a main thread
            let h = std::thread::Builder::new().stack_size(8 << 20).spawn(move || {
                crate::alloc_reset_peak();
                let base_kb = crate::alloc_current() / 1024;
                let t0 = thread_cpu_ms();
                let r = std::panic::catch_unwind(move || { let o = navigate(b2.clone(), opts.clone(), &nums); navigate_images(b2, opts); o });
                let ms = thread_cpu_ms() - t0;
                let kb = (crate::alloc_peak() / 1024).saturating_sub(base_kb);
                (r.unwrap_or("panic"), ms, kb)
            });
            let (o, ms, kb) = h.ok().and_then(|h| h.join().ok()).unwrap_or(("panic", 0, 0));
            outcomes.insert(pname.to_string(), json!(o));
            if o == "panic" {
                panics.insert(pname.to_string(), json!(LAST_PANIC.lock().map(|g| g.clone()).unwrap_or_default().chars().take(200).collect::<String>()));
            }
            worst_ms = worst_ms.max(ms);
            worst_kb = worst_kb.max(kb as u64);
        }
        let ev = json!({"ev": "case", "case": ci, "base": c["base"], "faults": faults, "len": bytes.len(), "outcomes": outcomes, "panics": panics, "cpu_ms": worst_ms, "peak_kb": worst_kb});
        writeln!(out, "{}", ev).ok();
    }
    out.flush().ok();
    std::fs::write(&progress, "done\n").ok();
}

/// One file from disk under every preset (hand-made experiments; a hang is the caller's `timeout` to catch).
fn probe(a: &Args) {
    std::panic::set_hook(Box::new(|info| eprintln!("panic at {}", info.location().map(|l| format!("{}:{}", l.file(), l.line())).unwrap_or_default())));
    let bytes = std::fs::read(a.req("file")).unwrap_or_else(|e| tool_error(&e.to_string()));
    let numbers: Vec<u32> = crate::c03::object_numbers(&bytes).into_iter().take(80).collect();
    for (pname, opts) in presets() {
        println!("{pname} ...");
        let (b2, nums) = (bytes.clone(), numbers.clone());
        let h = std::thread::Builder::new().stack_size(8 << 20).spawn(move || {
            crate::alloc_reset_peak();
            let t0 = thread_cpu_ms();
            let r = std::panic::catch_unwind(move || { let o = navigate(b2.clone(), opts.clone(), &nums); navigate_images(b2, opts); o });
            (r.unwrap_or("panic"), thread_cpu_ms() - t0, crate::alloc_peak() / 1024)
        });
        let (o, ms, kb) = h.ok().and_then(|h| h.join().ok()).unwrap_or(("panic", 0, 0));
        println!("{pname}: {o} cpu_ms={ms} peak_kb={kb}");
    }
}
