//! C25 - the library's single-byte encodings observed exhaustively (every byte, every Unicode scalar value).
use crate::util::*;
use oxidize_pdf::text::TextEncoding;
use serde_json::{json, Value};

pub fn main(a: &Args) {
    match a.pos.first().map(|s| s.as_str()) {
        Some("observe") => observe(a),
        _ => tool_error("c25 observe"),
    }
}

fn observe(a: &Args) {
    std::panic::set_hook(Box::new(|_| {}));
    let mut out = Out::file(a.req("out"));
    // the parser-side decoders (text extraction path) for the same three Annex D encodings
    {
        use oxidize_pdf::parser::encoding::{decode_text_with_encoding, EncodingType};
        for (name, et) in [("WinAnsi", EncodingType::Windows1252), ("MacRoman", EncodingType::MacRoman), ("PdfDoc", EncodingType::PdfDocEncoding)] {
            let dec: Vec<i64> = (0..=255u8)
                .map(|b| match decode_text_with_encoding(&[b], et) {
                    Ok(s) => {
                        let mut it = s.chars();
                        match (it.next(), it.next()) {
                            (Some(c), None) => c as i64,
                            _ => -1,
                        }
                    }
                    Err(_) => -2,
                })
                .collect();
            out.line(&json!({"ev": "decode", "enc": name, "api": "parser::encoding", "dec": dec}));
        }
    }
    let encs = [
        ("Standard", TextEncoding::StandardEncoding),
        ("MacRoman", TextEncoding::MacRomanEncoding),
        ("WinAnsi", TextEncoding::WinAnsiEncoding),
        ("PdfDoc", TextEncoding::PdfDocEncoding),
    ];
    for (name, enc) in encs {
        // decode of every single byte: one scalar value, or -1 when the result is not exactly one character
        let dec: Vec<i64> = (0..=255u8)
            .map(|b| {
                let s = enc.decode(&[b]);
                let mut it = s.chars();
                match (it.next(), it.next()) {
                    (Some(c), None) => c as i64,
                    _ => -1,
                }
            })
            .collect();
        out.line(&json!({"ev": "decode", "enc": name, "api": "text::TextEncoding", "dec": dec}));
        // every scalar value through both encoders
        let mut strict: Vec<Value> = Vec::new();
        let mut lossy: Vec<Value> = Vec::new();
        let (mut scalars, mut strict_err, mut lossy_other) = (0u64, 0u64, 0u64);
        let mut buf = [0u8; 4];
        for cp in 0..=0x10FFFFu32 {
            let ch = match char::from_u32(cp) {
                Some(c) => c,
                None => continue,
            };
            scalars += 1;
            let s: &str = ch.encode_utf8(&mut buf);
            match enc.encode_strict(s) {
                Ok(b) if b.len() == 1 => strict.push(json!([cp, b[0]])),
                Ok(b) => strict.push(json!([cp, -(b.len() as i64)])),
                Err(_) => strict_err += 1,
            }
            let l = enc.encode(s);
            if l.len() == 1 && (l[0] != b'?' || cp == 63) {
                lossy.push(json!([cp, l[0]]));
            } else {
                lossy_other += 1;
            }
        }
        out.line(&json!({"ev": "strict", "enc": name, "pairs": strict, "scalars": scalars, "refused": strict_err}));
        out.line(&json!({"ev": "lossy", "enc": name, "pairs": lossy, "scalars": scalars, "other": lossy_other}));
    }
}
