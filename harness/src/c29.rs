//! C29 - LruCache / ObjectCache against Lru.tla / LruLin.tla.
use crate::util::*;
use oxidize_pdf::memory::{LruCache, ObjectCache};
use oxidize_pdf::parser::PdfObject;
use serde_json::{json, Value};
use std::sync::atomic::{AtomicU64, Ordering};
use std::sync::{Arc, Barrier};

pub fn main(a: &Args) {
    match a.pos.first().map(|s| s.as_str()) {
        Some("replay") => replay(a),
        Some("record") => record(a),
        Some("conc") => conc(a),
        _ => tool_error("c29 replay|record|conc"),
    }
}

/// B1: TLC behaviours -> real LruCache, abstract state compared after every call.
/// Input case: {cap, hist:[{op,k,v,ret,len}], final:[keys MRU first]}.  0 encodes None.
fn replay(a: &Args) {
    let cases = read_cases(a.req("in"));
    let mut out = Out::file(a.req("out"));
    let mut n = 0u64;
    let mut evict = 0u64;
    let mut mism = 0u64;
    for c in &cases {
        n += 1;
        let cap = c["cap"].as_u64().unwrap() as usize;
        let mut cache: LruCache<u64, u64> = LruCache::new(cap);
        let mut bad: Option<Value> = None;
        let mut prev_len = 0u64;
        let mut saw_evict = false;
        for (i, s) in c["hist"].as_array().unwrap().iter().enumerate() {
            let k = s["k"].as_u64().unwrap();
            let v = s["v"].as_u64().unwrap();
            let exp_ret = s["ret"].as_u64().unwrap();
            let exp_len = s["len"].as_u64().unwrap();
            let op = s["op"].as_str().unwrap();
            let got_ret = match op {
                "get" => cache.get(&k).copied().unwrap_or(0),
                "put" => {
                    cache.put(k, v);
                    0
                }
                "clear" => {
                    cache.clear();
                    0
                }
                _ => tool_error("bad op"),
            };
            let got_len = cache.len() as u64;
            if op == "put" && exp_len == prev_len && cap > 0 && prev_len == cap as u64 {
                saw_evict = true; // may also be an overwrite; refined below by the final probe
            }
            prev_len = exp_len;
            if got_ret != exp_ret || got_len != exp_len || cache.is_empty() != (exp_len == 0) {
                bad = Some(json!({"step": i + 1, "op": op, "k": k, "v": v, "exp_ret": exp_ret, "got_ret": got_ret,
                                  "exp_len": exp_len, "got_len": got_len}));
                break;
            }
        }
        if bad.is_none() {
            // final probe: which keys are held, and in which recency order?  Observe the order by
            // inserting fresh keys one at a time and watching which old key disappears (LRU first).
            let fin: Vec<u64> = c["final"].as_array().unwrap().iter().map(|x| x.as_u64().unwrap()).collect();
            let mut seen: Vec<u64> = Vec::new();
            // membership without perturbing: rebuild a twin by replaying the history
            let twin = |upto_fresh: usize| -> LruCache<u64, u64> {
                let mut t: LruCache<u64, u64> = LruCache::new(cap);
                for s in c["hist"].as_array().unwrap() {
                    let k = s["k"].as_u64().unwrap();
                    match s["op"].as_str().unwrap() {
                        "get" => {
                            t.get(&k);
                        }
                        "put" => t.put(k, s["v"].as_u64().unwrap()),
                        _ => t.clear(),
                    }
                }
                for f in 0..upto_fresh {
                    t.put(1000 + f as u64, 1);
                }
                t
            };
            // order[len] is evicted by the first fresh put once full, order[len-1] by the second, ...
            let fill = cap.saturating_sub(fin.len());
            for j in 0..fin.len() {
                for key in 1..=8u64 {
                    let was = twin(fill + j).get(&key).is_some();
                    let is = twin(fill + j + 1).get(&key).is_some();
                    if was && !is {
                        seen.push(key);
                    }
                }
            }
            let exp_evict_order: Vec<u64> = fin.iter().rev().copied().collect();
            if cap > 0 && seen != exp_evict_order {
                bad = Some(json!({"step": "final", "exp_eviction_order": exp_evict_order, "got_eviction_order": seen}));
            }
            if cap > 0 && !fin.is_empty() {
                evict += saw_evict as u64;
            }
        }
        if let Some(b) = bad {
            mism += 1;
            out.line(&json!({"ev": "mismatch", "case": c, "detail": b}));
        }
    }
    out.line(&json!({"ev": "summary", "cases": n, "with_eviction": evict, "mismatches": mism}));
}

/// B2 (sequential): seeded random long histories on the real LruCache, one event per call.
fn record(a: &Args) {
    let mut rng = Rng::new(a.num("seed", 1));
    let cases = a.num("cases", 20);
    let len = a.num("len", 200);
    let nkeys = a.num("keys", 6);
    let mut out = Out::file(a.req("out"));
    for c in 0..cases {
        let cap = rng.below(5) as usize;
        let mut cache: LruCache<u64, u64> = LruCache::new(cap);
        out.line(&json!({"ev": "reset", "case": c, "cap": cap}));
        for i in 0..len {
            let k = 1 + rng.below(nkeys);
            let r = rng.below(100);
            if r < 45 {
                let ret = cache.get(&k).copied().unwrap_or(0);
                out.line(&json!({"ev": "get", "k": k, "ret": ret, "len": cache.len()}));
            } else if r < 97 {
                let v = i + 1;
                cache.put(k, v);
                out.line(&json!({"ev": "put", "k": k, "v": v, "len": cache.len()}));
            } else {
                cache.clear();
                out.line(&json!({"ev": "clear", "len": cache.len()}));
            }
        }
    }
}

/// B2 (concurrent): threads hammer one ObjectCache; invoke/return events carry a global sequence
/// number taken before the call starts / after it returns, so the recorded order is a sound
/// real-time order for a linearizability search.
fn conc(a: &Args) {
    let mut rng = Rng::new(a.num("seed", 1));
    let cases = a.num("cases", 10);
    let threads = a.num("threads", 3) as usize;
    let ops = a.num("ops", 4) as usize;
    let nkeys = a.num("keys", 3);
    let mut out = Out::file(a.req("out"));
    for c in 0..cases {
        let cap = rng.below(4) as usize;
        let cache = Arc::new(ObjectCache::new(cap));
        let seq = Arc::new(AtomicU64::new(0));
        let bar = Arc::new(Barrier::new(threads));
        // per-thread programs
        let mut progs: Vec<Vec<(u8, u64, u64)>> = Vec::new();
        for t in 0..threads {
            let mut p = Vec::new();
            for i in 0..ops {
                let k = 1 + rng.below(nkeys);
                let r = rng.below(100);
                let v = (t * 100 + i + 1) as u64;
                p.push(if r < 45 { (0u8, k, 0) } else if r < 95 { (1u8, k, v) } else { (2u8, 0, 0) });
            }
            progs.push(p);
        }
        let mut hs = Vec::new();
        for (t, prog) in progs.into_iter().enumerate() {
            let cache = cache.clone();
            let seq = seq.clone();
            let bar = bar.clone();
            hs.push(std::thread::spawn(move || {
                let mut evs: Vec<(u64, Value)> = Vec::new();
                bar.wait();
                for (op, k, v) in prog {
                    let id = (k as u32, 0u16);
                    let s0 = seq.fetch_add(1, Ordering::SeqCst);
                    let name = ["get", "put", "clear"][op as usize];
                    evs.push((s0, json!({"ev": "inv", "t": t + 1, "op": name, "k": k, "v": v})));
                    let ret = match op {
                        0 => match cache.get(&oxidize_pdf::objects::ObjectId::new(id.0, id.1)) {
                            Some(o) => match &*o {
                                PdfObject::Integer(i) => *i as u64,
                                _ => 9999,
                            },
                            None => 0,
                        },
                        1 => {
                            cache.put(oxidize_pdf::objects::ObjectId::new(id.0, id.1), Arc::new(PdfObject::Integer(v as i64)));
                            0
                        }
                        _ => {
                            cache.clear();
                            0
                        }
                    };
                    let s1 = seq.fetch_add(1, Ordering::SeqCst);
                    evs.push((s1, json!({"ev": "ret", "t": t + 1, "ret": ret})));
                    if s1 % 3 == 0 {
                        std::thread::yield_now();
                    }
                }
                evs
            }));
        }
        let mut all: Vec<(u64, Value)> = Vec::new();
        for h in hs {
            all.extend(h.join().unwrap());
        }
        all.sort_by_key(|e| e.0);
        let stats = cache.stats();
        out.line(&json!({"ev": "reset", "case": c, "cap": cap, "threads": threads}));
        for (_, e) in all {
            out.line(&e);
        }
        out.line(&json!({"ev": "end", "size": stats.size, "capacity": stats.capacity}));
    }
    // Unlogged stress: writers that keep evicting while readers keep hitting, on tiny capacities.  Only the state
    // that is left is recorded; every reachable state of Lru satisfies Bounded, so the observed one must.
    for c in 0..a.num("stress", 0) {
        let cap = 1 + (c % 3) as usize;
        let cache = Arc::new(ObjectCache::new(cap));
        let bar = Arc::new(Barrier::new(4));
        let mut hs = Vec::new();
        for t in 0..4u32 {
            let cache = cache.clone();
            let bar = bar.clone();
            hs.push(std::thread::spawn(move || {
                bar.wait();
                for i in 0..20000u32 {
                    let k = oxidize_pdf::objects::ObjectId::new(1 + (i.wrapping_mul(7).wrapping_add(t)) % 5, 0);
                    if t < 2 {
                        cache.put(k, Arc::new(PdfObject::Integer(i as i64)));
                    } else {
                        let _ = cache.get(&k);
                    }
                }
            }));
        }
        for h in hs {
            h.join().unwrap();
        }
        let stats = cache.stats();
        let present = (1..=5u32).filter(|k| cache.get(&oxidize_pdf::objects::ObjectId::new(*k, 0)).is_some()).count();
        out.line(&json!({"ev": "stress", "case": c, "cap": cap, "size": stats.size, "capacity": stats.capacity, "present": present}));
    }
}
