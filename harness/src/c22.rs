//! C22 - the batch worker pool against Batch.tla.
//!
//! `trace`  : WorkerPool::process_jobs with harness-owned Custom jobs; every hook event (exact order, the
//!            hooks hold a global step lock around each action) + op_begin/op_end from the job closures +
//!            a final `summary` event -> ndjson for BatchTrace.tla.
//! `final`  : BatchProcessor::execute (custom and built-in jobs, progress callback) -> final summaries,
//!            compared by the driver with the set of final states Batch.tla allows for the configuration.
use crate::util::*;
use oxidize_pdf::batch::{BatchJob, BatchOptions, BatchProcessor, BatchProgress, JobResult, ProgressInfo, WorkerOptions, WorkerPool};
use oxidize_pdf::error::PdfError;
use oxidize_pdf::verif;
use serde_json::{json, Value};
use std::sync::atomic::{AtomicBool, AtomicU64, Ordering};
use std::sync::{Arc, Mutex};
use std::time::Duration;

pub fn main(a: &Args) {
    match a.pos.first().map(|s| s.as_str()) {
        Some("trace") => trace(a),
        Some("final") => final_outcomes(a),
        Some("stress") => stress(a),
        _ => tool_error("c22 trace|final|stress"),
    }
}

struct Recorder {
    events: Mutex<Vec<(&'static str, i64, i64)>>,
    perturb: AtomicU64, // 0 = off, otherwise seed of the yield/sleep pattern
    counter: AtomicU64,
}

impl verif::Sink for Recorder {
    fn gate(&self, point: &'static str, a: i64, _b: i64) {
        let seed = self.perturb.load(Ordering::Relaxed);
        if seed == 0 {
            return;
        }
        let c = self.counter.fetch_add(1, Ordering::Relaxed);
        let mut r = Rng::new(seed ^ (c.wrapping_mul(0x9E37)) ^ (a as u64) << 17 ^ point.len() as u64);
        match r.below(10) {
            0..=3 => {}
            4..=6 => std::thread::yield_now(),
            7 | 8 => std::thread::sleep(Duration::from_micros(20 + r.below(200))),
            _ => std::thread::sleep(Duration::from_micros(500 + r.below(1500))),
        }
    }
    fn event(&self, point: &'static str, a: i64, b: i64) {
        self.events.lock().unwrap_or_else(|e| e.into_inner()).push((point, a, b));
    }
}

fn kind_of(r: &JobResult) -> &'static str {
    if r.is_success() {
        "ok"
    } else if r.is_failed() {
        "fail"
    } else {
        "cancelled"
    }
}

fn idx_from_name(r: &JobResult) -> i64 {
    // job names are "job<idx>"
    r.job_name().trim_start_matches("job").parse::<i64>().unwrap_or(-1)
}

#[derive(Clone)]
struct Case {
    n: usize,
    w: usize,
    outcome: Vec<u8>, // 0 ok, 1 err, 2 panic
    stop: bool,
    pre: bool,
    cancel_in: i64, // job whose operation performs a user cancel (WorkerPool path), -1 none
    perturb: u64,
}

fn case_json(c: &Case, idx: u64) -> Value {
    let names = ["ok", "err", "panic"];
    json!({"ev": "reset", "case": idx, "n": c.n, "w": c.w,
           "outcome": c.outcome.iter().map(|o| names[*o as usize]).collect::<Vec<_>>(),
           "stopOnError": c.stop, "preCancel": c.pre, "cancelIn": c.cancel_in + 1, "perturb": c.perturb})
}

fn gen_case(rng: &mut Rng, max_n: u64, max_w: u64, allow_panic: bool) -> Case {
    let n = 1 + rng.below(max_n) as usize;
    let w = 1 + rng.below(max_w) as usize;
    let outcome = (0..n)
        .map(|_| match rng.below(10) {
            0..=4 => 0u8,
            5..=7 => 1,
            _ => if allow_panic { 2 } else { 1 },
        })
        .collect();
    Case {
        n,
        w,
        outcome,
        stop: rng.chance(2, 3),
        pre: rng.chance(1, 12),
        cancel_in: if rng.chance(1, 6) { rng.below(n as u64) as i64 } else { -1 },
        perturb: 1 + rng.next() % 1_000_000,
    }
}

fn custom_job(idx: usize, outcome: u8, cancel_flag: Option<Arc<AtomicBool>>, spin: u64) -> BatchJob {
    BatchJob::Custom {
        name: format!("job{idx}"),
        operation: Box::new(move || {
            verif::event("op_begin", idx as i64, 0);
            if spin > 0 {
                std::thread::sleep(Duration::from_micros(spin));
            }
            if let Some(f) = cancel_flag {
                let _s = verif::step("u_cancel", idx as i64, 0);
                f.store(true, Ordering::SeqCst);
            }
            verif::event("op_end", idx as i64, outcome as i64);
            match outcome {
                0 => Ok(()),
                1 => Err(PdfError::InvalidStructure(format!("job{idx} fails"))),
                _ => panic!("job{idx} panics"),
            }
        }),
    }
}

/// Run `f` on a helper thread; if it does not finish in time the pool is hung: report and leave.
fn with_watchdog<T: Send + 'static>(secs: u64, out: &mut Out, hang_ev: Value, f: impl FnOnce() -> T + Send + 'static) -> T {
    let (tx, rx) = std::sync::mpsc::channel();
    std::thread::spawn(move || {
        let _ = tx.send(f());
    });
    match rx.recv_timeout(Duration::from_secs(secs)) {
        Ok(v) => v,
        Err(_) => {
            out.line(&hang_ev);
            out.flush();
            std::process::exit(3);
        }
    }
}

fn trace(a: &Args) {
    std::panic::set_hook(Box::new(|_| {}));
    let mut rng = Rng::new(a.num("seed", 1));
    let cases = a.num("cases", 50);
    let skip = a.num("skip", 0);
    let max_n = a.num("maxn", 4);
    let max_w = a.num("maxw", 3);
    let allow_panic = a.num("panic", 1) == 1;
    let mut out = if skip > 0 {
        Out { w: std::io::BufWriter::new(Box::new(std::fs::OpenOptions::new().append(true).open(a.req("out")).unwrap())) }
    } else {
        Out::file(a.req("out"))
    };
    let rec = Arc::new(Recorder { events: Mutex::new(Vec::new()), perturb: AtomicU64::new(0), counter: AtomicU64::new(0) });
    verif::install(Some(rec.clone()));
    for ci in 0..cases {
        let c = gen_case(&mut rng, max_n, max_w, allow_panic);
        if ci < skip {
            continue;
        }
        rec.events.lock().unwrap().clear();
        rec.perturb.store(c.perturb, Ordering::Relaxed);
        let progress = Arc::new(BatchProgress::new());
        let cancelled = Arc::new(AtomicBool::new(c.pre));
        let mut jobs = Vec::new();
        for i in 0..c.n {
            progress.add_job();
            let spin = if rng.chance(1, 3) { rng.below(300) } else { 0 };
            let cf = if c.cancel_in == i as i64 { Some(cancelled.clone()) } else { None };
            jobs.push(custom_job(i, c.outcome[i], cf, spin));
        }
        let pool = WorkerPool::new(WorkerOptions { num_workers: c.w, memory_limit: 1 << 20, job_timeout: None });
        let (p2, c2, stop) = (progress.clone(), cancelled.clone(), c.stop);
        let header = case_json(&c, ci);
        let rec2 = rec.clone();
        let hang = {
            let evs: Vec<Value> = Vec::new();
            json!({"ev": "hang", "case": ci, "config": header, "events_so_far": evs})
        };
        // the reset line goes out before the run so that a hang is attributable
        out.line(&header);
        let results = with_watchdog(20, &mut out, hang, move || {
            let r = pool.process_jobs(jobs, p2, c2, stop);
            let _ = rec2;
            r
        });
        let evs = rec.events.lock().unwrap().clone();
        for (p, x, y) in evs {
            // jobs and workers are 1-based in the specification
            let ev = match p {
                "w_recv" => json!({"ev": p, "w": x + 1, "j": y + 1}),
                "w_done" => json!({"ev": p, "w": x + 1, "j": y + 1}),
                "c_recv" => json!({"ev": p, "j": x + 1, "kind": (["ok", "fail", "cancelled"][y as usize])}),
                "op_end" => json!({"ev": p, "j": x + 1, "outcome": (["ok", "err", "panic"][y as usize])}),
                "d_close" | "d_joined" => json!({"ev": p}),
                _ => json!({"ev": p, "j": x + 1, "b": y}),
            };
            out.line(&ev);
        }
        let info = progress.get_info();
        let mut kinds: Vec<&str> = vec!["none"; c.n];
        let mut in_order = true;
        let mut last = -1i64;
        for r in &results {
            let i = idx_from_name(r);
            if i >= 0 && (i as usize) < c.n {
                kinds[i as usize] = kind_of(r);
            }
            if i <= last {
                in_order = false;
            }
            last = i;
        }
        out.line(&json!({"ev": "summary", "len": results.len(), "results": kinds, "inOrder": in_order,
                         "running": info.running_jobs, "completed": info.completed_jobs, "failedJobs": info.failed_jobs,
                         "cancelFlag": cancelled.load(Ordering::SeqCst)}));
        out.flush();
    }
    verif::install(None);
}

/// BatchProcessor::execute end-to-end: final summaries for custom and built-in (Rotate = file copy) jobs.
fn final_outcomes(a: &Args) {
    std::panic::set_hook(Box::new(|_| {}));
    let cases = read_cases(a.req("in"));
    let skip = a.num("skip", 0) as usize;
    let reps = a.num("reps", 3);
    let dir = a.req("dir").to_string();
    std::fs::create_dir_all(&dir).unwrap();
    let good = format!("{dir}/good.pdf");
    std::fs::write(&good, b"%PDF-1.4\n%%EOF\n").unwrap();
    let mut out = if skip > 0 {
        Out { w: std::io::BufWriter::new(Box::new(std::fs::OpenOptions::new().append(true).open(a.req("out")).unwrap())) }
    } else {
        Out::file(a.req("out"))
    };
    let rec = Arc::new(Recorder { events: Mutex::new(Vec::new()), perturb: AtomicU64::new(0), counter: AtomicU64::new(0) });
    verif::install(Some(rec.clone()));
    for (ci, c) in cases.iter().enumerate() {
        if ci < skip {
            continue;
        }
        let n = c["n"].as_u64().unwrap() as usize;
        let w = c["w"].as_u64().unwrap() as usize;
        let outcome: Vec<String> = c["outcome"].as_array().unwrap().iter().map(|x| x.as_str().unwrap().to_string()).collect();
        let stop = c["stopOnError"].as_bool().unwrap();
        let pre = c["preCancel"].as_bool().unwrap();
        let has_panic = outcome.iter().any(|o| o == "panic");
        // "sync": custom jobs whose operations wait for each other (bounded spin), so that the workers leave their
        // jobs within a few instructions of one another - the schedule in which unsynchronised counters lose updates
        for kind in ["custom", "sync", "builtin"] {
            if kind == "builtin" && has_panic {
                continue;
            }
            if kind == "sync" && w < 2 {
                continue;
            }
            for rep in 0..reps {
                rec.events.lock().unwrap().clear();
                rec.perturb.store(1 + (ci as u64) * 31 + rep * 7, Ordering::Relaxed);
                let ran: Arc<Vec<AtomicU64>> = Arc::new((0..n).map(|_| AtomicU64::new(0)).collect());
                let last_info: Arc<Mutex<Option<(usize, usize, usize)>>> = Arc::new(Mutex::new(None));
                let li = last_info.clone();
                let opts = BatchOptions::default().with_parallelism(w).stop_on_error(stop).with_progress_callback(move |i: &ProgressInfo| {
                    *li.lock().unwrap() = Some((i.running_jobs, i.completed_jobs, i.failed_jobs));
                });
                let mut opts = opts;
                opts.progress_interval = Duration::from_millis(1);
                let mut bp = BatchProcessor::new(opts);
                let arrive = Arc::new(AtomicU64::new(0));
                for i in 0..n {
                    let o = outcome[i].as_str();
                    if kind == "custom" || kind == "sync" {
                        let ran = ran.clone();
                        let oc: u8 = match o { "ok" => 0, "err" => 1, _ => 2 };
                        let arrive = arrive.clone();
                        let target = if kind == "sync" { w.min(n) as u64 } else { 0 };
                        bp.add_job(BatchJob::Custom {
                            name: format!("job{i}"),
                            operation: Box::new(move || {
                                ran[i].fetch_add(1, Ordering::SeqCst);
                                if target > 0 {
                                    let wave = arrive.fetch_add(1, Ordering::SeqCst) / target;
                                    let t0 = std::time::Instant::now();
                                    while arrive.load(Ordering::SeqCst) < (wave + 1) * target && t0.elapsed() < Duration::from_millis(3) {
                                        std::hint::spin_loop();
                                    }
                                }
                                match oc {
                                    0 => Ok(()),
                                    1 => Err(PdfError::InvalidStructure("fails".into())),
                                    _ => panic!("panics"),
                                }
                            }),
                        });
                    } else {
                        let outp = format!("{dir}/out_{ci}_{rep}_{i}.pdf");
                        let _ = std::fs::remove_file(&outp);
                        bp.add_job(BatchJob::Rotate {
                            input: if o == "ok" { good.clone().into() } else { format!("{dir}/missing.pdf").into() },
                            output: outp.into(),
                            rotation: 90,
                            pages: None,
                        });
                    }
                }
                if pre {
                    bp.cancel();
                }
                let hang = json!({"ev": "hang", "case": ci, "kind": kind, "config": c});
                let summary = with_watchdog(20, &mut out, hang, move || bp.execute());
                let mut op_runs: Vec<i64> = vec![-1; n];
                for i in 0..n {
                    if kind != "builtin" {
                        op_runs[i] = ran[i].load(Ordering::SeqCst) as i64;
                    } else if outcome[i] == "ok" {
                        let outp = format!("{dir}/out_{ci}_{rep}_{i}.pdf");
                        op_runs[i] = std::path::Path::new(&outp).exists() as i64;
                        let _ = std::fs::remove_file(&outp);
                    }
                }
                match summary {
                    Ok(s) => {
                        // results are positional: the property says one per job in submission order
                        let kinds: Vec<&str> = s.results.iter().map(kind_of).collect();
                        let li = *last_info.lock().unwrap();
                        out.line(&json!({"ev": "final", "case": ci, "kind": kind, "rep": rep, "config": c,
                                         "total": s.total_jobs, "results": kinds, "successful": s.successful, "failed": s.failed,
                                         "progress": li.map(|(r, c2, f)| json!({"running": r, "completed": c2, "failedJobs": f})),
                                         "opRuns": op_runs, "cancelFlag": s.cancelled}));
                    }
                    Err(e) => out.line(&json!({"ev": "final_error", "case": ci, "kind": kind, "config": c, "msg": e.to_string()})),
                }
            }
        }
        out.flush();
    }
    verif::install(None);
}

/// Unlogged stress for the counters: batches of 16 succeeding custom jobs on 4 workers; the operations of one wave
/// wait for each other (bounded spin) so that the workers leave their jobs within a few instructions of one another.
fn stress(a: &Args) {
    std::panic::set_hook(Box::new(|_| {}));
    let mut out = Out::file(a.req("out"));
    let n = 16usize;
    let w = 4usize;
    for b in 0..a.num("batches", 200) {
        let arrive = Arc::new(AtomicU64::new(0));
        let last_info: Arc<Mutex<Option<(usize, usize, usize)>>> = Arc::new(Mutex::new(None));
        let li = last_info.clone();
        let mut opts = BatchOptions::default().with_parallelism(w).with_progress_callback(move |i: &ProgressInfo| {
            *li.lock().unwrap() = Some((i.running_jobs, i.completed_jobs, i.failed_jobs));
        });
        opts.progress_interval = Duration::from_millis(1);
        let mut bp = BatchProcessor::new(opts);
        for i in 0..n {
            let arrive = arrive.clone();
            bp.add_job(BatchJob::Custom {
                name: format!("job{i}"),
                operation: Box::new(move || {
                    let wave = arrive.fetch_add(1, Ordering::SeqCst) / 4;
                    let t0 = std::time::Instant::now();
                    while arrive.load(Ordering::SeqCst) < (wave + 1) * 4 && t0.elapsed() < Duration::from_millis(5) {
                        std::hint::spin_loop();
                    }
                    Ok(())
                }),
            });
        }
        let hang = json!({"ev": "hang", "case": b, "kind": "stress"});
        let summary = with_watchdog(20, &mut out, hang, move || bp.execute());
        if let Ok(s) = summary {
            let kinds: Vec<&str> = s.results.iter().map(kind_of).collect();
            let in_order = s.results.iter().enumerate().all(|(i, r)| idx_from_name(r) == i as i64 || idx_from_name(r) < 0);
            let li = last_info.lock().unwrap().unwrap_or((usize::MAX >> 40, 0, 0));
            out.line(&json!({"ev": "stress_final", "case": b, "n": n, "len": s.results.len(), "total": s.total_jobs, "inOrder": in_order, "results": kinds,
                             "successful": s.successful, "failed": s.failed, "running": li.0, "completed": li.1, "failedJobs": li.2}));
        }
    }
    out.flush();
}
