//! Projections of library values onto the JSON shapes the specifications read.
use oxidize_pdf::objects::Object;
use oxidize_pdf::parser::objects::PdfObject;
use serde_json::{json, Value};

fn bytes_json(b: &[u8]) -> Value {
    Value::Array(b.iter().map(|x| json!(*x)).collect())
}

/// Parser-side object (what the library's reader returned).
pub fn pobj_json(o: &PdfObject) -> Value {
    match o {
        PdfObject::Null => json!({"t": "null"}),
        PdfObject::Boolean(b) => json!({"t": "bool", "v": b}),
        PdfObject::Integer(i) => json!({"t": "int", "s": i.to_string()}),
        PdfObject::Real(r) => json!({"t": "real", "s": format!("{:.6}", r)}),
        PdfObject::String(s) => json!({"t": "str", "b": bytes_json(&s.0)}),
        PdfObject::Name(n) => json!({"t": "name", "b": bytes_json(n.0.as_bytes())}),
        PdfObject::Array(a) => json!({"t": "arr", "v": a.0.iter().map(pobj_json).collect::<Vec<_>>()}),
        PdfObject::Dictionary(d) => pdict_json(d),
        PdfObject::Stream(s) => json!({"t": "stream", "dict": pdict_json(&s.dict), "len": s.data.len()}),
        PdfObject::Reference(n, g) => json!({"t": "ref", "n": n, "g": g}),
    }
}

pub fn pdict_json(d: &oxidize_pdf::parser::objects::PdfDictionary) -> Value {
    let mut items: Vec<(&String, &PdfObject)> = d.0.iter().map(|(k, v)| (&k.0, v)).collect();
    items.sort_by(|a, b| a.0.as_bytes().cmp(b.0.as_bytes()));
    json!({"t": "dict", "v": items.iter().map(|(k, v)| json!({"k": bytes_json(k.as_bytes()), "v": pobj_json(v)})).collect::<Vec<_>>()})
}

/// Writer-side object (what the user handed to the writer).
pub fn obj_json(o: &Object) -> Value {
    match o {
        Object::Null => json!({"t": "null"}),
        Object::Boolean(b) => json!({"t": "bool", "v": b}),
        Object::Integer(i) => json!({"t": "int", "s": i.to_string()}),
        Object::Real(r) => json!({"t": "real", "s": format!("{:.6}", r)}),
        Object::String(s) => json!({"t": "str", "b": bytes_json(s.as_bytes())}),
        Object::ByteString(b) => json!({"t": "str", "b": bytes_json(b)}),
        Object::Name(n) => json!({"t": "name", "b": bytes_json(n.as_bytes())}),
        Object::Array(a) => json!({"t": "arr", "v": a.iter().map(obj_json).collect::<Vec<_>>()}),
        Object::Dictionary(d) => {
            let mut items: Vec<(&String, &Object)> = d.iter().collect();
            items.sort_by(|a, b| a.0.as_bytes().cmp(b.0.as_bytes()));
            json!({"t": "dict", "v": items.iter().map(|(k, v)| json!({"k": bytes_json(k.as_bytes()), "v": obj_json(v)})).collect::<Vec<_>>()})
        }
        Object::Stream(d, data) => json!({"t": "stream", "dict": obj_json(&Object::Dictionary(d.clone())), "len": data.len()}),
        Object::Reference(id) => json!({"t": "ref", "n": id.number(), "g": id.generation()}),
    }
}
