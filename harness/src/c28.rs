//! C28 - outlines and named destinations against Outline.tla.
//!
//! Authored forests come from TLC (REPLAY lines of MCOutline) or from the seeded generator; each is built
//! through the public API, written, re-opened, and the written outline objects are projected for OutlineTrace.
use crate::util::*;
use oxidize_pdf::parser::objects::{PdfDictionary, PdfName, PdfObject};
use oxidize_pdf::parser::PdfReader;
use oxidize_pdf::structure::{Destination, NamedDestinations, OutlineBuilder, OutlineItem, OutlineTree, PageDestination};
use oxidize_pdf::writer::WriterConfig;
use oxidize_pdf::{Document, Page};
use serde_json::{json, Value};
use std::collections::{BTreeMap, BTreeSet};
use std::io::Cursor;

pub fn main(a: &Args) {
    match a.pos.first().map(|s| s.as_str()) {
        Some("run") => run(a),
        _ => tool_error("c28 run"),
    }
}

struct Forest {
    par: Vec<usize>, // 1-based items, 0 = root
    open: Vec<bool>,
    page: Vec<i64>,
    titles: Vec<String>,
    npages: usize,
    named: Vec<(String, usize)>,
    via_builder: bool,
    config: &'static str,
}

fn build_item(f: &Forest, i: usize) -> OutlineItem {
    // item i is 1-based
    let mut it = OutlineItem::new(f.titles[i - 1].clone());
    if f.page[i - 1] >= 0 {
        let p = PageDestination::PageNumber(f.page[i - 1] as u32);
        it = it.with_destination(if i % 2 == 0 { Destination::fit(p) } else { Destination::xyz(p, Some(10.0), Some(700.0), None) });
    }
    if !f.open[i - 1] {
        it = it.closed();
    }
    for k in 1..=f.par.len() {
        if f.par[k - 1] == i {
            it.add_child(build_item(f, k));
        }
    }
    it
}

fn build_tree(f: &Forest) -> OutlineTree {
    if f.via_builder {
        // OutlineBuilder: push an item that has children, add leaves, pop when leaving a subtree
        fn emit(f: &Forest, b: &mut OutlineBuilder, i: usize) {
            let kids: Vec<usize> = (1..=f.par.len()).filter(|k| f.par[k - 1] == i).collect();
            let mut it = OutlineItem::new(f.titles[i - 1].clone());
            if f.page[i - 1] >= 0 {
                let p = PageDestination::PageNumber(f.page[i - 1] as u32);
                it = it.with_destination(if i % 2 == 0 { Destination::fit(p) } else { Destination::xyz(p, Some(10.0), Some(700.0), None) });
            }
            if !f.open[i - 1] {
                it = it.closed();
            }
            if kids.is_empty() {
                b.add_item(it);
            } else {
                b.push_item(it);
                for k in kids {
                    emit(f, b, k);
                }
                b.pop_item();
            }
        }
        let mut b = OutlineBuilder::new();
        for k in 1..=f.par.len() {
            if f.par[k - 1] == 0 {
                emit(f, &mut b, k);
            }
        }
        b.build()
    } else {
        let mut t = OutlineTree::new();
        for k in 1..=f.par.len() {
            if f.par[k - 1] == 0 {
                t.add_item(build_item(f, k));
            }
        }
        t
    }
}

fn name(s: &str) -> PdfName {
    PdfName(s.to_string())
}

fn ref_of(d: &PdfDictionary, k: &str) -> u32 {
    match d.0.get(&name(k)) {
        Some(PdfObject::Reference(n, _)) => *n,
        _ => 0,
    }
}

fn dest_projection(r: &mut PdfReader<Cursor<Vec<u8>>>, v: Option<&PdfObject>) -> (String, i64) {
    let v = match v {
        None => return ("none".into(), 0),
        Some(v) => v.clone(),
    };
    let arr = match r.resolve(&v) {
        Ok(PdfObject::Array(a)) => a.clone(),
        _ => return ("other".into(), 0),
    };
    match arr.0.first() {
        Some(PdfObject::Reference(n, _)) => ("ref".into(), *n as i64),
        Some(PdfObject::Integer(i)) => ("int".into(), *i),
        _ => ("other".into(), 0),
    }
}

fn page_objects(r: &mut PdfReader<Cursor<Vec<u8>>>) -> Vec<u32> {
    // page-tree order, by walking /Kids from the catalog's /Pages
    fn walk(r: &mut PdfReader<Cursor<Vec<u8>>>, n: u32, out: &mut Vec<u32>, depth: u32) {
        if depth > 20 {
            return;
        }
        let d = match r.get_object(n, 0) {
            Ok(PdfObject::Dictionary(d)) => d.clone(),
            _ => return,
        };
        let is_pages = matches!(d.0.get(&name("Type")), Some(PdfObject::Name(t)) if t.0 == "Pages");
        if is_pages {
            if let Some(PdfObject::Array(k)) = d.0.get(&name("Kids")) {
                for x in &k.0 {
                    if let PdfObject::Reference(kn, _) = x {
                        walk(r, *kn, out, depth + 1);
                    }
                }
            }
        } else {
            out.push(n);
        }
    }
    let root = match r.catalog() {
        Ok(c) => ref_of(c, "Pages"),
        Err(_) => 0,
    };
    let mut out = Vec::new();
    if root != 0 {
        walk(r, root, &mut out, 0);
    }
    out
}

fn run(a: &Args) {
    let mut out = Out::file(a.req("out"));
    let mut rng = Rng::new(a.num("seed", 1));
    let mut forests: Vec<Forest> = Vec::new();
    let configs = ["default", "legacy", "modern", "xrefstream"];
    if let Some(inp) = a.get("in") {
        for (ci, c) in read_cases(inp).iter().enumerate() {
            let par: Vec<usize> = c["par"].as_array().unwrap().iter().map(|x| x.as_u64().unwrap() as usize).collect();
            let n = par.len();
            forests.push(Forest {
                par,
                open: c["open"].as_array().unwrap().iter().map(|x| x.as_bool().unwrap()).collect(),
                page: c["page"].as_array().unwrap().iter().map(|x| x.as_i64().unwrap()).collect(),
                titles: (1..=n).map(|i| format!("Item {i}")).collect(),
                npages: c["npages"].as_u64().unwrap() as usize,
                named: vec![],
                via_builder: ci % 2 == 1,
                config: configs[ci % 2], // default / legacy
            });
        }
    }
    let title_pool = ["Chapter", "A (b) c", "back\\slash", "Été", "目次", "x", "Section 1.1", "line\nbreak", "😀 face", ""];
    for _ in 0..a.num("random", 0) {
        let n = 1 + rng.below(a.num("maxitems", 12)) as usize;
        let mut par = vec![0usize];
        for i in 2..=n {
            // parent on the right-most path of item i-1
            let mut anc = vec![0usize, i - 1];
            let mut x = par[i - 2];
            while x != 0 {
                anc.push(x);
                x = par[x - 1];
            }
            par.push(*rng.pick(&anc));
        }
        let npages = 1 + rng.below(5) as usize;
        let nn = rng.below(4) as usize;
        forests.push(Forest {
            open: (0..n).map(|_| rng.chance(2, 3)).collect(),
            page: (0..n).map(|_| if rng.chance(1, 5) { -1 } else { rng.below(npages as u64) as i64 }).collect(),
            titles: (0..n).map(|i| format!("{} {}", rng.pick(&title_pool), i)).collect(),
            par,
            npages,
            named: (0..nn).map(|k| (format!("{}{}", ["dest", "Ziel ä", "n(1)", "章"][k % 4], k), rng.below(npages as u64) as usize)).collect(),
            via_builder: rng.chance(1, 2),
            config: *rng.pick(&configs),
        });
    }
    for (ci, f) in forests.iter().enumerate() {
        let mut doc = Document::new();
        for _ in 0..f.npages {
            doc.add_page(Page::a4());
        }
        doc.set_outline(build_tree(f));
        if !f.named.is_empty() {
            let mut nd = NamedDestinations::new();
            for (nm, pg) in &f.named {
                nd.add_destination(nm.clone(), Destination::fit(PageDestination::PageNumber(*pg as u32)).to_array());
            }
            doc.set_named_destinations(nd);
        }
        let cfg = match f.config {
            "legacy" => WriterConfig::legacy(),
            "modern" => WriterConfig::modern(),
            "xrefstream" => WriterConfig { use_xref_streams: true, use_object_streams: false, pdf_version: "1.5".into(), compress_streams: true, incremental_update: false },
            _ => WriterConfig::default(),
        };
        let authored = json!({"ev": "reset", "case": ci, "par": f.par, "open": f.open, "page": f.page, "npages": f.npages,
                              "titles": f.titles.iter().map(|t| t.chars().map(|c| c as u32).collect::<Vec<_>>()).collect::<Vec<_>>(),
                              "titles_text": f.titles, "config": f.config, "viaBuilder": f.via_builder,
                              "named": f.named.iter().map(|(n, p)| json!({"name": n.chars().map(|c| c as u32).collect::<Vec<_>>(), "page": p})).collect::<Vec<_>>()});
        out.line(&authored);
        let bytes = match doc.to_bytes_with_config(cfg) {
            Ok(b) => b,
            Err(e) => {
                out.line(&json!({"ev": "write_failed", "msg": e.to_string()}));
                continue;
            }
        };
        let mut r = match PdfReader::new(Cursor::new(bytes)) {
            Ok(r) => r,
            Err(e) => {
                out.line(&json!({"ev": "unreadable", "msg": e.to_string()}));
                continue;
            }
        };
        let pages = page_objects(&mut r);
        let (root, names_ref) = match r.catalog() {
            Ok(c) => (ref_of(c, "Outlines"), ref_of(c, "Names")),
            Err(_) => (0, 0),
        };
        // collect every object reachable through the outline link keys
        let mut objs: BTreeMap<u32, Value> = BTreeMap::new();
        let mut todo: Vec<u32> = vec![root];
        let mut seen: BTreeSet<u32> = BTreeSet::new();
        while let Some(n) = todo.pop() {
            if n == 0 || !seen.insert(n) || seen.len() > 500 {
                continue;
            }
            let d = match r.get_object(n, 0) {
                Ok(PdfObject::Dictionary(d)) => d.clone(),
                _ => continue,
            };
            let (dk, dobj) = dest_projection(&mut r, d.0.get(&name("Dest")));
            let (has_count, count) = match d.0.get(&name("Count")) {
                Some(PdfObject::Integer(c)) => (true, *c),
                _ => (false, 0),
            };
            let title: Vec<u8> = match d.0.get(&name("Title")) {
                Some(PdfObject::String(s)) => s.0.clone(),
                _ => vec![],
            };
            let links = ["Parent", "First", "Last", "Next", "Prev"].map(|k| ref_of(&d, k));
            for l in links {
                todo.push(l);
            }
            objs.insert(n, json!({"id": n, "parent": links[0], "first": links[1], "last": links[2], "next": links[3], "prev": links[4],
                                  "hasCount": has_count, "count": count, "destKind": dk, "destObj": dobj, "title": title}));
        }
        // named destinations: flatten the /Dests name tree (leaf /Names arrays, /Kids followed)
        let mut wnamed: Vec<Value> = Vec::new();
        if names_ref != 0 {
            let dests = match r.get_object(names_ref, 0) {
                Ok(PdfObject::Dictionary(d)) => ref_of(d, "Dests"),
                _ => 0,
            };
            let mut stack = vec![dests];
            let mut guard = 0;
            while let Some(n) = stack.pop() {
                guard += 1;
                if n == 0 || guard > 200 {
                    continue;
                }
                let d = match r.get_object(n, 0) {
                    Ok(PdfObject::Dictionary(d)) => d.clone(),
                    _ => continue,
                };
                if let Some(PdfObject::Array(k)) = d.0.get(&name("Kids")) {
                    for x in &k.0 {
                        if let PdfObject::Reference(kn, _) = x {
                            stack.push(*kn);
                        }
                    }
                }
                if let Some(PdfObject::Array(k)) = d.0.get(&name("Names")) {
                    let mut i = 0;
                    while i + 1 < k.0.len() {
                        if let PdfObject::String(s) = &k.0[i] {
                            let (dk, dobj) = dest_projection(&mut r, Some(&k.0[i + 1]));
                            wnamed.push(json!({"name": s.0, "destKind": dk, "destObj": dobj}));
                        }
                        i += 2;
                    }
                }
            }
        }
        out.line(&json!({"ev": "written", "root": root, "pages": pages, "objs": objs.values().collect::<Vec<_>>(), "wnamed": wnamed}));
        for chk in ["chk_links", "chk_match", "chk_titles", "chk_named"] {
            out.line(&json!({"ev": chk}));
        }
    }
}
