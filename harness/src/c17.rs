//! C17 - incremental updates: histories of edits (IncrUpdate.tla) over library-written form documents.
use crate::util::*;
use oxidize_pdf::forms::{FormManager, TextField, Widget, WidgetAppearance};
use oxidize_pdf::geometry::{Point, Rectangle};
use oxidize_pdf::parser::objects::{PdfDictionary, PdfName, PdfObject, PdfString};
use oxidize_pdf::parser::PdfReader;
use oxidize_pdf::writer::{IncrementalFormFiller, IncrementalTextNoteEditor, TextNoteMutation, WriterConfig};
use oxidize_pdf::{Document, Page};
use serde_json::{json, Value};
use std::io::Cursor;

pub fn main(a: &Args) {
    match a.pos.first().map(|s| s.as_str()) {
        Some("run") => run(a),
        _ => tool_error("c17 run"),
    }
}

fn text_of(v: &Value) -> String {
    v.as_array().map(|a| a.iter().map(|x| char::from_u32(x.as_u64().unwrap() as u32).unwrap()).collect()).unwrap_or_default()
}
fn cps(s: &str) -> Vec<u32> {
    s.chars().map(|c| c as u32).collect()
}

fn base_doc(b: &Value) -> Option<Vec<u8>> {
    let mut doc = Document::new();
    let mut page = Page::a4();
    let mut fm = FormManager::new();
    for (i, value) in b["fields"].as_array().unwrap().iter().enumerate() {
        let y = 700.0 - 30.0 * i as f64;
        let rect = Rectangle::new(Point::new(100.0, y), Point::new(300.0, y + 20.0));
        let widget = Widget::new(rect).with_appearance(WidgetAppearance::default());
        let mut field = TextField::new(format!("f{i}"));
        if value["has"].as_bool().unwrap() {
            field = field.with_value(text_of(&value["v"]));
        }
        let fref = fm.add_text_field(field, widget.clone(), None).ok()?;
        page.add_form_widget_with_ref(widget, fref).ok()?;
    }
    doc.add_page(page);
    doc.add_page(Page::a4());
    doc.set_form_manager(fm);
    let cfg = match b["cfg"].as_str().unwrap() {
        "xrefstream" => WriterConfig { use_xref_streams: true, use_object_streams: false, pdf_version: "1.5".into(), compress_streams: true, incremental_update: false },
        "modern" => WriterConfig::modern(),
        "uncompressed" => WriterConfig { use_xref_streams: false, use_object_streams: false, pdf_version: "1.7".into(), compress_streams: false, incremental_update: false },
        _ => WriterConfig::default(),
    };
    let mut bytes = doc.to_bytes_with_config(cfg).ok()?;
    // what follows %%EOF (MCIncr.Bases[..].tail): the file stays the same document, an editor must keep these bytes too
    while matches!(bytes.last(), Some(b'\n') | Some(b'\r') | Some(b' ')) {
        bytes.pop();
    }
    bytes.extend_from_slice(match b["tail"].as_str().unwrap_or("lf") {
        "crlf" => b"\r\n".as_slice(),
        "none" => b"".as_slice(),
        "blank" => b"\n\n".as_slice(),
        "spaces" => b"  \n".as_slice(),
        _ => b"\n".as_slice(),
    });
    Some(bytes)
}

type Rd = PdfReader<Cursor<Vec<u8>>>;
fn deref(r: &mut Rd, o: &PdfObject) -> Option<PdfObject> {
    r.resolve(o).ok().cloned()
}
fn dict_get(r: &mut Rd, d: &PdfDictionary, k: &str) -> Option<PdfObject> {
    let v = d.0.get(&PdfName(k.to_string()))?.clone();
    deref(r, &v)
}

/// What the library reads from a file: every AcroForm field's /T and /V (as text), and the text notes.
fn library_view(bytes: &[u8]) -> Value {
    let b = bytes.to_vec();
    let r = std::panic::catch_unwind(move || {
        let mut fields = Vec::new();
        let mut open = false;
        if let Ok(mut r) = PdfReader::new(Cursor::new(b.clone())) {
            open = true;
            if let Ok(cat) = r.catalog().map(|c| c.clone()) {
                if let Some(PdfObject::Dictionary(acro)) = dict_get(&mut r, &cat, "AcroForm") {
                    if let Some(PdfObject::Array(fs)) = dict_get(&mut r, &acro, "Fields") {
                        for f in &fs.0 {
                            if let Some(PdfObject::Dictionary(d)) = deref(&mut r, f) {
                                let t = match dict_get(&mut r, &d, "T") { Some(PdfObject::String(s)) => s.to_text(), _ => String::new() };
                                let v = match dict_get(&mut r, &d, "V") { Some(PdfObject::String(s)) => Some(PdfString(s.0).to_text()), _ => None };
                                fields.push(json!({"name": cps(&t), "has": v.is_some(), "v": v.map(|s| cps(&s)).unwrap_or_default()}));
                            }
                        }
                    }
                }
            }
        }
        let notes = IncrementalTextNoteEditor::new(&b).notes();
        let notes_ok = notes.is_ok();
        let notes: Vec<Value> = notes.unwrap_or_default().iter()
            .map(|n| json!({"page": n.page_index, "x": (n.position.x * 1e6).round() as i64, "contents": cps(&n.contents), "id": n.id.object_number}))
            .collect();
        json!({"open": open, "fields": fields, "notesOk": notes_ok, "notes": notes})
    });
    r.unwrap_or_else(|_| json!({"open": false, "fields": [], "notesOk": false, "notes": []}))
}

fn run(a: &Args) {
    std::panic::set_hook(Box::new(|_| {}));
    let mut out = Out::file(a.req("out"));
    for (ci, h) in read_cases(a.req("in")).iter().enumerate() {
        let base = match base_doc(&h["base"]) {
            Some(b) => b,
            None => {
                out.line(&json!({"ev": "base", "case": ci, "hist": h, "built": false, "bytes": [], "lib": {"open": false, "fields": [], "notesOk": false, "notes": []}}));
                continue;
            }
        };
        out.line(&json!({"ev": "base", "case": ci, "hist": h, "built": true, "bytes": base, "lib": library_view(&base)}));
        out.line(&json!({"ev": "chk_base"}));
        let mut cur = base;
        for e in h["edits"].as_array().unwrap() {
            let cur2 = cur.clone();
            let e2 = e.clone();
            let res = std::panic::catch_unwind(move || -> Result<Vec<u8>, String> {
                match e2["k"].as_str().unwrap() {
                    "fill" => IncrementalFormFiller::new(&cur2).fill(&format!("f{}", e2["f"]), &text_of(&e2["v"])).map_err(|e| e.to_string()),
                    "fill_many" => {
                        let pairs: Vec<(String, String)> = e2["fs"].as_array().unwrap().iter().map(|p| (format!("f{}", p["f"]), text_of(&p["v"]))).collect();
                        let refs: Vec<(&str, &str)> = pairs.iter().map(|(a, b)| (a.as_str(), b.as_str())).collect();
                        IncrementalFormFiller::new(&cur2).fill_many(&refs).map_err(|e| e.to_string())
                    }
                    k => {
                        let ed = IncrementalTextNoteEditor::new(&cur2);
                        let existing = ed.notes().map_err(|e| e.to_string())?;
                        let pick = |i: u64| existing.get(i as usize).map(|n| n.id);
                        let m = match k {
                            "note_add" => TextNoteMutation::Add { page_index: e2["page"].as_u64().unwrap() as u32, position: Point::new(e2["x"].as_f64().unwrap(), 40.0), contents: text_of(&e2["v"]) },
                            "note_update" => TextNoteMutation::Update { id: pick(e2["which"].as_u64().unwrap()).ok_or("no such note")?, position: Point::new(e2["x"].as_f64().unwrap(), 40.0), contents: text_of(&e2["v"]) },
                            _ => TextNoteMutation::Remove { id: pick(e2["which"].as_u64().unwrap()).ok_or("no such note")? },
                        };
                        ed.apply(&[m]).map(|u| u.pdf_bytes).map_err(|e| e.to_string())
                    }
                }
            });
            let (ok, bytes, err) = match res {
                Ok(Ok(b)) => (true, b, String::new()),
                Ok(Err(e)) => (false, cur.clone(), e),
                Err(_) => (false, cur.clone(), "panic".to_string()),
            };
            out.line(&json!({"ev": "edit", "edit": e, "ok": ok, "err": err, "bytes": bytes, "lib": library_view(&bytes)}));
            out.line(&json!({"ev": "chk_edit"}));
            cur = bytes;
        }
    }
    out.flush();
}
