//! C23 - cryptographic building blocks against Rc4.tla / Crypto.tla.
use crate::util::*;
use oxidize_pdf::encryption::{
    compute_hash_r6_algorithm_2b, Aes, AesKey, EncryptionKey, OwnerPassword, Permissions, Rc4, Rc4Key, SecurityHandlerRevision,
    StandardSecurityHandler, UserPassword,
};
use oxidize_pdf::objects::ObjectId;
use serde_json::{json, Map, Value};

pub fn main(a: &Args) {
    match a.pos.first().map(|s| s.as_str()) {
        Some("run") => run(a),
        _ => tool_error("c23 run"),
    }
}

fn bytes_of(v: &Value) -> Vec<u8> {
    v.as_array().map(|a| a.iter().map(|x| x.as_u64().unwrap() as u8).collect()).unwrap_or_default()
}
fn bj(b: &[u8]) -> Value {
    Value::Array(b.iter().map(|x| json!(*x)).collect())
}
fn text_of(v: &Value) -> String {
    v.as_array().map(|a| a.iter().map(|x| char::from_u32(x.as_u64().unwrap() as u32).unwrap()).collect()).unwrap_or_default()
}

fn catch<T>(f: impl FnOnce() -> T + std::panic::UnwindSafe) -> Result<T, String> {
    std::panic::catch_unwind(f).map_err(|e| {
        if let Some(s) = e.downcast_ref::<String>() {
            s.clone()
        } else if let Some(s) = e.downcast_ref::<&str>() {
            s.to_string()
        } else {
            "panic".to_string()
        }
    })
}

/// Result<Vec<u8>, E> -> {"ok": bool, "v": bytes, "err": msg}
fn rj<E: std::fmt::Display>(r: Result<Vec<u8>, E>) -> Value {
    match r {
        Ok(v) => json!({"ok": true, "v": bj(&v), "err": ""}),
        Err(e) => json!({"ok": false, "v": [], "err": e.to_string()}),
    }
}
fn rb<E: std::fmt::Display>(r: Result<bool, E>) -> Value {
    match r {
        Ok(v) => json!({"ok": true, "b": v, "err": ""}),
        Err(e) => json!({"ok": false, "b": false, "err": e.to_string()}),
    }
}

fn rc4_case(c: &Value, ev: &mut Map<String, Value>) {
    let key = bytes_of(&c["key"]);
    let data = bytes_of(&c["data"]);
    let k = Rc4Key::new(key);
    // rc4_encrypt/rc4_decrypt are crate-private; the public surface is the cipher object
    let out = Rc4::new(&k).process(&data);
    let back = Rc4::new(&k).process(&out);
    // the streaming interface, fed in two pieces, must produce the same keystream
    let mut st = Rc4::new(&k);
    let cut = data.len() / 3;
    let mut piece = st.process(&data[..cut]);
    piece.extend(st.process(&data[cut..]));
    ev.insert("out".into(), bj(&out));
    ev.insert("back".into(), bj(&back));
    ev.insert("streamed".into(), bj(&piece));
}

fn aes_case(c: &Value, ev: &mut Map<String, Value>) {
    let key = bytes_of(&c["key"]);
    let iv = bytes_of(&c["iv"]);
    let data = bytes_of(&c["data"]);
    let mk = || if key.len() == 16 { AesKey::new_128(key.clone()) } else { AesKey::new_256(key.clone()) };
    let aes = Aes::new(mk().unwrap_or_else(|e| tool_error(&format!("aes key: {e}"))));
    let enc = aes.encrypt_cbc(&data, &iv);
    ev.insert("back".into(), match &enc {
        Ok(e) => rj(aes.decrypt_cbc(e, &iv)),
        Err(_) => rj::<String>(Err("no ciphertext".into())),
    });
    ev.insert("enc".into(), rj(enc));
    if data.len() % 16 == 0 && !data.is_empty() {
        let raw = aes.encrypt_cbc_raw(&data, &iv);
        ev.insert("rawback".into(), match &raw {
            Ok(e) => rj(aes.decrypt_cbc_raw(e, &iv)),
            Err(_) => rj::<String>(Err("no ciphertext".into())),
        });
        ev.insert("raw".into(), rj(raw));
        let ecb = aes.encrypt_ecb(&data);
        ev.insert("ecbback".into(), match &ecb {
            Ok(e) => rj(aes.decrypt_ecb(e)),
            Err(_) => rj::<String>(Err("no ciphertext".into())),
        });
        ev.insert("ecb".into(), rj(ecb));
    }
    // a ciphertext with its last byte changed must not decrypt to the same plaintext silently
    ev.insert("truncated".into(), rj(aes.decrypt_cbc(&[1u8; 15], &iv)));
}

fn perms_of(p: &[u8]) -> Permissions {
    Permissions::from_bits(u32::from_le_bytes([p[0], p[1], p[2], p[3]]))
}

fn r234_case(c: &Value, ev: &mut Map<String, Value>) {
    let rev = match c["R"].as_u64().unwrap() {
        2 => SecurityHandlerRevision::R2,
        3 => SecurityHandlerRevision::R3,
        _ => SecurityHandlerRevision::R4,
    };
    let h = StandardSecurityHandler { revision: rev, key_length: c["n"].as_u64().unwrap() as usize };
    let user = UserPassword(text_of(&c["user"]));
    let owner = OwnerPassword(text_of(&c["owner"]));
    let p = perms_of(&bytes_of(&c["P"]));
    let idb = bytes_of(&c["id"]);
    let id: Option<&[u8]> = if idb.is_empty() { None } else { Some(&idb) };
    let obj = ObjectId::new(c["obj"]["num"].as_u64().unwrap() as u32, c["obj"]["gen"].as_u64().unwrap() as u16);
    let data = bytes_of(&c["data"]);
    ev.insert("userUtf8".into(), bj(user.0.as_bytes()));
    ev.insert("ownerUtf8".into(), bj(owner.0.as_bytes()));
    let o = h.compute_owner_hash(&owner, &user);
    ev.insert("O".into(), bj(&o));
    ev.insert("U".into(), rj(h.compute_user_hash(&user, &o, p, id)));
    let key = h.compute_encryption_key(&user, &o, p, id);
    if let Ok(k) = &key {
        ev.insert("objkey".into(), bj(&h.compute_object_key(k, &obj)));
        let ct = h.encrypt_string(&data, k, &obj);
        ev.insert("pt".into(), bj(&h.decrypt_string(&ct, k, &obj)));
        let ct2 = h.encrypt_stream(&data, k, &obj);
        ev.insert("pt2".into(), bj(&h.decrypt_stream(&ct2, k, &obj)));
        ev.insert("ct".into(), bj(&ct));
    }
    ev.insert("key".into(), rj(key.map(|k| k.as_bytes().to_vec())));
    if ev["U"]["ok"] == json!(true) {
        let u = bytes_of(&ev["U"]["v"]);
        ev.insert("vUser".into(), rb(h.validate_user_password(&user, &u, &o, p, id)));
        let wrong = UserPassword(format!("{}x", user.0));
        ev.insert("vUserWrong".into(), rb(h.validate_user_password(&wrong, &u, &o, p, id)));
        ev.insert("vOwner".into(), rb(h.validate_owner_password(&owner, &o, &user, p, id, None)));
        let wrongo = OwnerPassword(format!("{}x", owner.0));
        ev.insert("vOwnerWrong".into(), rb(h.validate_owner_password(&wrongo, &o, &user, p, id, None)));
        // Algorithm 7 proper: the caller does not know the user password, only /U
        let nobody = UserPassword(String::new());
        ev.insert("vOwnerU".into(), rb(h.validate_owner_password(&owner, &o, &nobody, p, id, Some(&u))));
        ev.insert("vOwnerUWrong".into(), rb(h.validate_owner_password(&wrongo, &o, &nobody, p, id, Some(&u))));
    }
}

fn r56_case(c: &Value, ev: &mut Map<String, Value>) {
    let r6 = c["R"].as_u64().unwrap() == 6;
    let h = if r6 { StandardSecurityHandler::aes_256_r6() } else { StandardSecurityHandler::aes_256_r5() };
    let user = UserPassword(text_of(&c["user"]));
    let owner = OwnerPassword(text_of(&c["owner"]));
    let p = perms_of(&bytes_of(&c["P"]));
    let enc_meta = c["encMeta"].as_bool().unwrap();
    let keyb = bytes_of(&c["key"]);
    let key = EncryptionKey::new(keyb.clone());
    ev.insert("userUtf8".into(), bj(user.0.as_bytes()));
    ev.insert("ownerUtf8".into(), bj(owner.0.as_bytes()));
    let u = if r6 { h.compute_r6_user_hash(&user) } else { h.compute_r5_user_hash(&user) };
    let u = match u {
        Ok(u) => u,
        Err(e) => {
            ev.insert("U".into(), rj::<String>(Err(e.to_string())));
            return;
        }
    };
    ev.insert("U".into(), rj::<String>(Ok(u.clone())));
    let ue = if r6 { h.compute_r6_ue_entry(&user, &u, &key) } else { h.compute_r5_ue_entry(&user, &u, &key) };
    let o = if r6 { h.compute_r6_owner_hash(&owner, &u) } else { h.compute_r5_owner_hash(&owner, &u) };
    if let (Ok(uev), Ok(ov)) = (&ue, &o) {
        let oe = if r6 { h.compute_r6_oe_entry(&owner, ov, &u, &keyb) } else { h.compute_r5_oe_entry(&owner, ov, &u, &keyb) };
        if let Ok(oev) = &oe {
            let rk = if r6 { h.recover_r6_owner_encryption_key(&owner, ov, &u, oev) } else { h.recover_r5_owner_encryption_key(&owner, ov, &u, oev) };
            ev.insert("ownerKey".into(), rj(rk));
        }
        ev.insert("OE".into(), rj(oe));
        let rk = if r6 { h.recover_r6_encryption_key(&user, &u, uev) } else { h.recover_r5_encryption_key(&user, &u, uev) };
        ev.insert("userKey".into(), rj(rk.map(|k| k.as_bytes().to_vec())));
        let wrong = UserPassword(format!("{}x", user.0));
        let wrongo = OwnerPassword(format!("{}x", owner.0));
        if r6 {
            ev.insert("vUser".into(), rb(h.validate_r6_user_password(&user, &u)));
            ev.insert("vUserWrong".into(), rb(h.validate_r6_user_password(&wrong, &u)));
            ev.insert("vOwner".into(), rb(h.validate_r6_owner_password(&owner, ov, &u)));
            ev.insert("vOwnerWrong".into(), rb(h.validate_r6_owner_password(&wrongo, ov, &u)));
        } else {
            ev.insert("vUser".into(), rb(h.validate_r5_user_password(&user, &u)));
            ev.insert("vUserWrong".into(), rb(h.validate_r5_user_password(&wrong, &u)));
            ev.insert("vOwner".into(), rb(h.validate_r5_owner_password(&owner, ov, &u)));
            ev.insert("vOwnerWrong".into(), rb(h.validate_r5_owner_password(&wrongo, ov, &u)));
        }
    }
    ev.insert("UE".into(), rj(ue));
    ev.insert("O".into(), rj(o));
    let perms = h.compute_perms_entry(p, &key, enc_meta);
    if let Ok(pe) = &perms {
        ev.insert("vPerms".into(), rb(h.validate_r6_perms(pe, &key, p)));
        let other = Permissions::from_bits(p.bits() ^ 0x10);
        ev.insert("vPermsWrong".into(), rb(h.validate_r6_perms(pe, &key, other)));
        ev.insert("metaFlag".into(), match h.extract_r6_encrypt_metadata(pe, &key) {
            Ok(Some(b)) => rb::<String>(Ok(b)),
            Ok(None) => rb::<String>(Err("none".into())),
            Err(e) => rb::<String>(Err(e.to_string())),
        });
    }
    ev.insert("Perms".into(), rj(perms));
    // the string/stream cipher of AESV3: the file key is used directly
    let obj = ObjectId::new(7, 0);
    let data = bytes_of(&c["key"]);
    let ct = h.encrypt_string(&data[..19], &key, &obj);
    ev.insert("pt".into(), bj(&h.decrypt_string(&ct, &key, &obj)));
    ev.insert("ct".into(), bj(&ct));
    ev.insert("data".into(), bj(&data[..19]));
    if r6 {
        // the exported Algorithm 2.B itself, user form
        ev.insert("h2bSalt".into(), bj(&u[32..40]));
        ev.insert("h2b".into(), rj(compute_hash_r6_algorithm_2b(user.0.as_bytes(), &u[32..40], &[])));
    }
}

fn run(a: &Args) {
    std::panic::set_hook(Box::new(|_| {}));
    let mut out = Out::file(a.req("out"));
    for c in read_cases(a.req("in")) {
        let mut ev = c.as_object().unwrap().clone();
        ev.insert("ev".into(), json!("case"));
        let c2 = c.clone();
        let r = catch(move || {
            let mut m = Map::new();
            match c2["alg"].as_str().unwrap() {
                "rc4" => rc4_case(&c2, &mut m),
                "aes" => aes_case(&c2, &mut m),
                "r234" => r234_case(&c2, &mut m),
                "r56" => r56_case(&c2, &mut m),
                "h2b" => {
                    m.insert("h2b".into(), rj(compute_hash_r6_algorithm_2b(&bytes_of(&c2["pw"]), &bytes_of(&c2["salt"]), &bytes_of(&c2["u"]))));
                }
                other => tool_error(&format!("alg {other}")),
            }
            m
        });
        match r {
            Ok(m) => ev.extend(m),
            Err(p) => {
                ev.insert("panic".into(), json!(p));
            }
        }
        out.line(&Value::Object(ev));
    }
    out.flush();
}
