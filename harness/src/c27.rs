//! C27 - page labels against PageLabels.tla.
use crate::util::*;
use oxidize_pdf::objects::Object;
use oxidize_pdf::page_labels::{PageLabel, PageLabelStyle, PageLabelTree};
use oxidize_pdf::parser::objects::PdfObject;
use oxidize_pdf::{Document, Page};
use serde_json::{json, Value};

pub fn main(a: &Args) {
    match a.pos.first().map(|s| s.as_str()) {
        Some("replay") => replay(a),
        Some("record") => record(a),
        _ => tool_error("c27 replay|record"),
    }
}

fn style_of(s: &str) -> PageLabelStyle {
    match s {
        "D" => PageLabelStyle::DecimalArabic,
        "R" => PageLabelStyle::UppercaseRoman,
        "r" => PageLabelStyle::LowercaseRoman,
        "A" => PageLabelStyle::UppercaseLetters,
        "a" => PageLabelStyle::LowercaseLetters,
        _ => PageLabelStyle::None,
    }
}

fn mk_label(style: &str, prefix: &str, start: u32) -> PageLabel {
    let mut l = PageLabel::new(style_of(style));
    if !prefix.is_empty() {
        l = l.with_prefix(prefix);
    }
    l.starting_at(start)
}

fn guarded<T>(f: impl FnOnce() -> T + std::panic::UnwindSafe) -> Result<T, String> {
    std::panic::catch_unwind(f).map_err(|e| {
        e.downcast_ref::<String>().cloned().or_else(|| e.downcast_ref::<&str>().map(|s| s.to_string())).unwrap_or_else(|| "panic".into())
    })
}

/// Spreadsheet-column numbering (the recorded defect): used only to *classify* a mismatch.
fn bij26(mut n: u32, upper: bool) -> String {
    let mut r = String::new();
    while n > 0 {
        let c = ((n - 1) % 26) as u8;
        r.insert(0, (if upper { b'A' } else { b'a' } + c) as char);
        n = (n - 1) / 26;
    }
    r
}

fn classify(style: &str, prefix: &str, n: u32, got: &Result<Option<String>, String>) -> &'static str {
    if (style == "A" || style == "a") && n > 26 {
        if let Ok(Some(g)) = got {
            if *g == format!("{}{}", prefix, bij26(n, style == "A")) {
                return "letters_bijective26";
            }
        }
    }
    if got.is_err() { "panic" } else { "wrong_label" }
}

/// B1: TLC-computed labels vs the real library.
fn replay(a: &Args) {
    std::panic::set_hook(Box::new(|_| {}));
    let cases = read_cases(a.req("in"));
    let mut out = Out::file(a.req("out"));
    let (mut n, mut labels, mut mism, mut past26) = (0u64, 0u64, 0u64, 0u64);
    for c in &cases {
        n += 1;
        match c["kind"].as_str().unwrap() {
            "fmt" => {
                let style = c["style"].as_str().unwrap();
                let from = c["from"].as_u64().unwrap() as u32;
                for (i, exp) in c["labels"].as_array().unwrap().iter().enumerate() {
                    let num = from + i as u32;
                    labels += 1;
                    if num > 26 {
                        past26 += 1;
                    }
                    let exp = exp.as_str().unwrap();
                    // through the tree API: one range at page 0 starting at 1, page index num-1;
                    // and through a range that *starts* at num
                    let mut t = PageLabelTree::new();
                    t.add_range(0, mk_label(style, "", 1));
                    let got1 = guarded(|| t.get_label(num - 1));
                    let mut t2 = PageLabelTree::new();
                    t2.add_range(3, mk_label(style, "", num));
                    let got2 = guarded(|| t2.get_label(3));
                    for (via, got) in [("index", got1), ("start", got2)] {
                        let ok = matches!(&got, Ok(Some(g)) if g == exp);
                        if !ok {
                            mism += 1;
                            out.line(&json!({"ev": "mismatch", "kind": "fmt", "style": style, "n": num, "via": via,
                                             "class": classify(style, "", num, &got),
                                             "expected": exp, "got": format!("{:?}", got)}));
                        }
                    }
                }
            }
            "tree" => {
                let mut t = PageLabelTree::new();
                for r in c["ranges"].as_array().unwrap() {
                    t.add_range(r["page"].as_u64().unwrap() as u32,
                                mk_label(r["style"].as_str().unwrap(), r["prefix"].as_str().unwrap(), r["start"].as_u64().unwrap() as u32));
                }
                for (p, exp) in c["labels"].as_array().unwrap().iter().enumerate() {
                    labels += 1;
                    let got = guarded(|| t.get_label(p as u32));
                    let exp_v: Option<String> = if exp["absent"].as_bool().unwrap() { None } else { Some(exp["text"].as_str().unwrap().to_string()) };
                    if got.as_ref().ok() != Some(&exp_v) {
                        mism += 1;
                        // the governing range, to classify
                        let mut gov: Option<&Value> = None;
                        for r in c["ranges"].as_array().unwrap() {
                            let rp = r["page"].as_u64().unwrap();
                            if rp <= p as u64 && gov.map(|g| g["page"].as_u64().unwrap() < rp).unwrap_or(true) {
                                gov = Some(r);
                            }
                        }
                        let class = match gov {
                            Some(r) => classify(r["style"].as_str().unwrap(), r["prefix"].as_str().unwrap(),
                                                (r["start"].as_u64().unwrap() + p as u64 - r["page"].as_u64().unwrap()) as u32, &got),
                            None => "wrong_label",
                        };
                        out.line(&json!({"ev": "mismatch", "kind": "tree", "ranges": c["ranges"], "page": p, "class": class,
                                         "expected": exp, "got": format!("{:?}", got)}));
                    }
                }
            }
            _ => tool_error("bad kind"),
        }
    }
    out.line(&json!({"ev": "summary", "cases": n, "labels": labels, "labels_past_26": past26, "mismatches": mism}));
}

fn nums_projection_from_object(d: &oxidize_pdf::objects::Dictionary) -> Value {
    let mut v = Vec::new();
    if let Some(Object::Array(arr)) = d.get("Nums") {
        let els: Vec<&Object> = arr.iter().collect();
        let mut i = 0;
        while i + 1 < els.len() {
            if let (Object::Integer(pg), Object::Dictionary(ld)) = (els[i], els[i + 1]) {
                let s = match ld.get("S") { Some(Object::Name(s)) => s.clone(), _ => String::new() };
                let (has_p, p) = match ld.get("P") { Some(Object::String(s)) => (true, s.clone()), _ => (false, String::new()) };
                let (has_st, st) = match ld.get("St") { Some(Object::Integer(n)) => (true, *n), _ => (false, 0) };
                v.push(json!({"page": pg, "s": s, "hasP": has_p, "p": p, "hasSt": has_st, "st": st}));
            }
            i += 2;
        }
    }
    Value::Array(v)
}

fn nums_projection_from_parsed(o: &PdfObject) -> Value {
    let mut v = Vec::new();
    if let PdfObject::Dictionary(d) = o {
        if let Some(PdfObject::Array(arr)) = d.0.get(&oxidize_pdf::parser::objects::PdfName("Nums".into())) {
            let els = &arr.0;
            let mut i = 0;
            while i + 1 < els.len() {
                if let (PdfObject::Integer(pg), PdfObject::Dictionary(ld)) = (&els[i], &els[i + 1]) {
                    let g = |k: &str| ld.0.get(&oxidize_pdf::parser::objects::PdfName(k.into()));
                    let s = match g("S") { Some(PdfObject::Name(s)) => s.0.clone(), _ => String::new() };
                    let (has_p, praw) = match g("P") { Some(PdfObject::String(s)) => (true, s.0.clone()), _ => (false, Vec::new()) };
                    let (has_st, st) = match g("St") { Some(PdfObject::Integer(n)) => (true, *n), _ => (false, 0) };
                    v.push(json!({"page": pg, "s": s, "hasP": has_p, "praw": praw, "hasSt": has_st, "st": st}));
                }
                i += 2;
            }
        }
    }
    Value::Array(v)
}

/// B2: random range sets with boundary and large values; every public observation is logged.
fn record(a: &Args) {
    std::panic::set_hook(Box::new(|_| {}));
    let mut rng = Rng::new(a.num("seed", 1));
    let cases = a.num("cases", 40);
    let with_file = a.num("file", 1) == 1;
    let mut out = Out::file(a.req("out"));
    let styles = ["D", "R", "r", "A", "a", "none"];
    let prefixes = ["", "", "A-", "Chapter ", "p(", "x\\y", "é", "§ ", "付録"];
    let starts: [u32; 14] = [1, 2, 26, 27, 28, 52, 53, 54, 702, 703, 3999, 4000, 100_000, 2_000_000_000];
    for c in 0..cases {
        out.line(&json!({"ev": "reset", "case": c}));
        let nr = 1 + rng.below(4);
        let mut tree = PageLabelTree::new();
        let mut pages: Vec<u32> = Vec::new();
        // every third case is a multi-volume numbering: adjacent ranges of ONE style whose numbers continue where the
        // previous range stopped, told apart only by their prefixes ("A-1".."A-5", "B-6".."B-9", ...)
        let continuous = c % 3 == 1;
        // every sixth case is a book whose chapters each restart the SAME numbering: adjacent ranges with identical
        // style, prefix and starting value (the later entries are what makes the numbers restart)
        let restart = c % 6 == 2;
        let (rstyle, rprefix, rstart) = (*rng.pick(&["D", "r", "A", "none"]), *rng.pick(&["", "A-", "§ "]), *rng.pick(&[1u32, 1, 4]));
        let (cstyle, mut cpg, mut cstart) = (*rng.pick(&["D", "R", "a"]), 0u32, 1 + rng.below(40) as u32);
        for ri in 0..(if continuous || restart { nr.max(2) } else { nr }) {
            let pg = if restart { ri as u32 * (2 + c as u32 % 3) } else if continuous { cpg } else if rng.chance(1, 3) { 0 } else { rng.below(60) as u32 };
            let style = if restart { rstyle } else if continuous { cstyle } else { *rng.pick(&styles) };
            let prefix = if restart { rprefix } else if continuous { ["A-", "B-", "C-", "", "D-"][ri as usize % 5] } else { *rng.pick(&prefixes) };
            let start = if restart { rstart } else if continuous { cstart } else if rng.chance(1, 2) { *rng.pick(&starts) } else { 1 + rng.below(1500) as u32 };
            if continuous {
                let len = 1 + rng.below(9) as u32;
                cpg += len;
                cstart += len;
            }
            // roman numerals and letters of astronomically large numbers are megabytes long: keep those styles
            // to numbers whose labels stay printable; decimal takes the large values
            let start = if style != "D" && style != "none" && start > 100_000 { 4000 + (start % 1000) } else { start };
            tree.add_range(pg, mk_label(style, prefix, start));
            pages.push(pg);
            out.line(&json!({"ev": "add", "page": pg, "style": style, "prefix": prefix, "start": start,
                             "cps": prefix.chars().map(|c| c as u32).collect::<Vec<_>>()}));
        }
        // queries: around every range start, and random
        let mut qs: Vec<u32> = Vec::new();
        for &p in &pages {
            qs.extend([p.saturating_sub(1), p, p + 1, p + 25, p + 26, p + 27, p + 52, p + 701]);
        }
        for _ in 0..6 {
            qs.push(rng.below(900) as u32);
        }
        for q in qs {
            match guarded(|| tree.get_label(q)) {
                Ok(Some(s)) => out.line(&json!({"ev": "label", "page": q, "some": true, "text": s})),
                Ok(None) => out.line(&json!({"ev": "label", "page": q, "some": false, "text": ""})),
                Err(e) => out.line(&json!({"ev": "panic", "page": q, "msg": e})),
            }
        }
        if c == 0 {
            // outcome probes with starting values at the top of the u32 range
            for (style, start, off) in [("D", u32::MAX, 0u32), ("D", u32::MAX, 1), ("D", u32::MAX - 5, 700), ("none", u32::MAX, 9),
                                        ("D", 2_147_483_648, 5), ("D", u32::MAX - 2, 3), ("D", 4_000_000_000, 294_967_296), ("D", 999_999_999, 1)] {
                let lab = mk_label(style, "", start);
                let r = guarded(move || lab.format_label(off));
                let digits_of = |t: &str| t.chars().filter_map(|ch| ch.to_digit(10)).collect::<Vec<u32>>();
                out.line(&json!({"ev": "probe", "style": style, "start": start.to_string(), "startDigits": digits_of(&start.to_string()), "offset": off,
                                 "digits": r.as_ref().map(|t| digits_of(t)).unwrap_or_default(),
                                 "outcome": if r.is_ok() { "value" } else { "panic" }, "detail": format!("{:?}", r)}));
            }
        }
        // what is written: the in-memory dictionary ...
        out.line(&json!({"ev": "dict", "via": "to_dict", "nums": nums_projection_from_object(&tree.to_dict())}));
        // ... round-tripped through from_dict ...
        if let Some(t2) = PageLabelTree::from_dict(&tree.to_dict()) {
            for &p in &pages {
                for q in [p, p + 27] {
                    match guarded(|| t2.get_label(q)) {
                        Ok(Some(s)) => out.line(&json!({"ev": "label", "page": q, "some": true, "text": s})),
                        Ok(None) => out.line(&json!({"ev": "label", "page": q, "some": false, "text": ""})),
                        Err(e) => out.line(&json!({"ev": "panic", "page": q, "msg": e})),
                    }
                }
            }
        } else {
            out.line(&json!({"ev": "fromdict_failed"}));
        }
        // ... and the /PageLabels object of a written file, as parsed back from the bytes
        if with_file {
            let mut doc = Document::new();
            doc.add_page(Page::a4());
            doc.set_page_labels(tree.clone());
            match doc.to_bytes() {
                Ok(bytes) => {
                    let r = oxidize_pdf::parser::PdfReader::new(std::io::Cursor::new(bytes));
                    let mut done = false;
                    if let Ok(mut r) = r {
                        let pl = r.catalog().ok().and_then(|c| c.0.get(&oxidize_pdf::parser::objects::PdfName("PageLabels".into())).cloned());
                        if let Some(pl) = pl {
                            if let Ok(o) = r.resolve(&pl) {
                                out.line(&json!({"ev": "filedict", "nums": nums_projection_from_parsed(o)}));
                                done = true;
                            }
                        }
                    }
                    if !done {
                        out.line(&json!({"ev": "file_unreadable"}));
                    }
                }
                Err(e) => out.line(&json!({"ev": "write_failed", "msg": e.to_string()})),
            }
        }
    }
}
