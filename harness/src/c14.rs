//! C14 - HybridChunker::chunk / chunk_with_graph against the Chunker.tla contract.
use crate::util::*;
use oxidize_pdf::pipeline::{
    ContextFormat, ContextMode, Element, ElementData, ElementGraph, ElementMetadata, HybridChunk, HybridChunkConfig, HybridChunker,
    KeyValueElementData, MergePolicy, TableElementData, TokenCounter, WordProxyCounter,
};
use serde_json::{json, Value};
use std::sync::Arc;

pub fn main(a: &Args) {
    match a.pos.first().map(|s| s.as_str()) {
        Some("run") => run(a),
        _ => tool_error("c14 run"),
    }
}

/// A counter that is NOT additive over a white-space join: every line break costs a token.
struct NewlineCounter;
impl TokenCounter for NewlineCounter {
    fn count(&self, text: &str) -> usize {
        text.split_whitespace().count() + text.matches('\n').count()
    }
    fn name(&self) -> &'static str {
        "words-plus-newlines"
    }
}

fn nows(s: &str) -> String {
    s.chars().filter(|c| !c.is_whitespace()).collect()
}

fn meta(heading: Option<String>, page: u32) -> ElementMetadata {
    ElementMetadata { page, parent_heading: heading.clone(), heading_path: heading.into_iter().collect(), ..Default::default() }
}

fn heading_json(h: &Option<String>) -> Value {
    match h {
        Some(t) => json!({"has": true, "text": t}),
        None => json!({"has": false, "text": ""}),
    }
}

fn elem_json(e: &Element) -> Value {
    json!({"kind": e.type_name(), "nows": nows(&e.display_text()), "text": e.text(), "heading": heading_json(&e.metadata().parent_heading)})
}

fn words(rng: &mut Rng, n: usize, tag: &str) -> String {
    // sentences of 1..3 words; sometimes a line break instead of a space
    let mut s = String::new();
    let mut in_sentence = 0;
    for i in 0..n {
        if i > 0 {
            s.push(if rng.chance(1, 7) { '\n' } else { ' ' });
        }
        s.push_str(&format!("{tag}{i}"));
        in_sentence += 1;
        if i + 1 < n && (in_sentence >= 3 || rng.chance(1, 3)) {
            s.push(*rng.pick(&['.', '!', '?']));
            in_sentence = 0;
        }
    }
    s
}

fn make(kind: &str, text: String, heading: Option<String>, page: u32) -> Element {
    match kind {
        "title" => Element::Title(ElementData { text, metadata: meta(heading, page) }),
        "paragraph" => Element::Paragraph(ElementData { text, metadata: meta(heading, page) }),
        "list_item" => Element::ListItem(ElementData { text, metadata: meta(heading, page) }),
        "code_block" => Element::CodeBlock(ElementData { text, metadata: meta(heading, page) }),
        "key_value" => Element::KeyValue(KeyValueElementData { key: "key".into(), value: text, metadata: meta(heading, page) }),
        "table" => {
            let cells: Vec<String> = text.split_whitespace().map(|s| s.to_string()).collect();
            let rows: Vec<Vec<String>> = cells.chunks(2).map(|c| c.to_vec()).collect();
            Element::Table(TableElementData::new(rows, meta(heading, page)))
        }
        _ => tool_error("kind"),
    }
}

fn chunk_json(c: &HybridChunk, counter: &dyn TokenCounter) -> Value {
    json!({"elems": c.elements().iter().map(|e| json!({"kind": e.type_name(), "nows": nows(&e.display_text())})).collect::<Vec<_>>(),
           "heading": heading_json(&c.heading_context), "oversized": c.is_oversized(),
           "measured": counter.count(&c.text()), "estimate": c.token_estimate()})
}

fn run(a: &Args) {
    let mut out = Out::file(a.req("out"));
    let mut rng = Rng::new(a.num("seed", 1));
    let heading_names = ["", "A", "B", "Z"];
    let mut inputs: Vec<Vec<Element>> = Vec::new();
    if let Some(inp) = a.get("in") {
        for c in read_cases(inp) {
            let mut els = Vec::new();
            for (i, e) in c["input"].as_array().unwrap().iter().enumerate() {
                let kind = e["kind"].as_str().unwrap();
                let w = e["w"].as_u64().unwrap() as usize;
                let h = e["h"].as_u64().unwrap() as usize;
                let heading = if h == 0 { None } else { Some(heading_names[h].to_string()) };
                let text = if kind == "title" {
                    // a title names its own section: its text is the heading, as the partitioner produces it
                    heading.clone().unwrap_or_else(|| format!("T{i}"))
                } else {
                    words(&mut rng, w, &format!("e{i}w"))
                };
                els.push(make(kind, text, heading, (i / 2) as u32));
            }
            inputs.push(els);
        }
    }
    let kinds = ["title", "paragraph", "paragraph", "paragraph", "list_item", "list_item", "key_value", "table", "code_block"];
    for _ in 0..a.num("random", 0) {
        let n = 1 + rng.below(a.num("maxlen", 30)) as usize;
        let mut els = Vec::new();
        let mut current: Option<String> = None;
        for i in 0..n {
            let kind = *rng.pick(&kinds);
            if kind == "title" {
                let t = heading_names[1 + rng.below(3) as usize].to_string();
                current = Some(t.clone());
                // mostly the partitioner's convention (own text), sometimes absent
                let ph = if rng.chance(4, 5) { Some(t.clone()) } else { None };
                els.push(make(kind, t, ph, (i / 3) as u32));
                continue;
            }
            // mostly the governing heading; sometimes stale / absent
            let heading = match rng.below(10) {
                0 => None,
                1 => Some(heading_names[1 + rng.below(3) as usize].to_string()),
                _ => current.clone(),
            };
            let w = match rng.below(6) { 0 => 0, 1..=3 => 1 + rng.below(3) as usize, _ => 4 + rng.below(9) as usize };
            els.push(make(kind, words(&mut rng, w, &format!("e{i}w")), heading, (i / 3) as u32));
        }
        inputs.push(els);
    }
    let budgets = [1usize, 2, 3, 4, 6, 50];
    let mut case = 0u64;
    for (ii, els) in inputs.iter().enumerate() {
        // both entry points; the configuration rotates deterministically with the input index
        for entry in ["chunk", "graph"] {
            let k = ii + if entry == "graph" { 3 } else { 0 };
            let max_tokens = budgets[k % budgets.len()];
            let policy = if (k / 2) % 2 == 0 { MergePolicy::AnyInlineContent } else { MergePolicy::SameTypeOnly };
            let propagate = (k / 3) % 4 != 0;
            let merge_adjacent = (k / 5) % 5 != 0;
            let nonadd = (k / 7) % 2 == 1;
            let ctx = match k % 3 { 0 => ContextMode::None, 1 => ContextMode::Heading, _ => ContextMode::Contextual(ContextFormat::Labeled) };
            let counter: Arc<dyn TokenCounter> = if nonadd { Arc::new(NewlineCounter) } else { Arc::new(WordProxyCounter) };
            let cfg = HybridChunkConfig { max_tokens, overlap_tokens: 0, merge_adjacent, propagate_headings: propagate, merge_policy: policy, context_mode: ctx };
            let chunker = HybridChunker::new(cfg).with_token_counter(counter.clone());
            let run_once = |els: &[Element]| -> Vec<HybridChunk> {
                if entry == "graph" {
                    let g = ElementGraph::build(els);
                    chunker.chunk_with_graph(els, &g)
                } else {
                    chunker.chunk(els)
                }
            };
            out.line(&json!({"ev": "reset", "case": case, "entry": entry, "maxTokens": max_tokens, "propagate": propagate,
                             "mergeAdjacent": merge_adjacent, "policy": format!("{:?}", policy), "counter": counter.name(),
                             "input": els.iter().map(elem_json).collect::<Vec<_>>()}));
            case += 1;
            let r1 = std::panic::catch_unwind(std::panic::AssertUnwindSafe(|| run_once(els)));
            let chunks = match r1 {
                Ok(c) => c,
                Err(_) => {
                    out.line(&json!({"ev": "panic"}));
                    continue;
                }
            };
            let j1: Vec<Value> = chunks.iter().map(|c| chunk_json(c, counter.as_ref())).collect();
            for c in &j1 {
                out.line(&json!({"ev": "emit", "chunk": c}));
            }
            out.line(&json!({"ev": "end", "chunks": j1.len()}));
            let j2: Vec<Value> = run_once(els).iter().map(|c| chunk_json(c, counter.as_ref())).collect();
            out.line(&json!({"ev": "deterministic", "same": j1 == j2}));
        }
    }
}
