//! vh - conformance harness binding the TLA+ specifications under /verif/specs to the real library.
#![allow(dead_code)]
mod util;
mod c03;
mod c04;
mod c05;
mod c07;
mod c09;
mod c10;
mod c14;
mod c16;
mod c17;
mod c18;
mod c19;
mod c21;
mod c22;
mod c23;
mod c25;
mod c26;
mod c27;
mod c28;
mod c29;
mod proj;
mod synth;

fn main() {
    let argv: Vec<String> = std::env::args().skip(1).collect();
    if argv.is_empty() {
        util::tool_error("usage: vh <property> <mode> [--key value ...]");
    }
    let args = util::Args::parse(&argv[1..]);
    match argv[0].as_str() {
        "c03" => c03::main(&args),
        "c04" => c04::main(&args),
        "c05" => c05::main(&args),
        "c07" => c07::main(&args),
        "c09" => c09::main(&args),
        "c10" => c10::main(&args),
        "c14" => c14::main(&args),
        "c16" => c16::main(&args),
        "c17" => c17::main(&args),
        "c18" => c18::main(&args),
        "c19" => c19::main(&args),
        "c21" => c21::main(&args),
        "c22" => c22::main(&args),
        "c23" => c23::main(&args),
        "c25" => c25::main(&args),
        "c26" => c26::main(&args),
        "c27" => c27::main(&args),
        "c28" => c28::main(&args),
        "c29" => c29::main(&args),
        other => util::tool_error(&format!("unknown subcommand {other}")),
    }
}
