//! vh - conformance harness binding the TLA+ specifications under /verif/specs to the real library.
#![allow(dead_code)]
mod util;
mod c01;
mod c03;
mod c04;
mod c05;
mod c07;
mod c09;
mod c10;
mod c11;
mod c12;
mod c13;
mod c14;
mod c15;
mod c16;
mod c17;
mod c18;
mod c19;
mod c21;
mod c22;
mod c23;
mod c24;
mod c25;
mod c26;
mod c27;
mod c28;
mod c29;
mod proj;
mod synth;

// Allocation accounting for C01 (peak bytes live during one navigation).
use std::alloc::{GlobalAlloc, Layout, System};
use std::sync::atomic::{AtomicUsize, Ordering};
struct Counting;
static CUR: AtomicUsize = AtomicUsize::new(0);
static PEAK: AtomicUsize = AtomicUsize::new(0);
unsafe impl GlobalAlloc for Counting {
    unsafe fn alloc(&self, l: Layout) -> *mut u8 {
        let p = System.alloc(l);
        if !p.is_null() {
            let c = CUR.fetch_add(l.size(), Ordering::Relaxed) + l.size();
            PEAK.fetch_max(c, Ordering::Relaxed);
        }
        p
    }
    unsafe fn dealloc(&self, p: *mut u8, l: Layout) {
        CUR.fetch_sub(l.size(), Ordering::Relaxed);
        System.dealloc(p, l)
    }
    unsafe fn realloc(&self, p: *mut u8, l: Layout, new: usize) -> *mut u8 {
        let q = System.realloc(p, l, new);
        if !q.is_null() {
            if new >= l.size() {
                let c = CUR.fetch_add(new - l.size(), Ordering::Relaxed) + (new - l.size());
                PEAK.fetch_max(c, Ordering::Relaxed);
            } else {
                CUR.fetch_sub(l.size() - new, Ordering::Relaxed);
            }
        }
        q
    }
}
#[global_allocator]
static ALLOC: Counting = Counting;
pub fn alloc_reset_peak() {
    PEAK.store(CUR.load(Ordering::Relaxed), Ordering::Relaxed);
}
pub fn alloc_peak() -> usize {
    PEAK.load(Ordering::Relaxed)
}
pub fn alloc_current() -> usize {
    CUR.load(Ordering::Relaxed)
}

fn main() {
    let argv: Vec<String> = std::env::args().skip(1).collect();
    if argv.is_empty() {
        util::tool_error("usage: vh <property> <mode> [--key value ...]");
    }
    let args = util::Args::parse(&argv[1..]);
    match argv[0].as_str() {
        "c01" => c01::main(&args),
        "c03" => c03::main(&args),
        "c04" => c04::main(&args),
        "c05" => c05::main(&args),
        "c07" => c07::main(&args),
        "c09" => c09::main(&args),
        "c10" => c10::main(&args),
        "c11" => c11::main(&args),
        "c12" => c12::main(&args),
        "c13" => c13::main(&args),
        "c14" => c14::main(&args),
        "c15" => c15::main(&args),
        "c16" => c16::main(&args),
        "c17" => c17::main(&args),
        "c18" => c18::main(&args),
        "c19" => c19::main(&args),
        "c21" => c21::main(&args),
        "c22" => c22::main(&args),
        "c23" => c23::main(&args),
        "c24" => c24::main(&args),
        "c25" => c25::main(&args),
        "c26" => c26::main(&args),
        "c27" => c27::main(&args),
        "c28" => c28::main(&args),
        "c29" => c29::main(&args),
        other => util::tool_error(&format!("unknown subcommand {other}")),
    }
}
