//! synth - an independent mini PDF serializer.
//!
//! Turns an abstract *file plan* (JSON, usually produced by TLC) into bytes.  Shares no code with
//! oxidize-pdf: it is the "file written by someone else" that many properties need (multi-revision
//! histories, hostile page trees, object streams, xref streams, damaged cross-reference data).
//!
//! Value language (JSON):
//!   null | true | false | 12 (integer) | {"r": 1.5} | {"n": "Name"} | {"s": "latin-1 text"} | {"sb": [bytes]}
//!   | {"hex": [bytes]} | [v, ...] | {"d": [["Key", v], ...]} | {"ref": [n, g]} | {"raw": "token text"}
//!
//! Plan:
//!   {"version": "1.7",
//!    "revisions": [ {"objects": [ {"n":1,"g":0,"value":v} | {"n":5,"g":0,"dict":v-dict,"data":[bytes],"filter":"Flate"|null}
//!                                | {"n":3,"value":v,"instm":7} ],
//!                    "free": [{"n":4,"g":1}],
//!                    "xref": "table" | "stream", "xref_n": 30,
//!                    "trailer": [["Root", {"ref":[1,0]}], ...]          (Size/Prev/W/Index are added)
//!                  }, ... ]}
use flate2::write::ZlibEncoder;
use flate2::Compression;
use serde_json::Value;
use std::collections::BTreeMap;
use std::io::Write;

pub struct Layout {
    pub bytes: Vec<u8>,
    /// per revision: offset of the xref section, offset of the `startxref` keyword, end of revision
    pub revs: Vec<RevLayout>,
    /// offset of every `n g obj` written, in order
    pub objects: Vec<(u32, u16, usize)>,
}

#[derive(Clone, Debug)]
pub struct RevLayout {
    pub xref_offset: usize,
    pub startxref_kw: usize,
    pub startxref_value_at: usize,
    pub end: usize,
    /// for table sections: position of each entry line (object number -> byte offset of its 20-byte line)
    pub entry_lines: BTreeMap<u32, usize>,
    pub trailer_kw: usize,
}

pub fn ser_value(v: &Value, out: &mut Vec<u8>) {
    match v {
        Value::Null => out.extend_from_slice(b"null"),
        Value::Bool(b) => out.extend_from_slice(if *b { b"true" } else { b"false" }),
        Value::Number(n) => out.extend_from_slice(n.to_string().as_bytes()),
        Value::String(s) => {
            // convenience: a bare JSON string is a name
            out.push(b'/');
            ser_name(s.as_bytes(), out);
        }
        Value::Array(a) => {
            out.push(b'[');
            for (i, x) in a.iter().enumerate() {
                if i > 0 {
                    out.push(b' ');
                }
                ser_value(x, out);
            }
            out.push(b']');
        }
        Value::Object(o) => {
            if let Some(r) = o.get("r") {
                let f = r.as_f64().unwrap();
                let s = format!("{:.5}", f);
                let s = s.trim_end_matches('0').trim_end_matches('.');
                out.extend_from_slice(if s.is_empty() || s == "-" { b"0" } else { s.as_bytes() });
            } else if let Some(n) = o.get("n") {
                out.push(b'/');
                ser_name(n.as_str().unwrap().as_bytes(), out);
            } else if let Some(n) = o.get("nb") {
                out.push(b'/');
                let b: Vec<u8> = n.as_array().unwrap().iter().map(|x| x.as_u64().unwrap() as u8).collect();
                ser_name(&b, out);
            } else if let Some(s) = o.get("s") {
                let b: Vec<u8> = s.as_str().unwrap().chars().map(|c| c as u32 as u8).collect();
                ser_literal(&b, out);
            } else if let Some(s) = o.get("sb") {
                let b: Vec<u8> = s.as_array().unwrap().iter().map(|x| x.as_u64().unwrap() as u8).collect();
                ser_literal(&b, out);
            } else if let Some(s) = o.get("hex") {
                out.push(b'<');
                for x in s.as_array().unwrap() {
                    out.extend_from_slice(format!("{:02X}", x.as_u64().unwrap() as u8).as_bytes());
                }
                out.push(b'>');
            } else if let Some(d) = o.get("d") {
                out.extend_from_slice(b"<<");
                for kv in d.as_array().unwrap() {
                    out.push(b' ');
                    out.push(b'/');
                    ser_name(kv[0].as_str().unwrap().as_bytes(), out);
                    out.push(b' ');
                    ser_value(&kv[1], out);
                }
                out.extend_from_slice(b" >>");
            } else if let Some(r) = o.get("ref") {
                out.extend_from_slice(format!("{} {} R", r[0].as_u64().unwrap(), r[1].as_u64().unwrap()).as_bytes());
            } else if let Some(r) = o.get("raw") {
                out.extend_from_slice(r.as_str().unwrap().as_bytes());
            } else {
                crate::util::tool_error(&format!("synth: unknown value {v}"));
            }
        }
    }
}

fn ser_name(b: &[u8], out: &mut Vec<u8>) {
    for &c in b {
        let regular = c > 0x20 && c < 0x7f && !b"()<>[]{}/%#".contains(&c);
        if regular {
            out.push(c);
        } else {
            out.extend_from_slice(format!("#{:02X}", c).as_bytes());
        }
    }
}

fn ser_literal(b: &[u8], out: &mut Vec<u8>) {
    out.push(b'(');
    for &c in b {
        match c {
            b'(' | b')' | b'\\' => {
                out.push(b'\\');
                out.push(c);
            }
            b'\r' => out.extend_from_slice(b"\\r"),
            b'\n' => out.extend_from_slice(b"\\n"),
            0x20..=0x7e => out.push(c),
            _ => out.extend_from_slice(format!("\\{:03o}", c).as_bytes()),
        }
    }
    out.push(b')');
}

fn deflate(data: &[u8]) -> Vec<u8> {
    let mut e = ZlibEncoder::new(Vec::new(), Compression::default());
    e.write_all(data).unwrap();
    e.finish().unwrap()
}

fn bytes_of(v: &Value) -> Vec<u8> {
    match v {
        Value::String(s) => s.chars().map(|c| c as u32 as u8).collect(),
        Value::Array(a) => a.iter().map(|x| x.as_u64().unwrap() as u8).collect(),
        _ => Vec::new(),
    }
}

fn write_stream_obj(out: &mut Vec<u8>, n: u32, g: u16, dict_pairs: &[(String, Value)], payload: &[u8]) {
    out.extend_from_slice(format!("{} {} obj\n<<", n, g).as_bytes());
    for (k, v) in dict_pairs {
        out.extend_from_slice(b" /");
        ser_name(k.as_bytes(), out);
        out.push(b' ');
        ser_value(v, out);
    }
    out.extend_from_slice(format!(" /Length {} >>\nstream\n", payload.len()).as_bytes());
    out.extend_from_slice(payload);
    out.extend_from_slice(b"\nendstream\nendobj\n");
}

fn be(v: u64, w: usize) -> Vec<u8> {
    (0..w).rev().map(|i| ((v >> (8 * i)) & 0xff) as u8).collect()
}

pub fn build(plan: &Value) -> Layout {
    let mut out: Vec<u8> = Vec::new();
    let version = plan["version"].as_str().unwrap_or("1.7");
    out.extend_from_slice(format!("%PDF-{}\n", version).as_bytes());
    out.extend_from_slice(&[b'%', 0xE2, 0xE3, 0xCF, 0xD3, b'\n']);

    let mut revs: Vec<RevLayout> = Vec::new();
    let mut objects: Vec<(u32, u16, usize)> = Vec::new();
    let mut max_obj: u32 = 0;
    let mut prev_xref: Option<usize> = None;

    for rev in plan["revisions"].as_array().unwrap() {
        // entries of this revision's section: n -> (type, f2, f3)
        let mut entries: BTreeMap<u32, (u8, u64, u64)> = BTreeMap::new();
        // members of object streams, grouped
        let mut stm_members: BTreeMap<u32, Vec<(u32, Vec<u8>)>> = BTreeMap::new();
        for o in rev["objects"].as_array().unwrap_or(&Vec::new()) {
            let n = o["n"].as_u64().unwrap() as u32;
            let g = o["g"].as_u64().unwrap_or(0) as u16;
            max_obj = max_obj.max(n);
            if let Some(stm) = o.get("instm").and_then(|x| x.as_u64()) {
                let mut b = Vec::new();
                ser_value(&o["value"], &mut b);
                stm_members.entry(stm as u32).or_default().push((n, b));
                continue;
            }
            let off = out.len();
            objects.push((n, g, off));
            entries.insert(n, (1, off as u64, g as u64));
            if o.get("dict").is_some() {
                let raw = bytes_of(&o["data"]);
                let mut pairs: Vec<(String, Value)> =
                    o["dict"]["d"].as_array().unwrap().iter().map(|kv| (kv[0].as_str().unwrap().to_string(), kv[1].clone())).collect();
                let payload = if o["filter"].as_str() == Some("Flate") {
                    pairs.push(("Filter".into(), serde_json::json!({"n": "FlateDecode"})));
                    deflate(&raw)
                } else {
                    raw
                };
                write_stream_obj(&mut out, n, g, &pairs, &payload);
            } else {
                out.extend_from_slice(format!("{} {} obj\n", n, g).as_bytes());
                ser_value(&o["value"], &mut out);
                out.extend_from_slice(b"\nendobj\n");
            }
        }
        // object streams
        for (stm, members) in &stm_members {
            max_obj = max_obj.max(*stm);
            let mut header = String::new();
            let mut body: Vec<u8> = Vec::new();
            for (n, b) in members {
                header.push_str(&format!("{} {} ", n, body.len()));
                body.extend_from_slice(b);
                body.push(b'\n');
            }
            let first = header.len();
            let mut payload = header.into_bytes();
            payload.extend_from_slice(&body);
            let compress = rev["objstm_compress"].as_bool().unwrap_or(true);
            let mut pairs: Vec<(String, Value)> = vec![
                ("Type".into(), serde_json::json!({"n": "ObjStm"})),
                ("N".into(), serde_json::json!(members.len())),
                ("First".into(), serde_json::json!(first)),
            ];
            let data = if compress {
                pairs.push(("Filter".into(), serde_json::json!({"n": "FlateDecode"})));
                deflate(&payload)
            } else {
                payload
            };
            let off = out.len();
            objects.push((*stm, 0, off));
            entries.insert(*stm, (1, off as u64, 0));
            write_stream_obj(&mut out, *stm, 0, &pairs, &data);
            for (i, (n, _)) in members.iter().enumerate() {
                entries.insert(*n, (2, *stm as u64, i as u64));
            }
        }
        for f in rev["free"].as_array().unwrap_or(&Vec::new()) {
            let n = f["n"].as_u64().unwrap() as u32;
            max_obj = max_obj.max(n);
            entries.insert(n, (0, 0, f["g"].as_u64().unwrap_or(1)));
        }
        let first_rev = prev_xref.is_none();
        if first_rev {
            entries.entry(0).or_insert((0, 0, 65535));
        }
        let is_stream = rev["xref"].as_str() == Some("stream");
        let xref_n = rev["xref_n"].as_u64().map(|x| x as u32);
        if is_stream {
            max_obj = max_obj.max(xref_n.unwrap_or(0));
        }
        let size = rev["size_override"].as_u64().unwrap_or((max_obj + 1) as u64);
        let trailer_pairs: Vec<(String, Value)> =
            rev["trailer"].as_array().unwrap_or(&Vec::new()).iter().map(|kv| (kv[0].as_str().unwrap().to_string(), kv[1].clone())).collect();

        let xref_offset = out.len();
        let mut entry_lines = BTreeMap::new();
        let mut trailer_kw = 0;
        if is_stream {
            let xn = xref_n.expect("xref stream needs xref_n");
            entries.insert(xn, (1, xref_offset as u64, 0));
            // /Index subsections: maximal runs of consecutive numbers
            let nums: Vec<u32> = entries.keys().copied().collect();
            let mut index: Vec<u64> = Vec::new();
            let mut i = 0;
            while i < nums.len() {
                let mut j = i;
                while j + 1 < nums.len() && nums[j + 1] == nums[j] + 1 {
                    j += 1;
                }
                index.push(nums[i] as u64);
                index.push((j - i + 1) as u64);
                i = j + 1;
            }
            let w = [1usize, 4, 2];
            let mut data = Vec::new();
            for n in &nums {
                let (t, a, b) = entries[n];
                data.extend(be(t as u64, w[0]));
                data.extend(be(a, w[1]));
                data.extend(be(b, w[2]));
            }
            let mut pairs: Vec<(String, Value)> = vec![
                ("Type".into(), serde_json::json!({"n": "XRef"})),
                ("Size".into(), serde_json::json!(size)),
                ("W".into(), serde_json::json!([1, 4, 2])),
                ("Index".into(), serde_json::json!(index)),
            ];
            if let Some(p) = prev_xref {
                pairs.push(("Prev".into(), serde_json::json!(p)));
            }
            pairs.extend(trailer_pairs);
            let compress = rev["xref_compress"].as_bool().unwrap_or(true);
            let payload = if compress {
                pairs.push(("Filter".into(), serde_json::json!({"n": "FlateDecode"})));
                deflate(&data)
            } else {
                data
            };
            objects.push((xn, 0, xref_offset));
            write_stream_obj(&mut out, xn, 0, &pairs, &payload);
        } else {
            out.extend_from_slice(b"xref\n");
            let nums: Vec<u32> = entries.keys().copied().collect();
            let mut i = 0;
            while i < nums.len() {
                let mut j = i;
                while j + 1 < nums.len() && nums[j + 1] == nums[j] + 1 {
                    j += 1;
                }
                out.extend_from_slice(format!("{} {}\n", nums[i], j - i + 1).as_bytes());
                for n in &nums[i..=j] {
                    let (t, a, b) = entries[n];
                    entry_lines.insert(*n, out.len());
                    if t == 2 {
                        crate::util::tool_error("synth: compressed entry in a classic table");
                    }
                    out.extend_from_slice(format!("{:010} {:05} {} \n", a, b, if t == 1 { 'n' } else { 'f' }).as_bytes());
                }
                i = j + 1;
            }
            trailer_kw = out.len();
            out.extend_from_slice(b"trailer\n<< /Size ");
            out.extend_from_slice(size.to_string().as_bytes());
            if let Some(p) = prev_xref {
                out.extend_from_slice(format!(" /Prev {}", p).as_bytes());
            }
            for (k, v) in &trailer_pairs {
                out.extend_from_slice(b" /");
                ser_name(k.as_bytes(), &mut out);
                out.push(b' ');
                ser_value(v, &mut out);
            }
            out.extend_from_slice(b" >>\n");
        }
        let startxref_kw = out.len();
        out.extend_from_slice(b"startxref\n");
        let startxref_value_at = out.len();
        out.extend_from_slice(format!("{}\n%%EOF\n", xref_offset).as_bytes());
        revs.push(RevLayout { xref_offset, startxref_kw, startxref_value_at, end: out.len(), entry_lines, trailer_kw });
        prev_xref = Some(xref_offset);
    }
    Layout { bytes: out, revs, objects }
}
