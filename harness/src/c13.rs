//! C13 - text in embedded fonts is recoverable exactly.
//!
//! A case (MCEmbed.tla) is a list of lines, each a font (a bundled font file, or "helvetica") and a string.  The
//! document is written with the library; the bytes go to the specification (PdfFile + Sfnt/Cff + the ToUnicode and
//! /W readers of FontEmbed.tla), and the library's own extraction is recorded.
use crate::util::*;
use oxidize_pdf::parser::{ParseOptions, PdfReader};
use oxidize_pdf::text::Font;
use oxidize_pdf::{Document, Page};
use serde_json::{json, Value};
use std::io::Cursor;

pub fn main(a: &Args) {
    match a.pos.first().map(|s| s.as_str()) {
        Some("run") => run(a),
        _ => tool_error("c13 run"),
    }
}

fn text_of(v: &Value) -> String {
    v.as_array().map(|a| a.iter().filter_map(|x| char::from_u32(x.as_u64().unwrap() as u32)).collect()).unwrap_or_default()
}

fn build(c: &Value) -> Result<Vec<u8>, String> {
    let mut doc = Document::new();
    let mut loaded = std::collections::BTreeSet::new();
    for pg in c["pages"].as_array().unwrap() {
        let mut page = Page::a4();
        let mut y = 780.0;
        for ln in pg.as_array().unwrap() {
            let fname = ln["font"].as_str().unwrap();
            let font = if fname == "helvetica" {
                Font::Helvetica
            } else {
                if loaded.insert(fname.to_string()) {
                    let data = std::fs::read(crate::c12::font_path(fname)).map_err(|e| e.to_string())?;
                    doc.add_font_from_bytes(fname, data).map_err(|e| e.to_string())?;
                }
                Font::Custom(fname.to_string())
            };
            page.text().set_font(font, ln["size"].as_f64().unwrap_or(12.0)).at(50.0, y).write(&text_of(&ln["text"])).map_err(|e| e.to_string())?;
            y -= 30.0;
        }
        doc.add_page(page);
    }
    let cfg = json!({"xref": c["cfg"]["xref"], "objstm": c["cfg"]["objstm"], "compress": c["cfg"]["compress"], "version": "1.7"});
    doc.to_bytes_with_config(crate::c03::config_of(&cfg)).map_err(|e| e.to_string())
}

fn extracted(bytes: &[u8]) -> Result<Vec<Vec<u32>>, String> {
    let r = PdfReader::new_with_options(Cursor::new(bytes.to_vec()), ParseOptions::default()).map_err(|e| e.to_string())?;
    let doc = r.into_document();
    let n = doc.page_count().map_err(|e| e.to_string())?;
    let mut out = Vec::new();
    for i in 0..n {
        let t = doc.extract_text_from_page(i).map_err(|e| e.to_string())?;
        out.push(t.text.chars().map(|c| c as u32).collect());
    }
    Ok(out)
}

fn run(a: &Args) {
    std::panic::set_hook(Box::new(|_| {}));
    let mut out = Out::file(a.req("out"));
    for (ci, c) in read_cases(a.req("in")).iter().enumerate() {
        let c2 = c.clone();
        let r = std::panic::catch_unwind(move || -> Result<(Vec<u8>, Vec<Vec<u32>>), String> {
            let b = build(&c2)?;
            let t = extracted(&b)?;
            Ok((b, t))
        });
        let mut ev = c.as_object().unwrap().clone();
        ev.insert("ev".into(), json!("file"));
        ev.insert("case".into(), json!(ci));
        match r {
            Ok(Ok((b, t))) => {
                ev.insert("ok".into(), json!(true));
                ev.insert("err".into(), json!(""));
                ev.insert("bytes".into(), json!(b));
                ev.insert("libText".into(), json!(t));
            }
            other => {
                ev.insert("ok".into(), json!(false));
                ev.insert("err".into(), json!(match other { Ok(Err(e)) => e, _ => "panic".into() }));
                ev.insert("bytes".into(), json!([]));
                ev.insert("libText".into(), json!([]));
            }
        }
        out.line(&Value::Object(ev));
        out.line(&json!({"ev": "chk_fonts"}));
    }
    out.flush();
}
