//! C09 - object serializers against PdfLex.tla (reference reader) and the library's own parser.
use crate::proj::*;
use crate::util::*;
use oxidize_pdf::objects::{Dictionary, Object, ObjectId};
use oxidize_pdf::parser::lexer::{Lexer, Token};
use oxidize_pdf::parser::objects::{PdfArray, PdfDictionary, PdfName, PdfObject, PdfString};
use oxidize_pdf::writer::PdfWriter;
use serde_json::{json, Value};
use std::io::Cursor;

pub fn main(a: &Args) {
    match a.pos.first().map(|s| s.as_str()) {
        Some("run") => run(a),
        _ => tool_error("c09 run"),
    }
}

fn bytes_of(v: &Value) -> Vec<u8> {
    v.as_array().map(|a| a.iter().map(|x| x.as_u64().unwrap() as u8).collect()).unwrap_or_default()
}

/// The generator's value -> writer-side Object.  Strings that are valid UTF-8 become Object::String,
/// other byte strings Object::ByteString (the two ways a user can hand a string to the writer).
pub fn to_object(v: &Value) -> Object {
    match v["t"].as_str().unwrap() {
        "null" => Object::Null,
        "bool" => Object::Boolean(v["v"].as_bool().unwrap()),
        "int" => Object::Integer(v["s"].as_str().unwrap().parse::<i64>().unwrap()),
        "real" => Object::Real(v["s"].as_str().unwrap().parse::<f64>().unwrap()),
        "str" => {
            let b = bytes_of(&v["b"]);
            match String::from_utf8(b.clone()) {
                Ok(s) => Object::String(s),
                Err(_) => Object::ByteString(b),
            }
        }
        "name" => Object::Name(String::from_utf8_lossy(&bytes_of(&v["b"])).into_owned()),
        "arr" => Object::Array(v["v"].as_array().unwrap().iter().map(to_object).collect()),
        "dict" => Object::Dictionary(to_dict(v)),
        "stream" => Object::Stream(to_dict(&v["dict"]), bytes_of(&v["data"])),
        "ref" => Object::Reference(ObjectId::new(v["n"].as_u64().unwrap() as u32, v["g"].as_u64().unwrap() as u16)),
        _ => tool_error("value kind"),
    }
}

fn to_dict(v: &Value) -> Dictionary {
    let mut d = Dictionary::new();
    for kv in v["v"].as_array().unwrap() {
        d.set(String::from_utf8_lossy(&bytes_of(&kv["k"])).into_owned(), to_object(&kv["v"]));
    }
    d
}

/// The same value for the incremental-update serializer (parser-side object type); None for streams.
fn to_pobject(o: &Object) -> Option<PdfObject> {
    Some(match o {
        Object::Null => PdfObject::Null,
        Object::Boolean(b) => PdfObject::Boolean(*b),
        Object::Integer(i) => PdfObject::Integer(*i),
        Object::Real(r) => PdfObject::Real(*r),
        Object::String(s) => PdfObject::String(PdfString(s.as_bytes().to_vec())),
        Object::ByteString(b) => PdfObject::String(PdfString(b.clone())),
        Object::Name(n) => PdfObject::Name(PdfName(n.clone())),
        Object::Array(a) => PdfObject::Array(PdfArray(a.iter().map(to_pobject).collect::<Option<Vec<_>>>()?)),
        Object::Dictionary(d) => {
            let mut m = std::collections::HashMap::new();
            for (k, v) in d.iter() {
                m.insert(PdfName(k.clone()), to_pobject(v)?);
            }
            PdfObject::Dictionary(PdfDictionary(m))
        }
        Object::Stream(_, _) => return None,
        Object::Reference(id) => PdfObject::Reference(id.number(), id.generation()),
    })
}

fn fmt6(x: f64) -> String {
    let s = format!("{:.6}", x);
    if s == "-0.000000" { "0.000000".into() } else { s }
}

/// Expected canonical value; reals carry the renderings that are within the writer's stated precision.
fn expected(o: &Object) -> Value {
    expected_with(o, true)
}

/// `text`: whether a Rust string is a text string (writer-side objects) or just its bytes (the incremental
/// serializer takes parser-side byte strings).
fn expected_with(o: &Object, text: bool) -> Value {
    match o {
        Object::Real(r) => {
            let mut alts = vec![fmt6(*r), fmt6(*r - 1e-6), fmt6(*r + 1e-6)];
            alts.dedup();
            json!({"t": "real", "s": fmt6(*r), "alts": alts})
        }
        // a Rust string handed to the writer is TEXT: it must read back as the same characters, whatever
        // text-string encoding the writer chose; a ByteString must read back as the same bytes
        Object::String(s) if text => json!({"t": "text", "cps": s.chars().map(|c| c as u32).collect::<Vec<_>>()}),
        Object::Array(a) => json!({"t": "arr", "v": a.iter().map(|x| expected_with(x, text)).collect::<Vec<_>>()}),
        Object::Dictionary(d) => {
            let mut items: Vec<(&String, &Object)> = d.iter().collect();
            items.sort_by(|a, b| a.0.as_bytes().cmp(b.0.as_bytes()));
            json!({"t": "dict", "v": items.iter().map(|(k, v)| json!({"k": k.as_bytes(), "v": expected_with(v, text)})).collect::<Vec<_>>()})
        }
        Object::Stream(d, data) => json!({"t": "stream", "dict": expected_with(&Object::Dictionary(d.clone()), text), "len": data.len()}),
        other => obj_json(other),
    }
}

fn normalize_parsed(v: Value) -> Value {
    // library-side reals: "-0.000000" is zero
    match v {
        Value::Object(mut m) => {
            if m.get("t").and_then(|t| t.as_str()) == Some("real") {
                if m["s"] == "-0.000000" {
                    m.insert("s".into(), json!("0.000000"));
                }
                return Value::Object(m);
            }
            Value::Object(m.into_iter().map(|(k, v)| (k, normalize_parsed(v))).collect())
        }
        Value::Array(a) => Value::Array(a.into_iter().map(normalize_parsed).collect()),
        o => o,
    }
}

/// Parse `bytes` with the library as exactly one object.
fn lib_parse(bytes: &[u8]) -> Value {
    let r = std::panic::catch_unwind(|| {
        let mut lx = Lexer::new(Cursor::new(bytes.to_vec()));
        match PdfObject::parse(&mut lx) {
            Ok(o) => {
                let rest = lx.next_token();
                match rest {
                    Ok(Token::Eof) => normalize_parsed(pobj_json(&o)),
                    Ok(t) => json!({"t": "error", "msg": format!("trailing token {:?}", t)}),
                    Err(e) => json!({"t": "error", "msg": format!("after object: {e}")}),
                }
            }
            Err(e) => json!({"t": "error", "msg": e.to_string()}),
        }
    });
    r.unwrap_or_else(|_| json!({"t": "error", "msg": "panic"}))
}

fn rand_value(rng: &mut Rng, depth: u32) -> Value {
    let atom = depth == 0 || rng.chance(3, 5);
    if atom {
        match rng.below(8) {
            0 => json!({"t": "null"}),
            1 => json!({"t": "bool", "v": rng.chance(1, 2)}),
            2 => json!({"t": "int", "s": (rng.next() as i64 >> rng.below(63)).to_string()}),
            3 => {
                let mant = rng.range(-999_999_999, 999_999_999) as f64;
                let e = rng.range(-9, 8);
                json!({"t": "real", "s": format!("{}", mant * 10f64.powi(e as i32))})
            }
            4 | 5 => {
                let n = rng.below(12) as usize;
                json!({"t": "str", "b": rng.bytes(n)})
            }
            6 => {
                let n = rng.below(8) as usize;
                // names are Rust strings on the writer side: any Unicode scalar, here mostly printable + specials
                let s: String = (0..n).map(|_| *rng.pick(&['A', 'z', '0', ' ', '#', '/', '(', ')', '%', '<', '>', '[', ']', '{', '}', '\n', '\r', '\t', '\u{e9}', '\u{4e2d}', '+', '.', '\\'])).collect();
                json!({"t": "name", "b": s.as_bytes()})
            }
            _ => json!({"t": "ref", "n": 1 + rng.below(100000), "g": rng.below(3)}),
        }
    } else if rng.chance(1, 2) {
        let n = rng.below(4);
        json!({"t": "arr", "v": (0..n).map(|_| rand_value(rng, depth - 1)).collect::<Vec<_>>()})
    } else {
        let n = rng.below(4);
        let mut keys: Vec<String> = Vec::new();
        let mut items = Vec::new();
        for i in 0..n {
            let k = format!("{}{}", rng.pick(&["K", "A B", "Sp#", "x/y", "é", "(", "T"]), i);
            if !keys.contains(&k) {
                keys.push(k.clone());
                items.push(json!({"k": k.as_bytes(), "v": rand_value(rng, depth - 1)}));
            }
        }
        json!({"t": "dict", "v": items})
    }
}

fn run(a: &Args) {
    std::panic::set_hook(Box::new(|_| {}));
    let mut out = Out::file(a.req("out"));
    let mut rng = Rng::new(a.num("seed", 1));
    let mut values: Vec<Value> = Vec::new();
    if let Some(inp) = a.get("in") {
        values.extend(read_cases(inp));
    }
    for _ in 0..a.num("random", 0) {
        values.push(rand_value(&mut rng, 3));
    }
    let mut idx = 0u64;
    for v in &values {
        let obj = to_object(v);
        let want = expected(&obj);
        let mut outputs: Vec<(&str, Result<Vec<u8>, String>)> = Vec::new();
        let (streamed, buffered) = PdfWriter::verif_serialize(&obj);
        outputs.push(("streaming", streamed.map_err(|e| e.to_string())));
        // the object-stream buffer serializer refuses streams by design (a stream cannot live in an object stream)
        if !matches!(obj, Object::Stream(_, _)) {
            outputs.push(("objstm_buffer", buffered.map_err(|e| e.to_string())));
        }
        if let Some(po) = to_pobject(&obj) {
            outputs.push(("incremental", oxidize_pdf::writer::verif_incremental_write_object(&po).map_err(|e| e.to_string())));
        }
        for (via, res) in outputs {
            match res {
                Ok(bytes) => {
                    let parsed = lib_parse(&bytes);
                    let want = if via == "incremental" { expected_with(&obj, false) } else { want.clone() };
                    out.line(&json!({"ev": "case", "idx": idx, "via": via, "value": want, "bytes": bytes, "parsed": parsed,
                                     "text": String::from_utf8_lossy(&bytes).chars().take(120).collect::<String>()}));
                    out.line(&json!({"ev": "chk_ref"}));
                    out.line(&json!({"ev": "chk_lib"}));
                }
                Err(e) => {
                    out.line(&json!({"ev": "case", "idx": idx, "via": via, "value": want, "bytes": [], "parsed": {"t": "error", "msg": e.clone()}, "text": ""}));
                    out.line(&json!({"ev": "serialize_failed", "msg": e}));
                }
            }
            idx += 1;
        }
    }
}
