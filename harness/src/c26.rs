//! C26 - CMap parsing/lookup and the ToUnicode CMap builder against CMap.tla.
use crate::util::*;
use oxidize_pdf::text::cmap::{CMap, ToUnicodeCMapBuilder};
use serde_json::{json, Value};

pub fn main(a: &Args) {
    match a.pos.first().map(|s| s.as_str()) {
        Some("run") => run(a),
        _ => tool_error("c26 run"),
    }
}

fn bytes_of(v: &Value) -> Vec<u8> {
    v.as_array().map(|a| a.iter().map(|x| x.as_u64().unwrap() as u8).collect()).unwrap_or_default()
}

fn hex(b: &[u8], style: u64) -> String {
    // PostScript hex strings: case and inner white space are free
    let mut s = String::from("<");
    for (i, x) in b.iter().enumerate() {
        if style % 3 == 1 && i > 0 {
            s.push(' ');
        }
        s.push_str(&if style % 2 == 0 { format!("{:02X}", x) } else { format!("{:02x}", x) });
    }
    s.push('>');
    s
}

/// Render an abstract CMap as CMap program text (sections in entry order, one section per entry kind run).
fn render(cm: &Value, style: u64) -> String {
    let mut t = String::new();
    t.push_str("/CIDInit /ProcSet findresource begin\n12 dict begin\nbegincmap\n");
    t.push_str("/CIDSystemInfo << /Registry (Adobe) /Ordering (UCS) /Supplement 0 >> def\n/CMapName /Adobe-Identity-UCS def\n/CMapType 2 def\n");
    if let Some(parent) = cm["parent"].as_str() {
        t.push_str(&format!("/{parent} usecmap\n"));
    }
    let cs = cm["codespace"].as_array().unwrap();
    t.push_str(&format!("{} begincodespacerange\n", cs.len()));
    for r in cs {
        t.push_str(&format!("{} {}\n", hex(&bytes_of(&r["lo"]), style), hex(&bytes_of(&r["hi"]), style)));
    }
    t.push_str("endcodespacerange\n");
    for e in cm["entries"].as_array().unwrap() {
        match e["k"].as_str().unwrap() {
            "char" => {
                t.push_str("1 beginbfchar\n");
                t.push_str(&format!("{} {}\n", hex(&bytes_of(&e["src"]), style), hex(&bytes_of(&e["dst"]), style + 1)));
                t.push_str("endbfchar\n");
            }
            "range" => {
                t.push_str("1 beginbfrange\n");
                t.push_str(&format!("{} {} {}\n", hex(&bytes_of(&e["lo"]), style), hex(&bytes_of(&e["hi"]), style), hex(&bytes_of(&e["dst"]), style)));
                t.push_str("endbfrange\n");
            }
            _ => {
                t.push_str("1 beginbfrange\n");
                let ds: Vec<String> = e["dsts"].as_array().unwrap().iter().map(|d| hex(&bytes_of(d), style)).collect();
                t.push_str(&format!("{} {} [{}]\n", hex(&bytes_of(&e["lo"]), style), hex(&bytes_of(&e["hi"]), style), ds.join(if style % 2 == 0 { " " } else { "\n  " })));
                t.push_str("endbfrange\n");
            }
        }
    }
    t.push_str("endcmap\nCMapName currentdict /CMap defineresource pop\nend\nend\n");
    t
}

fn utf16_cps(b: &[u8]) -> Option<Vec<u32>> {
    if b.len() % 2 != 0 {
        return None;
    }
    let u: Vec<u16> = b.chunks(2).map(|c| u16::from_be_bytes([c[0], c[1]])).collect();
    String::from_utf16(&u).ok().map(|s| s.chars().map(|c| c as u32).collect())
}

fn run(a: &Args) {
    std::panic::set_hook(Box::new(|_| {}));
    let mut out = Out::file(a.req("out"));
    let mut rng = Rng::new(a.num("seed", 1));
    let mut cmaps: Vec<Value> = Vec::new();
    if let Some(inp) = a.get("in") {
        cmaps.extend(read_cases(inp));
    }
    // seeded random CMaps: 1..4-byte codes, several non-overlapping entries, larger ranges
    for _ in 0..a.num("random", 0) {
        let w = 1 + rng.below(4) as usize;
        let cs = json!([{"lo": vec![0u8; w], "hi": vec![255u8; w]}]);
        let mut entries: Vec<Value> = Vec::new();
        let mut probes: Vec<Vec<u8>> = vec![vec![], vec![65], vec![0, 65]];
        // carve disjoint blocks out of the low part of the code space: block i starts at i * 1024
        let n = 1 + rng.below(6);
        for i in 0..n {
            let base = i * 1024 + rng.below(200);
            let code = |v: u64| -> Vec<u8> { (0..w).rev().map(|k| ((v >> (8 * k)) & 0xff) as u8).collect() };
            if w == 1 && base > 200 {
                continue;
            }
            let base = if w == 1 { (i * 40) % 200 } else { base };
            match rng.below(3) {
                0 => {
                    let d = 0x20 + rng.below(0xD000);
                    entries.push(json!({"k": "char", "src": code(base), "dst": [(d >> 8) as u8, d as u8]}));
                    probes.extend([code(base), code(base + 1)]);
                }
                1 => {
                    let len = 1 + rng.below(if w == 1 { 30 } else { 600 });
                    let d = 0x20 + rng.below(0xC000);
                    entries.push(json!({"k": "range", "lo": code(base), "hi": code(base + len), "dst": [(d >> 8) as u8, d as u8]}));
                    for k in [0, 1, len / 2, len.saturating_sub(1), len, len + 1] {
                        probes.push(code(base + k));
                    }
                }
                _ => {
                    let len = 1 + rng.below(5);
                    let dsts: Vec<Vec<u8>> = (0..=len).map(|_| { let d = 0x41 + rng.below(0x3000); vec![(d >> 8) as u8, d as u8] }).collect();
                    entries.push(json!({"k": "arr", "lo": code(base), "hi": code(base + len), "dsts": dsts}));
                    for k in 0..=len + 1 {
                        probes.push(code(base + k));
                    }
                }
            }
        }
        cmaps.push(json!({"codespace": cs, "entries": entries, "probes": probes}));
    }
    for (ci, cm) in cmaps.iter().enumerate() {
        let text = render(cm, ci as u64);
        let mut abstract_cmap = json!({"codespace": cm["codespace"], "entries": cm["entries"]});
        if !cm["parent"].is_null() {
            abstract_cmap["parent"] = cm["parent"].clone();
        }
        out.line(&json!({"ev": "reset", "case": ci, "cmap": abstract_cmap, "text": text}));
        let parsed = std::panic::catch_unwind(|| CMap::parse(text.as_bytes()));
        let cmap = match parsed {
            Ok(Ok(c)) => c,
            Ok(Err(e)) => {
                out.line(&json!({"ev": "parse_failed", "msg": e.to_string()}));
                continue;
            }
            Err(_) => {
                out.line(&json!({"ev": "panic", "where": "parse"}));
                continue;
            }
        };
        for p in cm["probes"].as_array().unwrap() {
            let code = bytes_of(p);
            let r = std::panic::catch_unwind(std::panic::AssertUnwindSafe(|| {
                let m = cmap.map(&code);
                let uni = m.as_ref().and_then(|b| cmap.to_unicode(b));
                (m, uni, cmap.is_valid_code(&code))
            }));
            match r {
                Ok((m, uni, valid)) => {
                    let want_uni = m.as_ref().and_then(|b| utf16_cps(b));
                    out.line(&json!({"ev": "probe", "code": code,
                                     "mapped": {"some": m.is_some(), "bytes": m.clone().unwrap_or_default()},
                                     "uniSome": uni.is_some(), "uni": uni.map(|s| s.chars().map(|c| c as u32).collect::<Vec<_>>()).unwrap_or_default(),
                                     "utf16Some": want_uni.is_some(), "utf16": want_uni.unwrap_or_default(), "valid": valid}));
                }
                Err(_) => out.line(&json!({"ev": "panic", "where": "map", "code": code})),
            }
        }
    }
    // builder: code -> Unicode string maps, built to CMap text; the text goes to TLC (PdfLex tokenises it)
    for bi in 0..a.num("builder", 0) {
        let w = 1 + (bi % 2) as usize;
        let n = 1 + rng.below(if bi % 5 == 0 { a.num("buildermax", 230) } else { 12 });
        let mut b = ToUnicodeCMapBuilder::new(w);
        let mut map: Vec<Value> = Vec::new();
        let mut used = std::collections::HashSet::new();
        let pool: Vec<&str> = vec!["A", "é", "ff", "fi", "中", "😀", "€", " ", "(", "\\", "Ω", "x̂", "\u{feff}", ""];
        for _ in 0..n {
            let v = if w == 1 { rng.below(256) } else { rng.below(65536) };
            if !used.insert(v) {
                continue;
            }
            let code: Vec<u8> = (0..w).rev().map(|k| ((v >> (8 * k)) & 0xff) as u8).collect();
            let s = *rng.pick(&pool);
            if w == 1 && rng.chance(1, 2) && s.chars().count() == 1 {
                b.add_single_byte_mapping(code[0], s.chars().next().unwrap());
            } else {
                b.add_mapping(code.clone(), s);
            }
            map.push(json!({"code": code, "cps": s.chars().map(|c| c as u32).collect::<Vec<_>>()}));
        }
        let bytes = b.build();
        // "parses back": the library's own parser on the text it generated, probed at every code that went in
        let parsed = std::panic::catch_unwind(|| CMap::parse(&bytes));
        let mut lib_ok = true;
        for m in map.iter_mut() {
            let code = bytes_of(&m["code"]);
            let got = match &parsed {
                Ok(Ok(c)) => c.map(&code),
                _ => {
                    lib_ok = false;
                    None
                }
            };
            m["lib"] = json!({"some": got.is_some(), "bytes": got.unwrap_or_default()});
        }
        out.line(&json!({"ev": "built", "case": bi, "width": w, "map": map, "bytes": bytes, "libParsed": lib_ok}));
        out.line(&json!({"ev": "chk_built"}));
    }
}
