//! C10 - text given through the API reads back unchanged (TextTrace.tla / TextString.tla).
use crate::util::*;
use oxidize_pdf::annotations::{Annotation, AnnotationType};
use oxidize_pdf::forms::{FormManager, TextField, Widget, WidgetAppearance};
use oxidize_pdf::geometry::{Point, Rectangle};
use oxidize_pdf::parser::objects::{PdfDictionary, PdfName, PdfObject, PdfString};
use oxidize_pdf::parser::PdfReader;
use oxidize_pdf::structure::{OutlineItem, OutlineTree};
use oxidize_pdf::writer::{IncrementalFormFiller, IncrementalTextNoteEditor, TextNoteMutation, WriterConfig};
use oxidize_pdf::{Document, Page};
use serde_json::json;
use std::io::Cursor;

pub fn main(a: &Args) {
    match a.pos.first().map(|s| s.as_str()) {
        Some("run") => run(a),
        _ => tool_error("c10 run"),
    }
}

fn name(s: &str) -> PdfName {
    PdfName(s.to_string())
}

type Rd = PdfReader<Cursor<Vec<u8>>>;

fn deref(r: &mut Rd, o: &PdfObject) -> Option<PdfObject> {
    r.resolve(o).ok().cloned()
}

fn dict_get(r: &mut Rd, d: &PdfDictionary, k: &str) -> Option<PdfObject> {
    let v = d.0.get(&name(k))?.clone();
    deref(r, &v)
}

fn string_bytes(o: Option<PdfObject>) -> Option<Vec<u8>> {
    match o {
        Some(PdfObject::String(s)) => Some(s.0),
        _ => None,
    }
}

fn first_page(r: &mut Rd) -> Option<PdfDictionary> {
    let cat = r.catalog().ok()?.clone();
    let mut node = match dict_get(r, &cat, "Pages")? {
        PdfObject::Dictionary(d) => d,
        _ => return None,
    };
    for _ in 0..10 {
        let is_page = matches!(node.0.get(&name("Type")), Some(PdfObject::Name(t)) if t.0 == "Page");
        if is_page {
            return Some(node);
        }
        let kids = match dict_get(r, &node, "Kids")? {
            PdfObject::Array(a) => a,
            _ => return None,
        };
        node = match deref(r, kids.0.first()?)? {
            PdfObject::Dictionary(d) => d,
            _ => return None,
        };
    }
    None
}

fn annots(r: &mut Rd) -> Vec<PdfDictionary> {
    let mut out = Vec::new();
    if let Some(p) = first_page(r) {
        if let Some(PdfObject::Array(a)) = dict_get(r, &p, "Annots") {
            for x in &a.0 {
                if let Some(PdfObject::Dictionary(d)) = deref(r, x) {
                    out.push(d);
                }
            }
        }
    }
    out
}

fn first_field(r: &mut Rd) -> Option<PdfDictionary> {
    let cat = r.catalog().ok()?.clone();
    let acro = match dict_get(r, &cat, "AcroForm")? {
        PdfObject::Dictionary(d) => d,
        _ => return None,
    };
    let fields = match dict_get(r, &acro, "Fields")? {
        PdfObject::Array(a) => a,
        _ => return None,
    };
    match deref(r, fields.0.first()?)? {
        PdfObject::Dictionary(d) => Some(d),
        _ => None,
    }
}

fn cps(s: &str) -> Vec<u32> {
    s.chars().map(|c| c as u32).collect()
}

fn event(out: &mut Out, entry: &str, config: &str, text: &str, raw: Option<Vec<u8>>, lib: Option<String>) {
    out.line(&json!({"ev": "text", "entry": entry, "config": config, "cps": cps(text), "text": text,
                     "found": raw.is_some(), "raw": raw.unwrap_or_default(), "refusal": "",
                     "hasLib": lib.is_some(), "lib": lib.map(|s| cps(&s)).unwrap_or_default()}));
}

fn form_base(values: &[Option<&str>]) -> Option<Vec<u8>> {
    let mut doc = Document::new();
    let mut page = Page::a4();
    let mut fm = FormManager::new();
    for (i, value) in values.iter().enumerate() {
        let y = 700.0 - 30.0 * i as f64;
        let rect = Rectangle::new(Point::new(100.0, y), Point::new(300.0, y + 20.0));
        let widget = Widget::new(rect).with_appearance(WidgetAppearance::default());
        let mut field = TextField::new(format!("f{i}"));
        if let Some(v) = value {
            field = field.with_value(*v);
        }
        let fref = fm.add_text_field(field, widget.clone(), None).ok()?;
        page.add_form_widget_with_ref(widget, fref).ok()?;
    }
    doc.add_page(page);
    doc.set_form_manager(fm);
    doc.to_bytes().ok()
}

/// /V of the field whose /T is `name`
fn field_value(r: &mut Rd, fname: &str) -> Option<Vec<u8>> {
    let cat = r.catalog().ok()?.clone();
    let acro = match dict_get(r, &cat, "AcroForm")? {
        PdfObject::Dictionary(d) => d,
        _ => return None,
    };
    let fields = match dict_get(r, &acro, "Fields")? {
        PdfObject::Array(a) => a,
        _ => return None,
    };
    for f in &fields.0 {
        if let Some(PdfObject::Dictionary(d)) = deref(r, f) {
            if string_bytes(dict_get(r, &d, "T")).as_deref() == Some(fname.as_bytes()) {
                return string_bytes(dict_get(r, &d, "V"));
            }
        }
    }
    None
}

fn run(a: &Args) {
    std::panic::set_hook(Box::new(|_| {}));
    let mut out = Out::file(a.req("out"));
    let mut rng = Rng::new(a.num("seed", 1));
    let mut texts: Vec<String> = Vec::new();
    if let Some(inp) = a.get("in") {
        for c in read_cases(inp) {
            let t: String = c["cps"].as_array().unwrap().iter().filter_map(|x| char::from_u32(x.as_u64().unwrap() as u32)).collect();
            texts.push(t);
        }
    }
    let pool: Vec<char> = "Aa Zz09 ()\\/<>[]%#\r\n\tàéîõüÿß¡¿€•†‡…—–ƒŁłŒœŠšŸŽž«»©®™·×÷ΑΩяжזש中文日本語한글😀🎉𝒳\u{feff}\u{ad}\u{7f}\u{1}".chars().collect();
    for _ in 0..a.num("random", 0) {
        let n = rng.below(24) as usize;
        texts.push((0..n).map(|_| *rng.pick(&pool)).collect());
    }
    let base_plain = {
        let mut d = Document::new();
        d.add_page(Page::a4());
        d.to_bytes().unwrap_or_default()
    };
    let form_empty = form_base(&[None; 6]);
    // six texts share one document: six Info fields, six outline items, six annotations, six fields, six notes
    for (gi, group) in texts.chunks(6).enumerate() {
        let cfgname = ["default", "legacy", "modern", "xrefstream"][gi % 4];
        let cfg = match cfgname {
            "legacy" => WriterConfig::legacy(),
            "modern" => WriterConfig::modern(),
            "xrefstream" => WriterConfig { use_xref_streams: true, use_object_streams: false, pdf_version: "1.5".into(), compress_streams: true, incremental_update: false },
            _ => WriterConfig::default(),
        };
        let g = |i: usize| group[i % group.len()].clone();
        let keys = [("Title", "title"), ("Author", "author"), ("Subject", "subject"), ("Keywords", "keywords"), ("Creator", "creator"), ("Producer", "producer")];
        let mut doc = Document::new();
        doc.set_title(g(0));
        doc.set_author(g(1));
        doc.set_subject(g(2));
        doc.set_keywords(g(3));
        doc.set_creator(g(4));
        doc.set_producer(g(5));
        let mut page = Page::a4();
        let mut tree = OutlineTree::new();
        for (i, t) in group.iter().enumerate() {
            let y = 50.0 + 30.0 * i as f64;
            let rect = Rectangle::new(Point::new(50.0, y), Point::new(70.0, y + 20.0));
            page.add_annotation(Annotation::new(AnnotationType::Text, rect).with_contents(t.clone()));
            tree.add_item(OutlineItem::new(t.clone()));
        }
        doc.add_page(page);
        doc.set_outline(tree);
        match doc.to_bytes_with_config(cfg) {
            Ok(bytes) => match PdfReader::new(Cursor::new(bytes)) {
                Ok(mut r) => {
                    let meta = r.metadata().ok();
                    let info = r.info().ok().flatten().cloned();
                    for (i, (k, field)) in keys.iter().enumerate() {
                        let raw = info.as_ref().and_then(|d| string_bytes(dict_get(&mut r, d, k)));
                        let lib = meta.as_ref().and_then(|m| match *field {
                            "title" => m.title.clone(),
                            "author" => m.author.clone(),
                            "subject" => m.subject.clone(),
                            "keywords" => m.keywords.clone(),
                            "creator" => m.creator.clone(),
                            _ => m.producer.clone(),
                        });
                        event(&mut out, &format!("info.{field}"), cfgname, &g(i), raw, lib);
                    }
                    // outline items in order (First, then Next)
                    let cat = r.catalog().ok().cloned();
                    let oroot = cat.and_then(|c| match dict_get(&mut r, &c, "Outlines") { Some(PdfObject::Dictionary(d)) => Some(d), _ => None });
                    let mut item = oroot.and_then(|o| match dict_get(&mut r, &o, "First") { Some(PdfObject::Dictionary(d)) => Some(d), _ => None });
                    for t in group.iter() {
                        let raw = item.as_ref().and_then(|i| string_bytes(dict_get(&mut r, i, "Title")));
                        let lib = raw.clone().map(|b| PdfString(b).to_text());
                        event(&mut out, "outline.title", cfgname, t, raw, lib);
                        item = item.and_then(|i| match dict_get(&mut r, &i, "Next") { Some(PdfObject::Dictionary(d)) => Some(d), _ => None });
                    }
                    // annotations are matched by their rectangle's lower edge
                    let anns = annots(&mut r);
                    for (i, t) in group.iter().enumerate() {
                        let y = 50.0 + 30.0 * i as f64;
                        let ann = anns.iter().find(|d| match d.0.get(&name("Rect")) {
                            Some(PdfObject::Array(a)) => a.0.get(1).and_then(|v| match v { PdfObject::Real(f) => Some(*f), PdfObject::Integer(n) => Some(*n as f64), _ => None }).map(|v| (v - y).abs() < 0.01).unwrap_or(false),
                            _ => false,
                        }).cloned();
                        let raw = ann.and_then(|d| string_bytes(dict_get(&mut r, &d, "Contents")));
                        let lib = raw.clone().map(|b| PdfString(b).to_text());
                        event(&mut out, "annotation.contents", cfgname, t, raw, lib);
                    }
                }
                Err(e) => out.line(&json!({"ev": "unreadable", "what": "document", "msg": e.to_string(), "texts": group})),
            },
            Err(e) => out.line(&json!({"ev": "write_failed", "what": "document", "msg": e.to_string(), "texts": group})),
        }
        // text notes through the incremental editor (it documents that it rejects empty contents, and it treats
        // white-space-only as empty): one revision adding a note per text
        let noted: Vec<&String> = group.iter().filter(|t| !t.trim().is_empty()).collect();
        if !noted.is_empty() {
            let muts: Vec<TextNoteMutation> = noted.iter().enumerate()
                .map(|(i, t)| TextNoteMutation::Add { page_index: 0, position: Point::new(10.0 + 25.0 * i as f64, 10.0), contents: (*t).clone() })
                .collect();
            match IncrementalTextNoteEditor::new(&base_plain).apply(&muts) {
                Ok(upd) => {
                    let notes = IncrementalTextNoteEditor::new(&upd.pdf_bytes).notes().unwrap_or_default();
                    let mut rd = PdfReader::new(Cursor::new(upd.pdf_bytes.clone())).ok();
                    let anns = rd.as_mut().map(|r| annots(r)).unwrap_or_default();
                    for (i, t) in noted.iter().enumerate() {
                        let x = 10.0 + 25.0 * i as f64;
                        let lib = notes.iter().find(|n| (n.position.x - x).abs() < 0.01).map(|n| n.contents.clone());
                        let ann = anns.iter().find(|d| match d.0.get(&name("Rect")) {
                            Some(PdfObject::Array(a)) => a.0.first().and_then(|v| match v { PdfObject::Real(f) => Some(*f), PdfObject::Integer(n) => Some(*n as f64), _ => None }).map(|v| (v - x).abs() < 0.01).unwrap_or(false),
                            _ => false,
                        }).cloned();
                        let raw = match (rd.as_mut(), ann) {
                            (Some(r), Some(d)) => string_bytes(dict_get(r, &d, "Contents")),
                            _ => None,
                        };
                        event(&mut out, "textnote.contents", "incremental", t, raw, lib);
                    }
                }
                Err(e) => {
                    for t in &noted {
                        out.line(&json!({"ev": "text", "entry": "textnote.contents", "config": "incremental", "cps": cps(t), "text": t,
                                         "found": false, "raw": [], "hasLib": false, "lib": [], "refusal": "other", "error": e.to_string()}));
                    }
                }
            }
        }
        // form field values: written whole ...
        let vals: Vec<Option<&str>> = group.iter().map(|t| Some(t.as_str())).collect();
        if let Some(bytes) = form_base(&vals) {
            let mut rd = PdfReader::new(Cursor::new(bytes)).ok();
            for (i, t) in group.iter().enumerate() {
                let raw = rd.as_mut().and_then(|r| field_value(r, &format!("f{i}")));
                let lib = raw.clone().map(|b| PdfString(b).to_text());
                event(&mut out, "field.value", "default", t, raw, lib);
            }
        }
        // ... and applied as incremental fills (one field per fill, so that a refusal concerns one value)
        if let Some(base) = &form_empty {
            for (i, t) in group.iter().enumerate() {
                let fname = format!("f{i}");
                match IncrementalFormFiller::new(base).fill(&fname, t) {
                    Ok(bytes) => {
                        let raw = PdfReader::new(Cursor::new(bytes)).ok().and_then(|mut r| field_value(&mut r, &fname));
                        let lib = raw.clone().map(|b| PdfString(b).to_text());
                        event(&mut out, "field.fill", "incremental", t, raw, lib);
                    }
                    Err(e) => {
                        let msg = e.to_string();
                        let refusal = if msg.contains("not representable in WinAnsiEncoding") { "winansi" } else { "other" };
                        out.line(&json!({"ev": "text", "entry": "field.fill", "config": "incremental", "cps": cps(t), "text": t,
                                         "found": false, "raw": [], "hasLib": false, "lib": [], "refusal": refusal, "error": msg}));
                    }
                }
            }
        }
    }
}
