//! Shared helpers: trace/replay I/O, seeded RNG, mismatch reporting.
use serde_json::Value;
use std::io::{BufRead, BufReader, Write};

/// Read cases from a file that is either ndjson or raw TLC output containing
/// `<<"REPLAY", "<json string literal>">>` lines.
pub fn read_cases(path: &str) -> Vec<Value> {
    let f = std::fs::File::open(path).unwrap_or_else(|e| tool_error(&format!("open {path}: {e}")));
    let mut out = Vec::new();
    for line in BufReader::new(f).lines() {
        let line = line.unwrap();
        let t = line.trim();
        if t.is_empty() {
            continue;
        }
        if let Some(rest) = t.strip_prefix("<<\"REPLAY\", ") {
            if let Some(lit) = rest.strip_suffix(">>") {
                let s: String = serde_json::from_str(lit).unwrap_or_else(|e| tool_error(&format!("bad REPLAY literal: {e}")));
                out.push(serde_json::from_str(&s).unwrap_or_else(|e| tool_error(&format!("bad REPLAY json: {e}"))));
            }
        } else if t.starts_with('{') {
            out.push(serde_json::from_str(t).unwrap_or_else(|e| tool_error(&format!("bad ndjson: {e}"))));
        }
    }
    out
}

pub fn tool_error(msg: &str) -> ! {
    eprintln!("vh tool error: {msg}");
    std::process::exit(2)
}

pub struct Out {
    pub w: std::io::BufWriter<Box<dyn Write>>,
}

impl Out {
    pub fn stdout() -> Self {
        Out { w: std::io::BufWriter::new(Box::new(std::io::stdout())) }
    }
    pub fn file(path: &str) -> Self {
        let f = std::fs::File::create(path).unwrap_or_else(|e| tool_error(&format!("create {path}: {e}")));
        Out { w: std::io::BufWriter::new(Box::new(f)) }
    }
    pub fn line(&mut self, v: &Value) {
        serde_json::to_writer(&mut self.w, v).unwrap();
        self.w.write_all(b"\n").unwrap();
    }
    pub fn flush(&mut self) {
        self.w.flush().unwrap();
    }
}

impl Drop for Out {
    fn drop(&mut self) {
        let _ = self.w.flush();
    }
}

/// Small deterministic RNG (splitmix64) so that traces depend only on VERIF_SEED.
#[derive(Clone)]
pub struct Rng(pub u64);

impl Rng {
    pub fn new(seed: u64) -> Self {
        Rng(seed.wrapping_mul(0x9E3779B97F4A7C15) ^ 0xD1B54A32D192ED03)
    }
    pub fn next(&mut self) -> u64 {
        self.0 = self.0.wrapping_add(0x9E3779B97F4A7C15);
        let mut z = self.0;
        z = (z ^ (z >> 30)).wrapping_mul(0xBF58476D1CE4E5B9);
        z = (z ^ (z >> 27)).wrapping_mul(0x94D049BB133111EB);
        z ^ (z >> 31)
    }
    pub fn below(&mut self, n: u64) -> u64 {
        if n == 0 { 0 } else { self.next() % n }
    }
    pub fn range(&mut self, lo: i64, hi: i64) -> i64 {
        lo + self.below((hi - lo + 1) as u64) as i64
    }
    pub fn chance(&mut self, num: u64, den: u64) -> bool {
        self.below(den) < num
    }
    pub fn pick<'a, T>(&mut self, xs: &'a [T]) -> &'a T {
        &xs[self.below(xs.len() as u64) as usize]
    }
    pub fn bytes(&mut self, n: usize) -> Vec<u8> {
        (0..n).map(|_| self.next() as u8).collect()
    }
}

pub struct Args {
    pub pos: Vec<String>,
    pub kv: std::collections::HashMap<String, String>,
}

impl Args {
    pub fn parse(args: &[String]) -> Self {
        let mut pos = Vec::new();
        let mut kv = std::collections::HashMap::new();
        let mut i = 0;
        while i < args.len() {
            if let Some(k) = args[i].strip_prefix("--") {
                if i + 1 < args.len() {
                    kv.insert(k.to_string(), args[i + 1].clone());
                    i += 2;
                    continue;
                }
                kv.insert(k.to_string(), String::new());
            } else {
                pos.push(args[i].clone());
            }
            i += 1;
        }
        Args { pos, kv }
    }
    pub fn get(&self, k: &str) -> Option<&str> {
        self.kv.get(k).map(|s| s.as_str())
    }
    pub fn num(&self, k: &str, d: u64) -> u64 {
        self.get(k).map(|s| s.parse().unwrap_or_else(|_| tool_error(&format!("--{k} not a number")))).unwrap_or(d)
    }
    pub fn req(&self, k: &str) -> &str {
        self.get(k).unwrap_or_else(|| tool_error(&format!("missing --{k}")))
    }
}
