//! C21 - content streams: authoring calls -> emitted bytes -> (reference lexer in TLC | library ContentParser).
use crate::util::*;
use oxidize_pdf::graphics::{Color, GraphicsContext, LineCap, LineJoin};
use oxidize_pdf::parser::content::{ContentOperation, ContentParser, MarkedContentProps, MarkedContentValue, TextElement};
use oxidize_pdf::text::{Font, TextContext, TextRenderingMode};
use oxidize_pdf::Page;
use serde_json::{json, Value};

pub fn main(a: &Args) {
    match a.pos.first().map(|s| s.as_str()) {
        Some("run") => run(a),
        Some("fuzz") => fuzz(a),
        _ => tool_error("c21 run|fuzz"),
    }
}

fn bj(b: &[u8]) -> Value {
    Value::Array(b.iter().map(|x| json!(*x)).collect())
}
fn num(v: &Value) -> f64 {
    match v["txt"].as_str().unwrap() {
        "NaN" => f64::NAN,
        "inf" => f64::INFINITY,
        "-inf" => f64::NEG_INFINITY,
        s => s.parse::<f64>().unwrap_or_else(|_| tool_error(&format!("number {s}"))),
    }
}
fn nums(c: &Value) -> Vec<f64> {
    c["n"].as_array().map(|a| a.iter().map(num).collect()).unwrap_or_default()
}
pub fn text(c: &Value) -> String {
    // "t": code points of the text handed to the API
    c["t"].as_array().map(|a| a.iter().map(|x| char::from_u32(x.as_u64().unwrap() as u32).unwrap()).collect()).unwrap_or_default()
}
pub fn name(c: &Value) -> String {
    String::from_utf8_lossy(&c["name"].as_array().map(|a| a.iter().map(|x| x.as_u64().unwrap() as u8).collect::<Vec<u8>>()).unwrap_or_default()).into_owned()
}
fn color(c: &Value) -> Color {
    let v: Vec<f64> = c["col"]["v"].as_array().unwrap().iter().map(num).collect();
    match c["col"]["k"].as_str().unwrap() {
        "gray" => Color::Gray(v[0]),
        "rgb" => Color::Rgb(v[0], v[1], v[2]),
        _ => Color::Cmyk(v[0], v[1], v[2], v[3]),
    }
}
fn std_font(n: &str) -> Font {
    match n {
        "Helvetica" => Font::Helvetica,
        "Helvetica-Bold" => Font::HelveticaBold,
        "Times-Roman" => Font::TimesRoman,
        "Times-BoldItalic" => Font::TimesBoldItalic,
        "Courier" => Font::Courier,
        "Courier-Oblique" => Font::CourierOblique,
        other => tool_error(&format!("font {other}")),
    }
}

fn run_g(prog: &[Value]) -> Result<Vec<u8>, String> {
    let mut g = GraphicsContext::new();
    for c in prog {
        g_call(&mut g, c)?;
    }
    Ok(g.operations().into_bytes())
}

pub fn g_call(g: &mut GraphicsContext, c: &Value) -> Result<(), String> {
    {
        let n = nums(c);
        match c["c"].as_str().unwrap() {
            "move_to" => { g.move_to(n[0], n[1]); }
            "line_to" => { g.line_to(n[0], n[1]); }
            "curve_to" => { g.curve_to(n[0], n[1], n[2], n[3], n[4], n[5]); }
            "rect" => { g.rect(n[0], n[1], n[2], n[3]); }
            "close_path" => { g.close_path(); }
            "stroke" => { g.stroke(); }
            "fill" => { g.fill(); }
            "fill_stroke" => { g.fill_stroke(); }
            "set_line_width" => { g.set_line_width(n[0]); }
            "set_line_cap" => { g.set_line_cap(match c["i"].as_u64().unwrap() { 0 => LineCap::Butt, 1 => LineCap::Round, _ => LineCap::Square }); }
            "set_line_join" => { g.set_line_join(match c["i"].as_u64().unwrap() { 0 => LineJoin::Miter, 1 => LineJoin::Round, _ => LineJoin::Bevel }); }
            "set_miter_limit" => { g.set_miter_limit(n[0]); }
            "set_flatness" => { g.set_flatness(n[0]); }
            "save_state" => { g.save_state(); }
            "restore_state" => { g.restore_state(); }
            "transform" => { g.transform(n[0], n[1], n[2], n[3], n[4], n[5]); }
            "translate" => { g.translate(n[0], n[1]); }
            "scale" => { g.scale(n[0], n[1]); }
            "end_path" => { g.end_path(); }
            "clip" => { g.clip(); }
            "clip_even_odd" => { g.clip_even_odd(); }
            "set_fill_color" => { g.set_fill_color(color(c)); }
            "set_stroke_color" => { g.set_stroke_color(color(c)); }
            "begin_text" => { g.begin_text(); }
            "end_text" => { g.end_text(); }
            "set_font" => { g.set_font(std_font(&name(c)), n[0]); }
            "set_text_position" => { g.set_text_position(n[0], n[1]); }
            "show_text" => { g.show_text(&text(c)).map_err(|e| e.to_string())?; }
            "set_word_spacing" => { g.set_word_spacing(n[0]); }
            "set_character_spacing" => { g.set_character_spacing(n[0]); }
            "paint_shading" => { g.paint_shading(name(c)); }
            "draw_image" => { g.draw_image(name(c), n[0], n[1], n[2], n[3]); }
            "draw_text" => { g.draw_text(&text(c), n[0], n[1]).map_err(|e| e.to_string())?; }
            other => tool_error(&format!("g call {other}")),
        }
    }
    Ok(())
}

pub fn text_call(t: &mut TextContext, c: &Value) -> Result<(), String> {
    let n = nums(c);
    match c["c"].as_str().unwrap() {
        "set_font" => { t.set_font(std_font(&name(c)), n[0]); }
        "at" => { t.at(n[0], n[1]); }
        "write" => { t.write(&text(c)).map_err(|e| e.to_string())?; }
        "set_character_spacing" => { t.set_character_spacing(n[0]); }
        "set_word_spacing" => { t.set_word_spacing(n[0]); }
        "set_horizontal_scaling" => { t.set_horizontal_scaling(n[0]); }
        "set_leading" => { t.set_leading(n[0]); }
        "set_text_rise" => { t.set_text_rise(n[0]); }
        "set_rendering_mode" => {
            t.set_rendering_mode(match c["i"].as_u64().unwrap() {
                0 => TextRenderingMode::Fill, 1 => TextRenderingMode::Stroke, 2 => TextRenderingMode::FillStroke, 3 => TextRenderingMode::Invisible,
                4 => TextRenderingMode::FillClip, 5 => TextRenderingMode::StrokeClip, 6 => TextRenderingMode::FillStrokeClip, _ => TextRenderingMode::Clip,
            });
        }
        "set_fill_color" => { t.set_fill_color(color(c)); }
        "set_stroke_color" => { t.set_stroke_color(color(c)); }
        other => tool_error(&format!("t call {other}")),
    }
    Ok(())
}

fn run_t(prog: &[Value]) -> Result<Vec<u8>, String> {
    let mut t = TextContext::new();
    for c in prog {
        text_call(&mut t, c)?;
    }
    Ok(t.operations().into_bytes())
}

/// Page-level program: text calls on page.text() plus the marked-content calls of Page.
fn run_p(prog: &[Value]) -> Result<Vec<u8>, String> {
    let mut page = Page::a4();
    for c in prog {
        match c["c"].as_str().unwrap() {
            "begin_marked_content" => { page.begin_marked_content(&name(c)).map_err(|e| e.to_string())?; }
            "begin_marked_content_with_actual_text" => { page.begin_marked_content_with_actual_text(&name(c), &text(c)).map_err(|e| e.to_string())?; }
            "end_marked_content" => { page.end_marked_content().map_err(|e| e.to_string())?; }
            _ => text_call(page.text(), c)?,
        }
    }
    Ok(page.text().operations().into_bytes())
}

// ---- library-parsed operators in the shape of the reference lexer's values ----
fn f(v: f32) -> Value {
    let s = format!("{:.6}", v as f64);
    json!({"t": "real", "s": if s == "-0.000000" { "0.000000".to_string() } else { s }})
}
fn i(v: i64) -> Value {
    json!({"t": "int", "s": v.to_string()})
}
fn nm(s: &str) -> Value {
    json!({"t": "name", "b": bj(s.as_bytes())})
}
fn st(b: &[u8]) -> Value {
    json!({"t": "str", "b": bj(b)})
}
fn mcv(v: &MarkedContentValue) -> Value {
    match v {
        MarkedContentValue::String(b) => st(b),
        MarkedContentValue::Integer(n) => i(*n),
        MarkedContentValue::Real(r) => f(*r as f32),
        MarkedContentValue::Name(n) => nm(n),
        MarkedContentValue::Array(a) => json!({"t": "arr", "v": a.iter().map(mcv).collect::<Vec<_>>()}),
        MarkedContentValue::Dict(d) => mcd(d),
    }
}
fn mcd(d: &std::collections::HashMap<String, MarkedContentValue>) -> Value {
    let mut items: Vec<(&String, &MarkedContentValue)> = d.iter().collect();
    items.sort_by(|a, b| a.0.cmp(b.0));
    json!({"t": "dict", "v": items.iter().map(|(k, v)| json!({"k": bj(k.as_bytes()), "v": mcv(v)})).collect::<Vec<_>>()})
}
fn props(p: &MarkedContentProps) -> Value {
    match p {
        MarkedContentProps::Inline(d) => mcd(d),
        MarkedContentProps::ResourceRef(n) => nm(n),
    }
}
fn op(name: &str, args: Vec<Value>) -> Value {
    json!({"op": name, "args": args})
}
fn lib_op(o: &ContentOperation) -> Value {
    use ContentOperation::*;
    match o {
        BeginText => op("BT", vec![]),
        EndText => op("ET", vec![]),
        SetCharSpacing(a) => op("Tc", vec![f(*a)]),
        SetWordSpacing(a) => op("Tw", vec![f(*a)]),
        SetHorizontalScaling(a) => op("Tz", vec![f(*a)]),
        SetLeading(a) => op("TL", vec![f(*a)]),
        SetFont(n, s) => op("Tf", vec![nm(n), f(*s)]),
        SetTextRenderMode(m) => op("Tr", vec![i(*m as i64)]),
        SetTextRise(a) => op("Ts", vec![f(*a)]),
        MoveText(x, y) => op("Td", vec![f(*x), f(*y)]),
        MoveTextSetLeading(x, y) => op("TD", vec![f(*x), f(*y)]),
        SetTextMatrix(a, b, c, d, e, g) => op("Tm", vec![f(*a), f(*b), f(*c), f(*d), f(*e), f(*g)]),
        NextLine => op("T*", vec![]),
        ShowText(b) => op("Tj", vec![st(b)]),
        ShowTextArray(els) => op("TJ", vec![json!({"t": "arr", "v": els.iter().map(|e| match e { TextElement::Text(b) => st(b), TextElement::Spacing(s) => f(*s) }).collect::<Vec<_>>()})]),
        NextLineShowText(b) => op("'", vec![st(b)]),
        SetSpacingNextLineShowText(a, b, s) => op("\"", vec![f(*a), f(*b), st(s)]),
        SaveGraphicsState => op("q", vec![]),
        RestoreGraphicsState => op("Q", vec![]),
        SetTransformMatrix(a, b, c, d, e, g) => op("cm", vec![f(*a), f(*b), f(*c), f(*d), f(*e), f(*g)]),
        SetLineWidth(a) => op("w", vec![f(*a)]),
        SetLineCap(a) => op("J", vec![i(*a as i64)]),
        SetLineJoin(a) => op("j", vec![i(*a as i64)]),
        SetMiterLimit(a) => op("M", vec![f(*a)]),
        SetDashPattern(a, p) => op("d", vec![json!({"t": "arr", "v": a.iter().map(|x| f(*x)).collect::<Vec<_>>()}), f(*p)]),
        SetIntent(n) => op("ri", vec![nm(n)]),
        SetFlatness(a) => op("i", vec![f(*a)]),
        SetGraphicsStateParams(n) => op("gs", vec![nm(n)]),
        MoveTo(x, y) => op("m", vec![f(*x), f(*y)]),
        LineTo(x, y) => op("l", vec![f(*x), f(*y)]),
        CurveTo(a, b, c, d, e, g) => op("c", vec![f(*a), f(*b), f(*c), f(*d), f(*e), f(*g)]),
        CurveToV(a, b, c, d) => op("v", vec![f(*a), f(*b), f(*c), f(*d)]),
        CurveToY(a, b, c, d) => op("y", vec![f(*a), f(*b), f(*c), f(*d)]),
        ClosePath => op("h", vec![]),
        Rectangle(a, b, c, d) => op("re", vec![f(*a), f(*b), f(*c), f(*d)]),
        Stroke => op("S", vec![]),
        CloseStroke => op("s", vec![]),
        Fill => op("f", vec![]),
        FillEvenOdd => op("f*", vec![]),
        FillStroke => op("B", vec![]),
        FillStrokeEvenOdd => op("B*", vec![]),
        CloseFillStroke => op("b", vec![]),
        CloseFillStrokeEvenOdd => op("b*", vec![]),
        EndPath => op("n", vec![]),
        Clip => op("W", vec![]),
        ClipEvenOdd => op("W*", vec![]),
        SetStrokingColorSpace(n) => op("CS", vec![nm(n)]),
        SetNonStrokingColorSpace(n) => op("cs", vec![nm(n)]),
        SetStrokingColor(v) => op("SC", v.iter().map(|x| f(*x)).collect()),
        SetNonStrokingColor(v) => op("sc", v.iter().map(|x| f(*x)).collect()),
        SetStrokingGray(a) => op("G", vec![f(*a)]),
        SetNonStrokingGray(a) => op("g", vec![f(*a)]),
        SetStrokingRGB(a, b, c) => op("RG", vec![f(*a), f(*b), f(*c)]),
        SetNonStrokingRGB(a, b, c) => op("rg", vec![f(*a), f(*b), f(*c)]),
        SetStrokingCMYK(a, b, c, d) => op("K", vec![f(*a), f(*b), f(*c), f(*d)]),
        SetNonStrokingCMYK(a, b, c, d) => op("k", vec![f(*a), f(*b), f(*c), f(*d)]),
        ShadingFill(n) => op("sh", vec![nm(n)]),
        BeginInlineImage => op("BI", vec![]),
        InlineImage { .. } => op("ID", vec![]),
        PaintXObject(n) => op("Do", vec![nm(n)]),
        BeginMarkedContent(n) => op("BMC", vec![nm(n)]),
        BeginMarkedContentWithProps(n, p) => op("BDC", vec![nm(n), props(p)]),
        EndMarkedContent => op("EMC", vec![]),
        DefineMarkedContentPoint(n) => op("MP", vec![nm(n)]),
        DefineMarkedContentPointWithProps(n, p) => op("DP", vec![nm(n), props(p)]),
        BeginCompatibility => op("BX", vec![]),
        EndCompatibility => op("EX", vec![]),
    }
}

pub fn parsed_json(bytes: &[u8]) -> (Value, bool) {
    let b2 = bytes.to_vec();
    let lenient = std::panic::catch_unwind(move || ContentParser::parse(&b2));
    let b3 = bytes.to_vec();
    let strict = std::panic::catch_unwind(move || ContentParser::parse_strict(&b3));
    let strict_ok = matches!(strict, Ok(Ok(_)));
    match lenient {
        Ok(Ok(ops)) => (json!({"ok": true, "ops": ops.iter().map(lib_op).collect::<Vec<_>>(), "err": ""}), strict_ok),
        Ok(Err(e)) => (json!({"ok": false, "ops": [], "err": e.to_string()}), strict_ok),
        Err(_) => (json!({"ok": false, "ops": [], "err": "panic"}), strict_ok),
    }
}

fn run(a: &Args) {
    std::panic::set_hook(Box::new(|_| {}));
    let mut out = Out::file(a.req("out"));
    for c in read_cases(a.req("in")) {
        let prog = c["prog"].as_array().unwrap().clone();
        let kind = c["kind"].as_str().unwrap().to_string();
        let p2 = prog.clone();
        let k2 = kind.clone();
        let r = std::panic::catch_unwind(move || match k2.as_str() {
            "g" => run_g(&p2),
            "t" => run_t(&p2),
            _ => run_p(&p2),
        });
        let mut ev = json!({"ev": "case", "kind": kind, "prog": prog});
        match r {
            Ok(Ok(bytes)) => {
                let (parsed, strict_ok) = parsed_json(&bytes);
                ev["bytes"] = bj(&bytes);
                ev["text"] = json!(String::from_utf8_lossy(&bytes));
                ev["parsed"] = parsed;
                ev["strict"] = json!(strict_ok);
                ev["built"] = json!(true);
            }
            Ok(Err(e)) => {
                ev["built"] = json!(false);
                ev["bytes"] = json!([]);
                ev["err"] = json!(e);
            }
            Err(_) => {
                ev["built"] = json!(false);
                ev["bytes"] = json!([]);
                ev["err"] = json!("panic");
            }
        }
        out.line(&ev);
        out.line(&json!({"ev": "chk_ref"}));
        out.line(&json!({"ev": "chk_lib"}));
    }
    out.flush();
}

/// Termination clause: arbitrary and grammar-mutated byte strings through the parser, under a watchdog.
fn fuzz(a: &Args) {
    std::panic::set_hook(Box::new(|_| {}));
    let mut out = Out::file(a.req("out"));
    let mut rng = Rng::new(a.num("seed", 1));
    let n = a.num("cases", 2000);
    let frags: [&[u8]; 38] = [b"/F#41 1 Tf ", b"/Im#2", b"/A#", b"#", b"/N#4", b"/#zz ", b"BT ", b"ET ", b"(abc) Tj ", b"[(a) -120 (b)] TJ ", b"/F1 12 Tf ", b"1 0 0 1 10 20 cm ", b"q ", b"Q ", b"BI /W 2 /H 2 /BPC 8 /CS /G ID ",
                              b"\x00\x01\x02\x03 EI ", b"<48656C6C6F> Tj ", b"/P <</MCID 0>> BDC ", b"EMC ", b"0.5 g ", b"10 20 m ", b"(", b")", b"<<", b">>", b"[", b"]", b"\\", b"%c\n", b"1e9999 ",
                              // the pieces of an inline image on their own: data of any length, none included, any separator
                              b"BI ", b"ID ", b"ID\n", b"ID\r\n", b"EI ", b"EI", b"ID EI ", b"BI /W 1 /H 1 ID\nEI Q "];
    let (tx, rx) = std::sync::mpsc::channel::<(u64, Vec<u8>)>();
    let (dtx, drx) = std::sync::mpsc::channel::<(u64, String)>();
    std::thread::spawn(move || {
        while let Ok((id, bytes)) = rx.recv() {
            let r = std::panic::catch_unwind(move || (ContentParser::parse(&bytes).is_ok(), ContentParser::parse_strict(&bytes).is_ok()));
            let _ = dtx.send((id, match r { Ok((a, b)) => format!("value:{a}:{b}"), Err(_) => "panic".to_string() }));
        }
    });
    for id in 0..n {
        let mut b: Vec<u8> = Vec::new();
        match id % 3 {
            0 => {
                let k = rng.range(0, 400) as usize;
                b = rng.bytes(k);
            }
            1 => {
                for _ in 0..rng.range(1, 40) {
                    b.extend_from_slice(*rng.pick(&frags[..]));
                }
            }
            _ => {
                for _ in 0..rng.range(1, 30) {
                    b.extend_from_slice(*rng.pick(&frags[..]));
                }
                for _ in 0..rng.range(1, 6) {
                    if !b.is_empty() {
                        let k = rng.below(b.len() as u64) as usize;
                        b[k] = rng.next() as u8;
                    }
                }
                if rng.chance(1, 4) {
                    let k = rng.below(b.len() as u64 + 1) as usize;
                    b.truncate(k);
                }
            }
        }
        tx.send((id, b.clone())).unwrap();
        let outcome = match drx.recv_timeout(std::time::Duration::from_secs(10)) {
            Ok((_, o)) => o,
            Err(_) => "timeout".to_string(),
        };
        out.line(&json!({"ev": "fuzz", "id": id, "len": b.len(), "outcome": outcome.split(':').next().unwrap(), "bytes": if outcome.starts_with("value") { json!([]) } else { bj(&b) }}));
        if outcome == "timeout" {
            break;
        }
    }
    out.flush();
}
