//! C04 - revision histories (XRefChain.tla) -> synth file -> the real reader.
//!
//! Input case: {revs:[{form, ops:[op per object 1..k]}], expect:[value per object, 0 = null], gen:[...]}.
//! For every history the file is built by synth, opened with each parsing preset, and every object is
//! resolved through the public reader API; the marker read back must be the one the specification names.
use crate::synth;
use crate::util::*;
use oxidize_pdf::parser::objects::PdfObject;
use oxidize_pdf::parser::{ParseOptions, PdfReader};
use serde_json::{json, Value};
use std::collections::HashSet;
use std::io::Cursor;

pub fn main(a: &Args) {
    match a.pos.first().map(|s| s.as_str()) {
        Some("replay") => replay(a),
        Some("record") => record(a),
        _ => tool_error("c04 replay|record"),
    }
}

fn ops_of(rev: &Value) -> Vec<String> {
    // TLC prints a function over 1..k as a JSON array
    rev["ops"].as_array().unwrap().iter().map(|x| x.as_str().unwrap().to_string()).collect()
}

pub fn plan_for(revs: &[Value]) -> Value {
    let mut out = Vec::new();
    let k = ops_of(&revs[0]).len();
    let mut gens = vec![0u64; k];
    for (ri, rev) in revs.iter().enumerate() {
        let r = ri + 1;
        let mut objects: Vec<Value> = Vec::new();
        let mut free: Vec<Value> = Vec::new();
        if r == 1 {
            objects.push(json!({"n": 10, "g": 0, "value": {"d": [["Type", {"n": "Catalog"}], ["Pages", {"ref": [11, 0]}]]}}));
            objects.push(json!({"n": 11, "g": 0, "value": {"d": [["Type", {"n": "Pages"}], ["Kids", [{"ref": [12, 0]}]], ["Count", 1]]}}));
            objects.push(json!({"n": 12, "g": 0, "value": {"d": [["Type", {"n": "Page"}], ["Parent", {"ref": [11, 0]}], ["MediaBox", [0, 0, 200, 200]]]}}));
        }
        for (i, op) in ops_of(rev).iter().enumerate() {
            let n = i + 1;
            let marker = 100 * r + n;
            match op.as_str() {
                "direct" => objects.push(json!({"n": n, "g": gens[i], "value": marker})),
                "instm" => objects.push(json!({"n": n, "g": 0, "value": marker, "instm": 20 + r})),
                "free" => {
                    gens[i] += 1;
                    free.push(json!({"n": n, "g": gens[i]}));
                }
                _ => {}
            }
        }
        let form = rev["form"].as_str().unwrap();
        out.push(json!({"objects": objects, "free": free, "xref": form, "xref_n": 30 + r,
                        "trailer": [["Root", {"ref": [10, 0]}]]}));
    }
    json!({"version": "1.7", "revisions": out})
}

fn read_marker(r: &mut PdfReader<Cursor<Vec<u8>>>, n: u32, g: u16) -> Value {
    match r.get_object(n, g) {
        Ok(PdfObject::Integer(i)) => json!({"kind": "int", "v": i}),
        Ok(PdfObject::Null) => json!({"kind": "null", "v": 0}),
        Ok(other) => json!({"kind": "other", "v": format!("{:?}", other).chars().take(80).collect::<String>()}),
        Err(e) => json!({"kind": "error", "v": e.to_string()}),
    }
}

fn replay(a: &Args) {
    std::panic::set_hook(Box::new(|_| {}));
    let cases = read_cases(a.req("in"));
    let mut out = Out::file(a.req("out"));
    let mut seen: HashSet<String> = HashSet::new();
    let (mut n_cases, mut multi, mut mism) = (0u64, 0u64, 0u64);
    let dump = a.get("dump");
    let recovery = a.num("recovery", 1) == 1;
    let mut recov_cases = 0u64;
    for c in &cases {
        let key = c["revs"].to_string();
        if !seen.insert(key) {
            continue;
        }
        n_cases += 1;
        let revs = c["revs"].as_array().unwrap();
        let plan = plan_for(revs);
        let layout = synth::build(&plan);
        let expect: Vec<i64> = c["expect"].as_array().unwrap().iter().map(|x| x.as_i64().unwrap()).collect();
        let gens: Vec<u64> = c["gen"].as_array().unwrap().iter().map(|x| x.as_u64().unwrap()).collect();
        let redefined = (0..expect.len()).any(|i| revs.iter().filter(|r| ops_of(r)[i] != "keep").count() >= 2);
        if redefined {
            multi += 1;
        }
        if let Some(d) = dump {
            if n_cases <= 3 {
                std::fs::write(format!("{d}/c04_case{n_cases}.pdf"), &layout.bytes).unwrap();
            }
        }
        // recovery variant: only meaningful when every mention is a direct definition (a scan for
        // `n g obj` headers cannot know about free entries or look inside object streams)
        let direct_only = revs.iter().all(|r| ops_of(r).iter().all(|o| o == "keep" || o == "direct"));
        let mut variants: Vec<(&str, ParseOptions, Vec<u8>)> = vec![
            ("default", ParseOptions::default(), layout.bytes.clone()),
            ("strict", ParseOptions::strict(), layout.bytes.clone()),
            ("lenient", ParseOptions::lenient(), layout.bytes.clone()),
        ];
        if direct_only && recovery {
            // damage 1: startxref of the last revision points into the header
            let last = layout.revs.last().unwrap();
            let mut b1 = layout.bytes.clone();
            let digits = b1[last.startxref_value_at..].iter().take_while(|c| c.is_ascii_digit()).count();
            for k in 0..digits {
                b1[last.startxref_value_at + k] = b'0';
            }
            variants.push(("recovery_startxref0_default", ParseOptions::default(), b1.clone()));
            variants.push(("recovery_startxref0_lenient", ParseOptions::lenient(), b1));
            // damage 2: every xref keyword / xref stream header of every revision is overwritten
            let mut b2 = layout.bytes.clone();
            for rv in &layout.revs {
                for k in 0..4 {
                    b2[rv.xref_offset + k] = b'#';
                }
            }
            variants.push(("recovery_xref_garbled_default", ParseOptions::default(), b2.clone()));
            variants.push(("recovery_xref_garbled_lenient", ParseOptions::lenient(), b2));
            recov_cases += 1;
        }
        for (pname, opts, vbytes) in variants {
            let bytes = vbytes;
            let (expect, gens) = (expect.clone(), gens.clone());
            let (expect2, gens2) = (expect.clone(), gens.clone());
            let res = std::panic::catch_unwind(move || {
                let (expect, gens) = (expect2, gens2);
                let mut r = match PdfReader::new_with_options(Cursor::new(bytes), opts) {
                    Ok(r) => r,
                    Err(e) => return Err(format!("open failed: {e}")),
                };
                let pc = r.page_count().map_err(|e| format!("page_count failed: {e}"))?;
                let mut got = Vec::new();
                for i in 0..expect.len() {
                    got.push(read_marker(&mut r, (i + 1) as u32, gens[i] as u16));
                }
                Ok((pc, got))
            });
            let bad = match res {
                Err(_) => Some(json!({"what": "panic"})),
                Ok(Err(e)) => Some(json!({"what": e})),
                Ok(Ok((pc, got))) => {
                    let mut b = None;
                    if pc != 1 {
                        b = Some(json!({"what": "page_count", "got": pc}));
                    }
                    for (i, g) in got.iter().enumerate() {
                        let exp = expect[i];
                        let ok = if exp == 0 {
                            // null: freed objects must read as null; a number that was never defined may
                            // also be reported as missing
                            let never = revs.iter().all(|r| ops_of(r)[i] == "keep");
                            g["kind"] == "null" || (never && g["kind"] == "error")
                        } else {
                            g["kind"] == "int" && g["v"].as_i64() == Some(exp)
                        };
                        if !ok && b.is_none() {
                            // classify: did the reader return an OLDER definition of the same object?
                            let stale = g["kind"] == "int" && g["v"].as_i64().map(|v| v % 100 == (i as i64 + 1) && v != exp).unwrap_or(false);
                            b = Some(json!({"what": "wrong_object", "object": i + 1, "gen": gens[i], "expected": exp, "got": g,
                                            "stale_definition": stale}));
                        }
                    }
                    b
                }
            };
            if let Some(b) = bad {
                mism += 1;
                out.line(&json!({"ev": "mismatch", "preset": pname, "revs": c["revs"], "detail": b}));
            }
        }
    }
    out.line(&json!({"ev": "summary", "cases": n_cases, "with_redefinition": multi, "recovery_cases": recov_cases, "mismatches": mism}));
}

/// B2: seeded random histories (up to 5 objects, up to 7 revisions); one event per revision, one per read.
fn record(a: &Args) {
    std::panic::set_hook(Box::new(|_| {}));
    let mut rng = Rng::new(a.num("seed", 1));
    let mut out = Out::file(a.req("out"));
    for c in 0..a.num("cases", 50) {
        let k = 2 + rng.below(4) as usize;
        let nrev = 1 + rng.below(7) as usize;
        let mut revs: Vec<Value> = Vec::new();
        for r in 0..nrev {
            let form = if rng.chance(1, 2) { "table" } else { "stream" };
            let ops: Vec<&str> = (0..k)
                .map(|_| match rng.below(10) {
                    0..=3 => "keep",
                    4..=6 => "direct",
                    7 | 8 => if form == "stream" { "instm" } else { "direct" },
                    _ => if r == 0 { "keep" } else { "free" },
                })
                .collect();
            revs.push(json!({"form": form, "ops": ops}));
        }
        out.line(&json!({"ev": "reset", "case": c, "objects": k}));
        for r in &revs {
            out.line(&json!({"ev": "rev", "form": r["form"], "ops": r["ops"]}));
        }
        let layout = synth::build(&plan_for(&revs));
        let opts = match c % 3 { 0 => ParseOptions::default(), 1 => ParseOptions::strict(), _ => ParseOptions::lenient() };
        let mut gens = vec![0u16; k];
        for r in &revs {
            for (i, o) in ops_of(r).iter().enumerate() {
                if o == "free" {
                    gens[i] += 1;
                }
            }
        }
        let res = std::panic::catch_unwind(move || {
            let mut rd = PdfReader::new_with_options(Cursor::new(layout.bytes), opts).map_err(|e| e.to_string())?;
            let mut v = Vec::new();
            for i in 0..k {
                v.push(read_marker(&mut rd, (i + 1) as u32, gens[i]));
            }
            Ok::<_, String>((v, gens))
        });
        match res {
            Ok(Ok((vals, gens))) => {
                out.line(&json!({"ev": "open", "preset": (["default", "strict", "lenient"][(c % 3) as usize])}));
                for (i, v) in vals.iter().enumerate() {
                    // null, or "missing" for a number no revision ever mentioned, are both the null object
                    let never = revs.iter().all(|r| ops_of(r)[i] == "keep");
                    let value = match v["kind"].as_str().unwrap() {
                        "int" => v["v"].as_i64().unwrap(),
                        "null" => 0,
                        "error" if never => 0,
                        _ => -1,
                    };
                    out.line(&json!({"ev": "read", "n": i + 1, "g": gens[i], "value": value, "raw": v}));
                }
            }
            Ok(Err(e)) => out.line(&json!({"ev": "open_failed", "msg": e})),
            Err(_) => out.line(&json!({"ev": "panic"})),
        }
    }
}
