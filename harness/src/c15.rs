//! C15 - the document-to-chunks pipeline preserves content and provenance.
//!
//! A case (MCDocFlow.tla) is an abstract document: pages of blocks (headings of three levels, paragraphs, list items,
//! tables), each carrying a unique marker.  The document is authored with the library's own API (headings by font
//! size and weight), written, reopened, chunked twice; what each chunk says is recorded.
use crate::util::*;
use oxidize_pdf::parser::{PdfDocument, PdfReader};
use oxidize_pdf::pipeline::{ContextFormat, ContextMode, HybridChunkConfig};
use oxidize_pdf::text::Table;
use oxidize_pdf::{Document, Font, Page};
use serde_json::{json, Value};
use std::io::Cursor;

pub fn main(a: &Args) {
    match a.pos.first().map(|s| s.as_str()) {
        Some("run") => run(a),
        Some("elements") => elements(a),
        _ => tool_error("c15 run"),
    }
}

// sentences: a budget below a paragraph's length splits it at sentence ends
const FILL: [&str; 6] = ["alpha beta gamma delta.", "Lorem ipsum dolor sit amet.", "Quick brown fox jumps.", "Over the lazy dog today.", "Seven eight nine ten.", "Red green blue yellow."];

fn author(c: &Value) -> Result<Vec<u8>, String> {
    let mut doc = Document::new();
    doc.set_title("DocFlow");
    for blocks in c["pages"].as_array().unwrap() {
        let mut page = Page::a4();
        let mut y = 790.0;
        for b in blocks.as_array().unwrap() {
            let id = b["id"].as_u64().unwrap();
            match b["kind"].as_str().unwrap() {
                k @ ("h1" | "h2" | "h3") => {
                    let size = match k { "h1" => 24.0, "h2" => 18.0, _ => 14.0 };
                    y -= 34.0;
                    page.text().set_font(Font::HelveticaBold, size).at(72.0, y).write(&format!("H{id}X Section heading")).map_err(|e| e.to_string())?;
                    y -= 12.0;
                }
                "p" => {
                    y -= 22.0;
                    let lines = b["lines"].as_u64().unwrap_or(1);
                    for ln in 0..lines {
                        // every line opens with its own marker (X, B, C)
                        let text = if ln == 0 { format!("P{id}X {}", FILL[(id as usize) % 6]) } else { format!("P{id}{} {} {}", if ln == 1 { 'B' } else { 'C' }, FILL[(id as usize + ln as usize) % 6], FILL[(id as usize + 2 * ln as usize + 1) % 6]) };
                        page.text().set_font(Font::Helvetica, 10.0).at(72.0, y).write(&text).map_err(|e| e.to_string())?;
                        if ln + 1 < lines {
                            y -= 12.0;
                        }
                    }
                }
                "li" => {
                    y -= 16.0;
                    page.text().set_font(Font::Helvetica, 10.0).at(90.0, y).write(&format!("- L{id}X {}", FILL[(id as usize) % 6])).map_err(|e| e.to_string())?;
                }
                "tb" => {
                    y -= 24.0;
                    let mut t = Table::new(vec![150.0, 150.0]);
                    t.set_position(72.0, y);
                    if id % 2 == 1 {
                        // a table set smaller than the prose around it
                        let mut o = t.options().clone();
                        o.font_size = 7.0;
                        t.set_options(o);
                    }
                    t.add_header_row(vec![format!("T{id}A name"), format!("T{id}B value")]).map_err(|e| e.to_string())?;
                    t.add_row(vec![format!("T{id}C one"), format!("T{id}D two")]).map_err(|e| e.to_string())?;
                    let h = t.get_height();
                    page.add_table(&t).map_err(|e| e.to_string())?;
                    y -= h;
                }
                other => return Err(format!("block kind {other}")),
            }
            if y < 60.0 {
                return Err("page overflow in the generator".into());
            }
        }
        doc.add_page(page);
    }
    doc.to_bytes().map_err(|e| e.to_string())
}

fn config_of(c: &Value) -> HybridChunkConfig {
    HybridChunkConfig {
        max_tokens: c["maxTokens"].as_u64().unwrap_or(512) as usize,
        merge_adjacent: c["mergeAdjacent"].as_bool().unwrap_or(true),
        propagate_headings: c["propagate"].as_bool().unwrap_or(true),
        context_mode: match c["context"].as_str().unwrap_or("heading") {
            "none" => ContextMode::None,
            "contextual" => ContextMode::Contextual(ContextFormat::Labeled),
            _ => ContextMode::Heading,
        },
        ..Default::default()
    }
}

/// markers ([HPLT]<digits>[XABCD]) in a text, in order of appearance, without repetition
fn markers(text: &str) -> Vec<String> {
    let b = text.as_bytes();
    let mut out: Vec<String> = Vec::new();
    let mut i = 0;
    while i < b.len() {
        if matches!(b[i], b'H' | b'P' | b'L' | b'T') && (i == 0 || !b[i - 1].is_ascii_alphanumeric()) {
            let mut j = i + 1;
            while j < b.len() && b[j].is_ascii_digit() {
                j += 1;
            }
            if j > i + 1 && j < b.len() && matches!(b[j], b'X' | b'A' | b'B' | b'C' | b'D') {
                let m = String::from_utf8_lossy(&b[i..=j]).to_string();
                if !out.contains(&m) {
                    out.push(m);
                }
                i = j;
            }
        }
        i += 1;
    }
    out
}

fn chunk_run(bytes: &[u8], cfg: &Value) -> Result<(Vec<Value>, String), String> {
    let reader = PdfReader::new(Cursor::new(bytes.to_vec())).map_err(|e| e.to_string())?;
    let doc = PdfDocument::new(reader);
    let chunks = doc.rag_chunks_with(config_of(cfg)).map_err(|e| e.to_string())?;
    let mut out = Vec::new();
    let mut ser = String::new();
    for c in &chunks {
        out.push(json!({"index": c.chunk_index, "markers": markers(&c.text), "occurrences": markers(&c.text).iter().map(|m| c.text.matches(m.as_str()).count()).collect::<Vec<_>>(),
                        "pages": c.page_numbers, "path": c.metadata.heading_path.iter().map(|h| markers(h).first().cloned().unwrap_or_else(|| "?".to_string())).collect::<Vec<_>>(),
                        "pathLen": c.metadata.heading_path.len(), "id": c.metadata.chunk_id, "types": c.element_types, "text": c.text.chars().take(160).collect::<String>()}));
        ser.push_str(&format!("{}|{}|{}|{:?}|{:?}|{}\n", c.chunk_index, c.metadata.chunk_id, c.text, c.page_numbers, c.metadata.heading_path, c.full_text));
    }
    Ok((out, ser))
}

fn run(a: &Args) {
    std::panic::set_hook(Box::new(|_| {}));
    let mut out = Out::file(a.req("out"));
    for (ci, c) in read_cases(a.req("in")).iter().enumerate() {
        let c2 = c.clone();
        let r = std::panic::catch_unwind(move || -> Result<Value, String> {
            let bytes = author(&c2)?;
            let (first, s1) = chunk_run(&bytes, &c2["cfg"])?;
            let (_, s2) = chunk_run(&bytes, &c2["cfg"])?;
            // a second authoring of the same abstract document: identifiers must not depend on run-specific bytes (dates)
            let bytes2 = author(&c2)?;
            let (third, _) = chunk_run(&bytes2, &c2["cfg"])?;
            let ids = |v: &Vec<Value>| v.iter().map(|x| x["id"].clone()).collect::<Vec<_>>();
            Ok(json!({"chunks": first, "again": s1 == s2, "sameIdsReauthored": ids(&first) == ids(&third)}))
        });
        let mut ev = c.as_object().unwrap().clone();
        ev.insert("ev".into(), json!("doc"));
        ev.insert("case".into(), json!(ci));
        match r {
            Ok(Ok(v)) => {
                ev.insert("ok".into(), json!(true));
                ev.insert("err".into(), json!(""));
                ev.insert("chunks".into(), v["chunks"].clone());
                ev.insert("again".into(), v["again"].clone());
                ev.insert("sameIdsReauthored".into(), v["sameIdsReauthored"].clone());
            }
            Ok(Err(e)) => {
                ev.insert("ok".into(), json!(false));
                ev.insert("err".into(), json!(e));
                ev.insert("chunks".into(), json!([]));
                ev.insert("again".into(), json!(false));
                ev.insert("sameIdsReauthored".into(), json!(false));
            }
            Err(_) => {
                ev.insert("ok".into(), json!(false));
                ev.insert("err".into(), json!("panic"));
                ev.insert("chunks".into(), json!([]));
                ev.insert("again".into(), json!(false));
                ev.insert("sameIdsReauthored".into(), json!(false));
            }
        }
        out.line(&Value::Object(ev));
    }
    out.flush();
}

/// debugging aid: the partition elements and the raw text fragments of each case
fn elements(a: &Args) {
    for c in read_cases(a.req("in")) {
        let bytes = author(&c).unwrap();
        let reader = PdfReader::new(Cursor::new(bytes)).unwrap();
        let doc = PdfDocument::new(reader);
        for e in doc.partition().unwrap() {
            let b = e.bbox();
            println!("{:?} p{} [{:.0} {:.0} {:.0} {:.0}] {:?}", e.type_name(), e.page(), b.x, b.y, b.width, b.height, e.text().chars().take(70).collect::<String>());
        }
        let opts = oxidize_pdf::text::ExtractionOptions { preserve_layout: true, ..Default::default() };
        let mut ex = oxidize_pdf::text::TextExtractor::with_options(opts);
        for f in ex.extract_from_page(&doc, 0).unwrap().fragments {
            println!("   frag [{:.0} {:.0} {:.0} {:.0}] {:?}", f.x, f.y, f.width, f.height, f.text);
        }
    }
}
