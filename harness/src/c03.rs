//! C02 / C03 (and the file-level part of C20): documents authored through the public API, written under every
//! writer configuration, handed to the reference file reader PdfFile.tla and re-opened by the library.
use crate::proj::*;
use crate::util::*;
use oxidize_pdf::parser::{ParseOptions, PdfReader};
use oxidize_pdf::writer::WriterConfig;
use oxidize_pdf::{Document, Page};
use serde_json::{json, Value};
use std::io::Cursor;
use std::sync::atomic::{AtomicU64, Ordering};
use std::sync::Arc;

pub fn main(a: &Args) {
    match a.pos.first().map(|s| s.as_str()) {
        Some("run") => run(a),
        Some("digest") => digest(a),
        Some("free") => free_clock(a),
        _ => tool_error("c03 run|digest|free"),
    }
}

fn cps_text(v: &Value) -> String {
    v.as_array().map(|a| a.iter().map(|x| char::from_u32(x.as_u64().unwrap() as u32).unwrap()).collect()).unwrap_or_default()
}

pub fn build_doc(p: &Value) -> Result<Document, String> {
    build_doc_ex(p).map(|(d, _)| d)
}

/// Register the resources a page program names; returns per resource whether the API accepted the name.
fn add_resources(page: &mut Page, pg: &Value) -> Vec<bool> {
    use oxidize_pdf::graphics::{AxialShading, Color, FormXObject, Image, Point, ShadingDefinition};
    let mut acc = Vec::new();
    for r in pg["resources"].as_array().map(|a| a.as_slice()).unwrap_or(&[]) {
        let name = crate::c21::name(r);
        let ok = match r["kind"].as_str().unwrap() {
            "image" => {
                page.add_image(name.clone(), Image::from_gray_data(vec![128u8], 1, 1).unwrap());
                true
            }
            "shading" => page
                .add_shading(name.clone(), ShadingDefinition::Axial(AxialShading::linear_gradient(name.clone(), Point::new(0.0, 0.0), Point::new(10.0, 0.0), Color::Gray(0.0), Color::Gray(1.0))))
                .is_ok(),
            "form" => page.add_form_xobject(name.clone(), FormXObject::new(oxidize_pdf::geometry::Rectangle::from_position_and_size(0.0, 0.0, 10.0, 10.0))).is_ok(),
            other => tool_error(&format!("resource kind {other}")),
        };
        acc.push(ok);
    }
    acc
}

/// Is the call one that uses a resource the API refused?  (Then the program could not have made it.)
fn uses_rejected(c: &Value, pg: &Value, acc: &[bool]) -> bool {
    if !matches!(c["c"].as_str().unwrap(), "draw_image" | "paint_shading") {
        return false;
    }
    let nm = &c["name"];
    pg["resources"].as_array().map(|a| a.iter().zip(acc.iter()).any(|(r, ok)| &r["name"] == nm && !ok)).unwrap_or(false)
}


fn rect_of(a: &Value) -> oxidize_pdf::geometry::Rectangle {
    use oxidize_pdf::geometry::{Point, Rectangle};
    let r: Vec<f64> = a["rect"].as_array().map(|v| v.iter().map(|x| x.as_f64().unwrap()).collect()).unwrap_or_default();
    if r.len() == 4 {
        Rectangle::new(Point::new(r[0], r[1]), Point::new(r[2], r[3]))
    } else {
        Rectangle::new(Point::new(0.0, 0.0), Point::new(0.0, 0.0))
    }
}

/// One authored annotation (interactive documents, MCDocX): every kind goes through the typed builder the API offers.
fn annot_of(a: &Value) -> Result<oxidize_pdf::annotations::Annotation, String> {
    use oxidize_pdf::annotations::*;
    use oxidize_pdf::geometry::Point;
    let rect = rect_of(a);
    let text = cps_text(&a["text"]);
    let has_text = !a["text"].is_null();
    Ok(match a["k"].as_str().unwrap() {
        "text" => {
            let x = Annotation::new(AnnotationType::Text, rect);
            if has_text { x.with_contents(text) } else { x }
        }
        "note" => {
            let x = TextAnnotation::new(Point::new(rect.lower_left.x, rect.lower_left.y));
            (if has_text { x.with_contents(text) } else { x }).to_annotation()
        }
        "uri" => LinkAnnotation::to_uri(rect, cps_text(&a["uri"])).to_annotation(),
        k @ ("highlight" | "underline" | "strikeout" | "squiggly") => {
            let x = match k {
                "highlight" => MarkupAnnotation::highlight(rect),
                "underline" => MarkupAnnotation::underline(rect),
                "strikeout" => MarkupAnnotation::strikeout(rect),
                _ => MarkupAnnotation::squiggly(rect),
            };
            let x = if has_text { x.with_contents(text) } else { x };
            let x = if a["author"].is_null() { x } else { x.with_author(cps_text(&a["author"])) };
            x.to_annotation()
        }
        "square" => {
            let x = SquareAnnotation::new(rect);
            x.to_annotation()
        }
        "circle" => {
            let x = CircleAnnotation::new(rect);
            x.to_annotation()
        }
        "line" => LineAnnotation::new(Point::new(rect.lower_left.x, rect.lower_left.y), Point::new(rect.upper_right.x, rect.upper_right.y)).to_annotation(),
        "freetext" => FreeTextAnnotation::new(rect, text).to_annotation(),
        "stamp" => StampAnnotation::new(rect, if a["name"].is_null() { StampName::Approved } else { StampName::Custom(cps_text(&a["name"])) }).to_annotation(),
        "ink" => InkAnnotation::new()
            .add_stroke(vec![Point::new(rect.lower_left.x, rect.lower_left.y), Point::new(rect.upper_right.x, rect.lower_left.y), Point::new(rect.upper_right.x, rect.upper_right.y)])
            .to_annotation(),
        "polygon" => PolygonAnnotation::new(vec![Point::new(rect.lower_left.x, rect.lower_left.y), Point::new(rect.upper_right.x, rect.lower_left.y), Point::new(rect.upper_right.x, rect.upper_right.y)])
            .to_annotation()
            .map_err(|e| e.to_string())?,
        other => tool_error(&format!("annotation kind {other}")),
    })
}

/// The form fields of an interactive document: (FormManager, per field its reference)
fn fields_of(p: &Value) -> Result<(oxidize_pdf::forms::FormManager, Vec<oxidize_pdf::objects::ObjectReference>), String> {
    use oxidize_pdf::forms::*;
    let mut fm = FormManager::new();
    let mut refs = Vec::new();
    for f in p["fields"].as_array().map(|a| a.as_slice()).unwrap_or(&[]) {
        let name = cps_text(&f["name"]);
        let value = cps_text(&f["value"]);
        let has_value = !f["value"].is_null();
        // the widgets the field manager keeps are the ones placed on pages (same rectangles)
        let widgets: Vec<Widget> = p["pages"].as_array().unwrap().iter()
            .flat_map(|pg| pg["annots"].as_array().map(|a| a.to_vec()).unwrap_or_default())
            .filter(|a| a["k"] == "widget" && a["field"] == f["id"])
            .map(|a| Widget::new(rect_of(&a)))
            .collect();
        let w0 = widgets.first().cloned().unwrap_or_else(|| Widget::new(rect_of(f)));
        let r = match f["k"].as_str().unwrap() {
            "text" => {
                let t = TextField::new(name);
                fm.add_text_field(if has_value { t.with_value(value) } else { t }, w0, None)
            }
            "check" => {
                let c = CheckBox::new(name);
                let c = if has_value { c.with_export_value(value) } else { c };
                fm.add_checkbox(if f["on"].as_bool().unwrap_or(false) { c.checked() } else { c }, w0, None)
            }
            "radio" => {
                let mut rb = RadioButton::new(name);
                for o in f["options"].as_array().unwrap() {
                    rb = rb.add_option(cps_text(o), cps_text(o));
                }
                if let Some(i) = f["selected"].as_u64() {
                    rb = rb.with_selected(i as usize);
                }
                fm.add_radio_buttons(rb, widgets.clone(), None)
            }
            "combo" => {
                let mut cb = ComboBox::new(name);
                for o in f["options"].as_array().unwrap() {
                    cb = cb.add_option(cps_text(o), cps_text(o));
                }
                fm.add_combo_box(if has_value { cb.with_value(value) } else { cb }, w0, None)
            }
            "list" => {
                let mut lb = ListBox::new(name);
                for o in f["options"].as_array().unwrap() {
                    lb = lb.add_option(cps_text(o), cps_text(o));
                }
                fm.add_list_box(lb, w0, None)
            }
            "push" => fm.add_push_button(PushButton::new(name), w0, None),
            other => tool_error(&format!("field kind {other}")),
        };
        refs.push(r.map_err(|e| e.to_string())?);
    }
    Ok((fm, refs))
}

/// Annotations and widgets of one page, in the order the program lists them
fn add_annots(page: &mut Page, pg: &Value, p: &Value, refs: &[oxidize_pdf::objects::ObjectReference]) -> Result<(), String> {
    for a in pg["annots"].as_array().map(|a| a.as_slice()).unwrap_or(&[]) {
        if a["k"] == "widget" {
            let idx = p["fields"].as_array().unwrap().iter().position(|f| f["id"] == a["field"]).ok_or("widget of an unknown field")?;
            page.add_form_widget_with_ref(oxidize_pdf::forms::Widget::new(rect_of(a)), refs[idx]).map_err(|e| e.to_string())?;
        } else {
            page.add_annotation(annot_of(a)?);
        }
    }
    Ok(())
}

/// The logical structure tree of a tagged document (MCDoc.DocT): elements in insertion order, each under an earlier one
fn struct_tree_of(p: &Value) -> Result<Option<oxidize_pdf::structure::StructTree>, String> {
    use oxidize_pdf::structure::{StandardStructureType as S, StructTree, StructureElement};
    let Some(tags) = p["tags"].as_array() else { return Ok(None) };
    if tags.is_empty() {
        return Ok(None);
    }
    let mut tree = StructTree::new();
    for (i, t) in tags.iter().enumerate() {
        let ty = cps_text(&t["type"]);
        let mut e = match ty.as_str() {
            "Document" => StructureElement::new(S::Document),
            "Sect" => StructureElement::new(S::Sect),
            "P" => StructureElement::new(S::P),
            "H1" => StructureElement::new(S::H1),
            "Span" => StructureElement::new(S::Span),
            "Figure" => StructureElement::new(S::Figure),
            "Div" => StructureElement::new(S::Div),
            other => StructureElement::new_custom(other.to_string()),
        };
        if !t["lang"].is_null() { e = e.with_language(cps_text(&t["lang"])); }
        if !t["alt"].is_null() { e = e.with_alt_text(cps_text(&t["alt"])); }
        if !t["actual"].is_null() { e = e.with_actual_text(cps_text(&t["actual"])); }
        if !t["title"].is_null() { e = e.with_title(cps_text(&t["title"])); }
        if !t["id"].is_null() { e = e.with_id(cps_text(&t["id"])); }
        for m in t["mcids"].as_array().map(|a| a.as_slice()).unwrap_or(&[]) {
            e.add_mcid(m[0].as_u64().unwrap() as usize - 1, m[1].as_u64().unwrap() as u32);
        }
        let parent = t["parent"].as_u64().unwrap() as usize;
        if parent == 0 {
            if i != 0 { return Err("only the first element may be the root".into()); }
            tree.set_root(e);
        } else {
            tree.add_child(parent - 1, e)?;
        }
    }
    Ok(Some(tree))
}

pub fn build_doc_ex(p: &Value) -> Result<(Document, Vec<Vec<bool>>), String> {
    let mut accepted: Vec<Vec<bool>> = Vec::new();
    let mut doc = Document::new();
    let info = &p["info"];
    if !info["title"].is_null() { doc.set_title(cps_text(&info["title"])); }
    if !info["author"].is_null() { doc.set_author(cps_text(&info["author"])); }
    if !info["subject"].is_null() { doc.set_subject(cps_text(&info["subject"])); }
    if !info["keywords"].is_null() { doc.set_keywords(cps_text(&info["keywords"])); }
    if !info["creator"].is_null() { doc.set_creator(cps_text(&info["creator"])); }
    if !info["producer"].is_null() { doc.set_producer(cps_text(&info["producer"])); }
    // the clock is held fixed (C20): 2024-01-02 03:04:05 UTC
    let fixed = chrono_fixed();
    doc.set_creation_date(fixed);
    doc.set_modification_date(fixed);
    let (fm, frefs) = fields_of(p)?;
    for pg in p["pages"].as_array().unwrap() {
        let mut page = Page::new(pg["w"].as_f64().unwrap(), pg["h"].as_f64().unwrap());
        let rot = pg["rot"].as_i64().unwrap_or(0);
        if rot != 0 {
            page.set_rotation(rot as i32);
        }
        let acc = add_resources(&mut page, pg);
        for c in pg["prog"].as_array().unwrap() {
            if uses_rejected(c, pg, &acc) {
                continue;
            }
            match pg["kind"].as_str().unwrap() {
                "g" => crate::c21::g_call(page.graphics(), c)?,
                _ => match c["c"].as_str().unwrap() {
                    "begin_marked_content" => { page.begin_marked_content(&crate::c21::name(c)).map_err(|e| e.to_string())?; }
                    "begin_marked_content_with_actual_text" => { page.begin_marked_content_with_actual_text(&crate::c21::name(c), &crate::c21::text(c)).map_err(|e| e.to_string())?; }
                    "end_marked_content" => { page.end_marked_content().map_err(|e| e.to_string())?; }
                    _ => crate::c21::text_call(page.text(), c)?,
                },
            }
        }
        add_annots(&mut page, pg, p, &frefs)?;
        accepted.push(acc);
        doc.add_page(page);
    }
    if !frefs.is_empty() {
        doc.set_form_manager(fm);
        // fields filled after the document was assembled (Document::fill_field: /V and regenerated appearances)
        for f in p["fields"].as_array().unwrap() {
            if !f["fill"].is_null() {
                doc.fill_field(&cps_text(&f["name"]), cps_text(&f["fill"])).map_err(|e| format!("fill_field: {e}"))?;
            }
        }
    }
    if let Some(tree) = struct_tree_of(p)? {
        doc.set_struct_tree(tree);
    }
    Ok((doc, accepted))
}

fn chrono_fixed() -> chrono::DateTime<chrono::Utc> {
    use chrono::TimeZone;
    chrono::Utc.with_ymd_and_hms(2024, 1, 2, 3, 4, 5).unwrap()
}

/// Serialise through PdfWriter directly: Document::to_bytes* overwrite the modification date with the wall clock,
/// the writer itself takes the dates the caller set (this is how the clock is held fixed).
pub fn write_doc(doc: &mut Document, cfg: &Value) -> Result<Vec<u8>, String> {
    let mut buf = Vec::new();
    {
        let mut w = oxidize_pdf::writer::PdfWriter::with_config(&mut buf, config_of(cfg));
        w.write_document(doc).map_err(|e| e.to_string())?;
    }
    Ok(buf)
}

pub fn config_of(c: &Value) -> WriterConfig {
    WriterConfig {
        use_xref_streams: c["xref"].as_bool().unwrap(),
        use_object_streams: c["objstm"].as_bool().unwrap(),
        pdf_version: c["version"].as_str().unwrap().to_string(),
        compress_streams: c["compress"].as_bool().unwrap(),
        incremental_update: false,
    }
}

struct Rec {
    recovery: AtomicU64,
}
impl oxidize_pdf::verif::Sink for Rec {
    fn event(&self, point: &'static str, _a: i64, _b: i64) {
        if point == "xref_recovery" {
            self.recovery.fetch_add(1, Ordering::SeqCst);
        }
    }
}

/// What the library's own reader makes of the bytes: strict open, every object, the page list with content.
pub fn library_view(bytes: &[u8], numbers: Vec<u32>) -> Value {
    let rec = Arc::new(Rec { recovery: AtomicU64::new(0) });
    oxidize_pdf::verif::install(Some(rec.clone()));
    let b = bytes.to_vec();
    let r = std::panic::catch_unwind(move || {
        let mut out = json!({"open": false, "objects": {}, "pages": [], "err": "", "pageCount": -1});
        let mut reader = match PdfReader::new_with_options(Cursor::new(b), ParseOptions::strict()) {
            Ok(r) => r,
            Err(e) => {
                out["err"] = json!(e.to_string());
                return out;
            }
        };
        out["open"] = json!(true);
        let mut objs = serde_json::Map::new();
        for n in numbers {
            match reader.get_object(n, 0) {
                Ok(o) => {
                    objs.insert(n.to_string(), pobj_json(o));
                }
                Err(e) => {
                    objs.insert(n.to_string(), json!({"t": "error", "msg": e.to_string()}));
                }
            }
        }
        out["objects"] = Value::Object(objs);
        out["pageCount"] = match reader.page_count() {
            Ok(n) => json!(n),
            Err(_) => json!(-1),
        };
        let doc = reader.into_document();
        let mut pages = Vec::new();
        let n = doc.page_count().unwrap_or(0);
        for i in 0..n.min(400) {
            match doc.get_page(i) {
                Ok(pg) => {
                    let streams = doc.get_page_content_streams(&pg);
                    let (ops, perr) = match &streams {
                        Ok(ss) => {
                            let mut all = Vec::new();
                            for s in ss {
                                all.extend_from_slice(s);
                                all.push(b'\n');
                            }
                            let (p, strict) = crate::c21::parsed_json(&all);
                            (json!({"parsed": p, "strict": strict, "bytes": all}), String::new())
                        }
                        Err(e) => (json!({"parsed": {"ok": false, "ops": [], "err": "no content"}, "strict": false, "bytes": []}), e.to_string()),
                    };
                    let annots: Vec<Value> = match doc.get_page_annotations(i) {
                        Ok(v) => v.iter().map(pdict_json).collect(),
                        Err(e) => vec![json!({"t": "error", "msg": e.to_string()})],
                    };
                    pages.push(json!({"ok": true, "annots": annots, "mediaBox": micro(&pg.media_box), "cropBox": pg.crop_box.map(|b| micro(&b)).unwrap_or_default(), "rotate": pg.rotation, "content": ops, "err": perr}));
                }
                Err(e) => pages.push(json!({"ok": false, "err": e.to_string()})),
            }
        }
        out["pages"] = json!(pages);
        out
    });
    oxidize_pdf::verif::install(None);
    let mut v = r.unwrap_or_else(|_| json!({"open": false, "objects": {}, "pages": [], "err": "panic", "pageCount": -1}));
    v["recovery"] = json!(rec.recovery.load(Ordering::SeqCst));
    v
}

/// box coordinates in millionths (TLC has no reals), clamped to what fits 32 bits
fn micro(b: &[f64; 4]) -> Vec<i64> {
    b.iter().map(|x| ((x * 1e6).round() as i64).clamp(-2_000_000_000, 2_000_000_000)).collect()
}

/// Object numbers to ask the library about: every `N G obj` header in the bytes (plain scan) and every number up
/// to the largest small one (objects inside object streams have no header in the clear).
pub fn object_numbers(bytes: &[u8]) -> Vec<u32> {
    let mut set = std::collections::BTreeSet::new();
    let pat = b" obj";
    let mut i = 0;
    while i + 4 <= bytes.len() {
        if &bytes[i..i + 4] == pat {
            let mut j = i;
            while j > 0 && bytes[j - 1].is_ascii_digit() { j -= 1; }
            if j > 0 && bytes[j - 1] == b' ' {
                let mut k = j - 1;
                while k > 0 && bytes[k - 1].is_ascii_digit() { k -= 1; }
                if let Ok(s) = std::str::from_utf8(&bytes[k..j - 1]) {
                    if let Ok(n) = s.parse::<u32>() {
                        set.insert(n);
                    }
                }
            }
        }
        i += 1;
    }
    let small = set.iter().filter(|n| **n < 5000).max().copied().unwrap_or(0);
    for n in 1..=(small + 40).min(5000) {
        set.insert(n);
    }
    set.into_iter().filter(|n| *n > 0).collect()
}

fn run(a: &Args) {
    std::panic::set_hook(Box::new(|_| {}));
    let mut out = Out::file(a.req("out"));
    for (ci, p) in read_cases(a.req("in")).iter().enumerate() {
        let p2 = p.clone();
        let built = std::panic::catch_unwind(move || -> Result<Vec<Vec<u8>>, String> {
            // written three times (C20): twice from one Document value, once from a rebuilt one
            let mut d1 = build_doc(&p2)?;
            let b1 = write_doc(&mut d1, &p2["cfg"])?;
            let b2 = write_doc(&mut d1, &p2["cfg"])?;
            let mut d3 = build_doc(&p2)?;
            let b3 = write_doc(&mut d3, &p2["cfg"])?;
            Ok(vec![b1, b2, b3])
        });
        let accepted = build_doc_ex(p).map(|(_, a)| a).unwrap_or_default();
        let mut ev = json!({"ev": "file", "case": ci, "prog": p, "accepted": accepted});
        match built {
            Ok(Ok(bs)) => {
                let bytes = &bs[0];
                ev["built"] = json!(true);
                ev["bytes"] = json!(bytes);
                ev["same2"] = json!(bs[1] == bs[0]);
                ev["same3"] = json!(bs[2] == bs[0]);
                ev["lib"] = library_view(bytes, object_numbers(bytes));
            }
            Ok(Err(e)) => {
                ev["built"] = json!(false);
                ev["bytes"] = json!([]);
                ev["err"] = json!(e);
            }
            Err(_) => {
                ev["built"] = json!(false);
                ev["bytes"] = json!([]);
                ev["err"] = json!("panic");
            }
        }
        out.line(&ev);
        out.line(&json!({"ev": "chk_file"}));
        out.line(&json!({"ev": "chk_lib"}));
        out.line(&json!({"ev": "chk_pages"}));
        out.line(&json!({"ev": "chk_resources"}));
        out.line(&json!({"ev": "chk_interactive"}));
        out.line(&json!({"ev": "chk_tagged"}));
    }
    out.flush();
}

/// C20: SHA-256 of three serialisations per document (two of one Document value, one of a rebuilt one), clock fixed.
/// A document with interactive form fields (FormManager): three text fields and a checkbox with two appearance streams.
fn form_doc() -> Result<Document, String> {
    use oxidize_pdf::forms::{CheckBox, FormManager, TextField, Widget, WidgetAppearance};
    use oxidize_pdf::geometry::{Point, Rectangle};
    let mut doc = Document::new();
    doc.set_title("form");
    let fixed = chrono_fixed();
    doc.set_creation_date(fixed);
    doc.set_modification_date(fixed);
    let mut page = Page::a4();
    let mut fm = FormManager::new();
    for i in 0..3 {
        let y = 700.0 - 30.0 * i as f64;
        let widget = Widget::new(Rectangle::new(Point::new(100.0, y), Point::new(300.0, y + 20.0))).with_appearance(WidgetAppearance::default());
        let field = TextField::new(format!("f{i}")).with_value(format!("value {i}"));
        let fref = fm.add_text_field(field, widget.clone(), None).map_err(|e| e.to_string())?;
        page.add_form_widget_with_ref(widget, fref).map_err(|e| e.to_string())?;
    }
    let widget = Widget::new(Rectangle::new(Point::new(100.0, 560.0), Point::new(115.0, 575.0))).with_appearance(WidgetAppearance::default());
    let cref = fm.add_checkbox(CheckBox::new("agree").checked(), widget.clone(), None).map_err(|e| e.to_string())?;
    page.add_form_widget_with_ref(widget, cref).map_err(|e| e.to_string())?;
    doc.add_page(page);
    doc.set_form_manager(fm);
    Ok(doc)
}

fn digest(a: &Args) {
    use sha2::{Digest, Sha256};
    std::panic::set_hook(Box::new(|_| {}));
    let mut out = Out::file(a.req("out"));
    let proc_id = a.num("proc", 0);
    // form documents under four configurations: the same Document value serialised three times, and a rebuilt one
    for (k, cfg) in [json!({"xref": false, "objstm": false, "compress": true, "version": "1.7"}), json!({"xref": true, "objstm": false, "compress": true, "version": "1.5"}),
                     json!({"xref": true, "objstm": true, "compress": true, "version": "1.5"}), json!({"xref": false, "objstm": false, "compress": false, "version": "1.4"})].iter().enumerate() {
        let cfg2 = cfg.clone();
        let r = std::panic::catch_unwind(move || -> Result<Vec<Vec<u8>>, String> {
            let mut d1 = form_doc()?;
            let b1 = write_doc(&mut d1, &cfg2)?;
            let b2 = write_doc(&mut d1, &cfg2)?;
            let b3 = write_doc(&mut d1, &cfg2)?;
            let mut d4 = form_doc()?;
            let b4 = write_doc(&mut d4, &cfg2)?;
            Ok(vec![b1, b2, b3, b4])
        });
        match r {
            Ok(Ok(bs)) => {
                for (rep, b) in bs.iter().enumerate() {
                    out.line(&json!({"ev": "ser", "key": format!("form{k}"), "proc": proc_id, "rep": rep, "digest": Sha256::digest(b).to_vec(), "len": b.len(), "cfg": cfg}));
                }
            }
            _ => out.line(&json!({"ev": "ser", "key": format!("form{k}"), "proc": proc_id, "rep": 0, "digest": [], "len": 0, "cfg": cfg})),
        }
    }
    for (ci, p) in read_cases(a.req("in")).iter().enumerate() {
        let p2 = p.clone();
        let r = std::panic::catch_unwind(move || -> Result<Vec<Vec<u8>>, String> {
            let mut d1 = build_doc(&p2)?;
            let b1 = write_doc(&mut d1, &p2["cfg"])?;
            let b2 = write_doc(&mut d1, &p2["cfg"])?;
            let mut d3 = build_doc(&p2)?;
            let b3 = write_doc(&mut d3, &p2["cfg"])?;
            Ok(vec![b1, b2, b3])
        });
        if let Ok(Ok(bs)) = r {
            for (rep, b) in bs.iter().enumerate() {
                let d = Sha256::digest(b);
                out.line(&json!({"ev": "ser", "key": format!("d{ci}"), "proc": proc_id, "rep": rep, "digest": d.to_vec(), "len": b.len(), "cfg": p["cfg"]}));
            }
        } else {
            out.line(&json!({"ev": "ser", "key": format!("d{ci}"), "proc": proc_id, "rep": 0, "digest": [], "len": 0, "cfg": p["cfg"]}));
        }
    }
    out.flush();
}

fn find_all(hay: &[u8], needle: &[u8]) -> Vec<usize> {
    let mut v = Vec::new();
    let mut i = 0;
    while i + needle.len() <= hay.len() {
        if &hay[i..i + needle.len()] == needle {
            v.push(i);
        }
        i += 1;
    }
    v
}

/// C20, clock running: two Document::to_bytes_with_config calls (they stamp the modification date themselves),
/// more than a second apart; where the outputs differ and where the explicitly time-dependent fields are.
fn free_clock(a: &Args) {
    std::panic::set_hook(Box::new(|_| {}));
    let mut out = Out::file(a.req("out"));
    let limit = a.num("cases", 4) as usize;
    let mut done = 0;
    for (ci, p) in read_cases(a.req("in")).iter().enumerate() {
        if p["cfg"]["compress"].as_bool().unwrap() || p["cfg"]["xref"].as_bool().unwrap() || done >= limit {
            continue; // the time fields must be visible in the clear to be located
        }
        done += 1;
        let mut doc = match build_doc(p) {
            Ok(d) => d,
            Err(_) => continue,
        };
        let b1 = doc.to_bytes_with_config(config_of(&p["cfg"])).unwrap_or_default();
        std::thread::sleep(std::time::Duration::from_millis(1100));
        let b2 = doc.to_bytes_with_config(config_of(&p["cfg"])).unwrap_or_default();
        let mut spans: Vec<(usize, usize)> = Vec::new();
        for (open, close) in [(&b"/ModDate ("[..], &b")"[..]), (&b"/CreationDate ("[..], &b")"[..]), (&b"<xmp:ModifyDate>"[..], &b"</xmp:ModifyDate>"[..]),
                              (&b"<xmp:CreateDate>"[..], &b"</xmp:CreateDate>"[..]), (&b"<xmp:MetadataDate>"[..], &b"</xmp:MetadataDate>"[..])] {
            for s in find_all(&b1, open) {
                let from = s + open.len();
                if let Some(e) = find_all(&b1[from..], close).first() {
                    spans.push((from, from + e));
                }
            }
        }
        let mut diffs: Vec<(usize, usize)> = Vec::new();
        let n = b1.len().min(b2.len());
        let mut i = 0;
        while i < n {
            if b1[i] != b2[i] {
                let s = i;
                while i < n && b1[i] != b2[i] {
                    i += 1;
                }
                diffs.push((s, i));
            } else {
                i += 1;
            }
        }
        out.line(&json!({"ev": "free", "case": ci, "sameLength": b1.len() == b2.len(), "diffs": diffs.iter().map(|(a, b)| json!([a, b])).collect::<Vec<_>>(),
                         "spans": spans.iter().map(|(a, b)| json!([a, b])).collect::<Vec<_>>(), "cfg": p["cfg"]}));
    }
    out.flush();
}
