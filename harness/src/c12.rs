//! C12 - font subsetting keeps every requested glyph intact.
//!
//! A case (MCSubset.tla) names a font file of the repository and a set of characters.  The library subsets; the
//! subset bytes are written next to the trace so that the specification's font reader (Sfnt.tla / Cff.tla) can read
//! original and subset piecewise.
use crate::util::*;
use oxidize_pdf::text::fonts::truetype_subsetter::{subset_font, subset_font_by_gids};
use serde_json::{json, Value};
use std::collections::HashSet;

pub fn main(a: &Args) {
    match a.pos.first().map(|s| s.as_str()) {
        Some("run") => run(a),
        _ => tool_error("c12 run"),
    }
}

pub fn font_path(name: &str) -> String {
    match name {
        "roboto" => "/repo/test-pdfs/Roboto-Regular.ttf".to_string(),
        "sourcesans" => "/repo/test-pdfs/SourceSans3-Regular.otf".to_string(),
        other => other.to_string(),
    }
}

fn run(a: &Args) {
    std::panic::set_hook(Box::new(|_| {}));
    let mut out = Out::file(a.req("out"));
    let dir = a.req("dir").to_string();
    std::fs::create_dir_all(&dir).ok();
    for (ci, c) in read_cases(a.req("in")).iter().enumerate() {
        let path = font_path(c["font"].as_str().unwrap());
        let data = std::fs::read(&path).unwrap_or_else(|e| tool_error(&format!("{path}: {e}")));
        let mut ev = c.as_object().unwrap().clone();
        ev.insert("ev".into(), json!("subset"));
        ev.insert("case".into(), json!(ci));
        ev.insert("orig".into(), json!(path));
        let sp = format!("{dir}/subset_{ci}.font");
        let r = if let Some(gids) = c.get("gids").and_then(|g| g.as_array()) {
            // glyph-driven entry point
            let set: HashSet<u16> = gids.iter().map(|g| g.as_u64().unwrap() as u16).collect();
            let d2 = data.clone();
            std::panic::catch_unwind(move || subset_font_by_gids(d2, &set).map(|r| (r.font_data, r.old_to_new.into_iter().map(|(k, v)| (k as u32, v)).collect::<Vec<_>>(), false)).map_err(|e| e.to_string()))
        } else {
            let chars: HashSet<char> = c["chars"].as_array().unwrap().iter().filter_map(|x| char::from_u32(x.as_u64().unwrap() as u32)).collect();
            let d2 = data.clone();
            std::panic::catch_unwind(move || subset_font(d2, &chars).map(|r| (r.font_data, r.glyph_mapping.into_iter().collect::<Vec<_>>(), r.is_raw_cff)).map_err(|e| e.to_string()))
        };
        match r {
            Ok(Ok((bytes, mut mapping, raw))) => {
                mapping.sort();
                std::fs::write(&sp, &bytes).unwrap_or_else(|e| tool_error(&e.to_string()));
                ev.insert("ok".into(), json!(true));
                ev.insert("err".into(), json!(""));
                ev.insert("subset".into(), json!(sp));
                ev.insert("subsetLen".into(), json!(bytes.len()));
                ev.insert("same".into(), json!(bytes == data));
                ev.insert("rawCff".into(), json!(raw));
                ev.insert("mapping".into(), json!(mapping.iter().map(|(k, v)| json!({"c": k, "g": v})).collect::<Vec<_>>()));
            }
            other => {
                ev.insert("ok".into(), json!(false));
                ev.insert("err".into(), json!(match other { Ok(Err(e)) => e, _ => "panic".to_string() }));
                ev.insert("subset".into(), json!(""));
                ev.insert("subsetLen".into(), json!(0));
                ev.insert("same".into(), json!(false));
                ev.insert("rawCff".into(), json!(false));
                ev.insert("mapping".into(), json!([]));
            }
        }
        out.line(&Value::Object(ev));
    }
    out.flush();
}
