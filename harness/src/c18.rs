//! C18 - page-tree navigation: abstract trees (PageTree.tla) -> synth file -> library page list.
use crate::synth;
use crate::util::*;
use oxidize_pdf::parser::{ParseOptions, PdfObject, PdfReader};
use serde_json::{json, Value};
use std::io::Cursor;

pub fn main(a: &Args) {
    match a.pos.first().map(|s| s.as_str()) {
        Some("run") => run(a),
        _ => tool_error("c18 run"),
    }
}

fn r(n: u64) -> Value {
    json!({"ref": [n, 0]})
}
fn name(s: &str) -> Value {
    json!({"n": s})
}
fn real_box(v: [i64; 4]) -> Value {
    json!(v.to_vec())
}

/// Concretise an abstract tree as a synth plan.  Node i is object 10 + i; its kids array (when indirect) 100 + i;
/// its content stream 200 + i; the one font every resource dictionary points at is object 5.
pub fn plan_for(c: &Value) -> Value {
    let t = &c["tree"];
    let n = t["n"].as_u64().unwrap() as usize;
    let parent: Vec<usize> = t["parent"].as_array().unwrap().iter().map(|x| x.as_u64().unwrap() as usize).collect();
    let kind: Vec<&str> = t["kind"].as_array().unwrap().iter().map(|x| x.as_str().unwrap()).collect();
    let sets = |a: &str, i: usize| t["sets"][a][i - 1].as_bool().unwrap();
    let indirect = c["kidsIndirect"].as_bool().unwrap();
    let variant = c["variant"].as_str().unwrap();
    let kids_of = |i: usize| -> Vec<usize> { (2..=n).filter(|k| parent[k - 1] == i).collect() };
    // object number of node i: document order, or (reverse) the nodes below the root numbered against it
    let reverse = c["reverse"].as_bool().unwrap_or(false);
    let num = move |i: usize| -> u64 { if reverse && i > 1 { 10 + (n + 2 - i) as u64 } else { 10 + i as u64 } };
    fn leaves(i: usize, kind: &[&str], kids_of: &dyn Fn(usize) -> Vec<usize>) -> usize {
        if kind[i - 1] == "page" { 1 } else { kids_of(i).iter().map(|k| leaves(*k, kind, kids_of)).sum() }
    }
    let mut objects: Vec<Value> = Vec::new();
    objects.push(json!({"n": 1, "g": 0, "value": {"d": [["Type", name("Catalog")], ["Pages", r(11)]]}}));
    objects.push(json!({"n": 5, "g": 0, "value": {"d": [["Type", name("Font")], ["Subtype", name("Type1")], ["BaseFont", name("Helvetica")]]}}));
    // where the cycle / sharing goes
    let last_inner = (1..=n).rev().find(|i| kind[i - 1] == "pages" && !kids_of(*i).is_empty());
    let first_leaf = (1..=n).find(|i| kind[i - 1] == "page");
    for i in 1..=n {
        let mut d: Vec<Value> = Vec::new();
        d.push(json!(["Type", name(if kind[i - 1] == "pages" { "Pages" } else { "Page" })]));
        if i > 1 {
            d.push(json!(["Parent", r(num(parent[i - 1]))]));
        }
        if kind[i - 1] == "pages" {
            let mut ks: Vec<Value> = kids_of(i).iter().map(|k| r(num(*k))).collect();
            if variant == "cycle" && Some(i) == last_inner {
                ks.push(r(11));
            }
            if variant == "shared" {
                if let Some(fl) = first_leaf {
                    if parent[fl - 1] == i {
                        ks.push(r(num(fl)));
                    }
                }
            }
            // the first leaf listed a second time one or more levels UP, at the end of the root's kids: document order
            // reaches it first inside the subtree
            if variant == "shared_up" && i == 1 {
                if let Some(fl) = first_leaf {
                    ks.push(r(num(fl)));
                }
            }
            let cnt = leaves(i, &kind, &kids_of) as i64 + if i == 1 { c["countOff"].as_i64().unwrap() } else { 0 };
            if indirect {
                objects.push(json!({"n": 100 + i, "g": 0, "value": ks}));
                d.push(json!(["Kids", r(100 + i as u64)]));
            } else {
                d.push(json!(["Kids", ks]));
            }
            d.push(json!(["Count", cnt]));
        } else {
            objects.push(json!({"n": 200 + i, "g": 0, "dict": {"d": []}, "data": format!("% page {i}\n").into_bytes(), "filter": null}));
            d.push(json!(["Contents", r(200 + i as u64)]));
        }
        let k = i as i64;
        if sets("mb", i) {
            d.push(json!(["MediaBox", real_box([0, 0, 100 + k, 200 + k])]));
        }
        if sets("crop", i) {
            d.push(json!(["CropBox", real_box([1, 2, 50 + k, 60 + k])]));
        }
        if sets("rot", i) {
            d.push(json!(["Rotate", (k % 4) * 90]));
        }
        if sets("res", i) {
            d.push(json!(["Resources", {"d": [["Font", {"d": [[format!("F{i}"), r(5)]]}]]}]));
        }
        objects.push(json!({"n": num(i), "g": 0, "value": {"d": d}}));
    }
    json!({"version": "1.7", "revisions": [{"objects": objects, "free": [], "xref": c["form"], "xref_n": 400,
                                           "trailer": [["Root", r(1)]]}]})
}

fn micro(b: &[f64; 4]) -> Vec<i64> {
    b.iter().map(|x| ((x * 1e6).round() as i64).clamp(-2_000_000_000, 2_000_000_000)).collect()
}

fn view(bytes: &[u8], opts: ParseOptions) -> Value {
    let b = bytes.to_vec();
    let (tx, rx) = std::sync::mpsc::channel();
    std::thread::spawn(move || {
        let r = std::panic::catch_unwind(move || {
            let reader = match PdfReader::new_with_options(Cursor::new(b), opts) {
                Ok(r) => r,
                Err(e) => return json!({"outcome": "error", "err": e.to_string(), "count": -1, "pages": []}),
            };
            let doc = reader.into_document();
            let count = match doc.page_count() {
                Ok(n) => n as i64,
                Err(e) => return json!({"outcome": "error", "err": e.to_string(), "count": -1, "pages": []}),
            };
            let mut pages = Vec::new();
            for i in 0..(count.max(0) as u32).min(40) {
                match doc.get_page(i) {
                    Ok(pg) => {
                        let mut fonts: Vec<Vec<u8>> = Vec::new();
                        if let Some(res) = pg.get_resources() {
                            if let Some(PdfObject::Dictionary(f)) = res.get("Font") {
                                for k in f.0.keys() {
                                    fonts.push(k.0.as_bytes().to_vec());
                                }
                            }
                        }
                        fonts.sort();
                        pages.push(json!({"ok": true, "obj": pg.obj_ref.0, "mediaBox": micro(&pg.media_box), "cropBox": pg.crop_box.map(|b| micro(&b)).unwrap_or_default(),
                                          "rotate": pg.rotation, "fonts": fonts, "err": ""}));
                    }
                    Err(e) => pages.push(json!({"ok": false, "obj": 0, "mediaBox": [], "cropBox": [], "rotate": 0, "fonts": [], "err": e.to_string()})),
                }
            }
            json!({"outcome": "value", "err": "", "count": count, "pages": pages})
        });
        let _ = tx.send(r.unwrap_or_else(|_| json!({"outcome": "panic", "err": "panic", "count": -1, "pages": []})));
    });
    rx.recv_timeout(std::time::Duration::from_secs(15)).unwrap_or_else(|_| json!({"outcome": "hang", "err": "no answer within 15 s", "count": -1, "pages": []}))
}

fn run(a: &Args) {
    std::panic::set_hook(Box::new(|_| {}));
    let mut out = Out::file(a.req("out"));
    for (ci, c) in read_cases(a.req("in")).iter().enumerate() {
        let layout = synth::build(&plan_for(c));
        let mut ev = c.as_object().unwrap().clone();
        ev.insert("ev".into(), json!("tree"));
        ev.insert("case".into(), json!(ci));
        ev.insert("bytes".into(), json!(layout.bytes));
        ev.insert("lib".into(), json!({"default": view(&layout.bytes, ParseOptions::default()), "lenient": view(&layout.bytes, ParseOptions::lenient()),
                                      "strict": view(&layout.bytes, ParseOptions::strict())}));
        out.line(&Value::Object(ev));
        out.line(&json!({"ev": "chk_ref"}));
        out.line(&json!({"ev": "chk_lib"}));
    }
    out.flush();
}
