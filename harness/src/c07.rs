//! C07 / C08 - stream filters against Filters.tla (reference encoders and decoder machines) and the
//! bounded-decoding contract (BoundedDecode.tla).
use crate::util::*;
use oxidize_pdf::parser::objects::{PdfArray, PdfDictionary, PdfName, PdfObject, PdfStream};
use oxidize_pdf::parser::ParseOptions;
use serde_json::{json, Map, Value};
use std::io::Write;

pub fn main(a: &Args) {
    match a.pos.first().map(|s| s.as_str()) {
        Some("run") => run(a),
        _ => tool_error("c07 run"),
    }
}

fn bytes_of(v: &Value) -> Vec<u8> {
    v.as_array().map(|a| a.iter().map(|x| x.as_u64().unwrap() as u8).collect()).unwrap_or_default()
}

fn bj(b: &[u8]) -> Value {
    Value::Array(b.iter().map(|x| json!(*x)).collect())
}

fn parms_dict(p: &Value) -> PdfDictionary {
    let mut d = PdfDictionary::new();
    if let Some(m) = p.as_object() {
        for (k, v) in m {
            d.insert(k.clone(), PdfObject::Integer(v.as_i64().unwrap()));
        }
    }
    d
}

fn trivial_parms(p: &Value) -> bool {
    match p.as_object() {
        None => true,
        Some(m) => m.is_empty() || (m.len() == 1 && m.get("Predictor").and_then(|v| v.as_i64()) == Some(1)),
    }
}

/// Stream dictionary for a filter list; `style` varies the equivalent spellings (name vs one-element array,
/// omitted vs explicit trivial DecodeParms, dictionary vs array of DecodeParms).
fn stream_dict(filters: &[Value], style: u64) -> PdfDictionary {
    let mut d = PdfDictionary::new();
    let names: Vec<PdfObject> = filters.iter().map(|f| PdfObject::Name(PdfName(f["name"].as_str().unwrap().to_string()))).collect();
    let all_trivial = filters.iter().all(|f| trivial_parms(&f["parms"]));
    if filters.len() == 1 && style % 2 == 0 {
        d.insert("Filter".to_string(), names[0].clone());
        if !all_trivial || style % 4 == 2 {
            d.insert("DecodeParms".to_string(), PdfObject::Dictionary(parms_dict(&filters[0]["parms"])));
        }
    } else {
        d.insert("Filter".to_string(), PdfObject::Array(PdfArray(names)));
        if !all_trivial || style % 4 == 3 {
            let ps: Vec<PdfObject> = filters
                .iter()
                .map(|f| if trivial_parms(&f["parms"]) && style % 3 != 0 { PdfObject::Null } else { PdfObject::Dictionary(parms_dict(&f["parms"])) })
                .collect();
            d.insert("DecodeParms".to_string(), PdfObject::Array(PdfArray(ps)));
        }
    }
    d
}

fn catch<T>(f: impl FnOnce() -> T + std::panic::UnwindSafe) -> Result<T, String> {
    std::panic::catch_unwind(f).map_err(|e| {
        if let Some(s) = e.downcast_ref::<String>() {
            s.clone()
        } else if let Some(s) = e.downcast_ref::<&str>() {
            s.to_string()
        } else {
            "panic".to_string()
        }
    })
}

struct Case {
    kind: String,
    filters: Vec<Value>,
    enc: Vec<u8>,
    data: Vec<u8>,
    mid: Option<Vec<u8>>, // third-party-inflated payload of a FlateDecode stage (long cases)
    wellformed: bool,
}

fn run_case(c: &Case, idx: u64, out: &mut Out, out8: &mut Option<Out>, limits: bool) {
    let dict = stream_dict(&c.filters, idx);
    let stream = PdfStream { dict, data: c.enc.clone() };
    let opts = ParseOptions::default();
    let s2 = stream.clone();
    let o2 = opts.clone();
    let full = catch(move || s2.decode(&o2));
    let mut ev = Map::new();
    ev.insert("ev".into(), json!("case"));
    ev.insert("kind".into(), json!(c.kind));
    if c.wellformed {
        ev.insert("filters".into(), Value::Array(c.filters.clone()));
    } else {
        ev.insert("filters".into(), Value::Array(c.filters.iter().map(|f| json!({"name": f["name"], "parms": f["parms"].to_string()})).collect()));
    }
    ev.insert("style".into(), json!(idx % 12));
    if c.kind == "bomb" {
        ev.insert("enc".into(), json!([]));
        ev.insert("enclen".into(), json!(c.enc.len()));
    } else {
        ev.insert("enc".into(), bj(&c.enc));
    }
    ev.insert("data".into(), bj(&c.data));
    if let Some(m) = &c.mid {
        ev.insert("mid".into(), bj(m));
    }
    let full_ok: Option<Vec<u8>> = match &full {
        Ok(Ok(v)) => {
            ev.insert("dec".into(), bj(v));
            Some(v.clone())
        }
        Ok(Err(e)) => {
            ev.insert("err".into(), json!(e.to_string()));
            None
        }
        Err(p) => {
            ev.insert("panic".into(), json!(p));
            None
        }
    };
    let evv = Value::Object(ev);
    out.line(&evv);
    out.line(&json!({"ev": "chk"}));
    if let (true, Some(o8)) = (limits, out8.as_mut()) {
        // C08: the same stream under caller-supplied limits
        let mut head = evv.as_object().unwrap().clone();
        head.insert("wellformed".into(), json!(c.wellformed));
        head.insert("fullpanic".into(), json!(full.is_err()));
        head.insert("flen".into(), json!(full_ok.as_ref().map(|v| v.len() as i64).unwrap_or(-1)));
        head.remove("dec");
        o8.line(&Value::Object(head));
        let flen = full_ok.as_ref().map(|v| v.len()).unwrap_or(c.data.len());
        let mut ls: Vec<usize> = vec![0, 1, flen.saturating_sub(1), flen, flen + 1, flen * 2 + 3, 1 << 31];
        if let Some(m) = &c.mid {
            ls.push(m.len());
        }
        ls.push(c.enc.len());
        ls.sort();
        ls.dedup();
        for l in ls {
            let s3 = stream.clone();
            let o3 = opts.clone();
            let r = catch(move || s3.decode_with_limit(&o3, l));
            let (kind, rlen, eq) = match &r {
                Ok(Ok(v)) => ("ok", v.len() as i64, full_ok.as_ref().map(|f| f == v).unwrap_or(false)),
                Ok(Err(_)) => ("err", -1, false),
                Err(_) => ("panic", -1, false),
            };
            o8.line(&json!({"ev": "bounded", "L": l.min(i32::MAX as usize), "r": kind, "rlen": rlen, "eq": eq,
                             "msg": match &r { Ok(Err(e)) => e.to_string(), Err(p) => p.clone(), _ => String::new() }}));
        }
    }
}

// ---- trivial harness-side encoders for long inputs (checked by the TLA+ decoder machines) ----
fn hex_enc(d: &[u8], rng: &mut Rng) -> Vec<u8> {
    let mut o = Vec::new();
    let ws: [&[u8]; 5] = [b" ", b"\n", b"\r\n", b"\t", b"\x0c"];
    for (i, b) in d.iter().enumerate() {
        let s = if i % 7 < 3 { format!("{:02x}", b) } else { format!("{:02X}", b) };
        o.push(s.as_bytes()[0]);
        if rng.chance(1, 40) {
            o.extend_from_slice(*rng.pick(&ws[..]));
        }
        o.push(s.as_bytes()[1]);
        if rng.chance(1, 16) {
            o.extend_from_slice(*rng.pick(&ws[..]));
        }
    }
    o.push(b'>');
    o
}

fn a85_enc(d: &[u8], rng: &mut Rng) -> Vec<u8> {
    let mut o = Vec::new();
    for ch in d.chunks(4) {
        let mut g = [0u8; 4];
        g[..ch.len()].copy_from_slice(ch);
        let v = u32::from_be_bytes(g) as u64;
        if ch.len() == 4 && v == 0 {
            o.push(b'z');
        } else {
            let mut cs = [0u8; 5];
            let mut x = v;
            for i in (0..5).rev() {
                cs[i] = (x % 85) as u8 + 33;
                x /= 85;
            }
            o.extend_from_slice(&cs[..ch.len() + 1]);
        }
        if rng.chance(1, 12) {
            o.push(b'\n');
        }
    }
    o.extend_from_slice(b"~>");
    o
}

fn rl_enc(d: &[u8], rng: &mut Rng) -> Vec<u8> {
    let mut o = Vec::new();
    let mut i = 0;
    while i < d.len() {
        let mut run = 1;
        while i + run < d.len() && d[i + run] == d[i] && run < 128 {
            run += 1;
        }
        if run >= 2 && rng.chance(9, 10) {
            o.push((257 - run) as u8);
            o.push(d[i]);
            i += run;
        } else {
            let n = (rng.range(1, 128) as usize).min(d.len() - i);
            o.push((n - 1) as u8);
            o.extend_from_slice(&d[i..i + n]);
            i += n;
        }
    }
    o.push(128);
    o
}

fn gen_data(rng: &mut Rng, n: usize) -> Vec<u8> {
    // mixture: small alphabet (long matches and runs), full alphabet, zero stretches
    let mode = rng.below(4);
    let mut d = Vec::with_capacity(n);
    while d.len() < n {
        match mode {
            0 => d.push(rng.below(3) as u8 * 127),
            1 => d.push(rng.next() as u8),
            2 => {
                let b = rng.next() as u8;
                let r = rng.range(1, 300) as usize;
                for _ in 0..r.min(n - d.len()) {
                    d.push(b);
                }
            }
            _ => {
                if rng.chance(1, 5) {
                    d.extend_from_slice(&[0, 0, 0, 0]);
                } else {
                    d.push(rng.below(16) as u8 + 60);
                }
            }
        }
    }
    d.truncate(n);
    d
}

fn long_cases(rng: &mut Rng, n: u64, maxlen: usize) -> Vec<Case> {
    let mut v = Vec::new();
    let noparm = json!({"Predictor": 1});
    for i in 0..n {
        let len = if i % 5 == 0 { maxlen } else { rng.range(200, maxlen as i64) as usize };
        match i % 6 {
            0 | 1 => {
                // LZW by a third-party encoder (weezl), both EarlyChange settings
                let early = i % 2 == 0;
                let data = gen_data(rng, len);
                let mut enc = if early {
                    weezl::encode::Encoder::with_tiff_size_switch(weezl::BitOrder::Msb, 8)
                } else {
                    weezl::encode::Encoder::new(weezl::BitOrder::Msb, 8)
                };
                let e = enc.encode(&data).unwrap_or_else(|e| tool_error(&format!("weezl: {e}")));
                v.push(Case { kind: "long".into(), filters: vec![json!({"name": "LZWDecode", "parms": {"Predictor": 1, "EarlyChange": if early { 1 } else { 0 }}})],
                              enc: e, data, mid: None, wellformed: true });
            }
            2 => {
                let data = gen_data(rng, len);
                v.push(Case { kind: "long".into(), filters: vec![json!({"name": "ASCIIHexDecode", "parms": noparm})], enc: hex_enc(&data, rng), data, mid: None, wellformed: true });
            }
            3 => {
                let data = gen_data(rng, len);
                v.push(Case { kind: "long".into(), filters: vec![json!({"name": "ASCII85Decode", "parms": noparm})], enc: a85_enc(&data, rng), data, mid: None, wellformed: true });
            }
            4 => {
                let data = gen_data(rng, len);
                v.push(Case { kind: "long".into(), filters: vec![json!({"name": "RunLengthDecode", "parms": noparm})], enc: rl_enc(&data, rng), data, mid: None, wellformed: true });
            }
            _ => {
                // Flate (third-party zlib) + predictor: ANY byte string of whole rows with tag bytes 0..4 is the
                // predictor encoding of some data; what that data is, is decided by the specification
                let colors = rng.range(1, 4);
                let bpc = *rng.pick(&[1i64, 2, 4, 8, 16]);
                let columns = rng.range(1, 64);
                let pred = *rng.pick(&[2i64, 10, 11, 12, 13, 14, 15]);
                let bits = (columns * colors * bpc) as usize;
                let rb = (bits + 7) / 8;
                let rows = (len / (rb + 1)).max(1).min(400);
                let mut mid = Vec::new();
                for _ in 0..rows {
                    if pred >= 10 {
                        mid.push(rng.below(5) as u8);
                    }
                    let mut row = rng.bytes(rb);
                    if bits % 8 != 0 {
                        let keep = bits % 8;
                        let last = row.len() - 1;
                        row[last] &= 0xFFu8 << (8 - keep);
                    }
                    mid.extend_from_slice(&row);
                }
                let mut z = flate2::write::ZlibEncoder::new(Vec::new(), flate2::Compression::new(rng.below(10) as u32));
                z.write_all(&mid).unwrap();
                let enc = z.finish().unwrap();
                v.push(Case { kind: "long".into(),
                              filters: vec![json!({"name": "FlateDecode", "parms": {"Predictor": pred, "Colors": colors, "BitsPerComponent": bpc, "Columns": columns}})],
                              enc, data: Vec::new(), mid: Some(mid), wellformed: true });
            }
        }
    }
    v
}

/// Malformed inputs for C08 (only "at most L bytes or an error, never a panic" applies).
fn malformed_cases(rng: &mut Rng, n: u64) -> Vec<Case> {
    let names = ["ASCIIHexDecode", "ASCII85Decode", "RunLengthDecode", "LZWDecode", "FlateDecode"];
    let mut v = Vec::new();
    for i in 0..n {
        let name = names[(i % 5) as usize];
        let len = rng.range(0, 300) as usize;
        let mut enc = match i % 3 {
            0 => rng.bytes(len),
            1 => (0..len).map(|_| *rng.pick(b"0123456789abcdefuz!~> \n<")).collect(),
            _ => {
                let mut z = flate2::write::ZlibEncoder::new(Vec::new(), flate2::Compression::default());
                z.write_all(&rng.bytes(len)).unwrap();
                let mut e = z.finish().unwrap();
                if !e.is_empty() && rng.chance(1, 2) {
                    let k = rng.below(e.len() as u64) as usize;
                    e[k] ^= 1 << rng.below(8);
                }
                e
            }
        };
        if i % 7 == 0 {
            enc.extend_from_slice(b"uuuuu~>");
        }
        let edge = [-9223372036854775807i64 - 1, -2147483649, -2147483648, -1, 0, 1, 3, 255, 65536, 2147483647, 2147483648, 4294967295, 4294967296, 9223372036854775807];
        let parms = if i % 4 == 0 {
            json!({"Predictor": *rng.pick(&[2i64, 10, 12, 15]), "Colors": rng.range(1, 4), "BitsPerComponent": *rng.pick(&[1i64, 8, 16]), "Columns": rng.range(1, 9)})
        } else if i % 4 == 1 {
            json!({"Predictor": *rng.pick(&[2i64, 12, 15, 0, -1, 9, 16]), "Colors": *rng.pick(&edge), "BitsPerComponent": *rng.pick(&edge), "Columns": *rng.pick(&edge), "EarlyChange": *rng.pick(&edge)})
        } else {
            json!({"Predictor": 1})
        };
        v.push(Case { kind: "malformed".into(), filters: vec![json!({"name": name, "parms": parms})], enc, data: Vec::new(), mid: None, wellformed: false });
    }
    v
}

/// Decompression bombs for C08 clause (4): inputs whose expansion exceeds the documented 256 MiB ceiling.
fn bomb_cases() -> Vec<Case> {
    let target: usize = 256 * 1024 * 1024 + 4096;
    let noparm = json!({"Predictor": 1});
    let mut v = Vec::new();
    // RunLength: (257 - 129) = 128 copies per pair
    let mut rl = Vec::with_capacity(target / 64 + 4);
    for _ in 0..(target / 128 + 1) {
        rl.push(129u8);
        rl.push(0u8);
    }
    rl.push(128);
    v.push(Case { kind: "bomb".into(), filters: vec![json!({"name": "RunLengthDecode", "parms": noparm})], enc: rl, data: Vec::new(), mid: None, wellformed: false });
    let zeros = vec![0u8; 1 << 20];
    let mut z = flate2::write::ZlibEncoder::new(Vec::new(), flate2::Compression::default());
    for _ in 0..(target / zeros.len() + 1) {
        z.write_all(&zeros).unwrap();
    }
    v.push(Case { kind: "bomb".into(), filters: vec![json!({"name": "FlateDecode", "parms": noparm})], enc: z.finish().unwrap(), data: Vec::new(), mid: None, wellformed: false });
    let mut lz = Vec::new();
    {
        let mut enc = weezl::encode::Encoder::with_tiff_size_switch(weezl::BitOrder::Msb, 8);
        let mut w = enc.into_stream(&mut lz);
        for _ in 0..(target / zeros.len() + 1) {
            w.encode(&zeros[..]).status.unwrap();
        }
        w.encode_all(&zeros[..1]).status.unwrap();
    }
    v.push(Case { kind: "bomb".into(), filters: vec![json!({"name": "LZWDecode", "parms": noparm})], enc: lz, data: Vec::new(), mid: None, wellformed: false });
    v
}

fn run(a: &Args) {
    std::panic::set_hook(Box::new(|_| {}));
    let mut out = Out::file(a.req("out"));
    let mut out8 = a.get("out8").map(Out::file);
    let mut rng = Rng::new(a.num("seed", 1));
    let mut cases: Vec<Case> = Vec::new();
    if let Some(inp) = a.get("in") {
        for v in read_cases(inp) {
            cases.push(Case {
                kind: v["kind"].as_str().unwrap_or("single").to_string(),
                filters: v["filters"].as_array().unwrap().clone(),
                enc: bytes_of(&v["enc"]),
                data: bytes_of(&v["data"]),
                mid: None,
                wellformed: true,
            });
        }
    }
    cases.extend(long_cases(&mut rng, a.num("long", 12), a.num("maxlen", 1500) as usize));
    let every = a.num("limit-every", 1);
    let ncases = cases.len();
    for (i, c) in cases.iter().enumerate() {
        let lim = (i as u64) % every == 0 || c.kind == "long";
        run_case(c, i as u64, &mut out, &mut out8, lim);
    }
    if out8.is_some() && a.num("bombs", 0) > 0 {
        for (i, c) in bomb_cases().iter().enumerate() {
            let mut sink = Out::file("/dev/null");
            run_case(c, (2 * i) as u64, &mut sink, &mut out8, true);
        }
    }
    if out8.is_some() {
        for (i, c) in malformed_cases(&mut rng, a.num("malformed", 0)).iter().enumerate() {
            let mut sink = Out::file("/dev/null");
            run_case(c, (ncases + i) as u64, &mut sink, &mut out8, true);
        }
    }
    out.flush();
}
