SPECIFICATION Spec
CHECK_DEADLOCK FALSE
CONSTANTS
  NCases = 720
  Stride = 1
