------------------------------ MODULE PngTrace ------------------------------
(* B2 for C24: the image XObject (and soft mask) that the written document holds, against the pixels of Png.tla.

     png   the image parameters, the PNG file the specification wrote, what the document stores: for the image
           and its soft mask width, height, colour space, bits per component, filter, and the stream data as stored
     raw   a raw RGB / RGBA / grey buffer and what the document stores for it                                 *)
EXTENDS Png, TraceLib

VARIABLE l
IsEvent(e) == l <= NRec /\ Rec[l].ev = e /\ l' = l + 1
\* the samples of a stored image: the specification applies the filter itself
Decoded(x) == IF x.filter = "FlateDecode" THEN InflateR(x.data) ELSE IF x.filter = "none" THEN [ok |-> TRUE, out |-> x.data] ELSE [ok |-> FALSE, out |-> <<>>]
Plain(x) == ~x.parms /\ ~x.decode /\ ~x.mask       \* no predictor, no /Decode inversion, no colour-key /Mask: samples mean what they say
PngProblems(e) ==
  LET im == e.im  st == e.stored  col == Decoded(st.image)  al == Decoded(st.smask) IN
  IF ~e.ok THEN {"the library refused a conforming PNG: " \o e.err}
  ELSE (IF e.png = PngFile(im) THEN {} ELSE {"trace does not carry the file the specification wrote"})
       \cup (IF st.image.width = im.w /\ st.image.height = im.h THEN {} ELSE {"image dimensions differ"})
       \cup (IF st.image.bpc = 8 /\ st.image.cs = (IF NColour(im) = 1 THEN "DeviceGray" ELSE "DeviceRGB") /\ Plain(st.image) THEN {} ELSE {"unexpected colour space / depth / parameters of the image"})
       \cup (IF col.ok /\ ColoursOK(im, col.out) THEN {} ELSE {"colour samples differ from the PNG's pixels"})
       \cup (IF HasAlpha(im)
             THEN (IF st.smask.present /\ st.smask.width = im.w /\ st.smask.height = im.h /\ st.smask.bpc = 8 /\ st.smask.cs = "DeviceGray" /\ Plain(st.smask) /\ al.ok /\ AlphaOK(im, al.out)
                   THEN {} ELSE {"alpha (soft mask) differs from the PNG's transparency"})
             ELSE (IF ~st.smask.present \/ (al.ok /\ \A i \in 1..Len(al.out) : al.out[i] = 255) THEN {} ELSE {"an opaque image got a soft mask that is not opaque"}))
TPng == /\ IsEvent("png") /\ WellFormed(Rec[l].im)
        /\ LET p == PngProblems(Rec[l]) IN IF p = {} THEN TRUE ELSE PrintT(<<"PROBLEMS", ToJson([idx |-> l, problems |-> p])>>) /\ FALSE
RawProblems(e) ==
  LET st == e.stored  col == Decoded(st.image)  al == Decoded(st.smask)  n == e.w * e.h IN
  IF ~e.ok THEN {"the library refused a raw buffer: " \o e.err}
  ELSE (IF st.image.width = e.w /\ st.image.height = e.h /\ st.image.bpc = 8 /\ Plain(st.image) /\ col.ok THEN {} ELSE {"image dictionary differs from the buffer's shape"})
       \cup (CASE e.raw = "rgb" -> IF st.image.cs = "DeviceRGB" /\ col.out = e.data /\ ~st.smask.present THEN {} ELSE {"RGB samples differ"}
               [] e.raw = "gray" -> IF st.image.cs = "DeviceGray" /\ col.out = e.data /\ ~st.smask.present THEN {} ELSE {"grey samples differ"}
               [] OTHER -> IF /\ st.image.cs = "DeviceRGB" /\ Len(col.out) = 3 * n /\ \A i \in 1..n : \A c \in 1..3 : col.out[3 * (i - 1) + c] = e.data[4 * (i - 1) + c]
                              /\ st.smask.present /\ st.smask.cs = "DeviceGray" /\ st.smask.bpc = 8 /\ Plain(st.smask) /\ al.ok /\ al.out = [i \in 1..n |-> e.data[4 * i]]
                           THEN {} ELSE {"RGBA samples or their alpha differ"})
TRaw == /\ IsEvent("raw")
        /\ LET p == RawProblems(Rec[l]) IN IF p = {} THEN TRUE ELSE PrintT(<<"PROBLEMS", ToJson([idx |-> l, problems |-> p])>>) /\ FALSE
TInit == l = 1
TNext == TPng \/ TRaw
TraceSpec == TInit /\ [][TNext]_l
Prog == Progress(l)
=============================================================================
