------------------------------- MODULE MCPng -------------------------------
(* B1 generator for C24: PNG files over colour type x bit depth x interlace x size x palette/tRNS x filter cycle x
   IDAT split (a deterministic stride of the product), each written by Png.tla, and raw sample buffers.       *)
EXTENDS Png, Json

CONSTANTS NCases, Stride

Kinds == << <<0, 1>>, <<0, 2>>, <<0, 4>>, <<0, 8>>, <<0, 16>>, <<2, 8>>, <<2, 16>>, <<3, 1>>, <<3, 2>>, <<3, 4>>, <<3, 8>>, <<4, 8>>, <<4, 16>>, <<6, 8>>, <<6, 16>> >>
Sizes == << <<1, 1>>, <<5, 3>>, <<8, 8>>, <<9, 2>>, <<3, 9>>, <<17, 5>>, <<2, 1>>, <<7, 7>> >>
FtCycles == << <<0>>, <<1, 2, 3, 4>>, <<4, 3, 2, 1, 0>>, <<2>>, <<3, 3, 1>>, <<4>> >>
PalOf(bd, k) == LET n == IF bd <= 2 THEN Pow(2, bd) - (k % 2) ELSE IF bd = 4 THEN 11 ELSE 40 IN
                [i \in 1..n |-> <<(i * 37) % 256, (i * 91 + 5) % 256, (i * 13 + 200) % 256>>]
ImageOf(k) ==
  LET kd == Kinds[(k % Len(Kinds)) + 1]  ct == kd[1]  bd == kd[2]
      sz == Sizes[((k \div 3) % Len(Sizes)) + 1]
      pal == IF ct = 3 THEN PalOf(bd, k) ELSE <<>>
      wantT == (k \div 2) % 2 = 0
      trns == IF ~wantT \/ ct \in {4, 6} THEN <<>>
              ELSE IF ct = 3 THEN SubSeq(<<0, 128, 255, 17, 200>>, 1, IF Len(pal) < 5 THEN Len(pal) ELSE 5)
              ELSE IF ct = 0 THEN <<(k * 3 + 1) % Pow(2, bd)>>
              ELSE <<(k * 3 + 1) % Pow(2, bd), (k * 5 + 2) % Pow(2, bd), (k * 7) % Pow(2, bd)>>
  IN [ct |-> ct, bd |-> bd, w |-> sz[1], h |-> sz[2], il |-> (k \div 5) % 2, pal |-> pal, trns |-> trns,
      fts |-> FtCycles[((k \div 7) % Len(FtCycles)) + 1], seed |-> k, split |-> k % 4 = 1]
RawOf(k) == LET kind == <<"rgb", "rgba", "gray">>[(k % 3) + 1]  w == (k % 7) + 1  h == ((k \div 2) % 5) + 1
                n == w * h * (CASE kind = "rgb" -> 3 [] kind = "rgba" -> 4 [] OTHER -> 1)
            IN [raw |-> kind, w |-> w, h |-> h, data |-> [i \in 1..n |-> (i * 89 + k * 31) % 256]]
VARIABLE done
Init == done = FALSE
Next == /\ ~done
        /\ \A j \in 0..(NCases - 1) : LET im == ImageOf(j * Stride) IN
             /\ Assert(WellFormed(im), <<"ill-formed image", im>>)
             /\ PrintT(<<"REPLAY", ToJson([im |-> im, png |-> PngFile(im)])>>)
        /\ \A j \in 0..((NCases \div 4) - 1) : PrintT(<<"REPLAY", ToJson(RawOf(j))>>)
        /\ done' = TRUE
Spec == Init /\ [][Next]_done
=============================================================================
