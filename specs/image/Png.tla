--------------------------------- MODULE Png ---------------------------------
(* C24: PNG (ISO/IEC 15948) as far as an embedder of raster images needs it - written as an ENCODER, so that the
   specification produces the files and knows, by construction, the pixels every conforming decoder must find.

     image   [ct, bd, w, h, il, pal, trns, fts, seed, split]
             ct  colour type 0 grey, 2 RGB, 3 palette, 4 grey+alpha, 6 RGB+alpha      bd  bit depth 1 2 4 8 16
             il  0 none / 1 Adam7      pal  palette (ct 3)      trns  tRNS: alpha per palette entry (ct 3), or the
             transparent colour as samples (ct 0: <<g>>, ct 2: <<r, g, b>>), or <<>>      fts  filter type per row
             (cycled)      split  the compressed data goes into one IDAT chunk or two

   Samples are a fixed arithmetic function of (x, y, channel, seed); scanlines are packed (MSB first below 8 bits,
   big-endian at 16), filtered (None, Sub, Up, Average, Paeth - PngRow of Filters.tla), for Adam7 pass by pass,
   compressed (zlib primitive) and wrapped in chunks with their CRC-32 (primitive).

   Pixels(im): what the image means - for every pixel its colour components and its alpha, at 8 bits: samples below
   8 bits scale by 255 / (2^bd - 1) exactly; 16-bit samples may be reduced by truncation or by rounding (both are
   in use); a palette index means its palette entry; alpha comes from the alpha channel, from tRNS (per palette
   entry; or 0 for the one transparent colour, compared at full depth) or is absent (opaque).                   *)
EXTENDS Filters, Prim

RECURSIVE Flat(_, _)
Flat(ss, i) == IF i > Len(ss) THEN <<>> ELSE ss[i] \o Flat(ss, i + 1)
Channels(ct) == CASE ct = 0 -> 1 [] ct = 2 -> 3 [] ct = 3 -> 1 [] ct = 4 -> 2 [] OTHER -> 4
MaxV(bd) == Pow(2, bd) - 1
\* the sample of channel c (1-based) at (x, y); the pixel at (0, 0) of a colour-keyed image is the transparent colour, its neighbours miss it by one bit
Sample(im, x, y, c) ==
  IF im.ct = 3 THEN (x * 3 + y * 5 + im.seed) % Len(im.pal)
  ELSE IF im.ct \in {0, 2} /\ im.trns # <<>> /\ (x + 2 * y) % 5 = 0 THEN im.trns[c]
  \* near misses of the key: the lowest bit of the first (resp. last) channel differs, everything else is the key's
  ELSE IF im.ct \in {0, 2} /\ im.trns # <<>> /\ (x + 2 * y) % 5 \in {1, 2}
       THEN (IF c = (IF (x + 2 * y) % 5 = 1 THEN 1 ELSE Channels(im.ct)) THEN (IF im.trns[c] % 2 = 0 THEN im.trns[c] + 1 ELSE im.trns[c] - 1) ELSE im.trns[c])
  ELSE (x * 2503 + y * 7919 + c * 1237 + im.seed * 97) % Pow(2, im.bd)
RowSamples(im, xs, y) == Flat([i \in 1..Len(xs) |-> [c \in 1..Channels(im.ct) |-> Sample(im, xs[i], y, c)]], 1)
RowBytesOf(im, n) == (n * Channels(im.ct) * im.bd + 7) \div 8
FBpp(im) == IF (Channels(im.ct) * im.bd) \div 8 < 1 THEN 1 ELSE (Channels(im.ct) * im.bd) \div 8
PackRow(im, xs, y) == Pack(RowSamples(im, xs, y), im.bd, RowBytesOf(im, Len(xs)))

\* one (sub-)image: rows ys over columns xs, filtered with the cycle of filter types starting at index f0
RECURSIVE FilterRows(_, _, _, _, _, _)
FilterRows(im, xs, ys, i, prev, f0) ==
  IF i > Len(ys) THEN <<>>
  ELSE LET row == PackRow(im, xs, ys[i])
           ft == im.fts[((f0 + i - 1) % Len(im.fts)) + 1]
       IN <<ft>> \o PngRow(ft, row, prev, FBpp(im)) \o FilterRows(im, xs, ys, i + 1, row, f0)
Steps(from, step, limit) == LET n == IF from >= limit THEN 0 ELSE ((limit - 1 - from) \div step) + 1 IN [i \in 1..n |-> from + (i - 1) * step]
Adam7 == << <<0, 0, 8, 8>>, <<4, 0, 8, 8>>, <<0, 4, 4, 8>>, <<2, 0, 4, 4>>, <<0, 2, 2, 4>>, <<1, 0, 2, 2>>, <<0, 1, 1, 2>> >>
PassData(im, p) == LET xs == Steps(Adam7[p][1], Adam7[p][3], im.w) ys == Steps(Adam7[p][2], Adam7[p][4], im.h) IN
                   IF xs = <<>> \/ ys = <<>> THEN <<>> ELSE FilterRows(im, xs, ys, 1, Zeros(RowBytesOf(im, Len(xs))), p)
Scanlines(im) == IF im.il = 0 THEN FilterRows(im, Steps(0, 1, im.w), Steps(0, 1, im.h), 1, Zeros(RowBytesOf(im, im.w)), 0)
                 ELSE Flat([p \in 1..7 |-> PassData(im, p)], 1)

BE32(v) == <<(v \div 16777216) % 256, (v \div 65536) % 256, (v \div 256) % 256, v % 256>>
Chunk(type, data) == BE32(Len(data)) \o type \o data \o CRC32(type \o data)
T_IHDR == <<73, 72, 68, 82>>  T_PLTE == <<80, 76, 84, 69>>  T_tRNS == <<116, 82, 78, 83>>  T_IDAT == <<73, 68, 65, 84>>  T_IEND == <<73, 69, 78, 68>>
T_tEXt == <<116, 69, 88, 116>>
Signature == <<137, 80, 78, 71, 13, 10, 26, 10>>
BE16(v) == <<v \div 256, v % 256>>
TrnsData(im) == IF im.ct = 3 THEN im.trns ELSE Flat([c \in 1..Len(im.trns) |-> BE16(im.trns[c])], 1)
PngFile(im) ==
  LET z == Deflate(Scanlines(im))
      cut == IF im.split /\ Len(z) > 4 THEN Len(z) \div 2 ELSE Len(z)
  IN Signature
     \o Chunk(T_IHDR, BE32(im.w) \o BE32(im.h) \o <<im.bd, im.ct, 0, 0, im.il>>)
     \o (IF im.seed % 2 = 0 THEN Chunk(T_tEXt, <<67, 111, 109, 109, 101, 110, 116, 0, 118>>) ELSE <<>>)      \* an ancillary chunk to skip
     \o (IF im.ct = 3 THEN Chunk(T_PLTE, Flat(im.pal, 1)) ELSE <<>>)
     \o (IF im.trns # <<>> THEN Chunk(T_tRNS, TrnsData(im)) ELSE <<>>)
     \o Chunk(T_IDAT, SubSeq(z, 1, cut)) \o (IF cut < Len(z) THEN Chunk(T_IDAT, SubSeq(z, cut + 1, Len(z))) ELSE <<>>)
     \o Chunk(T_IEND, <<>>)

\* ---- what the image means ----
\* the 8-bit values a sample of depth bd may be reduced to
To8(v, bd) == IF bd = 16 THEN {v \div 256, (v * 255 + 32767) \div 65535} ELSE IF bd = 8 THEN {v} ELSE {(v * 255) \div MaxV(bd)}
HasAlpha(im) == im.ct \in {4, 6} \/ im.trns # <<>>
NColour(im) == IF im.ct \in {0, 4} THEN 1 ELSE 3
\* per pixel: [col |-> seq of sets of admissible 8-bit values, a |-> set of admissible alpha values]
Pixel(im, x, y) ==
  LET s == [c \in 1..Channels(im.ct) |-> Sample(im, x, y, c)] IN
  CASE im.ct = 3 -> [col |-> [c \in 1..3 |-> {im.pal[s[1] + 1][c]}], a |-> IF s[1] + 1 <= Len(im.trns) THEN {im.trns[s[1] + 1]} ELSE {255}]
    [] im.ct = 0 -> [col |-> <<To8(s[1], im.bd)>>, a |-> IF im.trns # <<>> /\ s[1] = im.trns[1] THEN {0} ELSE {255}]
    [] im.ct = 2 -> [col |-> [c \in 1..3 |-> To8(s[c], im.bd)], a |-> IF im.trns # <<>> /\ s = im.trns THEN {0} ELSE {255}]
    [] im.ct = 4 -> [col |-> <<To8(s[1], im.bd)>>, a |-> To8(s[2], im.bd)]
    [] OTHER -> [col |-> [c \in 1..3 |-> To8(s[c], im.bd)], a |-> To8(s[4], im.bd)]
\* does a decoded sample buffer (row-major, ncomp 8-bit components per pixel) hold the image's colours / its alpha?
ColoursOK(im, buf) == /\ Len(buf) = im.w * im.h * NColour(im)
                      /\ \A y \in 0..(im.h - 1) : \A x \in 0..(im.w - 1) : \A c \in 1..NColour(im) :
                           buf[(y * im.w + x) * NColour(im) + c] \in Pixel(im, x, y).col[c]
AlphaOK(im, buf) == /\ Len(buf) = im.w * im.h
                    /\ \A y \in 0..(im.h - 1) : \A x \in 0..(im.w - 1) : buf[y * im.w + x + 1] \in Pixel(im, x, y).a
WellFormed(im) == /\ im.ct \in {0, 2, 3, 4, 6} /\ im.w >= 1 /\ im.h >= 1 /\ im.il \in {0, 1}
                  /\ im.bd \in (CASE im.ct = 0 -> {1, 2, 4, 8, 16} [] im.ct = 3 -> {1, 2, 4, 8} [] OTHER -> {8, 16})
                  /\ (im.ct = 3 => Len(im.pal) \in 1..Pow(2, im.bd) /\ Len(im.trns) <= Len(im.pal))
                  /\ (im.ct \in {4, 6} => im.trns = <<>>)
=============================================================================
