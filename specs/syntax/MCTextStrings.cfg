CONSTANTS
  Chars = {65, 32, 40, 41, 92, 13, 10, 233, 173, 8226, 321, 20013, 128512, 65279, 8364, 9}
  MaxLen = 2
SPECIFICATION Spec
CHECK_DEADLOCK FALSE
