---------------------------- MODULE TextString ----------------------------
(* Text strings, ISO 32000-1 7.9.2.2 and Annex D.2 (PDFDocEncoding); ISO 32000-2 adds UTF-8 with BOM.

   A text string is a byte string that a conforming reader decodes as
     - UTF-16BE when it starts with FE FF (surrogate pairs for planes 1..16),
     - UTF-8 when it starts with EF BB BF (PDF 2.0),
     - PDFDocEncoding otherwise.
   Characters are Unicode scalar values (naturals), strings are sequences of them.
   Undefined is the value of a byte PDFDocEncoding leaves unassigned.                          *)
EXTENDS Naturals, Sequences

Undefined == 1114112    \* one past the last scalar value (same value as EncodingTables!Undefined)

PDFDocHigh ==  \* bytes 128..160
  <<8226, 8224, 8225, 8230, 8212, 8211, 402, 8260, 8249, 8250, 8722, 8240, 8222, 8220, 8221, 8216,
    8217, 8218, 8482, 64257, 64258, 321, 338, 352, 376, 381, 305, 322, 339, 353, 382, Undefined, 8364>>
PDFDocLow ==   \* bytes 24..31
  <<728, 711, 710, 729, 733, 731, 730, 732>>

PDFDocDecodeByte(b) ==
  CASE b < 24 /\ b \notin {9, 10, 13} -> Undefined          \* only TAB, LF and CR are assigned below 0x18
    [] b >= 24 /\ b <= 31 -> PDFDocLow[b - 23]
    [] b = 127 -> Undefined
    [] b >= 128 /\ b <= 160 -> PDFDocHigh[b - 127]
    [] b = 173 -> Undefined
    [] OTHER -> b

PDFDocDecode(bs) == [i \in 1..Len(bs) |-> PDFDocDecodeByte(bs[i])]

(* UTF-16BE: the code units, then scalar values.  A lone surrogate is kept as itself (it cannot equal
   any scalar value a user supplied, so comparisons fail as they should). *)
Units(bs) == [i \in 1..(Len(bs) \div 2) |-> bs[2 * i - 1] * 256 + bs[2 * i]]

IsHi(u) == u >= 55296 /\ u <= 56319
IsLo(u) == u >= 56320 /\ u <= 57343

RECURSIVE FromUnits(_)
FromUnits(us) ==
  IF us = <<>> THEN <<>>
  ELSE IF Len(us) >= 2 /\ IsHi(us[1]) /\ IsLo(us[2])
       THEN <<65536 + (us[1] - 55296) * 1024 + (us[2] - 56320)>> \o FromUnits(SubSeq(us, 3, Len(us)))
       ELSE <<us[1]>> \o FromUnits(Tail(us))

Utf16Decode(bs) == FromUnits(Units(bs))

RECURSIVE Utf8Decode(_)
Utf8Decode(bs) ==
  IF bs = <<>> THEN <<>>
  ELSE LET b == bs[1] IN
       IF b < 128 THEN <<b>> \o Utf8Decode(Tail(bs))
       ELSE IF b >= 192 /\ b < 224 /\ Len(bs) >= 2
            THEN <<(b - 192) * 64 + (bs[2] % 64)>> \o Utf8Decode(SubSeq(bs, 3, Len(bs)))
       ELSE IF b >= 224 /\ b < 240 /\ Len(bs) >= 3
            THEN <<(b - 224) * 4096 + (bs[2] % 64) * 64 + (bs[3] % 64)>> \o Utf8Decode(SubSeq(bs, 4, Len(bs)))
       ELSE IF b >= 240 /\ Len(bs) >= 4
            THEN <<(b - 240) * 262144 + (bs[2] % 64) * 4096 + (bs[3] % 64) * 64 + (bs[4] % 64)>>
                 \o Utf8Decode(SubSeq(bs, 5, Len(bs)))
       ELSE <<Undefined>> \o Utf8Decode(Tail(bs))

\* what a conforming reader understands
DecodeText(bs) ==
  IF Len(bs) >= 2 /\ bs[1] = 254 /\ bs[2] = 255 THEN Utf16Decode(SubSeq(bs, 3, Len(bs)))
  ELSE IF Len(bs) >= 3 /\ bs[1] = 239 /\ bs[2] = 187 /\ bs[3] = 191 THEN Utf8Decode(SubSeq(bs, 4, Len(bs)))
  ELSE PDFDocDecode(bs)

(* Encoders, used to describe deviations and to generate inputs *)
Utf8EncodeChar(c) ==
  IF c < 128 THEN <<c>>
  ELSE IF c < 2048 THEN <<192 + (c \div 64), 128 + (c % 64)>>
  ELSE IF c < 65536 THEN <<224 + (c \div 4096), 128 + ((c \div 64) % 64), 128 + (c % 64)>>
  ELSE <<240 + (c \div 262144), 128 + ((c \div 4096) % 64), 128 + ((c \div 64) % 64), 128 + (c % 64)>>

RECURSIVE Utf8Encode(_)
Utf8Encode(cs) == IF cs = <<>> THEN <<>> ELSE Utf8EncodeChar(cs[1]) \o Utf8Encode(Tail(cs))

IsAscii(cs) == \A i \in 1..Len(cs) : cs[i] < 128
=============================================================================
