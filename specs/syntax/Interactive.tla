----------------------------- MODULE Interactive -----------------------------
(* Reference reading of the INTERACTIVE layer of a written file (ISO 32000-1 12.5 annotations, 12.7 interactive
   forms), on top of the reference file reader PdfFile and the text-string decoder TextString.

   What is authored (the program of trace record `fcase`):
     pages[x].annots   sequence, in the order of the API calls, of
                         [k, rect, text?, author?, uri?, name?]          an annotation of kind k
                         [k |-> "widget", field, rect]                   a widget of form field number `field`
     fields            sequence of [id, k, name, value?, on?, options?, selected?]   (FormManager fields)

   What a conforming reader finds (12.5.2: the page's /Annots array lists the page's annotations; Table 164:
   /Subtype, /Rect, /Contents; 12.5.6.x the entries of each kind; 12.7.2: the catalog's /AcroForm /Fields lists
   the root fields; Table 220: /FT /T /V /Ff /Parent; Tables 226-231: the flags that make a button a radio group
   or a push button and a choice a combo box):

     AnnotProblems     per page: the array has exactly the authored annotations in the authored order, each an
                       annotation dictionary of the authored subtype and rectangle, whose text entries DECODE
                       (TextString) to the authored text
     FieldProblems     every authored field is reachable from /AcroForm /Fields exactly once under its authored
                       partial name, with the authored type, value and kind flags; every authored widget names
                       that field as its /Parent (or is merged with it)                                          *)
EXTENDS PdfFile, ContentOps, TextString

KI_Annots == <<65, 110, 110, 111, 116, 115>>          KI_Subtype == <<83, 117, 98, 116, 121, 112, 101>>
KI_Rect == <<82, 101, 99, 116>>                       KI_Contents == <<67, 111, 110, 116, 101, 110, 116, 115>>
KI_T == <<84>>                                        KI_A == <<65>>
KI_S == <<83>>                                        KI_URI == <<85, 82, 73>>
KI_L == <<76>>                                        KI_QuadPoints == <<81, 117, 97, 100, 80, 111, 105, 110, 116, 115>>
KI_Name == <<78, 97, 109, 101>>                       KI_InkList == <<73, 110, 107, 76, 105, 115, 116>>
KI_Vertices == <<86, 101, 114, 116, 105, 99, 101, 115>>
KI_AcroForm == <<65, 99, 114, 111, 70, 111, 114, 109>> KI_Fields == <<70, 105, 101, 108, 100, 115>>
KI_FT == <<70, 84>>                                   KI_V == <<86>>
KI_Ff == <<70, 102>>                                  KI_Kids == <<75, 105, 100, 115>>
KI_Opt == <<79, 112, 116>>                            KI_AS == <<65, 83>>
NI_Annot == <<65, 110, 110, 111, 116>>
NI_Widget == <<87, 105, 100, 103, 101, 116>>          NI_Off == <<79, 102, 102>>
NI_Tx == <<84, 120>>   NI_Btn == <<66, 116, 110>>     NI_Ch == <<67, 104>>

SubtypeName(k) ==
  CASE k \in {"text", "note"} -> <<84, 101, 120, 116>>
    [] k = "uri" -> <<76, 105, 110, 107>>
    [] k = "highlight" -> <<72, 105, 103, 104, 108, 105, 103, 104, 116>>
    [] k = "underline" -> <<85, 110, 100, 101, 114, 108, 105, 110, 101>>
    [] k = "strikeout" -> <<83, 116, 114, 105, 107, 101, 79, 117, 116>>
    [] k = "squiggly" -> <<83, 113, 117, 105, 103, 103, 108, 121>>
    [] k = "square" -> <<83, 113, 117, 97, 114, 101>>
    [] k = "circle" -> <<67, 105, 114, 99, 108, 101>>
    [] k = "line" -> <<76, 105, 110, 101>>
    [] k = "freetext" -> <<70, 114, 101, 101, 84, 101, 120, 116>>
    [] k = "stamp" -> <<83, 116, 97, 109, 112>>
    [] k = "ink" -> <<73, 110, 107>>
    [] k = "polygon" -> <<80, 111, 108, 121, 103, 111, 110>>
    [] OTHER -> NI_Widget

\* numbers: the authored coordinates are small integers; the file may write them as integers or reals
MicroI(v) == IF IsNum(v) /\ ~NumParts(v).big THEN NumParts(v).micro ELSE 0 - 1
NumsAre(v, ns) == v.t = "arr" /\ Len(v.v) = Len(ns) /\ \A i \in 1..Len(ns) : MicroI(v.v[i]) = ns[i] * 1000000
TextIs(v, cps) == v.t = "str" /\ DecodeText(v.b) = cps
\* the four corners of a rectangle, as the set of points a /QuadPoints array of one quadrilateral must name
Corners(r) == {<<r[1], r[2]>>, <<r[3], r[2]>>, <<r[1], r[4]>>, <<r[3], r[4]>>}
QuadIs(v, r) == v.t = "arr" /\ Len(v.v) = 8 /\ (\A i \in 1..8 : MicroI(v.v[i]) >= 0)
                /\ {<<MicroI(v.v[2 * q - 1]), MicroI(v.v[2 * q])>> : q \in 1..4} = {<<p[1] * 1000000, p[2] * 1000000>> : p \in Corners(r)}

\* kinds whose rectangle is the caller's (the others compute one: a note icon, a polygon's padded bounding box)
RectGiven(k) == k \notin {"note", "polygon"}
Has(a, f) == f \in DOMAIN a

\* the annotation array of page x as a conforming reader walks it
AnnotsOfPage(x) == LET v == Deref(Get(PageList[x].node, KI_Annots)) IN IF v.t = "arr" THEN v.v ELSE <<>>
Authored(x) == LET P == Rec[fcase].prog.pages[x] IN IF "annots" \in DOMAIN P THEN P.annots ELSE <<>>
AuthoredFields == IF "fields" \in DOMAIN Rec[fcase].prog THEN Rec[fcase].prog.fields ELSE <<>>

\* ---- forms: the fields a reader reaches from /AcroForm /Fields (root fields and, through /Kids, their descendants that carry /T)
AcroFormD == IF Catalog.t = "dict" THEN Deref(Get(Catalog, KI_AcroForm)) ELSE None
RootFields == LET f == IF AcroFormD.t = "dict" THEN Deref(Get(AcroFormD, KI_Fields)) ELSE None IN IF f.t = "arr" THEN f.v ELSE <<>>
FieldRefsNamed(cps) == {i \in 1..Len(RootFields) : LET d == Deref(RootFields[i]) IN d.t = "dict" /\ TextIs(Get(d, KI_T), cps)}
FlagBit(d, bit) == LET f == Get(d, KI_Ff) IN f.t = "int" /\ IsSmallInt(f) /\ (IntOf(f) \div bit) % 2 = 1   \* bit = 2^(position-1)
\* a field filled after assembly (Document::fill_field) carries the filled text as its value
HasVal(f) == Has(f, "fill") \/ Has(f, "value")
ValOf(f) == IF Has(f, "fill") THEN f.fill ELSE f.value
FieldOK(f, d) ==
  CASE f.k = "text" -> IsName(Get(d, KI_FT), NI_Tx) /\ (HasVal(f) => TextIs(Get(d, KI_V), ValOf(f)))
    [] f.k = "check" -> IsName(Get(d, KI_FT), NI_Btn) /\ ~FlagBit(d, 32768) /\ ~FlagBit(d, 65536)
                        /\ IsName(Get(d, KI_V), IF f.on THEN f.value ELSE NI_Off)
    [] f.k = "radio" -> IsName(Get(d, KI_FT), NI_Btn) /\ FlagBit(d, 32768) /\ ~FlagBit(d, 65536)
                        /\ (Has(f, "selected") => IsName(Get(d, KI_V), f.options[f.selected + 1]))
    [] f.k = "push" -> IsName(Get(d, KI_FT), NI_Btn) /\ FlagBit(d, 65536)
    [] f.k = "combo" -> IsName(Get(d, KI_FT), NI_Ch) /\ FlagBit(d, 131072) /\ (HasVal(f) => TextIs(Get(d, KI_V), ValOf(f)))
                        /\ LET o == Deref(Get(d, KI_Opt)) IN o.t = "arr" /\ Len(o.v) = Len(f.options) /\ \A i \in 1..Len(o.v) : TextIs(Deref(o.v[i]), f.options[i])
    [] OTHER -> IsName(Get(d, KI_FT), NI_Ch) /\ ~FlagBit(d, 131072)
                /\ LET o == Deref(Get(d, KI_Opt)) IN o.t = "arr" /\ Len(o.v) = Len(f.options) /\ \A i \in 1..Len(o.v) : TextIs(Deref(o.v[i]), f.options[i])
FieldById(id) == LET S == {i \in 1..Len(AuthoredFields) : AuthoredFields[i].id = id} IN AuthoredFields[CHOOSE i \in S : TRUE]
FieldProblems ==
  UNION {LET f == AuthoredFields[i]  S == FieldRefsNamed(f.name) IN
         IF Cardinality(S) # 1 THEN {"form field not listed exactly once in /AcroForm /Fields under its name"}
         ELSE IF FieldOK(f, Deref(RootFields[CHOOSE s \in S : TRUE])) THEN {} ELSE {"form field type, value or flags differ from what was authored"}
         : i \in 1..Len(AuthoredFields)}
  \cup (IF Len(RootFields) = Len(AuthoredFields) THEN {} ELSE {"/AcroForm /Fields does not list exactly the authored fields"})
\* the widget d belongs to field f: it names (as /Parent) the one root field that carries f's name, or it is that field
WidgetOf(entry, d, f) ==
  LET S == FieldRefsNamed(f.name) IN
  Cardinality(S) = 1 /\ LET root == RootFields[CHOOSE s \in S : TRUE]  par == Get(d, <<80, 97, 114, 101, 110, 116>>) IN
                        (par.t = "ref" /\ root.t = "ref" /\ par.n = root.n) \/ (entry.t = "ref" /\ root.t = "ref" /\ entry.n = root.n)

\* ---- appearance streams of widgets (12.5.5): /AP /N names a form XObject; its content is lexed like a page's
KI_AP == <<65, 80>>   KI_N == <<78>>   KI_BBox == <<66, 66, 111, 120>>   NI_Form == <<70, 111, 114, 109>>
ApRefOf(d) == LET ap == Deref(Get(d, KI_AP)) IN IF ap.t = "dict" THEN Get(ap, KI_N) ELSE None
WidgetAps == UNION {{ApRefOf(Deref(AnnotsOfPage(x)[i])).n : i \in {j \in 1..Len(AnnotsOfPage(x)) :
                        LET d == Deref(AnnotsOfPage(x)[j]) IN d.t = "dict" /\ IsName(Get(d, KI_Subtype), NI_Widget) /\ ApRefOf(d).t = "ref"}} : x \in 1..Len(PageList)}
ApPayloads == LET ns == SortSet(WidgetAps) IN [k \in 1..Len(ns) |-> [kind |-> "ap", n |-> ns[k], p |-> StreamPayload([t |-> "ref", n |-> ns[k], g |-> 0])]]
ApOf(n) == LET S == {y \in 1..Len(subs) : subs[y].kind = "ap" /\ subs[y].n = n} IN IF S = {} THEN [ok |-> FALSE, items |-> <<>>] ELSE subs[CHOOSE y \in S : TRUE]
\* the text an appearance shows: the strings of its Tj operators (and of the strings inside TJ arrays), WinAnsi bytes read as characters
RECURSIVE Flatten(_)
Flatten(es) == IF es = <<>> THEN <<>> ELSE es[1].b \o Flatten(Tail(es))
RECURSIVE CatShown(_, _)
CatShown(ops, k) == IF k > Len(ops) THEN <<>>
                    ELSE (IF ops[k].op = "Tj" THEN ops[k].args[1].b
                          ELSE IF ops[k].op = "TJ" THEN Flatten(SelectSeq(ops[k].args[1].v, LAMBDA e : e.t = "str"))
                          ELSE <<>>) \o CatShown(ops, k + 1)
ApShows(n) == LET c == ApOf(n) g == GroupOps(c.items) IN IF c.ok /\ g.ok THEN [ok |-> TRUE, cps |-> LET bs == CatShown(g.ops, 1) IN [i \in 1..Len(bs) |-> WinAnsiTable[bs[i] + 1]]] ELSE [ok |-> FALSE, cps |-> <<>>]
FilledWidgetOK(d, a, f) ==
  LET nref == ApRefOf(d)  form == Deref(nref) IN
  /\ nref.t = "ref" /\ form.t = "stream" /\ IsName(Get(form, KI_Subtype), NI_Form)
  \* any bounding box of positive extent will do: the viewer maps it onto the annotation rectangle (12.5.5, Algorithm 8.1)
  /\ (LET bb == Deref(Get(form, KI_BBox)) IN bb.t = "arr" /\ Len(bb.v) = 4 /\ (\A i \in 1..4 : IsNum(bb.v[i]) /\ ~NumParts(bb.v[i]).big)
                                             /\ NumParts(bb.v[3]).micro > NumParts(bb.v[1]).micro /\ NumParts(bb.v[4]).micro > NumParts(bb.v[2]).micro)
  /\ ApShows(nref.n).ok /\ ApShows(nref.n).cps = f.fill

AnnotOK(entry, a) ==
  LET d == Deref(entry) IN
  /\ d.t = "dict"
  /\ IsName(Get(d, KI_Subtype), SubtypeName(a.k))
  /\ (Get(d, K_Type).t = "none" \/ TypeIs(d, NI_Annot))
  /\ (RectGiven(a.k) => NumsAre(Deref(Get(d, KI_Rect)), a.rect))
  /\ (Has(a, "text") => TextIs(Get(d, KI_Contents), a.text))
  /\ (Has(a, "author") => TextIs(Get(d, KI_T), a.author))
  /\ (a.k = "uri" => LET act == Deref(Get(d, KI_A)) IN act.t = "dict" /\ IsName(Get(act, KI_S), KI_URI) /\ Get(act, KI_URI).t = "str" /\ Get(act, KI_URI).b = a.uri)
  /\ (a.k = "line" => NumsAre(Deref(Get(d, KI_L)), a.rect))
  /\ (a.k \in {"highlight", "underline", "strikeout", "squiggly"} => QuadIs(Deref(Get(d, KI_QuadPoints)), a.rect))
  /\ (a.k = "stamp" /\ Has(a, "name") => IsName(Get(d, KI_Name), a.name))
  /\ (a.k = "ink" => LET il == Deref(Get(d, KI_InkList)) IN il.t = "arr" /\ Len(il.v) = 1
                         /\ NumsAre(Deref(il.v[1]), <<a.rect[1], a.rect[2], a.rect[3], a.rect[2], a.rect[3], a.rect[4]>>))
  /\ (a.k = "polygon" => NumsAre(Deref(Get(d, KI_Vertices)), <<a.rect[1], a.rect[2], a.rect[3], a.rect[2], a.rect[3], a.rect[4]>>))
  /\ (a.k = "widget" => WidgetOf(entry, d, FieldById(a.field)))
  /\ (a.k = "widget" /\ Has(FieldById(a.field), "fill") => FilledWidgetOK(d, a, FieldById(a.field)))

AnnotProblems ==
  UNION {IF x > Len(PageList) THEN {}
         ELSE LET A == Authored(x)  F == AnnotsOfPage(x) IN
              IF Len(F) # Len(A) THEN {"page does not list exactly the authored annotations"}
              ELSE UNION {IF AnnotOK(F[i], A[i]) THEN {} ELSE {"annotation differs from what was authored"} : i \in 1..Len(A)}
         : x \in 1..Len(Rec[fcase].prog.pages)}
  \* the library's own reader (PdfDocument::get_page_annotations) lists the same dictionaries in the same order
  \cup UNION {LET L == Rec[fcase].lib IN
              IF x > Len(PageList) \/ x > Len(L.pages) \/ ~L.pages[x].ok THEN {}
              ELSE LET F == AnnotsOfPage(x)  G == L.pages[x].annots IN
                   IF Len(G) = Len(F) /\ \A i \in 1..Len(F) : SameValue(G[i], Deref(F[i])) THEN {} ELSE {"library lists the page's annotations differently"}
         : x \in 1..Len(Rec[fcase].prog.pages)}

InteractiveProblems == AnnotProblems \cup FieldProblems
=============================================================================
