----------------------------- MODULE MCObjValues -----------------------------
(* B1 generator for C09/C30: object values over the byte classes that matter to the PDF grammar.

   The value space is built bottom-up (atoms, then containers of atoms, then containers of containers) and
   every value is printed once for replay through the real serializers.  Strings and names run over ALL
   sequences up to StrLen bytes of the alphabet Alpha (one representative per lexical class: regular,
   white space, each delimiter, backslash, CR, LF, '#', NUL, high bytes).                                *)
EXTENDS Naturals, Sequences, FiniteSets, TLC, Json

CONSTANTS Alpha, StrLen, Level

RECURSIVE SeqsUpTo(_, _)
SeqsUpTo(S, n) == IF n = 0 THEN {<<>>}
                  ELSE LET P == SeqsUpTo(S, n - 1) IN P \cup {Append(s, x) : s \in {t \in P : Len(t) = n - 1}, x \in S}

Strs == SeqsUpTo(Alpha, StrLen)
StrAtoms == {[t |-> "str", b |-> s] : s \in Strs}
NameAtoms == {[t |-> "name", b |-> s] : s \in Strs}             \* including the empty name

\* integers and reals are carried as decimal literals (TLC integers are 32-bit)
IntLits == {"0", "1", "-1", "255", "2147483647", "2147483648", "-2147483648", "-2147483649",
            "9223372036854775807", "-9223372036854775808", "4294967296"}
RealLits == {"0.5", "-0.5", "0.000001", "-0.000001", "0.0000004", "123456.789012", "1.5", "100.0", "-0.0",
             "0.1", "0.333333333", "1000000000000000.0", "0.999999999", "-123.456", "3.14159265358979", "1e-7", "1e15", "2.5e20", "-2.5e20", "-9300000000000000000.0", "9300000000000000000.0", "-1e15"}
NumAtoms == {[t |-> "int", s |-> x] : x \in IntLits} \cup {[t |-> "real", s |-> x] : x \in RealLits}
Simple == {[t |-> "null"], [t |-> "bool", v |-> TRUE], [t |-> "bool", v |-> FALSE], [t |-> "ref", n |-> 12, g |-> 0],
           [t |-> "ref", n |-> 4000000, g |-> 65535]}

\* a handful of representatives to put inside containers (the full atom sets are emitted on their own)
Picks == {[t |-> "str", b |-> <<40>>], [t |-> "str", b |-> <<92, 41>>], [t |-> "str", b |-> <<13>>], [t |-> "name", b |-> <<65, 32>>],
          [t |-> "name", b |-> <<35>>], [t |-> "int", s |-> "-1"], [t |-> "real", s |-> "0.5"], [t |-> "null"], [t |-> "bool", v |-> TRUE],
          [t |-> "ref", n |-> 12, g |-> 0], [t |-> "name", b |-> <<>>], [t |-> "str", b |-> <<>>]}
Keys == {<<75>>, <<65, 32, 66>>, <<47>>, <<35, 50, 48>>, <<>>, <<40>>}       \* K, "A B", "/", "#20", empty, "("

Arr(S) == {[t |-> "arr", v |-> <<>>]} \cup {[t |-> "arr", v |-> <<a>>] : a \in S} \cup {[t |-> "arr", v |-> <<a, b>>] : a \in S, b \in S}
Dict(S) == {[t |-> "dict", v |-> <<>>]} \cup {[t |-> "dict", v |-> <<[k |-> k, v |-> a]>>] : k \in Keys, a \in S}
             \cup {[t |-> "dict", v |-> <<[k |-> <<75>>, v |-> a], [k |-> <<76>>, v |-> b]>>] : a \in S, b \in S}
Stream(S) == {[t |-> "stream", dict |-> [t |-> "dict", v |-> <<[k |-> <<75>>, v |-> a]>>], data |-> d] :
                a \in S, d \in {<<>>, <<65>>, <<101, 110, 100, 115, 116, 114, 101, 97, 109>>, <<13, 10, 0, 255>>}}

L1 == Arr(Picks) \cup Dict(Picks)
L2pick == {[t |-> "arr", v |-> <<[t |-> "str", b |-> <<41>>], [t |-> "name", b |-> <<32>>]>>],
           [t |-> "dict", v |-> <<[k |-> <<65, 32, 66>>, v |-> [t |-> "str", b |-> <<92>>]]>>],
           [t |-> "arr", v |-> <<>>], [t |-> "dict", v |-> <<>>]}
L2 == Arr(L2pick) \cup Dict(L2pick) \cup Stream(Picks \cup L2pick)
L3 == Arr({x \in L2 : x.t # "stream"} \cap Arr(L2pick)) 

All == StrAtoms \cup NameAtoms \cup NumAtoms \cup Simple
         \cup (IF Level >= 1 THEN L1 ELSE {}) \cup (IF Level >= 2 THEN L2 ELSE {}) \cup (IF Level >= 3 THEN L3 ELSE {})

VARIABLE done
Init == done = FALSE
Next == /\ ~done
        /\ \A v \in All : PrintT(<<"REPLAY", ToJson(v)>>)
        /\ PrintT(<<"COUNT", ToJson([n |-> Cardinality(All)])>>)
        /\ done' = TRUE
Spec == Init /\ [][Next]_done
=============================================================================
