CONSTANTS
  Alpha = {65, 32, 40, 41, 92, 13, 10, 35, 47, 37, 60, 62, 91, 0, 128, 255}
  StrLen = 3
  Level = 3
SPECIFICATION Spec
CHECK_DEADLOCK FALSE
