------------------------------ MODULE ObjTrace ------------------------------
(* B2 for C09 (and the syntax half of C30): for each value handed to one of the real serializers,

     case       the value (canonical form), the bytes the serializer produced, what the library parsed back
     chk_ref    the reference reader (PdfLex, stepping silently through the bytes) read exactly one object,
                consumed everything, and that object is the value
     chk_lib    the library's own parser returned the value

   Reals are compared within the writer's stated precision: the expected value lists the acceptable
   six-decimal renderings (value, value +/- 1e-6); a real written without fraction may come back as an integer. *)
EXTENDS PdfLex, TraceLib, TextString

VARIABLES l, cur
tvars == <<lexvars, l, cur>>

IsEvent(e) == l <= NRec /\ Rec[l].ev = e /\ l' = l + 1
E == Rec[l]

TInit == LexInit /\ l = 1 /\ cur = 0

TCase == /\ IsEvent("case")
         /\ cur' = l
         /\ pos' = 1 /\ mode' = "top" /\ acc' = <<>> /\ aux' = Aux0 /\ stack' = <<[kind |-> "top", items |-> <<>>]>>

\* silent: one byte of the current case
TLex == /\ cur > 0 /\ l <= NRec /\ Rec[l].ev = "chk_ref"
        /\ LexStep(Rec[cur].bytes)
        /\ UNCHANGED <<l, cur>>

NumStr(v) == IF v.t = "int" THEN v.s \o ".000000" ELSE v.s
InSeq(x, s) == \E i \in 1..Len(s) : s[i] = x

\* the writer adds /Length itself; it is checked through `len`
DropLength(pairs) == SelectSeq(pairs, LAMBDA p : p.k # <<76, 101, 110, 103, 116, 104>>)

\* got (read back) against want (what was handed to the serializer)
RECURSIVE Matches(_, _)
Matches(got, want) ==
  CASE want.t = "real" -> got.t \in {"real", "int"} /\ InSeq(NumStr(got), want.alts)
    [] want.t = "text" -> got.t = "str" /\ DecodeText(got.b) = want.cps
    [] want.t = "arr" -> got.t = "arr" /\ Len(got.v) = Len(want.v) /\ \A i \in 1..Len(want.v) : Matches(got.v[i], want.v[i])
    [] want.t = "dict" -> /\ got.t = "dict" /\ Len(got.v) = Len(want.v)
                          /\ \A i, j \in 1..Len(got.v) : (i # j) => got.v[i].k # got.v[j].k
                          /\ \A i \in 1..Len(want.v) : \E j \in 1..Len(got.v) : got.v[j].k = want.v[i].k /\ Matches(got.v[j].v, want.v[i].v)
    [] want.t = "stream" -> got.t = "stream" /\ got.len = want.len /\ Matches([t |-> "dict", v |-> DropLength(got.dict.v)], want.dict)
    [] OTHER -> got = want

TChkRef == /\ IsEvent("chk_ref")
           /\ LexClean
           /\ Len(Result) = 1
           /\ Matches(Result[1], Rec[cur].value)
           /\ UNCHANGED <<lexvars, cur>>

TChkLib == /\ IsEvent("chk_lib")
           /\ Rec[cur].parsed.t # "error"
           /\ Matches(Rec[cur].parsed, Rec[cur].value)
           /\ UNCHANGED <<lexvars, cur>>

TNext == TCase \/ TLex \/ TChkRef \/ TChkLib
TraceSpec == TInit /\ [][TNext]_tvars
Prog == Progress(l)
=============================================================================
