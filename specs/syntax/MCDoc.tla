------------------------------- MODULE MCDoc -------------------------------
(* B1 generator of AUTHORING PROGRAMS for whole documents (C02, C03, C20): pages (size, rotation, a content
   program from the C21 vocabulary), document information strings over hostile classes, and every writer
   configuration.  The expected read-back is a function of the program (ContentOps model + the page list).  *)
EXTENDS MCContent

CONSTANTS Stride

RECURSIVE SetToSeq(_)
SetToSeq(S) == IF S = {} THEN <<>> ELSE LET x == CHOOSE y \in S : TRUE IN <<x>> \o SetToSeq(S \ {x})

Sizes == <<[w |-> 200, h |-> 100], [w |-> 595, h |-> 842], [w |-> 72, h |-> 1440], [w |-> 1, h |-> 1]>>
Rots == <<0, 90, 180, 270>>
GList == SetToSeq(GState)
TList == SetToSeq({p \in TProgs : Len(p) <= 6})
PList == SetToSeq(PProgs)
PageOf(k) ==
  LET sz == Sizes[(k % Len(Sizes)) + 1] IN
  IF k % 3 = 0 THEN [w |-> sz.w, h |-> sz.h, rot |-> Rots[(k % 4) + 1], kind |-> "g", prog |-> GList[(k % Len(GList)) + 1]]
  ELSE IF k % 3 = 1 THEN [w |-> sz.w, h |-> sz.h, rot |-> Rots[((k \div 3) % 4) + 1], kind |-> "t", prog |-> TList[(k % Len(TList)) + 1]]
  ELSE [w |-> sz.w, h |-> sz.h, rot |-> 0, kind |-> "p", prog |-> PList[(k % Len(PList)) + 1]]

\* information strings (code points): plain, delimiters, escapes, line ends, NUL, Latin-1, PDFDoc-only, CJK, astral, BOM-like, long
Strs == << <<72, 105>>, <<>>, <<40, 41, 60, 62, 91, 93, 123, 125, 47, 37>>, <<92, 40>>, <<41>>, <<65, 13, 66, 10, 67, 13, 10>>, <<65, 0, 66>>,
           <<233, 255>>, <<8226, 321>>, <<20013, 25991>>, <<128512>>, <<254, 255>>, <<239, 187, 191>>, [i \in 1..300 |-> 65 + (i % 26)], <<35, 32, 35>>,
           <<296, 297, 348, 8232, 269>> >>        \* the last: UTF-16BE code units that contain the bytes ( ) \ and CR
InfoOf(k) == [title |-> Strs[(k % Len(Strs)) + 1], author |-> Strs[((k \div 2) % Len(Strs)) + 1], subject |-> Strs[((k + 5) % Len(Strs)) + 1],
              keywords |-> Strs[((k + 9) % Len(Strs)) + 1], creator |-> Strs[((k \div 3) % Len(Strs)) + 1], producer |-> Strs[((k + 2) % Len(Strs)) + 1]]

\* every writer configuration; (object streams, cross-reference stream, no compression) is left out: the library
\* numbers object streams from 1 000 000 and the uncompressed cross-reference stream alone is 6 MB
Cfgs == SetToSeq({[xref |-> x, objstm |-> o, compress |-> c, version |-> v] : x \in BOOLEAN, o \in BOOLEAN, c \in BOOLEAN, v \in {"1.4", "1.5", "1.7"}}
                 \ {[xref |-> TRUE, objstm |-> TRUE, compress |-> FALSE, version |-> v] : v \in {"1.4", "1.5", "1.7"}})

DocOf(k) == [pages |-> [x \in 1..((k % 3) + 1) |-> PageOf(k * 7 + x * 11)], info |-> InfoOf(k), cfg |-> Cfgs[(k % Len(Cfgs)) + 1]]
NDocs == Len(Cfgs) * 3 * Stride

(* ------------------------------ interactive documents (module Interactive) ------------------------------
   Annotations of every kind the API builds, in every position of a page's list, with hostile text; form fields of
   every kind with hostile partial names (no period: 12.7.3.2), values and export names; widgets of one field on
   one or two pages; documents with no field, pages with no annotation.                                         *)
AKinds == <<"text", "uri", "highlight", "square", "note", "underline", "line", "freetext", "strikeout", "stamp", "ink", "squiggly", "circle", "polygon">>
Uris == << <<104, 116, 116, 112, 58, 47, 47, 101, 46, 120, 47, 97, 40, 98, 41, 63, 113, 61, 49>>, <<109, 97, 105, 108, 116, 111, 58, 97, 64, 98>>, <<120, 92, 121, 41>>, <<35, 37, 47>> >>
AsciiNames == << <<89, 101, 115>>, <<79, 110, 32, 105, 116, 35, 47>>, <<65, 32, 66>>, <<67, 40, 49, 41>>, <<120, 37, 121>>, <<91, 122, 93>>, <<79, 110>> >>
FNames == << <<102>>, <<97, 32, 98>>, <<40, 112, 41>>, <<233, 252>>, <<20013>>, <<110, 35, 49, 47, 50>>, <<120, 92, 121>>, <<90, 128512>> >>
\* texts a field is filled with after assembly (WinAnsi repertoire: the appearance is drawn with a standard font)
Fills == << <<110, 101, 119>>, <<40, 118, 41, 32, 233, 92>>, <<8364, 32, 8226>>, <<>>, <<65, 255, 66>>, [x \in 1..20 |-> 96 + x] >>
ARect(j) == LET x == 10 + (j % 7) * 3  y == 20 + (j % 5) * 11 IN <<x, y, x + 40 + (j % 3) * 40, y + 12 + (j % 4)>>
StrAt(j) == Strs[(j % Len(Strs)) + 1]
AnnotOf(j) ==
  LET k == AKinds[(j % Len(AKinds)) + 1]  base == [k |-> k, rect |-> ARect(j)] IN
  CASE k \in {"text", "note"} -> IF j % 5 = 4 THEN base ELSE base @@ [text |-> StrAt(j \div 3)]
    [] k \in {"highlight", "underline", "strikeout", "squiggly"} -> IF (j \div 14) % 2 = 0 THEN base @@ [text |-> StrAt(j \div 3), author |-> StrAt(j \div 5)] ELSE base @@ [text |-> StrAt(j \div 2)]
    [] k = "freetext" -> base @@ [text |-> StrAt(j \div 3)]
    [] k = "uri" -> base @@ [uri |-> Uris[((j \div 14) % Len(Uris)) + 1]]
    [] k = "stamp" -> IF (j \div 14) % 3 = 0 THEN base ELSE base @@ [name |-> AsciiNames[((j \div 14) % Len(AsciiNames)) + 1]]
    [] OTHER -> base
FKinds == <<"text", "check", "radio", "combo", "list", "push">>
FieldOf(i, j) ==
  LET k == FKinds[(j % 6) + 1]  h == j \div 6
      base == [id |-> i, k |-> k, name |-> FNames[(h % Len(FNames)) + 1] \o <<48 + i>>] IN
  CASE k = "text" -> CASE h % 4 = 3 -> base
                          [] h % 4 = 1 -> base @@ [value |-> StrAt(h), fill |-> Fills[((h \div 4) % Len(Fills)) + 1]]
                          [] h % 4 = 2 -> base @@ [fill |-> Fills[((h \div 4 + 3) % Len(Fills)) + 1]]
                          [] OTHER -> base @@ [value |-> StrAt(h)]
    [] k = "check" -> base @@ [value |-> AsciiNames[(h % Len(AsciiNames)) + 1], on |-> h % 2 = 0]
    [] k = "radio" -> LET o == <<AsciiNames[(h % Len(AsciiNames)) + 1], AsciiNames[((h + 1) % Len(AsciiNames)) + 1]>> IN
                      IF h % 3 = 2 THEN base @@ [options |-> o] ELSE base @@ [options |-> o, selected |-> h % 2]
    [] k = "combo" -> LET o == <<StrAt(h), StrAt(h + 3), <<111, 112, 116>> >> IN
                      IF h % 3 = 0 THEN base @@ [options |-> o, fill |-> o[3]] ELSE IF h % 3 = 1 THEN base @@ [options |-> o, value |-> o[1], fill |-> o[3]] ELSE base @@ [options |-> o, value |-> o[2]]
    [] k = "list" -> base @@ [options |-> <<StrAt(h + 1), <<111>> >>]
    [] OTHER -> base
DocX(k) ==
  LET np == (k % 3) + 1
      nf == (k \div 2) % 4
      fields == [i \in 1..nf |-> FieldOf(i, k + i * 5)]
      PageOfField(i, part) == ((i + k + part) % np) + 1
      WRect(i, part) == <<10 + 30 * i, 300, 30 + 30 * i, 320 + part>>
      Widgets(x) == LET First == SelectSeq([i \in 1..nf |-> [k |-> "widget", field |-> i, rect |-> WRect(i, 0)]], LAMBDA w : PageOfField(w.field, 0) = x)
                        Second == SelectSeq([i \in 1..nf |-> [k |-> "widget", field |-> i, rect |-> WRect(i, 1)]], LAMBDA w : fields[w.field].k = "radio" /\ PageOfField(w.field, 1) = x)
                    IN First \o Second
      PageX(x) == PageOf(k * 5 + x * 13) @@
                  [annots |-> [y \in 1..((k + x) % 3) |-> AnnotOf(k * 3 + x * 5 + y)] \o Widgets(x) \o [y \in 1..((k \div 3 + x) % 2) |-> AnnotOf(k * 7 + x + y + 1)]]
  IN [pages |-> [x \in 1..np |-> PageX(x)], fields |-> fields, info |-> InfoOf(k + 3), cfg |-> Cfgs[(k % Len(Cfgs)) + 1]]
NDocsX == Len(Cfgs) * (Stride + 1)

(* ------------------------------ tagged documents (module Tagged) ------------------------------
   Pages whose content is 1-3 marked-content sequences; a structure tree of 3-5 elements of varying shape whose
   elements own those sequences across pages, in and out of page order, some sequences owned by nobody, some
   elements owning nothing, a custom structure type, hostile attribute text.                                    *)
MSeq(j) == IF j % 3 = 2
           THEN <<[c |-> "begin_marked_content_with_actual_text", n |-> <<>>, name |-> Tags[(j % 3) + 1], t |-> ActualTexts[(j % Len(ActualTexts)) + 1]], W((j % 6) + 1), [c |-> "end_marked_content", n |-> <<>>]>>
           ELSE <<[c |-> "begin_marked_content", n |-> <<>>, name |-> Tags[(j % 3) + 1]], W((j % 6) + 1), [c |-> "end_marked_content", n |-> <<>>]>>
MCount(j) == (j % 3) + 1
RECURSIVE TagProg(_, _)
TagProg(j, n) == IF n = 0 THEN <<>> ELSE TagProg(j, n - 1) \o MSeq(j + n)
TTypes == << <<68, 111, 99, 117, 109, 101, 110, 116>>, <<83, 101, 99, 116>>, <<80>>, <<72, 49>>, <<83, 112, 97, 110>> >>
CustomType == <<77, 121, 32, 84, 121, 112, 101, 35, 49>>
RECURSIVE RevSeq(_)
RevSeq(q) == IF q = <<>> THEN <<>> ELSE Append(RevSeq(Tail(q)), q[1])
DocT(k) ==
  LET np == (k % 3) + 1
      ne == 3 + ((k \div 3) % 3)
      PJ(x) == k * 2 + x * 7
      Pairs0 == UNION {{<<x, m>> : m \in 0..(MCount(PJ(x)) - 1)} : x \in 1..np}
      ClassOf(pr) == 2 + ((k + 2 * pr[1] + pr[2]) % 4)          \* element 2, 3, 4 or (5 =) nobody
      RECURSIVE Sorted(_)
      Sorted(S) == IF S = {} THEN <<>> ELSE LET m == CHOOSE a \in S : \A b \in S : a[1] < b[1] \/ (a[1] = b[1] /\ a[2] <= b[2]) IN <<m>> \o Sorted(S \ {m})
      McidsOf(i) == LET q == Sorted({pr \in Pairs0 : ClassOf(pr) = i /\ i <= 4}) IN IF k % 2 = 1 THEN RevSeq(q) ELSE q
      ParentOf(i) == CASE i = 1 -> 0 [] i = 2 -> 1 [] i = 3 -> 2 [] i = 4 -> (IF k % 2 = 0 THEN 1 ELSE 2) [] OTHER -> (IF k % 4 < 2 THEN 3 ELSE 1)
      TypeOf(i) == IF i = 4 /\ k % 3 = 0 THEN CustomType ELSE TTypes[i]
      ElemOf(i) == LET base == [type |-> TypeOf(i), parent |-> ParentOf(i), mcids |-> IF i = 1 \/ i = 5 THEN <<>> ELSE McidsOf(i)] IN
                   CASE i = 1 -> base @@ [lang |-> <<101, 110, 45, 85, 83>>]
                     [] i = 2 -> base @@ [title |-> StrAt(k)]
                     [] i = 3 -> base @@ [alt |-> StrAt(k + 7), actual |-> StrAt(k + 8)]
                     [] i = 4 -> base
                     [] OTHER -> base @@ [id |-> <<105, 100, 40, 49, 41>>]
  IN [pages |-> [x \in 1..np |-> [w |-> 300, h |-> 400, rot |-> 0, kind |-> "p", prog |-> TagProg(PJ(x), MCount(PJ(x)))]],
      tags |-> [i \in 1..ne |-> ElemOf(i)], info |-> InfoOf(k + 1), cfg |-> Cfgs[(k % Len(Cfgs)) + 1]]
NDocsT == Len(Cfgs) * (Stride + 1)

\* (the variable `done` is MCContent's)
DInit == done = FALSE
\* one document with more than a hundred compressible objects (a second object stream, a second hundred of entries)
BigDoc == [pages |-> [x \in 1..104 |-> [w |-> 200, h |-> 100, rot |-> (x % 4) * 90, kind |-> "g", prog |-> <<C0("save_state"), C0("restore_state")>>]],
           info |-> InfoOf(16), cfg |-> [xref |-> TRUE, objstm |-> TRUE, compress |-> TRUE, version |-> "1.5"]]
DNext == /\ ~done
         /\ \A k \in 1..NDocs : PrintT(<<"REPLAY", ToJson(DocOf(k))>>)
         /\ PrintT(<<"REPLAY", ToJson(BigDoc)>>)
         /\ \A k \in 1..NDocsX : PrintT(<<"REPLAY", ToJson(DocX(k))>>)
         /\ \A k \in 1..NDocsT : PrintT(<<"REPLAY", ToJson(DocT(k))>>)
         /\ PrintT(<<"COUNT", ToJson([docs |-> NDocs, interactive |-> NDocsX, tagged |-> NDocsT, cfgs |-> Len(Cfgs)])>>)
         /\ done' = TRUE
DSpec == DInit /\ [][DNext]_done
=============================================================================
