------------------------------- MODULE MCDoc -------------------------------
(* B1 generator of AUTHORING PROGRAMS for whole documents (C02, C03, C20): pages (size, rotation, a content
   program from the C21 vocabulary), document information strings over hostile classes, and every writer
   configuration.  The expected read-back is a function of the program (ContentOps model + the page list).  *)
EXTENDS MCContent

CONSTANTS Stride

RECURSIVE SetToSeq(_)
SetToSeq(S) == IF S = {} THEN <<>> ELSE LET x == CHOOSE y \in S : TRUE IN <<x>> \o SetToSeq(S \ {x})

Sizes == <<[w |-> 200, h |-> 100], [w |-> 595, h |-> 842], [w |-> 72, h |-> 1440], [w |-> 1, h |-> 1]>>
Rots == <<0, 90, 180, 270>>
GList == SetToSeq(GState)
TList == SetToSeq({p \in TProgs : Len(p) <= 6})
PList == SetToSeq(PProgs)
PageOf(k) ==
  LET sz == Sizes[(k % Len(Sizes)) + 1] IN
  IF k % 3 = 0 THEN [w |-> sz.w, h |-> sz.h, rot |-> Rots[(k % 4) + 1], kind |-> "g", prog |-> GList[(k % Len(GList)) + 1]]
  ELSE IF k % 3 = 1 THEN [w |-> sz.w, h |-> sz.h, rot |-> Rots[((k \div 3) % 4) + 1], kind |-> "t", prog |-> TList[(k % Len(TList)) + 1]]
  ELSE [w |-> sz.w, h |-> sz.h, rot |-> 0, kind |-> "p", prog |-> PList[(k % Len(PList)) + 1]]

\* information strings (code points): plain, delimiters, escapes, line ends, NUL, Latin-1, PDFDoc-only, CJK, astral, BOM-like, long
Strs == << <<72, 105>>, <<>>, <<40, 41, 60, 62, 91, 93, 123, 125, 47, 37>>, <<92, 40>>, <<41>>, <<65, 13, 66, 10, 67, 13, 10>>, <<65, 0, 66>>,
           <<233, 255>>, <<8226, 321>>, <<20013, 25991>>, <<128512>>, <<254, 255>>, <<239, 187, 191>>, [i \in 1..300 |-> 65 + (i % 26)], <<35, 32, 35>>,
           <<296, 297, 348, 8232, 269>> >>        \* the last: UTF-16BE code units that contain the bytes ( ) \ and CR
InfoOf(k) == [title |-> Strs[(k % Len(Strs)) + 1], author |-> Strs[((k \div 2) % Len(Strs)) + 1], subject |-> Strs[((k + 5) % Len(Strs)) + 1],
              keywords |-> Strs[((k + 9) % Len(Strs)) + 1], creator |-> Strs[((k \div 3) % Len(Strs)) + 1], producer |-> Strs[((k + 2) % Len(Strs)) + 1]]

\* every writer configuration; (object streams, cross-reference stream, no compression) is left out: the library
\* numbers object streams from 1 000 000 and the uncompressed cross-reference stream alone is 6 MB
Cfgs == SetToSeq({[xref |-> x, objstm |-> o, compress |-> c, version |-> v] : x \in BOOLEAN, o \in BOOLEAN, c \in BOOLEAN, v \in {"1.4", "1.5", "1.7"}}
                 \ {[xref |-> TRUE, objstm |-> TRUE, compress |-> FALSE, version |-> v] : v \in {"1.4", "1.5", "1.7"}})

DocOf(k) == [pages |-> [x \in 1..((k % 3) + 1) |-> PageOf(k * 7 + x * 11)], info |-> InfoOf(k), cfg |-> Cfgs[(k % Len(Cfgs)) + 1]]
NDocs == Len(Cfgs) * 3 * Stride

\* (the variable `done` is MCContent's)
DInit == done = FALSE
\* one document with more than a hundred compressible objects (a second object stream, a second hundred of entries)
BigDoc == [pages |-> [x \in 1..104 |-> [w |-> 200, h |-> 100, rot |-> (x % 4) * 90, kind |-> "g", prog |-> <<C0("save_state"), C0("restore_state")>>]],
           info |-> InfoOf(16), cfg |-> [xref |-> TRUE, objstm |-> TRUE, compress |-> TRUE, version |-> "1.5"]]
DNext == /\ ~done
         /\ \A k \in 1..NDocs : PrintT(<<"REPLAY", ToJson(DocOf(k))>>)
         /\ PrintT(<<"REPLAY", ToJson(BigDoc)>>)
         /\ PrintT(<<"COUNT", ToJson([docs |-> NDocs, cfgs |-> Len(Cfgs)])>>)
         /\ done' = TRUE
DSpec == DInit /\ [][DNext]_done
=============================================================================
