------------------------------- MODULE Tagged -------------------------------
(* Reference reading of the LOGICAL STRUCTURE of a written file (ISO 32000-1 14.7: structure hierarchy 14.7.2,
   marked-content references 14.7.4.2, the structural parent tree 14.7.4.4; 14.8 /MarkInfo), on top of PdfFile, the
   content-stream reading of ContentOps and the text strings of TextString.

   What is authored (the program of trace record `fcase`):
     tags      sequence of [type, parent, mcids, lang?, alt?, actual?, title?, id?]: element i hangs under element
               `parent` (< i; 0 for the first, the root), children in insertion order; mcids = <<page, mcid>> pairs,
               mcid being the number Page::begin_marked_content* returned on that page (0, 1, ... in call order)

   What a conforming reader finds:
     - the catalog names a /StructTreeRoot whose /K is the root element
     - walking /K from there gives the authored tree: each element's /S is the authored type, its /P is the object
       that lists it, its element kids are the authored children in order, its marked-content kids (integers or
       /MCR dictionaries, 14.7.4.2) are exactly the authored <<page, mcid>> pairs, its text attributes decode to
       the authored text
     - for every authored pair <<x, m>>: page x carries an integer /StructParents key (distinct per page), the
       /ParentTree number tree maps that key to an array whose element m is the owning structure element
       (14.7.4.4), and the content of page x really contains a marked-content sequence with /MCID m (and no two
       with the same number)                                                                                    *)
EXTENDS Interactive

KT_StructTreeRoot == <<83, 116, 114, 117, 99, 116, 84, 114, 101, 101, 82, 111, 111, 116>>
KT_K == <<75>>            KT_S == <<83>>          KT_P == <<80>>          KT_Pg == <<80, 103>>
KT_MCID == <<77, 67, 73, 68>>
KT_ParentTree == <<80, 97, 114, 101, 110, 116, 84, 114, 101, 101>>
KT_Nums == <<78, 117, 109, 115>>                  KT_Limits == <<76, 105, 109, 105, 116, 115>>
KT_StructParents == <<83, 116, 114, 117, 99, 116, 80, 97, 114, 101, 110, 116, 115>>
KT_MarkInfo == <<77, 97, 114, 107, 73, 110, 102, 111>>   KT_Marked == <<77, 97, 114, 107, 101, 100>>
KT_Lang == <<76, 97, 110, 103>>   KT_Alt == <<65, 108, 116>>   KT_ActualText == <<65, 99, 116, 117, 97, 108, 84, 101, 120, 116>>
KT_ID == <<73, 68>>
NT_StructTreeRoot == KT_StructTreeRoot             NT_MCR == <<77, 67, 82>>     NT_OBJR == <<79, 66, 74, 82>>

STags == IF "tags" \in DOMAIN Rec[fcase].prog THEN Rec[fcase].prog.tags ELSE <<>>
ChildrenOf(i) == SelectSeq([j \in 1..Len(STags) |-> j], LAMBDA j : STags[j].parent = i)
IntTok(v) == IF v.t = "int" /\ IsSmallInt(v) /\ Len(v.s) <= 9 THEN IntOf(v) ELSE 0 - 1

\* the kids of a structure element or of the root, as a sequence (a single kid may stand without an array)
KidsOfElem(d) == LET k == Get(d, KT_K) IN
                 IF k.t = "none" THEN <<>> ELSE IF k.t = "arr" THEN k.v ELSE IF k.t = "ref" /\ Deref(k).t = "arr" THEN Deref(k).v ELSE <<k>>
IsContentKid(v) == v.t = "int" \/ (Deref(v).t = "dict" /\ (TypeIs(Deref(v), NT_MCR) \/ TypeIs(Deref(v), NT_OBJR)))
ElemKids(d) == SelectSeq(KidsOfElem(d), LAMBDA v : v.t = "ref" /\ ~IsContentKid(v))
\* marked-content kids as [pg, mcid] (pg = object number of the page: the kid's own /Pg, else the element's)
McrKids(d) == LET own == Get(d, KT_Pg)
                  ks == SelectSeq(KidsOfElem(d), LAMBDA v : v.t = "int" \/ (Deref(v).t = "dict" /\ TypeIs(Deref(v), NT_MCR)))
              IN [x \in 1..Len(ks) |->
                    IF ks[x].t = "int" THEN [pg |-> IF own.t = "ref" THEN own.n ELSE 0, mcid |-> IntTok(ks[x])]
                    ELSE LET m == Deref(ks[x])  pg == IF Get(m, KT_Pg).t = "ref" THEN Get(m, KT_Pg) ELSE own
                         IN [pg |-> IF pg.t = "ref" THEN pg.n ELSE 0, mcid |-> IntTok(Get(m, KT_MCID))]]
PageObj(x) == IF x <= Len(PageList) THEN PageList[x].n ELSE 0 - 1

TextAttrOK(d, t, field, key) == (field \in DOMAIN t) => TextIs(Get(d, key), t[field])
RECURSIVE ElemOK(_, _, _)
ElemOK(ref, i, parentN) ==
  LET d == Deref(ref)  t == STags[i]  ek == ElemKids(d)  mk == McrKids(d)  ch == ChildrenOf(i) IN
  /\ ref.t = "ref" /\ d.t = "dict"
  /\ IsName(Get(d, KT_S), t.type)
  /\ Get(d, KT_P).t = "ref" /\ Get(d, KT_P).n = parentN
  /\ Len(ek) = Len(ch) /\ \A c \in 1..Len(ch) : ElemOK(ek[c], ch[c], ref.n)
  /\ Len(mk) = Len(t.mcids)
  /\ {mk[x] : x \in 1..Len(mk)} = {[pg |-> PageObj(t.mcids[x][1]), mcid |-> t.mcids[x][2]] : x \in 1..Len(t.mcids)}
  /\ TextAttrOK(d, t, "lang", KT_Lang) /\ TextAttrOK(d, t, "alt", KT_Alt) /\ TextAttrOK(d, t, "actual", KT_ActualText) /\ TextAttrOK(d, t, "title", KI_T)
  /\ (("id" \in DOMAIN t) => Get(d, KT_ID).t = "str" /\ Get(d, KT_ID).b = t.id)

STRootRef == IF Catalog.t = "dict" THEN Get(Catalog, KT_StructTreeRoot) ELSE None
STRoot == Deref(STRootRef)
\* the reference (as found in the file) of authored element i, by walking down from the root
RECURSIVE ElemRef(_)
ElemRef(i) == IF i = 1 THEN (LET ks == ElemKids(STRoot) IN IF Len(ks) = 1 THEN ks[1] ELSE None)
              ELSE LET p == ElemRef(STags[i].parent)  sib == ChildrenOf(STags[i].parent)
                       spos == CHOOSE c \in 1..Len(sib) : sib[c] = i
                       ek == IF p.t = "ref" THEN ElemKids(Deref(p)) ELSE <<>>
                   IN IF spos <= Len(ek) THEN ek[spos] ELSE None

\* number tree lookup (7.9.7): /Nums pairs here, or /Kids with /Limits
RECURSIVE NumLookup(_, _, _)
NumLookup(node, key, fuel) ==
  LET d == Deref(node) nums == Deref(Get(d, KT_Nums)) kids == Deref(Get(d, K_Kids)) IN
  IF fuel = 0 \/ d.t # "dict" THEN None
  ELSE IF nums.t = "arr" THEN
         (LET S == {x \in 1..(Len(nums.v) \div 2) : IntTok(nums.v[2 * x - 1]) = key} IN IF S = {} THEN None ELSE nums.v[2 * (CHOOSE x \in S : TRUE)])
  ELSE IF kids.t = "arr" THEN
         (LET S == {x \in 1..Len(kids.v) : LET lim == Deref(Get(Deref(kids.v[x]), KT_Limits)) IN
                                           lim.t = "arr" /\ Len(lim.v) = 2 /\ IntTok(lim.v[1]) <= key /\ key <= IntTok(lim.v[2])}
          IN IF S = {} THEN None ELSE NumLookup(kids.v[CHOOSE x \in S : TRUE], key, fuel - 1))
  ELSE None

Owned == UNION {{[page |-> STags[i].mcids[x][1], mcid |-> STags[i].mcids[x][2], elem |-> i] : x \in 1..Len(STags[i].mcids)} : i \in 1..Len(STags)}
TaggedPages == {o.page : o \in Owned}
StructParentsOf(x) == IF x <= Len(PageList) THEN IntTok(Get(PageList[x].node, KT_StructParents)) ELSE 0 - 1
\* the /MCID numbers of the marked-content sequences that the content of page x opens, in order
McidsInContent(x) ==
  LET c == ContentOf(x)  g == GroupOps(c.items)
      bdc == IF c.ok /\ g.ok THEN SelectSeq(g.ops, LAMBDA o : o.op = "BDC" /\ Len(o.args) = 2 /\ o.args[2].t = "dict" /\ Get(o.args[2], KT_MCID).t = "int") ELSE <<>>
  IN [y \in 1..Len(bdc) |-> IntTok(Get(bdc[y].args[2], KT_MCID))]

TaggedProblems ==
  IF STags = <<>> THEN {}
  ELSE
    (IF STRoot.t = "dict" /\ TypeIs(STRoot, NT_StructTreeRoot) /\ STRootRef.t = "ref" THEN {} ELSE {"catalog has no /StructTreeRoot"})
    \cup (IF STRoot.t = "dict" /\ STRootRef.t = "ref" /\ Len(ElemKids(STRoot)) = 1 /\ ElemOK(ElemKids(STRoot)[1], 1, STRootRef.n)
          THEN {} ELSE {"structure hierarchy differs from the authored tree"})
    \cup (IF \A x, y \in TaggedPages : x # y => StructParentsOf(x) # StructParentsOf(y) THEN {} ELSE {"two pages share a /StructParents key"})
    \cup UNION {LET key == StructParentsOf(o.page)
                    arr == IF key >= 0 /\ STRoot.t = "dict" THEN Deref(NumLookup(Get(STRoot, KT_ParentTree), key, 8)) ELSE None
                    er == ElemRef(o.elem)
                IN (IF key >= 0 THEN {} ELSE {"tagged page without /StructParents"})
                   \cup (IF arr.t = "arr" /\ o.mcid + 1 <= Len(arr.v) /\ er.t = "ref" /\ arr.v[o.mcid + 1].t = "ref" /\ arr.v[o.mcid + 1].n = er.n
                         THEN {} ELSE {"parent tree does not lead from the marked content to its structure element"})
                   \cup (LET ms == McidsInContent(o.page) IN
                         IF \E y \in 1..Len(ms) : ms[y] = o.mcid THEN {} ELSE {"page content has no marked-content sequence with the referenced MCID"})
                : o \in Owned}
    \cup UNION {LET ms == McidsInContent(x) IN
                IF \A a, b \in 1..Len(ms) : a # b => ms[a] # ms[b] THEN {} ELSE {"two marked-content sequences of a page share an MCID"}
                : x \in TaggedPages}
=============================================================================
