SPECIFICATION DSpec
CHECK_DEADLOCK FALSE
CONSTANTS
  Stride = 6
