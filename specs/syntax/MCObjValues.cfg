CONSTANTS
  Alpha = {65, 32, 40, 41, 92, 13, 10, 35, 47, 37, 60, 62, 91, 0, 128, 255}
  StrLen = 2
  Level = 2
SPECIFICATION Spec
CHECK_DEADLOCK FALSE
