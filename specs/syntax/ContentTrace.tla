---------------------------- MODULE ContentTrace ----------------------------
(* B2 for C21.  One case per authoring program run on GraphicsContext ("g"), TextContext ("t") or Page text with
   marked content ("p"):

     case      the program (calls with their arguments), the content bytes the library emitted, what the
               library's ContentParser made of them (lenient parse as operators, strict parse ok or not)
     chk_ref   the reference lexer (PdfLex, one silent TLC step per byte) reads the bytes completely; the tokens
               group into known operators with well-typed operands; they are the operators the authoring model
               (ContentOps) prescribes for the program, operands within the documented rounding
     chk_lib   the library's own parse is that same operator sequence (and its strict parse accepts)

   fuzz events carry the outcome of parsing arbitrary bytes: it must be a value, not a panic or a timeout.    *)
EXTENDS PdfLex, ContentOps, TraceLib

VARIABLES l, cur
tvars == <<lexvars, l, cur>>
IsEvent(e) == l <= NRec /\ Rec[l].ev = e /\ l' = l + 1

TInit == LexInit /\ l = 1 /\ cur = 0
TCase == /\ IsEvent("case")
         /\ Rec[l].built                                  \* the program is one the API accepts
         /\ cur' = l
         /\ pos' = 1 /\ mode' = "top" /\ acc' = <<>> /\ aux' = Aux0 /\ stack' = <<[kind |-> "top", items |-> <<>>]>>
TLex == /\ cur > 0 /\ l <= NRec /\ Rec[l].ev = "chk_ref"
        /\ LexStep(Rec[cur].bytes)
        /\ UNCHANGED <<l, cur>>

SegsOf(c) == IF c.kind = "g" THEN GSegs(c.prog) ELSE TExpected(c.prog, 1, TInit0)

TChkRef == /\ IsEvent("chk_ref")
           /\ LexClean
           /\ LET g == GroupOps(Result) IN g.ok /\ Matches(g.ops, SegsOf(Rec[cur]), FALSE)
           /\ UNCHANGED <<lexvars, cur>>
TChkLib == /\ IsEvent("chk_lib")
           /\ Rec[cur].parsed.ok /\ Rec[cur].strict
           /\ Matches(Rec[cur].parsed.ops, SegsOf(Rec[cur]), TRUE)
           /\ UNCHANGED <<lexvars, cur>>
TFuzz == /\ IsEvent("fuzz")
         /\ Rec[l].outcome = "value"
         /\ UNCHANGED <<lexvars, cur>>
TNext == TCase \/ TLex \/ TChkRef \/ TChkLib \/ TFuzz
TraceSpec == TInit /\ [][TNext]_tvars
Prog == Progress(l)
=============================================================================
