------------------------------- MODULE PdfLex -------------------------------
(* Reference reader for PDF object syntax, ISO 32000-1 7.2 (lexical conventions) and 7.3 (objects).

   This is what a conforming third-party reader does with a byte string - deliberately a transcription of
   the standard and not of oxidize-pdf's lexer.  It is a STEP MACHINE: one TLC step per input byte (a few
   steps re-examine a byte after a token boundary), so TLC scans at ~10^5 bytes/s and the state stays small.

   The input is not part of the state: every action takes the byte sequence B as a parameter (the trace
   specifications pass a field of the recorded event), so it is neither copied nor fingerprinted.

   Values:
     [t |-> "null"]   [t |-> "bool", v |-> TRUE]
     [t |-> "int",  s |-> "-12"]          canonical decimal (no leading zeros, no plus sign, "-0" = "0")
     [t |-> "real", s |-> "3.140000"]     canonical decimal with exactly six fractional digits (truncated)
     [t |-> "str",  b |-> <<bytes>>]      [t |-> "name", b |-> <<bytes>>]
     [t |-> "arr",  v |-> <<values>>]     [t |-> "dict", v |-> <<[k |-> bytes, v |-> value], ...>>] (file order)
     [t |-> "ref",  n |-> 3, g |-> 0]     [t |-> "stream", dict |-> dictvalue, len |-> n]
     [t |-> "kw",   s |-> "obj"]          any other bare word (obj, endobj, operators of a content stream, ...)
   An input that violates the grammar puts the machine in mode "error".                                   *)
EXTENDS Naturals, Sequences

VARIABLES pos,        \* 1-based index of the next byte
          mode,       \* lexer mode
          acc,        \* bytes of the token being read (names, strings, words, digits of numbers)
          aux,        \* mode-specific scalars: [depth, oct, octn, hi, neg, dot, frac]
          stack       \* open containers, innermost last: [kind |-> "top"|"arr"|"dict", items |-> <<values>>]

lexvars == <<pos, mode, acc, aux, stack>>

Aux0 == [depth |-> 0, oct |-> 0, octn |-> 0, hi |-> 0, neg |-> FALSE, dot |-> FALSE, frac |-> <<>>]

LexInit == /\ pos = 1 /\ mode = "top" /\ acc = <<>> /\ aux = Aux0
           /\ stack = <<[kind |-> "top", items |-> <<>>]>>

(* ------------------------------ character classes ------------------------------ *)
IsWs(b) == b \in {0, 9, 10, 12, 13, 32}
IsDelim(b) == b \in {40, 41, 60, 62, 91, 93, 123, 125, 47, 37}        \* ( ) < > [ ] { } / %
IsRegular(b) == ~IsWs(b) /\ ~IsDelim(b)
IsDigit(b) == b >= 48 /\ b <= 57
IsOct(b) == b >= 48 /\ b <= 55
IsHex(b) == IsDigit(b) \/ (b >= 65 /\ b <= 70) \/ (b >= 97 /\ b <= 102)
HexVal(b) == IF IsDigit(b) THEN b - 48 ELSE IF b >= 97 THEN b - 87 ELSE b - 55

DigitStr == <<"0", "1", "2", "3", "4", "5", "6", "7", "8", "9">>
RECURSIVE DigitsToStr(_)
DigitsToStr(ds) == IF ds = <<>> THEN "" ELSE DigitStr[ds[1] - 47] \o DigitsToStr(Tail(ds))
RECURSIVE StripZeros(_)
StripZeros(ds) == IF Len(ds) > 1 /\ ds[1] = 48 THEN StripZeros(Tail(ds)) ELSE ds
AllZero(ds) == \A i \in 1..Len(ds) : ds[i] = 48
Pad6(ds) == IF Len(ds) >= 6 THEN SubSeq(ds, 1, 6) ELSE ds \o [i \in 1..(6 - Len(ds)) |-> 48]

\* canonical form of a number token given its parts
IntValue(neg, ds) ==
  LET d == StripZeros(IF ds = <<>> THEN <<48>> ELSE ds)
  IN [t |-> "int", s |-> (IF neg /\ ~AllZero(d) THEN "-" ELSE "") \o DigitsToStr(d)]
RealValue(neg, ds, fr) ==
  LET d == StripZeros(IF ds = <<>> THEN <<48>> ELSE ds)
      f == Pad6(fr)
  IN [t |-> "real", s |-> (IF neg /\ ~(AllZero(d) /\ AllZero(f)) THEN "-" ELSE "") \o DigitsToStr(d) \o "." \o DigitsToStr(f)]

\* small non-negative integer value of an "int" token (object numbers, /Length); -1 if not representable here
RECURSIVE DigitsVal(_, _)
DigitsVal(ds, a) == IF ds = <<>> THEN a ELSE IF a > 99999999 THEN 0 - 1 ELSE DigitsVal(Tail(ds), a * 10 + (ds[1] - 48))

(* ------------------------------ pushing values ------------------------------ *)
Top == stack[Len(stack)]
PushItem(v) == [stack EXCEPT ![Len(stack)].items = Append(@, v)]

\* `n g R`: the two integers before R become a reference
IsSmallInt(v) == v.t = "int" /\ v.s # "" /\ ~("-" = SubSeq(v.s, 1, 1))
RECURSIVE StrVal(_, _, _)
StrVal(s, i, a) == IF i > Len(s) THEN a ELSE
                   LET c == SubSeq(s, i, i)
                       d == CHOOSE k \in 1..10 : DigitStr[k] = c
                   IN StrVal(s, i + 1, a * 10 + (d - 1))
IntOf(v) == StrVal(v.s, 1, 0)

MakeRef(items) ==
  LET n == Len(items) IN
    IF n >= 2 /\ IsSmallInt(items[n - 1]) /\ IsSmallInt(items[n]) /\ Len(items[n - 1].s) <= 9 /\ Len(items[n].s) <= 5
    THEN <<TRUE, Append(SubSeq(items, 1, n - 2), [t |-> "ref", n |-> IntOf(items[n - 1]), g |-> IntOf(items[n])])>>
    ELSE <<FALSE, items>>

WordBytes(s) == s      \* words are kept as byte sequences and compared with the constants below
KwTrue == <<116, 114, 117, 101>>
KwFalse == <<102, 97, 108, 115, 101>>
KwNull == <<110, 117, 108, 108>>
KwR == <<82>>
KwStream == <<115, 116, 114, 101, 97, 109>>
KwEndStream == <<101, 110, 100, 115, 116, 114, 101, 97, 109>>

RECURSIVE BytesToStr(_)
Chr(b) == IF b >= 32 /\ b <= 126
          THEN SubSeq(" !\"#$%&'()*+,-./0123456789:;<=>?@ABCDEFGHIJKLMNOPQRSTUVWXYZ[\\]^_`abcdefghijklmnopqrstuvwxyz{|}~", b - 31, b - 31)
          ELSE "?"
BytesToStr(bs) == IF bs = <<>> THEN "" ELSE Chr(bs[1]) \o BytesToStr(Tail(bs))

\* finish the current token (called at a token boundary); returns the new stack
FinishNum == IF aux.dot THEN PushItem(RealValue(aux.neg, acc, aux.frac)) ELSE PushItem(IntValue(aux.neg, acc))

\* /Length of the dictionary that precedes the keyword `stream` (direct non-negative integer), or -1
LengthOf(d) ==
  LET S == {i \in 1..Len(d.v) : d.v[i].k = <<76, 101, 110, 103, 116, 104>>} IN
    IF S = {} THEN 0 - 1
    ELSE LET e == d.v[CHOOSE i \in S : TRUE].v IN IF IsSmallInt(e) /\ Len(e.s) <= 9 THEN IntOf(e) ELSE 0 - 1

FinishWord ==
  IF acc = KwStream THEN
       LET n == Len(Top.items) IN
       IF n >= 1 /\ Top.items[n].t = "dict" /\ LengthOf(Top.items[n]) >= 0
       THEN <<"stream", [stack EXCEPT ![Len(stack)].items[n] = [t |-> "stream", dict |-> Top.items[n], len |-> LengthOf(Top.items[n])]]>>
       ELSE <<"error", stack>>
  ELSE IF acc = KwEndStream THEN
       LET n == Len(Top.items) IN IF n >= 1 /\ Top.items[n].t = "stream" THEN <<"ok", stack>> ELSE <<"error", stack>>
  ELSE IF acc = KwTrue THEN <<"ok", PushItem([t |-> "bool", v |-> TRUE])>>
  ELSE IF acc = KwFalse THEN <<"ok", PushItem([t |-> "bool", v |-> FALSE])>>
  ELSE IF acc = KwNull THEN <<"ok", PushItem([t |-> "null"])>>
  ELSE IF acc = KwR THEN LET r == MakeRef(Top.items)
                         IN IF r[1] THEN <<"ok", [stack EXCEPT ![Len(stack)].items = r[2]]>> ELSE <<"error", stack>>
  ELSE <<"ok", PushItem([t |-> "kw", s |-> BytesToStr(acc)])>>

\* close a dictionary frame: items must alternate name, value
RECURSIVE Pairs(_)
Pairs(items) == IF items = <<>> THEN <<>> ELSE <<[k |-> items[1].b, v |-> items[2]]>> \o Pairs(SubSeq(items, 3, Len(items)))
DictOK(items) == Len(items) % 2 = 0 /\ \A i \in 1..Len(items) : (i % 2 = 1) => items[i].t = "name"

(* ---------------------------------- the step ---------------------------------- *)
\* helper: next state pieces
Stay(m) == /\ mode' = m /\ UNCHANGED <<pos, acc, aux, stack>>

LexStep(B) ==
  /\ mode # "error" /\ mode # "eof"
  /\ IF pos > Len(B)
     THEN \* end of input: flush the pending token
          CASE mode = "num"  -> /\ stack' = FinishNum /\ mode' = "eof" /\ UNCHANGED <<pos, acc, aux>>
            [] mode = "word" -> /\ stack' = FinishWord[2] /\ mode' = (IF FinishWord[1] = "ok" THEN "eof" ELSE "error")
                                /\ UNCHANGED <<pos, acc, aux>>
            [] mode = "name" -> /\ stack' = PushItem([t |-> "name", b |-> acc]) /\ mode' = "eof" /\ UNCHANGED <<pos, acc, aux>>
            [] mode \in {"top", "comment"} -> /\ mode' = "eof" /\ UNCHANGED <<pos, acc, aux, stack>>
            [] OTHER -> /\ mode' = "error" /\ UNCHANGED <<pos, acc, aux, stack>>
     ELSE
     LET b == B[pos] IN
     CASE mode = "top" ->
            IF IsWs(b) THEN /\ pos' = pos + 1 /\ UNCHANGED <<mode, acc, aux, stack>>
            ELSE IF b = 37 THEN /\ pos' = pos + 1 /\ mode' = "comment" /\ UNCHANGED <<acc, aux, stack>>
            ELSE IF b = 47 THEN /\ pos' = pos + 1 /\ mode' = "name" /\ acc' = <<>> /\ UNCHANGED <<aux, stack>>
            ELSE IF b = 40 THEN /\ pos' = pos + 1 /\ mode' = "lit" /\ acc' = <<>> /\ aux' = [Aux0 EXCEPT !.depth = 1] /\ UNCHANGED stack
            ELSE IF b = 60 THEN /\ pos' = pos + 1 /\ mode' = "lt" /\ UNCHANGED <<acc, aux, stack>>
            ELSE IF b = 62 THEN /\ pos' = pos + 1 /\ mode' = "gt" /\ UNCHANGED <<acc, aux, stack>>
            ELSE IF b = 91 THEN /\ pos' = pos + 1 /\ stack' = Append(stack, [kind |-> "arr", items |-> <<>>]) /\ UNCHANGED <<mode, acc, aux>>
            ELSE IF b = 93 THEN
                 IF Top.kind = "arr"
                 THEN /\ pos' = pos + 1
                      /\ stack' = [SubSeq(stack, 1, Len(stack) - 1) EXCEPT ![Len(stack) - 1].items = Append(@, [t |-> "arr", v |-> Top.items])]
                      /\ UNCHANGED <<mode, acc, aux>>
                 ELSE Stay("error")
            ELSE IF b \in {123, 125, 41} THEN Stay("error")
            ELSE IF IsDigit(b) \/ b \in {43, 45, 46}
                 THEN /\ pos' = pos + 1 /\ mode' = "num"
                      /\ acc' = (IF IsDigit(b) THEN <<b>> ELSE <<>>)
                      /\ aux' = [Aux0 EXCEPT !.neg = (b = 45), !.dot = (b = 46)]
                      /\ UNCHANGED stack
            ELSE /\ pos' = pos + 1 /\ mode' = "word" /\ acc' = <<b>> /\ UNCHANGED <<aux, stack>>
       [] mode = "comment" ->
            /\ pos' = pos + 1 /\ mode' = (IF b \in {10, 13} THEN "top" ELSE "comment") /\ UNCHANGED <<acc, aux, stack>>
       [] mode = "lt" ->
            IF b = 60 THEN /\ pos' = pos + 1 /\ mode' = "top" /\ stack' = Append(stack, [kind |-> "dict", items |-> <<>>]) /\ UNCHANGED <<acc, aux>>
            ELSE /\ mode' = "hex" /\ acc' = <<>> /\ aux' = [Aux0 EXCEPT !.hi = 16] /\ UNCHANGED <<pos, stack>>
       [] mode = "gt" ->
            IF b = 62 /\ Top.kind = "dict" /\ DictOK(Top.items)
            THEN /\ pos' = pos + 1 /\ mode' = "top"
                 /\ stack' = [SubSeq(stack, 1, Len(stack) - 1) EXCEPT ![Len(stack) - 1].items = Append(@, [t |-> "dict", v |-> Pairs(Top.items)])]
                 /\ UNCHANGED <<acc, aux>>
            ELSE Stay("error")
       [] mode = "name" ->
            IF IsRegular(b)
            THEN IF b = 35 THEN /\ pos' = pos + 1 /\ mode' = "namehex1" /\ UNCHANGED <<acc, aux, stack>>
                 ELSE /\ pos' = pos + 1 /\ acc' = Append(acc, b) /\ UNCHANGED <<mode, aux, stack>>
            ELSE /\ mode' = "top" /\ stack' = PushItem([t |-> "name", b |-> acc]) /\ UNCHANGED <<pos, acc, aux>>
       [] mode = "namehex1" ->
            IF IsHex(b) THEN /\ pos' = pos + 1 /\ mode' = "namehex2" /\ aux' = [aux EXCEPT !.hi = HexVal(b)] /\ UNCHANGED <<acc, stack>>
            ELSE Stay("error")
       [] mode = "namehex2" ->
            IF IsHex(b) THEN /\ pos' = pos + 1 /\ mode' = "name" /\ acc' = Append(acc, aux.hi * 16 + HexVal(b)) /\ UNCHANGED <<aux, stack>>
            ELSE Stay("error")
       [] mode = "lit" ->
            IF b = 92 THEN /\ pos' = pos + 1 /\ mode' = "litesc" /\ UNCHANGED <<acc, aux, stack>>
            ELSE IF b = 40 THEN /\ pos' = pos + 1 /\ acc' = Append(acc, b) /\ aux' = [aux EXCEPT !.depth = @ + 1] /\ UNCHANGED <<mode, stack>>
            ELSE IF b = 41 THEN
                 IF aux.depth = 1
                 THEN /\ pos' = pos + 1 /\ mode' = "top" /\ stack' = PushItem([t |-> "str", b |-> acc]) /\ UNCHANGED <<acc, aux>>
                 ELSE /\ pos' = pos + 1 /\ acc' = Append(acc, b) /\ aux' = [aux EXCEPT !.depth = @ - 1] /\ UNCHANGED <<mode, stack>>
            \* 7.3.4.2: an end-of-line marker in a literal string, however written, is read as one LINE FEED
            ELSE IF b = 13 THEN /\ pos' = pos + 1 /\ mode' = "litcr" /\ acc' = Append(acc, 10) /\ UNCHANGED <<aux, stack>>
            ELSE /\ pos' = pos + 1 /\ acc' = Append(acc, b) /\ UNCHANGED <<mode, aux, stack>>
       [] mode = "litcr" ->
            IF b = 10 THEN /\ pos' = pos + 1 /\ mode' = "lit" /\ UNCHANGED <<acc, aux, stack>>
            ELSE Stay("lit")
       [] mode = "litesc" ->
            IF IsOct(b) THEN /\ pos' = pos + 1 /\ mode' = "litoct" /\ aux' = [aux EXCEPT !.oct = b - 48, !.octn = 1] /\ UNCHANGED <<acc, stack>>
            ELSE IF b = 13 THEN /\ pos' = pos + 1 /\ mode' = "litesccr" /\ UNCHANGED <<acc, aux, stack>>
            ELSE IF b = 10 THEN /\ pos' = pos + 1 /\ mode' = "lit" /\ UNCHANGED <<acc, aux, stack>>
            ELSE /\ pos' = pos + 1 /\ mode' = "lit"
                 /\ acc' = Append(acc, CASE b = 110 -> 10 [] b = 114 -> 13 [] b = 116 -> 9 [] b = 98 -> 8 [] b = 102 -> 12 [] OTHER -> b)
                 /\ UNCHANGED <<aux, stack>>
       [] mode = "litesccr" ->
            IF b = 10 THEN /\ pos' = pos + 1 /\ mode' = "lit" /\ UNCHANGED <<acc, aux, stack>>
            ELSE Stay("lit")
       [] mode = "litoct" ->
            IF IsOct(b) /\ aux.octn < 3
            THEN /\ pos' = pos + 1 /\ aux' = [aux EXCEPT !.oct = @ * 8 + (b - 48), !.octn = @ + 1] /\ UNCHANGED <<mode, acc, stack>>
            ELSE /\ mode' = "lit" /\ acc' = Append(acc, aux.oct % 256) /\ UNCHANGED <<pos, aux, stack>>      \* high-order overflow ignored
       [] mode = "hex" ->
            IF IsHex(b) THEN
                 IF aux.hi = 16 THEN /\ pos' = pos + 1 /\ aux' = [aux EXCEPT !.hi = HexVal(b)] /\ UNCHANGED <<mode, acc, stack>>
                 ELSE /\ pos' = pos + 1 /\ acc' = Append(acc, aux.hi * 16 + HexVal(b)) /\ aux' = [aux EXCEPT !.hi = 16] /\ UNCHANGED <<mode, stack>>
            ELSE IF IsWs(b) THEN /\ pos' = pos + 1 /\ UNCHANGED <<mode, acc, aux, stack>>
            ELSE IF b = 62 THEN /\ pos' = pos + 1 /\ mode' = "top"
                                /\ stack' = PushItem([t |-> "str", b |-> IF aux.hi = 16 THEN acc ELSE Append(acc, aux.hi * 16)])
                                /\ UNCHANGED <<acc, aux>>
            ELSE Stay("error")
       [] mode = "num" ->
            IF IsDigit(b) THEN /\ pos' = pos + 1
                               /\ IF aux.dot THEN aux' = [aux EXCEPT !.frac = Append(@, b)] /\ UNCHANGED acc
                                             ELSE acc' = Append(acc, b) /\ UNCHANGED aux
                               /\ UNCHANGED <<mode, stack>>
            ELSE IF b = 46 /\ ~aux.dot THEN /\ pos' = pos + 1 /\ aux' = [aux EXCEPT !.dot = TRUE] /\ UNCHANGED <<mode, acc, stack>>
            ELSE IF IsWs(b) \/ IsDelim(b)
                 THEN IF acc = <<>> /\ aux.frac = <<>> THEN Stay("error")           \* a bare sign or dot is not a number
                      ELSE /\ mode' = "top" /\ stack' = FinishNum /\ UNCHANGED <<pos, acc, aux>>
            ELSE Stay("error")                                                      \* 1e5, 1.2.3, 12abc, NaN, inf: not PDF numbers
       [] mode = "word" ->
            IF IsRegular(b) THEN /\ pos' = pos + 1 /\ acc' = Append(acc, b) /\ UNCHANGED <<mode, aux, stack>>
            ELSE /\ stack' = FinishWord[2]
                 /\ mode' = (CASE FinishWord[1] = "ok" -> "top" [] FinishWord[1] = "stream" -> "streol" [] OTHER -> "error")
                 /\ UNCHANGED <<pos, acc, aux>>
       \* 7.3.8.1: the keyword stream is followed by CRLF or LF (not CR alone); then exactly /Length bytes
       [] mode = "streol" ->
            IF b = 13 THEN /\ pos' = pos + 1 /\ mode' = "streol2" /\ UNCHANGED <<acc, aux, stack>>
            ELSE IF b = 10 THEN /\ pos' = pos + 1 + Top.items[Len(Top.items)].len /\ mode' = "top" /\ UNCHANGED <<acc, aux, stack>>
            ELSE Stay("error")
       [] mode = "streol2" ->
            IF b = 10 THEN /\ pos' = pos + 1 + Top.items[Len(Top.items)].len /\ mode' = "top" /\ UNCHANGED <<acc, aux, stack>>
            ELSE Stay("error")

\* the machine has consumed everything and closed every container
LexDone == mode = "eof"
LexClean == LexDone /\ Len(stack) = 1
Result == stack[1].items

(* ------------------------------- comparing values ------------------------------- *)
\* dictionaries are unordered: compare as sets of pairs, keys unique
RECURSIVE SameValue(_, _)
SameValue(a, b) ==
  IF a.t # b.t THEN FALSE
  ELSE CASE a.t = "arr" -> Len(a.v) = Len(b.v) /\ \A i \in 1..Len(a.v) : SameValue(a.v[i], b.v[i])
         [] a.t = "dict" -> /\ Len(a.v) = Len(b.v)
                            /\ \A i, j \in 1..Len(a.v) : (i # j) => a.v[i].k # a.v[j].k
                            /\ \A i \in 1..Len(a.v) : \E j \in 1..Len(b.v) : a.v[i].k = b.v[j].k /\ SameValue(a.v[i].v, b.v[j].v)
         [] a.t = "stream" -> a.len = b.len /\ SameValue(a.dict, b.dict)
         [] OTHER -> a = b
=============================================================================
