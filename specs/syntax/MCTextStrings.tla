---------------------------- MODULE MCTextStrings ----------------------------
(* Design-level checks of TextString and B1 generation for C10.

   Sanity of the reference decoder: every sequence of scalar values, written as UTF-16BE with BOM, decodes to
   itself; pure PDFDocEncoding-representable text written one byte per character decodes to itself; the raw
   UTF-8 rendering of non-ASCII text does NOT (that is the recorded defect).  The same sequences are printed
   for replay through every text-bearing entry point of the library.                                       *)
EXTENDS TextString, TLC, Json, FiniteSets

CONSTANTS Chars, MaxLen

RECURSIVE SeqsUpTo(_, _)
SeqsUpTo(S, n) == IF n = 0 THEN {<<>>}
                  ELSE LET P == SeqsUpTo(S, n - 1) IN P \cup {Append(s, x) : s \in {t \in P : Len(t) = n - 1}, x \in S}
Texts == SeqsUpTo(Chars, MaxLen)

Utf16Units(c) == IF c < 65536 THEN <<c>> ELSE <<55296 + ((c - 65536) \div 1024), 56320 + ((c - 65536) % 1024)>>
RECURSIVE Utf16BE(_)
Utf16BE(cs) == IF cs = <<>> THEN <<>>
               ELSE LET us == Utf16Units(cs[1])
                        F[i \in 0..Len(us)] == IF i = 0 THEN <<>> ELSE F[i - 1] \o <<us[i] \div 256, us[i] % 256>>
                    IN F[Len(us)] \o Utf16BE(Tail(cs))

ASSUME \A t \in Texts : DecodeText(<<254, 255>> \o Utf16BE(t)) = t
ASSUME \A t \in Texts : IsAscii(t) => DecodeText(t) = t
ASSUME \A t \in Texts : DecodeText(<<239, 187, 191>> \o Utf8Encode(t)) = t
ASSUME \E t \in Texts : ~IsAscii(t) /\ DecodeText(Utf8Encode(t)) # t

VARIABLE done
Init == done = FALSE
Next == /\ ~done
        /\ \A t \in Texts : PrintT(<<"REPLAY", ToJson([cps |-> t])>>)
        /\ done' = TRUE
Spec == Init /\ [][Next]_done
=============================================================================
