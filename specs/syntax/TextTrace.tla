------------------------------ MODULE TextTrace ------------------------------
(* B2 for C10: text handed to a text-bearing entry point, the raw string bytes found in the written file, and
   what the library's reader returned.

   text   entry, cps (the user's text as scalar values), raw (bytes of the string object in the file),
          hasLib / lib (the library's own read-back as scalar values)
   A conforming reader's view is TextString!DecodeText(raw); both views must be the text that was supplied. *)
EXTENDS TextString, TraceLib, EncodingTables

VARIABLE l
IsEvent(e) == l <= NRec /\ Rec[l].ev = e /\ l' = l + 1
E == Rec[l]

TInit == l = 1

TText == /\ IsEvent("text")
         /\ E.found
         /\ DecodeText(E.raw) = E.cps
         /\ E.hasLib => E.lib = E.cps

(* Named deviation (open finding TEXT-utf8-raw): the bytes in the file are the raw UTF-8 of non-ASCII text.
   Accepted only for exactly those bytes; what the library then reads back is not constrained further here. *)
TTextRawUtf8 == /\ KnownOpen("KF_TEXT_UTF8")
                /\ IsEvent("text")
                /\ E.found
                /\ ~IsAscii(E.cps)
                /\ E.raw = Utf8Encode(E.cps)
                /\ NoteKnown("KF_TEXT_UTF8", l)

(* Named deviation (open finding C10-fill-winansi-refusal): the incremental form filler refuses, with an explicit
   error, a value containing a character that WinAnsiEncoding cannot represent (it cannot synthesize the field's
   appearance with the built-in font).  Accepted only for that entry point, only for an explicit refusal, and only
   when the text really contains such a character.                                                            *)
InWinAnsi(c) == \E b \in 1..256 : WinAnsiTable[b] = c
TFillRefused == /\ KnownOpen("KF_C10_FILL_WINANSI")
                /\ IsEvent("text")
                /\ E.entry = "field.fill" /\ ~E.found /\ E.refusal = "winansi"
                /\ \E i \in 1..Len(E.cps) : ~InWinAnsi(E.cps[i])
                /\ NoteKnown("KF_C10_FILL_WINANSI", l)

TNext == TText \/ TTextRawUtf8 \/ TFillRefused
TraceSpec == TInit /\ [][TNext]_l
Prog == Progress(l)
=============================================================================
