----------------------------- MODULE ContentOps -----------------------------
(* Content streams (ISO 32000-1 7.8.2, 8.2, 9.3-9.4, 14.6): the operator vocabulary with operand types, the
   grouping of a token sequence (from the reference lexer PdfLex) into operators, and the AUTHORING MODEL: what
   operators each call of the library's graphics and text API must put into the stream.

   Numbers.  A numeric argument handed to the API is carried as [txt, micro, kind]: its text (the harness parses
   it into the f64 it passes), its value in millionths when |value| <= 2000 (kind "fin"), kind "zero" for NaN
   and the infinities (documented: emitted as 0), kind "big" with the digits of its integer part otherwise.
   What is read back is compared within the writer's documented rounding (a tolerance in millionths that
   depends on the operand's role: coordinates .2, colour components .3, font size exact).                    *)
EXTENDS Naturals, Integers, Sequences, FiniteSets, EncodingTables

\* text shown with a standard font goes into the string as WinAnsiEncoding (Annex D); controls pass through
WinAnsi(cps) == [x \in 1..Len(cps) |-> IF cps[x] < 128 THEN cps[x] ELSE CHOOSE b \in 128..255 : WinAnsiTable[b + 1] = cps[x]]

(* ------------------------------ operator vocabulary ------------------------------ *)
\* operand patterns: "n" number, "i" integer, "name", "str", "arr", "dict", "props" (dict or name), "n*" any count of numbers
OpTable ==
  [ m |-> <<"n", "n">>, l |-> <<"n", "n">>, c |-> <<"n", "n", "n", "n", "n", "n">>, v |-> <<"n", "n", "n", "n">>,
    y |-> <<"n", "n", "n", "n">>, re |-> <<"n", "n", "n", "n">>, h |-> <<>>,
    S |-> <<>>, s |-> <<>>, f |-> <<>>, F |-> <<>>, B |-> <<>>, b |-> <<>>, n |-> <<>>, W |-> <<>>,
    q |-> <<>>, Q |-> <<>>, cm |-> <<"n", "n", "n", "n", "n", "n">>,
    w |-> <<"n">>, J |-> <<"i">>, j |-> <<"i">>, M |-> <<"n">>, i |-> <<"n">>, d |-> <<"arr", "n">>,
    gs |-> <<"name">>, ri |-> <<"name">>, sh |-> <<"name">>, Do |-> <<"name">>,
    BT |-> <<>>, ET |-> <<>>, Tf |-> <<"name", "n">>, Td |-> <<"n", "n">>, TD |-> <<"n", "n">>,
    Tm |-> <<"n", "n", "n", "n", "n", "n">>, Tj |-> <<"str">>, TJ |-> <<"arr">>,
    Tw |-> <<"n">>, Tc |-> <<"n">>, Tz |-> <<"n">>, TL |-> <<"n">>, Ts |-> <<"n">>, Tr |-> <<"i">>,
    rg |-> <<"n", "n", "n">>, RG |-> <<"n", "n", "n">>, g |-> <<"n">>, G |-> <<"n">>,
    k |-> <<"n", "n", "n", "n">>, K |-> <<"n", "n", "n", "n">>,
    cs |-> <<"name">>, CS |-> <<"name">>, sc |-> <<"n*">>, SC |-> <<"n*">>, scn |-> <<"n*">>, SCN |-> <<"n*">>,
    BMC |-> <<"name">>, BDC |-> <<"name", "props">>, EMC |-> <<>>, MP |-> <<"name">>, DP |-> <<"name", "props">> ]
\* operators whose spelling is not an identifier
StarOps == {"W*", "f*", "B*", "b*", "T*", "'", "\""}
StarTable(o) == CASE o = "W*" -> <<>> [] o = "f*" -> <<>> [] o = "B*" -> <<>> [] o = "b*" -> <<>> [] o = "T*" -> <<>>
                  [] o = "'" -> <<"str">> [] OTHER -> <<"n", "n", "str">>
KnownOp(o) == o \in DOMAIN OpTable \/ o \in StarOps
Pattern(o) == IF o \in StarOps THEN StarTable(o) ELSE OpTable[o]

IsNum(v) == v.t \in {"int", "real"}
TypeOK(v, ty) == CASE ty = "n" -> IsNum(v) [] ty = "i" -> v.t = "int" [] ty = "name" -> v.t = "name" [] ty = "str" -> v.t = "str"
                   [] ty = "arr" -> v.t = "arr" [] ty = "dict" -> v.t = "dict" [] ty = "props" -> v.t \in {"dict", "name"} [] OTHER -> FALSE
OperandsOK(o, args) ==
  LET p == Pattern(o) IN
  IF p = <<"n*">> THEN \A x \in 1..Len(args) : IsNum(args[x])
  ELSE Len(args) = Len(p) /\ \A x \in 1..Len(p) : TypeOK(args[x], p[x])

\* group lexer items (values and "kw" tokens) into [op, args]; returns [ok, ops]
RECURSIVE Group(_, _, _, _)
Group(items, x, pending, acc) ==
  IF x > Len(items) THEN [ok |-> pending = <<>>, ops |-> acc]
  ELSE LET v == items[x] IN
       IF v.t = "kw" THEN
            IF KnownOp(v.s) /\ OperandsOK(v.s, pending) THEN Group(items, x + 1, <<>>, Append(acc, [op |-> v.s, args |-> pending]))
            ELSE [ok |-> FALSE, ops |-> Append(acc, [op |-> v.s, args |-> pending])]
       ELSE Group(items, x + 1, Append(pending, v), acc)
GroupOps(items) == Group(items, 1, <<>>, <<>>)

(* ------------------------------ numbers ------------------------------ *)
DigitOf(ch) == CASE ch = "0" -> 0 [] ch = "1" -> 1 [] ch = "2" -> 2 [] ch = "3" -> 3 [] ch = "4" -> 4 [] ch = "5" -> 5
                 [] ch = "6" -> 6 [] ch = "7" -> 7 [] ch = "8" -> 8 [] OTHER -> 9
RECURSIVE StrDigitsVal(_, _, _)
StrDigitsVal(s, x, acc) == IF x > Len(s) THEN acc ELSE StrDigitsVal(s, x + 1, acc * 10 + DigitOf(SubSeq(s, x, x)))
RECURSIVE DotAt(_, _)
DotAt(s, x) == IF x > Len(s) THEN 0 ELSE IF SubSeq(s, x, x) = "." THEN x ELSE DotAt(s, x + 1)
\* a lexer number -> [neg, int (digit string), micro (value in millionths if the integer part has <= 4 digits, else 0), big]
NumParts(v) ==
  LET neg == Len(v.s) > 0 /\ SubSeq(v.s, 1, 1) = "-"
      body == IF neg THEN SubSeq(v.s, 2, Len(v.s)) ELSE v.s
      dot == DotAt(body, 1)
      ip == IF dot = 0 THEN body ELSE SubSeq(body, 1, dot - 1)
      fp == IF dot = 0 THEN "000000" ELSE SubSeq(body, dot + 1, Len(body))
      big == Len(ip) > 4
  IN [neg |-> neg, int |-> ip, big |-> big,
      micro |-> IF big THEN 0 ELSE (IF neg THEN 0 - 1 ELSE 1) * (StrDigitsVal(ip, 1, 0) * 1000000 + StrDigitsVal(fp, 1, 0))]
Abs(a) == IF a < 0 THEN 0 - a ELSE a
\* leading digits of a digit string aligned at magnitude L (value div 10^(L-9)), for relative comparison
Lead9(ds, L) == LET k == Len(ds) - (L - 9) IN IF k <= 0 THEN 0 ELSE StrDigitsVal(SubSeq(ds, 1, IF k > 9 THEN 9 ELSE k), 1, 0)
\* does the number `got` render the API argument `want` within `tol` millionths?  `lib`: got went through the
\* library parser's single-precision operands, so a big value is compared to ~7 significant digits
NumClose(got, want, tol, lib) ==
  IsNum(got) /\
  LET p == NumParts(got) IN
  CASE want.kind = "zero" -> ~p.big /\ p.micro = 0
    [] want.kind = "big"  -> /\ p.big /\ p.neg = want.neg
                             /\ IF lib THEN Abs(Lead9(p.int, Len(want.digits)) - Lead9(want.digits, Len(want.digits))) <= 200
                                       \* the writer may print the shortest decimal that reads back to the same double: same
                                       \* magnitude, same first 15 digits
                                       ELSE Len(p.int) = Len(want.digits) /\ (LET k == IF Len(p.int) < 15 THEN Len(p.int) ELSE 15 IN SubSeq(p.int, 1, k) = SubSeq(want.digits, 1, k))
    [] OTHER -> ~p.big /\ Abs(p.micro - want.micro) <= tol + (IF lib THEN 200 ELSE 0)
TolCoord == 5001       \* {:.2}
TolColor == 501        \* {:.3}
TolExact == 2          \* printed in full; the lexer keeps six decimals

(* ------------------------------ the authoring model ------------------------------ *)
\* expected operand: [k |-> "num", v |-> want, tol |-> t] | [k |-> "int", v |-> n] | [k |-> "name", b |-> bytes] | [k |-> "str", b |-> bytes]
N(want, tol) == [k |-> "num", v |-> want, tol |-> tol]
Nums(ns, tol) == [x \in 1..Len(ns) |-> N(ns[x], tol)]
Const(txt, micro) == [txt |-> txt, micro |-> micro, kind |-> "fin"]
E(op, args) == [op |-> op, args |-> args]
\* a colour [k |-> "gray"|"rgb"|"cmyk", v |-> <<numbers>>] as the operator that selects it
ColorOp(col, stroking) ==
  E(CASE col.k = "gray" -> (IF stroking THEN "G" ELSE "g") [] col.k = "rgb" -> (IF stroking THEN "RG" ELSE "rg") [] OTHER -> (IF stroking THEN "K" ELSE "k"),
    Nums(col.v, TolColor))
Black == [k |-> "gray", v |-> <<Const("0", 0)>>]

\* ---- GraphicsContext: state = [fill, stroke, stack]
Helv == <<72, 101, 108, 118, 101, 116, 105, 99, 97>>
GInit == [fill |-> Black, stroke |-> Black, stack |-> <<>>, font |-> Helv, size |-> Const("12", 12000000)]
GOps(st, call) ==       \* operators this call appends
  LET c == call.c n == call.n IN
  CASE c = "move_to" -> <<E("m", Nums(n, TolCoord))>>
    [] c = "line_to" -> <<E("l", Nums(n, TolCoord))>>
    [] c = "curve_to" -> <<E("c", Nums(n, TolCoord))>>
    [] c = "rect" -> <<E("re", Nums(n, TolCoord))>>
    [] c = "close_path" -> <<E("h", <<>>)>>
    [] c = "stroke" -> <<ColorOp(st.stroke, TRUE), E("S", <<>>)>>
    [] c = "fill" -> <<ColorOp(st.fill, FALSE), E("f", <<>>)>>
    [] c = "fill_stroke" -> <<ColorOp(st.fill, FALSE), ColorOp(st.stroke, TRUE), E("B", <<>>)>>
    [] c = "set_line_width" -> <<E("w", Nums(n, TolCoord))>>
    [] c = "set_line_cap" -> <<E("J", <<[k |-> "int", v |-> call.i]>>)>>
    [] c = "set_line_join" -> <<E("j", <<[k |-> "int", v |-> call.i]>>)>>
    [] c = "set_miter_limit" -> <<E("M", Nums(n, TolCoord))>>
    [] c = "set_flatness" -> <<E("i", Nums(n, TolCoord))>>
    [] c = "save_state" -> <<E("q", <<>>)>>
    [] c = "restore_state" -> <<E("Q", <<>>)>>
    [] c = "transform" -> <<E("cm", Nums(n, TolCoord))>>
    [] c = "translate" -> <<E("cm", Nums(<<Const("1", 1000000), Const("0", 0), Const("0", 0), Const("1", 1000000), n[1], n[2]>>, TolCoord))>>
    [] c = "scale" -> <<E("cm", Nums(<<n[1], Const("0", 0), Const("0", 0), n[2], Const("0", 0), Const("0", 0)>>, TolCoord))>>
    [] c = "end_path" -> <<E("n", <<>>)>>
    [] c = "clip" -> <<E("W", <<>>)>>
    [] c = "clip_even_odd" -> <<E("W*", <<>>)>>
    [] c = "begin_text" -> <<E("BT", <<>>)>>
    [] c = "end_text" -> <<E("ET", <<>>)>>
    [] c = "set_font" -> <<E("Tf", <<[k |-> "name", b |-> call.name], N(n[1], TolExact)>>)>>
    [] c = "set_text_position" -> <<E("Td", Nums(n, TolCoord))>>
    [] c = "show_text" -> <<E("Tj", <<[k |-> "str", b |-> WinAnsi(call.t)]>>)>>
    [] c = "set_word_spacing" -> <<E("Tw", Nums(n, TolCoord))>>
    [] c = "set_character_spacing" -> <<E("Tc", Nums(n, TolCoord))>>
    [] c = "paint_shading" -> <<E("sh", <<[k |-> "name", b |-> call.name]>>)>>
    \* draw_text with a standard font and text within U+0000..U+00FF: a complete text object in the current fill
    \* colour and font; the string holds one byte per character, the code point itself
    [] c = "draw_text" -> <<E("BT", <<>>), ColorOp(st.fill, FALSE), E("Tf", <<[k |-> "name", b |-> st.font], N(st.size, TolExact)>>),
                            E("Td", Nums(n, TolCoord)), E("Tj", <<[k |-> "str", b |-> call.t]>>), E("ET", <<>>)>>
    \* place an image or form XObject: q, a matrix that maps the unit square onto (x, y, w, h), Do, Q
    [] c = "draw_image" -> <<E("q", <<>>),
                             E("cm", Nums(<<n[3], Const("0", 0), Const("0", 0), n[4], n[1], n[2]>>, TolCoord)),
                             E("Do", <<[k |-> "name", b |-> call.name]>>), E("Q", <<>>)>>
    [] OTHER -> <<>>                                  \* set_fill_color / set_stroke_color: state only
GStep(st, call) ==
  CASE call.c = "set_fill_color" -> [st EXCEPT !.fill = call.col]
    [] call.c = "set_stroke_color" -> [st EXCEPT !.stroke = call.col]
    [] call.c = "set_font" -> [st EXCEPT !.font = call.name, !.size = call.n[1]]
    [] call.c = "save_state" -> [st EXCEPT !.stack = Append(@, [fill |-> st.fill, stroke |-> st.stroke, font |-> st.font, size |-> st.size])]
    [] call.c = "restore_state" -> IF st.stack = <<>> THEN st
                                   ELSE LET top == st.stack[Len(st.stack)] IN
                                        [fill |-> top.fill, stroke |-> top.stroke, font |-> top.font, size |-> top.size,
                                         stack |-> SubSeq(st.stack, 1, Len(st.stack) - 1)]
    [] OTHER -> st
RECURSIVE GExpected(_, _, _)
GExpected(prog, x, st) == IF x > Len(prog) THEN <<>> ELSE GOps(st, prog[x]) \o GExpected(prog, x + 1, GStep(st, prog[x]))

\* ---- TextContext / Page text: state = the text-state parameters that have been set (sticky), font, position
\* each write emits  BT  Tf  <one operator per parameter set so far, any order>  Td  Tj  ET
TInit0 == [font |-> <<72, 101, 108, 118, 101, 116, 105, 99, 97>>, size |-> Const("12", 12000000), params |-> <<>>,
           pos |-> <<Const("0", 0), Const("0", 0)>>, mcid |-> 0]
SetParam(ps, e) == SelectSeq(ps, LAMBDA p : p.op # e.op) \o <<e>>
TStep(st, call) ==
  LET c == call.c n == call.n IN
  CASE c = "set_font" -> [st EXCEPT !.font = call.name, !.size = n[1]]
    [] c = "at" -> [st EXCEPT !.pos = n]
    [] c = "set_character_spacing" -> [st EXCEPT !.params = SetParam(@, E("Tc", Nums(n, TolCoord)))]
    [] c = "set_word_spacing" -> [st EXCEPT !.params = SetParam(@, E("Tw", Nums(n, TolCoord)))]
    [] c = "set_horizontal_scaling" -> [st EXCEPT !.params = SetParam(@, E("Tz", <<[k |-> "num100", v |-> n[1], tol |-> TolCoord]>>))]
    [] c = "set_leading" -> [st EXCEPT !.params = SetParam(@, E("TL", Nums(n, TolCoord)))]
    [] c = "set_text_rise" -> [st EXCEPT !.params = SetParam(@, E("Ts", Nums(n, TolCoord)))]
    [] c = "set_rendering_mode" -> [st EXCEPT !.params = SetParam(@, E("Tr", <<[k |-> "int", v |-> call.i]>>))]
    [] c = "set_fill_color" -> [st EXCEPT !.params = SetParam(SelectSeq(@, LAMBDA p : p.op \notin {"g", "rg", "k"}), ColorOp(call.col, FALSE))]
    [] c = "set_stroke_color" -> [st EXCEPT !.params = SetParam(SelectSeq(@, LAMBDA p : p.op \notin {"G", "RG", "K"}), ColorOp(call.col, TRUE))]
    [] c \in {"begin_marked_content", "begin_marked_content_with_actual_text"} -> [st EXCEPT !.mcid = @ + 1]
    [] OTHER -> st
\* expected output of one call: a sequence of SEGMENTS, each [ordered |-> BOOLEAN, ops |-> <<...>>]
Seg(o, ops) == [ordered |-> o, ops |-> ops]
TSegs(st, call) ==
  CASE call.c = "write" ->
         <<Seg(TRUE, <<E("BT", <<>>), E("Tf", <<[k |-> "name", b |-> st.font], N(st.size, TolExact)>>)>>),
           Seg(FALSE, st.params),
           Seg(TRUE, <<E("Td", Nums(st.pos, TolCoord)), E("Tj", <<[k |-> "str", b |-> WinAnsi(call.t)]>>), E("ET", <<>>)>>)>>
    [] call.c = "begin_marked_content" ->
         <<Seg(TRUE, <<E("BDC", <<[k |-> "name", b |-> call.name], [k |-> "mcid", v |-> st.mcid, actual |-> <<>>, has |-> FALSE]>>)>>)>>
    [] call.c = "begin_marked_content_with_actual_text" ->
         <<Seg(TRUE, <<E("BDC", <<[k |-> "name", b |-> call.name], [k |-> "mcid", v |-> st.mcid, actual |-> call.t, has |-> TRUE]>>)>>)>>
    [] call.c = "end_marked_content" -> <<Seg(TRUE, <<E("EMC", <<>>)>>)>>
    [] OTHER -> <<>>
RECURSIVE TExpected(_, _, _)
TExpected(prog, x, st) == IF x > Len(prog) THEN <<>> ELSE TSegs(st, prog[x]) \o TExpected(prog, x + 1, TStep(st, prog[x]))

(* ------------------------------ comparison ------------------------------ *)
\* `want100`: the API takes a ratio, the operator carries a percentage (Tz)
Times100(w) == IF w.kind = "fin" THEN [w EXCEPT !.micro = @ * 100] ELSE w
\* property dictionaries of BDC: /MCID n and, when given, /ActualText as a UTF-16BE text string with BOM
DictGet(d, key) == LET S == {x \in 1..Len(d.v) : d.v[x].k = key} IN IF S = {} THEN [t |-> "none"] ELSE d.v[CHOOSE x \in S : TRUE].v
KeyMCID == <<77, 67, 73, 68>>
KeyActualText == <<65, 99, 116, 117, 97, 108, 84, 101, 120, 116>>
RECURSIVE Utf16(_)      \* code points -> UTF-16BE bytes
Utf16(cps) == IF cps = <<>> THEN <<>>
              ELSE LET c == cps[1] IN
                   (IF c < 65536 THEN <<c \div 256, c % 256>>
                    ELSE LET u == c - 65536 hi == 55296 + (u \div 1024) lo == 56320 + (u % 1024)
                         IN <<hi \div 256, hi % 256, lo \div 256, lo % 256>>) \o Utf16(Tail(cps))
ArgMatches(got, want, lib) ==
  CASE want.k = "num" -> NumClose(got, want.v, want.tol, lib)
    [] want.k = "num100" -> NumClose(got, Times100(want.v), want.tol * 100, lib)
    [] want.k = "int" -> got.t = "int" /\ NumParts(got).micro = want.v * 1000000
    [] want.k = "name" -> got.t = "name" /\ got.b = want.b
    [] want.k = "str" -> got.t = "str" /\ got.b = want.b
    [] want.k = "mcid" -> /\ got.t = "dict"
                          /\ LET m == DictGet(got, KeyMCID) IN m.t = "int" /\ NumParts(m).micro = want.v * 1000000
                          /\ LET a == DictGet(got, KeyActualText) IN
                             IF want.has THEN a.t = "str" /\ a.b = <<254, 255>> \o Utf16(want.actual) ELSE a.t = "none"
    [] OTHER -> FALSE
OpMatches(got, want, lib) == got.op = want.op /\ Len(got.args) = Len(want.args) /\ \A x \in 1..Len(want.args) : ArgMatches(got.args[x], want.args[x], lib)

\* An unordered segment is the run of text-state / colour operators between Tf and Td.  Besides the operators the
\* model prescribes (each exactly once, any order) it may contain operators that set a parameter to its initial
\* value (9.3.1, 8.4.1): they change nothing, and whether a context emits them is not part of the contract.
StateOpNames == {"Tc", "Tw", "Tz", "TL", "Ts", "Tr", "g", "rg", "k", "G", "RG", "K"}
RECURSIVE RunEnd(_, _)
RunEnd(ops, at) == IF at > Len(ops) \/ ops[at].op \notin StateOpNames THEN at ELSE RunEnd(ops, at + 1)
IsZero(v) == IsNum(v) /\ ~NumParts(v).big /\ NumParts(v).micro = 0
DefaultNoop(o) ==
  CASE o.op \in {"Tc", "Tw", "TL", "Ts", "Tr", "g", "G"} -> Len(o.args) = 1 /\ IsZero(o.args[1])
    [] o.op = "Tz" -> Len(o.args) = 1 /\ IsNum(o.args[1]) /\ NumParts(o.args[1]).micro = 100000000
    [] OTHER -> FALSE
RECURSIVE MatchSegs(_, _, _, _)
MatchSegs(ops, at, segs, lib) ==
  IF segs = <<>> THEN at = Len(ops) + 1
  ELSE LET s == segs[1] k == Len(s.ops) IN
       IF s.ordered
       THEN /\ at + k - 1 <= Len(ops)
            /\ \A x \in 1..k : OpMatches(ops[at + x - 1], s.ops[x], lib)
            /\ MatchSegs(ops, at + k, Tail(segs), lib)
       ELSE LET e == RunEnd(ops, at) IN
            /\ \A x \in 1..k : \E y \in at..(e - 1) : OpMatches(ops[y], s.ops[x], lib)
            /\ \A y \in at..(e - 1) : (\E x \in 1..k : s.ops[x].op = ops[y].op) \/ DefaultNoop(ops[y])
            /\ \A y1, y2 \in at..(e - 1) : (y1 # y2) => ops[y1].op # ops[y2].op
            /\ MatchSegs(ops, e, Tail(segs), lib)
Matches(ops, segs, lib) == MatchSegs(ops, 1, segs, lib)
GSegs(prog) == <<Seg(TRUE, GExpected(prog, 1, GInit))>>
=============================================================================
