------------------------------ MODULE FileTrace ------------------------------
(* B2 for C03 and C02 (and the repeat-write clause of C20).  One case per written document:

     file       the authoring program and writer configuration, the bytes written, whether two more serialisations
                gave the same bytes, and the library's own view of those bytes (strict open, recovery entered or
                not, every object as its parser reads it, the page list with decoded content)
     chk_file   [C03] the reference reader PdfFile (silent steps: one per byte of the file, of every object
                stream and of every page's content) finds no structural problem
     chk_lib    [C03] the library's strict parser opened the file without entering recovery and reads every
                in-use object as the same value the reference reader resolves
     chk_pages  [C02] page count, boxes, rotation and content operators, as read by the reference reader and by
                the library, are what the authoring program says (ContentOps model, documented rounding)
     chk_interactive  [C02, C03] the annotations and form fields the program authored are what the reference
                reader finds on each page and under /AcroForm (module Interactive)
     chk_tagged [C02, C03] the logical structure tree the program authored is what the reference reader finds
                under /StructTreeRoot, and the parent tree leads from every tagged marked-content sequence of
                every page back to its structure element (module Tagged)                                      *)
EXTENDS Tagged

VARIABLES l
tvars == <<allvars, l>>
IsEvent(e) == l <= NRec /\ Rec[l].ev = e /\ l' = l + 1

TInit == l = 1 /\ LexInit /\ FileIdle

TFile == /\ IsEvent("file")
         /\ Rec[l].built
         /\ FileStart(l)

TScan == /\ l <= NRec /\ Rec[l].ev \in {"chk_file", "chk_lib", "chk_pages", "chk_resources", "chk_interactive", "chk_tagged"} /\ phase \notin {"idle", "done"}
         /\ (FileStepCore \/ QueueStmsD(Clear) \/ QueuePagesExtra(TRUE, ApPayloads))
         /\ UNCHANGED l

TChkFile == /\ IsEvent("chk_file")
            /\ phase = "done"
            /\ IF Problems = {} THEN TRUE ELSE PrintT(<<"PROBLEMS", ToJson([idx |-> l, problems |-> Problems])>>) /\ FALSE
            /\ UNCHANGED allvars

\* the library's reading of an object against the reference reading (streams: dictionary and data length)
LibSame(lib, ref) == IF ref.t = "stream" THEN lib.t = "stream" /\ SameValue(lib.dict, ref.dict) ELSE SameValue(lib, ref)
TChkLib == /\ IsEvent("chk_lib")
           /\ phase = "done"
           /\ LET L == Rec[fcase].lib IN
              /\ L.open /\ L.recovery = 0
              /\ LET Bad == {n \in InUse : n > 0 /\ ~(LET key == ToString(n) IN key \in DOMAIN L.objects /\ Resolve(n).found /\ LibSame(L.objects[key], Resolve(n).val))}
                 IN IF Bad = {} THEN TRUE ELSE PrintT(<<"PROBLEMS", ToJson([idx |-> l, problems |-> {"library reads object differently"}, objects |-> Bad])>>) /\ FALSE
           /\ UNCHANGED allvars

\* [C02] what was authored is what is read back, by the reference reader and by the library
K_MediaBox == <<77, 101, 100, 105, 97, 66, 111, 120>>
K_Rotate == <<82, 111, 116, 97, 116, 101>>
MicroOf(v) == IF IsNum(v) /\ ~NumParts(v).big THEN NumParts(v).micro ELSE 0 - 1
BoxIs(v, w, h) == v.t = "arr" /\ Len(v.v) = 4 /\ MicroOf(v.v[1]) = 0 /\ MicroOf(v.v[2]) = 0 /\ MicroOf(v.v[3]) = w * 1000000 /\ MicroOf(v.v[4]) = h * 1000000
RotOf(v) == IF v.t = "none" THEN 0 ELSE IF v.t = "int" THEN NumParts(v).micro \div 1000000 ELSE 0 - 1
\* calls that name a resource the API refused to register were never made
RejectedNames(x) == LET P == Rec[fcase].prog.pages[x] A == Rec[fcase].accepted[x] IN
                    IF "resources" \in DOMAIN P THEN {P.resources[i].name : i \in {j \in 1..Len(P.resources) : ~A[j]}} ELSE {}
EffProg(x) == LET P == Rec[fcase].prog.pages[x] R == RejectedNames(x) IN
              SelectSeq(P.prog, LAMBDA c : ~(c.c \in {"draw_image", "paint_shading"} /\ c.name \in R))
PageSegsAt(x) == LET pg == Rec[fcase].prog.pages[x] IN IF pg.kind = "g" THEN GSegs(EffProg(x)) ELSE TExpected(EffProg(x), 1, TInit0)
PageProblems ==
  LET P == Rec[fcase].prog.pages  L == Rec[fcase].lib IN
  (IF Len(PageList) = Len(P) THEN {} ELSE {"reference reader: page count"})
  \cup (IF L.pageCount = Len(P) /\ Len(L.pages) = Len(P) THEN {} ELSE {"library: page count"})
  \cup UNION {
       (IF x <= Len(PageList) THEN
          (IF BoxIs(Deref(PageList[x].inh[K_MediaBox]), P[x].w, P[x].h) THEN {} ELSE {"reference reader: MediaBox"})
          \cup (IF RotOf(Deref(PageList[x].inh[K_Rotate])) % 360 = P[x].rot % 360 THEN {} ELSE {"reference reader: Rotate"})
          \cup (LET c == ContentOf(x) g == GroupOps(c.items)
                IN IF c.ok /\ g.ok /\ Matches(g.ops, PageSegsAt(x), FALSE) THEN {} ELSE {"reference reader: content operators"})
        ELSE {})
       \cup (IF x <= Len(L.pages) THEN
          (IF L.pages[x].ok /\ L.pages[x].mediaBox = <<0, 0, P[x].w * 1000000, P[x].h * 1000000>> THEN {} ELSE {"library: MediaBox"})
          \cup (IF L.pages[x].ok /\ L.pages[x].rotate % 360 = P[x].rot % 360 THEN {} ELSE {"library: Rotate"})
          \cup (IF L.pages[x].ok /\ L.pages[x].content.parsed.ok /\ Matches(L.pages[x].content.parsed.ops, PageSegsAt(x), TRUE) THEN {} ELSE {"library: content operators"})
        ELSE {}) : x \in 1..Len(P)}
TChkPages == /\ IsEvent("chk_pages")
             /\ phase = "done"
             /\ IF PageProblems = {} THEN TRUE ELSE PrintT(<<"PROBLEMS", ToJson([idx |-> l, problems |-> PageProblems])>>) /\ FALSE
             /\ UNCHANGED allvars

\* [C30] every resource name the API accepted is a key of the page's resource dictionary (after reference-lexer
\* decoding: the same bytes the user gave) that resolves to an object of the intended kind, and every name the
\* content stream invokes is such a key
K_Resources == <<82, 101, 115, 111, 117, 114, 99, 101, 115>>
K_XObject == <<88, 79, 98, 106, 101, 99, 116>>
K_Shading == <<83, 104, 97, 100, 105, 110, 103>>
K_Subtype == <<83, 117, 98, 116, 121, 112, 101>>
K_ShadingType == <<83, 104, 97, 100, 105, 110, 103, 84, 121, 112, 101>>
N_Image == <<73, 109, 97, 103, 101>>
N_Form == <<70, 111, 114, 109>>
KeysOf(d) == IF d.t = "dict" THEN {d.v[i].k : i \in 1..Len(d.v)} ELSE {}
ResourceProblems ==
  LET P == Rec[fcase].prog.pages IN
  UNION {
    IF x > Len(PageList) \/ "resources" \notin DOMAIN P[x] THEN {}
    ELSE LET R == Deref(PageList[x].inh[K_Resources])
             xo == Deref(Get(R, K_XObject))
             sh == Deref(Get(R, K_Shading))
             c == ContentOf(x)
             g == GroupOps(c.items)
         IN UNION {
              IF ~Rec[fcase].accepted[x][i] THEN {}
              ELSE LET r == P[x].resources[i] IN
                   IF r.kind = "shading"
                   THEN (IF r.name \in KeysOf(sh) /\ Get(Deref(Get(sh, r.name)), K_ShadingType).t = "int" THEN {} ELSE {"shading name does not resolve"})
                   ELSE (IF r.name \in KeysOf(xo) /\ Deref(Get(xo, r.name)).t = "stream"
                            /\ IsName(Get(Deref(Get(xo, r.name)), K_Subtype), IF r.kind = "image" THEN N_Image ELSE N_Form)
                         THEN {} ELSE {"XObject name does not resolve to the intended object"})
              : i \in 1..Len(P[x].resources)}
            \cup (IF c.ok /\ g.ok THEN {} ELSE {"page content does not lex"})
            \cup (IF g.ok /\ \A o \in {g.ops[k] : k \in 1..Len(g.ops)} :
                        (o.op = "Do" => o.args[1].b \in KeysOf(xo)) /\ (o.op = "sh" => o.args[1].b \in KeysOf(sh))
                  THEN {} ELSE {"content invokes a name that is not in the resource dictionary"})
    : x \in 1..Len(P)}
TChkResources == /\ IsEvent("chk_resources")
                 /\ phase = "done"
                 /\ IF ResourceProblems = {} THEN TRUE ELSE PrintT(<<"PROBLEMS", ToJson([idx |-> l, problems |-> ResourceProblems])>>) /\ FALSE
                 /\ UNCHANGED allvars

TChkInteractive == /\ IsEvent("chk_interactive")
                   /\ phase = "done"
                   /\ IF InteractiveProblems = {} THEN TRUE ELSE PrintT(<<"PROBLEMS", ToJson([idx |-> l, problems |-> InteractiveProblems])>>) /\ FALSE
                   /\ UNCHANGED allvars

TChkTagged == /\ IsEvent("chk_tagged")
              /\ phase = "done"
              /\ IF TaggedProblems = {} THEN TRUE ELSE PrintT(<<"PROBLEMS", ToJson([idx |-> l, problems |-> TaggedProblems])>>) /\ FALSE
              /\ UNCHANGED allvars

TNext == TFile \/ TScan \/ TChkFile \/ TChkLib \/ TChkPages \/ TChkResources \/ TChkInteractive \/ TChkTagged
TraceSpec == TInit /\ [][TNext]_tvars
Prog == Progress(l)
=============================================================================
