----------------------------- MODULE MCContent -----------------------------
(* Design-level sanity of the authoring model and B1 generation of authoring programs for C21.

   Every call of the vocabulary with every numeric class in every operand position (singles), colour/state
   interplay (set colour, save, change, paint, restore, paint), text programs with every text-state parameter
   subset order, strings over the byte classes of literal strings, marked content with /ActualText.         *)
EXTENDS ContentOps, TLC, Json

Num(txt, micro) == [txt |-> txt, micro |-> micro, kind |-> "fin", digits |-> "", neg |-> FALSE]
Zero(txt) == [txt |-> txt, micro |-> 0, kind |-> "zero", digits |-> "", neg |-> FALSE]
Big(txt, digits, neg) == [txt |-> txt, micro |-> 0, kind |-> "big", digits |-> digits, neg |-> neg]
V == << Num("0", 0), Num("-0.0", 0), Num("0.004", 4000), Num("0.005", 5000), Num("0.015", 15000), Num("0.0000001", 0),
        Num("12.345", 12345000), Num("-3.25", 0 - 3250000), Num("100", 100000000), Num("1999.999", 1999999000), Num("-1999.5", 0 - 1999500000),
        Zero("NaN"), Zero("inf"), Zero("-inf"), Big("1000000000000000", "1000000000000000", FALSE), Big("-123456789012", "123456789012", TRUE),
        \* integral values beyond the 64-bit integers, exactly representable as doubles: 10^19 and -2^100 (a font size is printed without a fraction)
        Big("10000000000000000000", "10000000000000000000", FALSE), Big("-1267650600228229401496703205376", "1267650600228229401496703205376", TRUE) >>
NV == Len(V)
Rot(k, n) == [x \in 1..n |-> V[((k + x - 2) % NV) + 1]]         \* n operands starting at class k
Unit == << Num("0", 0), Num("0.25", 250000), Num("0.3333", 333300), Num("1", 1000000), Zero("NaN"), Num("0.0004", 400), Num("0.9996", 999600) >>
Col(k, kind) == [k |-> kind, v |-> [x \in 1..(CASE kind = "gray" -> 1 [] kind = "rgb" -> 3 [] OTHER -> 4) |-> Unit[((k + x - 2) % Len(Unit)) + 1]]]

C0(c) == [c |-> c, n |-> <<>>]
CN(c, ns) == [c |-> c, n |-> ns]
Fonts == <<"Helvetica", "Helvetica-Bold", "Times-Roman", "Times-BoldItalic", "Courier", "Courier-Oblique">>
NameBytes(s) == CASE s = "Helvetica" -> <<72, 101, 108, 118, 101, 116, 105, 99, 97>>
                  [] s = "Helvetica-Bold" -> <<72, 101, 108, 118, 101, 116, 105, 99, 97, 45, 66, 111, 108, 100>>
                  [] s = "Times-Roman" -> <<84, 105, 109, 101, 115, 45, 82, 111, 109, 97, 110>>
                  [] s = "Times-BoldItalic" -> <<84, 105, 109, 101, 115, 45, 66, 111, 108, 100, 73, 116, 97, 108, 105, 99>>
                  [] s = "Courier" -> <<67, 111, 117, 114, 105, 101, 114>>
                  [] OTHER -> <<67, 111, 117, 114, 105, 101, 114, 45, 79, 98, 108, 105, 113, 117, 101>>
\* texts (code points): ASCII, the delimiters and escapes of literal strings, WinAnsi letters and symbols
Texts == << <<72, 105>>, <<>>, <<40>>, <<41>>, <<40, 41>>, <<41, 40>>, <<92>>, <<92, 110>>, <<13>>, <<10>>, <<13, 10>>, <<9, 32>>, <<37, 47, 60, 62, 91>>,
            <<233>>, <<8364, 8226>>, <<65, 40, 233, 92, 41>>, <<255, 169>>, [x \in 1..40 |-> 64 + x] >>
Tags == << <<80>>, <<83, 112, 97, 110>>, <<72, 49>> >>
ActualTexts == << <<65>>, <<>>, <<233, 8364>>, <<20013, 25991>>, <<128512>>, <<40, 41, 92>> >>

GNum1 == {"set_line_width", "set_word_spacing", "set_character_spacing"}
\* the miter limit is kept >= 1 and the flatness within 0..100 by the API (their domains in ISO 32000-1 8.4.3); generated inside
MiterV == {7, 9, 10}
FlatV == {1, 3, 4, 5, 7, 9}
GNum2 == {"move_to", "line_to", "set_text_position", "translate", "scale"}
GSingles ==
  {<<CN(c, Rot(k, 1))>> : c \in GNum1, k \in 1..NV} \cup {<<CN("set_miter_limit", Rot(k, 1))>> : k \in MiterV} \cup {<<CN("set_flatness", Rot(k, 1))>> : k \in FlatV} \cup {<<CN(c, Rot(k, 2))>> : c \in GNum2, k \in 1..NV}
  \cup {<<CN("rect", Rot(k, 4))>> : k \in 1..NV} \cup {<<CN(c, Rot(k, 6))>> : c \in {"curve_to", "transform"}, k \in 1..NV}
  \cup {<<C0(c)>> : c \in {"close_path", "stroke", "fill", "fill_stroke", "save_state", "restore_state", "end_path", "clip", "clip_even_odd", "begin_text", "end_text"}}
  \cup {<<[c |-> c, n |-> <<>>, i |-> v]>> : c \in {"set_line_cap", "set_line_join"}, v \in 0..2}
  \cup {<<[c |-> "set_font", n |-> Rot(k, 1), name |-> NameBytes(Fonts[(k % 6) + 1])]>> : k \in 1..NV}
  \cup {<<[c |-> "show_text", n |-> <<>>, t |-> Texts[k]]>> : k \in {x \in 1..Len(Texts) : \A y \in 1..Len(Texts[x]) : Texts[x][y] < 128}}
\* draw_text: Latin-1 texts (one byte per character), with and without a font chosen first, across save/restore
Latin1Texts == << <<72, 105>>, <<>>, <<40, 41, 92>>, <<13, 10, 9>>, <<233>>, <<255>>, <<254, 255, 128, 159, 160>>, <<65, 255, 66>>, [x \in 1..30 |-> 225 + x] >>
GDraw ==
  {<<[c |-> "draw_text", n |-> Rot(k, 2), t |-> Latin1Texts[((k - 1) % Len(Latin1Texts)) + 1]]>> : k \in 1..NV}
  \cup {<<[c |-> "set_font", n |-> Rot(7, 1), name |-> NameBytes("Courier")], C0("save_state"), [c |-> "set_font", n |-> Rot(8, 1), name |-> NameBytes("Times-Roman")],
          [c |-> "draw_text", n |-> Rot(7, 2), t |-> Latin1Texts[k]], C0("restore_state"), [c |-> "draw_text", n |-> Rot(8, 2), t |-> Latin1Texts[k]]>> : k \in 1..Len(Latin1Texts)}
\* colour and state interplay
SetF(k, kind) == [c |-> "set_fill_color", n |-> <<>>, col |-> Col(k, kind)]
SetS(k, kind) == [c |-> "set_stroke_color", n |-> <<>>, col |-> Col(k, kind)]
GState ==
  {<<SetF(k, kind), C0("fill")>> : k \in 1..Len(Unit), kind \in {"gray", "rgb", "cmyk"}}
  \cup {<<SetS(k, kind), C0("stroke")>> : k \in 1..Len(Unit), kind \in {"gray", "rgb", "cmyk"}}
  \cup {<<SetF(2, "rgb"), C0("save_state"), SetF(3, "gray"), SetS(4, "cmyk"), C0("fill_stroke"), C0("restore_state"), C0("fill_stroke")>>,
        <<C0("restore_state"), C0("fill")>>,
        <<C0("save_state"), C0("save_state"), SetF(1, "cmyk"), C0("restore_state"), C0("fill"), C0("restore_state"), C0("restore_state"), C0("stroke")>>,
        <<CN("rect", Rot(7, 4)), C0("clip"), C0("end_path"), SetF(4, "rgb"), CN("rect", Rot(8, 4)), C0("fill")>>,
        <<C0("begin_text"), [c |-> "set_font", n |-> Rot(7, 1), name |-> NameBytes("Courier")], CN("set_text_position", Rot(8, 2)),
          [c |-> "show_text", n |-> <<>>, t |-> <<65, 40, 92, 41>>], C0("end_text")>>}

\* text programs: every subset of the text-state parameters, in two orders, then write; a second write re-emits them
TParams == <<CN("set_character_spacing", Rot(3, 1)), CN("set_word_spacing", Rot(8, 1)), CN("set_horizontal_scaling", <<Num("0.5", 500000)>>),
             CN("set_leading", Rot(7, 1)), CN("set_text_rise", Rot(8, 1)), [c |-> "set_rendering_mode", n |-> <<>>, i |-> 2],
             [c |-> "set_fill_color", n |-> <<>>, col |-> Col(2, "rgb")], [c |-> "set_stroke_color", n |-> <<>>, col |-> Col(3, "gray")]>>
Sub(S) == SelectSeq(TParams, LAMBDA p : \E x \in S : TParams[x] = p)
RECURSIVE Rev(_)
Rev(s) == IF s = <<>> THEN <<>> ELSE Append(Rev(Tail(s)), s[1])
W(k) == [c |-> "write", n |-> <<>>, t |-> Texts[k]]
TProgs ==
  {Sub(S) \o <<CN("at", Rot(7, 2)), W(1)>> : S \in SUBSET (1..Len(TParams))}
  \cup {Rev(Sub(S)) \o <<W(16), CN("set_leading", Rot(9, 1)), W(3)>> : S \in {T \in SUBSET (1..Len(TParams)) : Cardinality(T) \in {2, 5, 8}}}
  \cup {<<[c |-> "set_font", n |-> Rot(k, 1), name |-> NameBytes(Fonts[(k % 6) + 1])], CN("at", Rot(k, 2)), W(((k - 1) % Len(Texts)) + 1)>> : k \in 1..(NV + 2)}
  \cup {<<W(k)>> : k \in 1..Len(Texts)}
  \cup {<<[c |-> "set_horizontal_scaling", n |-> Rot(k, 1)], W(1)>> : k \in {1, 3, 7, 8, 12}}
  \cup {<<[c |-> "set_rendering_mode", n |-> <<>>, i |-> m], W(1), [c |-> "set_rendering_mode", n |-> <<>>, i |-> 7 - m], W(2)>> : m \in 0..7}
  \cup {<<[c |-> "set_fill_color", n |-> <<>>, col |-> Col(k, "cmyk")], [c |-> "set_fill_color", n |-> <<>>, col |-> Col(k, "gray")], W(1)>> : k \in 1..3}
PProgs ==
  {<<[c |-> "begin_marked_content", n |-> <<>>, name |-> Tags[(k % 3) + 1]], W(k), [c |-> "end_marked_content", n |-> <<>>]>> : k \in 1..6}
  \cup {<<[c |-> "begin_marked_content_with_actual_text", n |-> <<>>, name |-> Tags[(k % 3) + 1], t |-> ActualTexts[k]], W(1), [c |-> "end_marked_content", n |-> <<>>],
          [c |-> "begin_marked_content", n |-> <<>>, name |-> Tags[1]], [c |-> "end_marked_content", n |-> <<>>]>> : k \in 1..Len(ActualTexts)}

\* the model is a function of the program and has the right shape
ASSUME \A p \in GSingles \cup GState \cup GDraw : Len(GSegs(p)) = 1
ASSUME \A p \in TProgs : \A s \in {TExpected(p, 1, TInit0)[x] : x \in 1..Len(TExpected(p, 1, TInit0))} : s.ordered \/ \A a, b \in 1..Len(s.ops) : a # b => s.ops[a].op # s.ops[b].op

VARIABLE done
Init == done = FALSE
Next == /\ ~done
        /\ \A p \in GSingles \cup GState \cup GDraw : PrintT(<<"REPLAY", ToJson([kind |-> "g", prog |-> p])>>)
        /\ \A p \in TProgs : PrintT(<<"REPLAY", ToJson([kind |-> "t", prog |-> p])>>)
        /\ \A p \in PProgs : PrintT(<<"REPLAY", ToJson([kind |-> "p", prog |-> p])>>)
        /\ PrintT(<<"COUNT", ToJson([g |-> Cardinality(GSingles \cup GState \cup GDraw), t |-> Cardinality(TProgs), p |-> Cardinality(PProgs)])>>)
        /\ done' = TRUE
Spec == Init /\ [][Next]_done
=============================================================================
