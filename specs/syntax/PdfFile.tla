------------------------------- MODULE PdfFile -------------------------------
(* Reference reader and validator of PDF FILE STRUCTURE (ISO 32000-1 7.5: header, body, cross-reference table,
   trailer, incremental updates, object streams, cross-reference streams; 7.7.3 page tree), built on the
   reference lexer PdfLex.  This is the "independent PDF implementation" of the properties that speak of one.

   It is a step machine.  Phase "body": PdfLex runs over the file, one TLC step per byte; a wrapper keeps the
   start offset of every top-level token and the data extent of every stream, and at each `endobj` moves the
   finished indirect object into `objs`.  Phase "sub": the decoded payload of each object stream (and, on
   request, of each page's content stream) is lexed the same way.  Phase "done": everything else is a pure
   function of what was collected - cross-reference sections are read at the offsets the file itself names
   (classic tables byte by byte in their fixed 20-byte format, streams through /W and /Index), chained through
   /Prev, merged newest first, and compared with the objects actually found.

   The file is not a variable: its bytes are the field `bytes` of trace record number `fcase` (constant data, never
   copied into the state).                                                                                   *)
EXTENDS PdfLex, Prim, TraceLib, FiniteSets

VARIABLES fcase,      \* index of the trace record that holds the file
          phase,      \* "idle" | "body" | "sub" | "done"
          topstart,   \* start offset of the top-level token being read
          offs,       \* start offsets of stack[1].items (parallel sequence)
          lastdata,   \* [start, len] of the most recent stream data
          bad,        \* set of strings: structural errors met while scanning
          queue,      \* payloads still to lex: seq of [kind, n, bytes]
          srcbytes,   \* length of the payload being lexed (the bytes themselves are in TLC register 2)
          cursub,     \* [kind, n] of that payload
          secs,       \* cross-reference sections, newest first (computed once, when the scan is over)
          res,        \* object number -> what it resolves to (computed once)
          indexed,    \* secs and res have been computed
          mem         \* object-stream number -> its members (computed once)
filevars == <<fcase, phase, topstart, offs, lastdata, bad, queue, srcbytes, cursub, secs, res, indexed, mem>>

(* What the scan COLLECTS is kept in TLC registers, not in the state (run with -workers 1): the collected objects grow
   with the file, and a state that carried them would be fingerprinted once per byte scanned.  The registers are
   written only by the scanning actions below, along the single path a trace validation follows; position, phase
   and case index keep the states distinct.
     2  bytes of the payload being lexed        3  objs: indirect objects found, seq of [n, g, off, val, data, via]
     4  tails: top-level items outside objects, seq of [off, v] (xref / trailer / startxref material)
     5  subs: lexed payloads, seq of [kind, n, ok, items, offs]    6  items of the current payload flushed so far *)
objs == TLCGet(3)
tails == TLCGet(4)
subs == TLCGet(5)
allvars == <<lexvars, filevars>>

FB == Rec[fcase].bytes
\* the payload being lexed lives in TLC register 2 (set when the payload is started), not in the state: a state that
\* carried 100 KB of payload would be fingerprinted once per byte (run with -workers 1)
Cur == IF phase = "sub" THEN TLCGet(2) ELSE FB

LexReset == /\ pos' = 1 /\ mode' = "top" /\ acc' = <<>> /\ aux' = Aux0 /\ stack' = <<[kind |-> "top", items |-> <<>>]>>
FileIdle == /\ fcase = 0 /\ phase = "idle" /\ topstart = 1 /\ offs = <<>> /\ lastdata = [start |-> 0, len |-> 0]
            /\ bad = {} /\ queue = <<>> /\ srcbytes = 0
            /\ TLCSet(3, <<>>) /\ TLCSet(4, <<>>) /\ TLCSet(5, <<>>) /\ TLCSet(6, [items |-> <<>>, offs |-> <<>>]) /\ TLCSet(2, <<>>)
            /\ cursub = [kind |-> "", n |-> 0] /\ secs = <<>> /\ res = <<>> /\ indexed = FALSE /\ mem = <<>>
FileStart(c) == /\ fcase' = c /\ phase' = "body" /\ topstart' = 1 /\ offs' = <<>> /\ lastdata' = [start |-> 0, len |-> 0]
                /\ bad' = {} /\ queue' = <<>> /\ srcbytes' = 0
                /\ TLCSet(3, <<>>) /\ TLCSet(4, <<>>) /\ TLCSet(5, <<>>) /\ TLCSet(6, [items |-> <<>>, offs |-> <<>>]) /\ TLCSet(2, <<>>)
                /\ cursub' = [kind |-> "", n |-> 0] /\ secs' = <<>> /\ res' = <<>> /\ indexed' = FALSE /\ mem' = <<>>
                /\ LexReset

(* ------------------------------ dictionary helpers ------------------------------ *)
Key(s) == s           \* keys are byte sequences; these are the ones the file structure uses
K_Type == <<84, 121, 112, 101>>                 K_Length == <<76, 101, 110, 103, 116, 104>>
K_Filter == <<70, 105, 108, 116, 101, 114>>     K_N == <<78>>
K_First == <<70, 105, 114, 115, 116>>           K_W == <<87>>
K_Index == <<73, 110, 100, 101, 120>>           K_Size == <<83, 105, 122, 101>>
K_Prev == <<80, 114, 101, 118>>                 K_Root == <<82, 111, 111, 116>>
K_Info == <<73, 110, 102, 111>>                 K_Pages == <<80, 97, 103, 101, 115>>
K_Kids == <<75, 105, 100, 115>>                 K_Count == <<67, 111, 117, 110, 116>>
K_Parent == <<80, 97, 114, 101, 110, 116>>      K_Contents == <<67, 111, 110, 116, 101, 110, 116, 115>>
K_XRefStm == <<88, 82, 101, 102, 83, 116, 109>> K_DecodeParms == <<68, 101, 99, 111, 100, 101, 80, 97, 114, 109, 115>>
K_Encrypt == <<69, 110, 99, 114, 121, 112, 116>> K_ID == <<73, 68>>
N_ObjStm == <<79, 98, 106, 83, 116, 109>>       N_XRef == <<88, 82, 101, 102>>
N_Catalog == <<67, 97, 116, 97, 108, 111, 103>> N_PagesT == <<80, 97, 103, 101, 115>>
N_Page == <<80, 97, 103, 101>>                  N_Flate == <<70, 108, 97, 116, 101, 68, 101, 99, 111, 100, 101>>

None == [t |-> "none"]
DictOf(v) == IF v.t = "dict" THEN v ELSE IF v.t = "stream" THEN v.dict ELSE [t |-> "dict", v |-> <<>>]
Get(v, k) == LET d == DictOf(v) S == {x \in 1..Len(d.v) : d.v[x].k = k} IN IF S = {} THEN None ELSE d.v[CHOOSE x \in S : TRUE].v
IsNatTok(v) == v.t = "int" /\ IsSmallInt(v) /\ Len(v.s) <= 9
NatOf(v) == IF IsNatTok(v) THEN IntOf(v) ELSE 0 - 1
IsName(v, nm) == v.t = "name" /\ v.b = nm
TypeIs(v, nm) == IsName(Get(v, K_Type), nm)

(* ------------------------------ phase "body" / "sub": the wrapped lexer step ------------------------------ *)
TopLevel == Len(stack) = 1
StartsToken(b) == ~IsWs(b) /\ b # 37
ScanStep ==
  /\ phase \in {"body", "sub"}
  /\ ~(TopLevel /\ mode = "top" /\ stack[1].items # <<>> /\ stack[1].items[Len(stack[1].items)] = [t |-> "kw", s |-> "endobj"] /\ phase = "body")
  /\ ~(phase = "sub" /\ TopLevel /\ mode = "top" /\ stack[1].items # <<>> /\ stack[1].items[Len(stack[1].items)].t # "int")
  /\ LexStep(Cur)
  /\ topstart' = IF TopLevel /\ mode = "top" /\ pos <= Len(Cur) /\ StartsToken(Cur[pos]) THEN pos ELSE topstart
  /\ LET n0 == Len(stack[1].items) n1 == Len(stack'[1].items) IN
     /\ offs' = IF n1 = n0 + 1 THEN Append(offs, topstart) ELSE IF n1 < n0 THEN SubSeq(offs, 1, n1) ELSE offs
     /\ bad' = IF n1 < n0 /\ Len(stack') = 1 /\ Len(stack) = 1 THEN bad \cup {"stray R at top level"} ELSE bad
  /\ lastdata' = IF mode \in {"streol", "streol2"} /\ mode' = "top"
                 THEN [start |-> pos + 1, len |-> Top.items[Len(Top.items)].len] ELSE lastdata
  /\ UNCHANGED <<fcase, phase, queue, srcbytes, cursub, secs, res, indexed, mem>>

\* an indirect object is complete: move it out of the lexer's stack
FlushObj ==
  /\ phase = "body" /\ TopLevel /\ mode = "top"
  /\ stack[1].items # <<>> /\ stack[1].items[Len(stack[1].items)] = [t |-> "kw", s |-> "endobj"]
  /\ LET it == stack[1].items  n == Len(it)
         ok == n >= 5 /\ IsNatTok(it[n - 4]) /\ IsNatTok(it[n - 3]) /\ it[n - 2] = [t |-> "kw", s |-> "obj"] /\ it[n - 1].t # "kw"
     IN /\ TLCSet(3, IF ok THEN Append(objs, [n |-> IntOf(it[n - 4]), g |-> IntOf(it[n - 3]), off |-> offs[n - 4], val |-> it[n - 1],
                                           data |-> IF it[n - 1].t = "stream" THEN lastdata ELSE [start |-> 0, len |-> 0], via |-> 0])
                   ELSE objs)
        /\ bad' = IF ok THEN bad ELSE bad \cup {"malformed indirect object"}
        /\ TLCSet(4, tails \o [x \in 1..(IF ok THEN n - 5 ELSE n) |-> [off |-> offs[x], v |-> it[x]]])
  /\ stack' = <<[kind |-> "top", items |-> <<>>]>> /\ offs' = <<>>
  /\ UNCHANGED <<pos, mode, acc, aux, fcase, phase, topstart, lastdata, queue, srcbytes, cursub, secs, res, indexed, mem>>

\* payload of a stream object: raw, or inflated by the zlib primitive when its only filter is FlateDecode.  Dec(o, raw) is
\* what stands between the bytes in the file and the filters: nothing (Clear), or the security handler's decryption
PayloadWith(o, Dec(_, _)) ==
  LET raw == SubSeq(FB, o.data.start, o.data.start + o.data.len - 1)
      d == Dec(o, raw)
      f == Get(o.val, K_Filter)
  IN IF ~d.ok THEN [ok |-> FALSE, out |-> <<>>]
     ELSE IF f.t = "none" THEN [ok |-> TRUE, out |-> d.out]
     ELSE IF IsName(f, N_Flate) \/ (f.t = "arr" /\ Len(f.v) = 1 /\ IsName(f.v[1], N_Flate)) THEN InflateR(d.out)
     ELSE [ok |-> FALSE, out |-> <<>>]
Clear(o, raw) == [ok |-> TRUE, out |-> raw]
PayloadOf(o) == PayloadWith(o, Clear)
ObjStms == SelectSeq(objs, LAMBDA o : o.val.t = "stream" /\ TypeIs(o.val, N_ObjStm))

\* end of the file scan: everything at top level is known (phase "trailer": the moment a reader of an encrypted file
\* finds /Encrypt and derives the key); `extra` payloads the caller wants lexed are queued
EndBody(extra) ==
  /\ phase = "body" /\ mode \in {"eof", "error"}
  /\ TLCSet(4, tails \o [x \in 1..Len(stack[1].items) |-> [off |-> offs[x], v |-> stack[1].items[x]]])
  /\ bad' = bad \cup (IF mode = "error" THEN {"lexical error in file body"} ELSE {}) \cup (IF Len(stack) # 1 THEN {"unclosed container at end of file"} ELSE {})
  /\ queue' = extra
  /\ phase' = "trailer"
  /\ UNCHANGED <<lexvars, fcase, topstart, offs, lastdata, srcbytes, cursub, secs, res, indexed, mem>>
\* the object streams are queued for lexing, decrypted by Dec
QueueStmsD(Dec(_, _)) ==
  /\ phase = "trailer"
  /\ queue' = [x \in 1..Len(ObjStms) |-> [kind |-> "objstm", n |-> ObjStms[x].n, p |-> PayloadWith(ObjStms[x], Dec)]] \o queue
  /\ phase' = "next"
  /\ UNCHANGED <<lexvars, fcase, topstart, offs, lastdata, bad, srcbytes, cursub, secs, res, indexed, mem>>

NextSub ==
  /\ phase = "next" /\ queue # <<>>
  /\ phase' = "sub" /\ queue' = Tail(queue) /\ LexReset /\ offs' = <<>> /\ topstart' = 1
  /\ TLCSet(2, queue[1].p.out) /\ TLCSet(6, [items |-> <<>>, offs |-> <<>>])
  /\ srcbytes' = Len(queue[1].p.out) /\ cursub' = [kind |-> queue[1].kind, n |-> queue[1].n]
  /\ bad' = IF queue[1].p.ok THEN bad ELSE bad \cup {"payload cannot be decoded"}
  /\ UNCHANGED <<fcase, lastdata, secs, res, indexed, mem>>

\* payloads can be long (an object stream of a hundred dictionaries): completed top-level items are moved out of the
\* lexer's stack as soon as the last one is not an integer (integers wait: `n g R` may still combine them)
FlushSub ==
  /\ phase = "sub" /\ TopLevel /\ mode = "top"
  /\ stack[1].items # <<>> /\ stack[1].items[Len(stack[1].items)].t # "int"
  /\ TLCSet(6, [items |-> TLCGet(6).items \o stack[1].items, offs |-> TLCGet(6).offs \o offs])
  /\ stack' = <<[kind |-> "top", items |-> <<>>]>> /\ offs' = <<>>
  /\ UNCHANGED <<pos, mode, acc, aux, fcase, phase, topstart, lastdata, bad, queue, srcbytes, cursub, secs, res, indexed, mem>>
EndSub ==
  /\ phase = "sub" /\ mode \in {"eof", "error"}
  /\ TLCSet(5, Append(subs, [kind |-> cursub.kind, n |-> cursub.n, ok |-> mode = "eof" /\ Len(stack) = 1,
                             items |-> TLCGet(6).items \o stack[1].items, offs |-> TLCGet(6).offs \o offs]))
  /\ phase' = "next"
  /\ UNCHANGED <<lexvars, fcase, topstart, offs, lastdata, bad, queue, srcbytes, cursub, secs, res, indexed, mem>>

(* ------------------------------ phase "done": pure functions of what was collected ------------------------------ *)
ObjsOf(n) == SelectSeq(objs, LAMBDA o : o.n = n)

\* --- object streams: pair table and members
StmMembers(sub, stm) ==     \* seq of [n, idx, val, offok]
  LET nobj == NatOf(Get(stm.val, K_N))  first == NatOf(Get(stm.val, K_First)) IN
  IF ~sub.ok \/ nobj < 0 \/ first < 0 \/ Len(sub.items) < 3 * nobj \/ \E x \in 1..(2 * nobj) : ~IsNatTok(sub.items[x]) THEN <<>>
  ELSE [x \in 1..nobj |-> [n |-> IntOf(sub.items[2 * x - 1]), idx |-> x - 1, val |-> sub.items[2 * nobj + x],
                           offok |-> sub.offs[2 * nobj + x] = first + IntOf(sub.items[2 * x]) + 1]]
SubOf(n) == LET S == {x \in 1..Len(subs) : subs[x].kind = "objstm" /\ subs[x].n = n} IN IF S = {} THEN [ok |-> FALSE, items |-> <<>>, offs |-> <<>>] ELSE subs[CHOOSE x \in S : TRUE]

\* --- classic cross-reference table read byte by byte at offset `at` (1-based index at + 1)
Dig(b) == b - 48
RECURSIVE NumAt(_, _, _)     \* value of `w` digits starting at 1-based index i, or -1
NumAt(i, w, a) == IF w = 0 THEN a ELSE IF i > Len(FB) \/ ~IsDigit(FB[i]) THEN 0 - 1 ELSE NumAt(i + 1, w - 1, a * 10 + Dig(FB[i]))
RECURSIVE SkipWs(_)
SkipWs(i) == IF i <= Len(FB) /\ IsWs(FB[i]) THEN SkipWs(i + 1) ELSE i
RECURSIVE ReadInt(_, _, _)   \* <<value, next index>> of a run of digits (at most 10), or <<-1, i>>
ReadInt(i, a, k) == IF i <= Len(FB) /\ IsDigit(FB[i]) /\ k < 10 THEN ReadInt(i + 1, a * 10 + Dig(FB[i]), k + 1) ELSE IF k = 0 THEN <<0 - 1, i>> ELSE <<a, i>>
HasAt(i, s) == i + Len(s) - 1 <= Len(FB) /\ SubSeq(FB, i, i + Len(s) - 1) = s
W_xref == <<120, 114, 101, 102>>   W_trailer == <<116, 114, 97, 105, 108, 101, 114>>
\* entries of one subsection: 20 bytes each  "oooooooooo ggggg n\r\n" (or " \n" / "\r\n" line ends)
RECURSIVE Entries(_, _, _, _)
Entries(i, objn, cnt, accu) ==
  IF cnt = 0 THEN [ok |-> TRUE, next |-> i, es |-> accu]
  ELSE LET o == NumAt(i, 10, 0)  g == NumAt(i + 11, 5, 0) IN
       IF o < 0 \/ g < 0 \/ i + 19 > Len(FB) \/ FB[i + 10] # 32 \/ FB[i + 16] # 32 \/ FB[i + 17] \notin {110, 102}
          \/ <<FB[i + 18], FB[i + 19]>> \notin {<<32, 13>>, <<32, 10>>, <<13, 10>>}
       THEN [ok |-> FALSE, next |-> i, es |-> accu]
       ELSE Entries(i + 20, objn + 1, cnt - 1, Append(accu, [n |-> objn, ty |-> IF FB[i + 17] = 110 THEN 1 ELSE 0, a |-> o, b |-> g]))
RECURSIVE Subsections(_, _)
Subsections(i, accu) ==
  LET j == SkipWs(i) IN
  IF HasAt(j, W_trailer) THEN [ok |-> TRUE, next |-> j, es |-> accu]
  ELSE LET f == ReadInt(j, 0, 0) IN
       IF f[1] < 0 THEN [ok |-> FALSE, next |-> j, es |-> accu]
       ELSE LET c == ReadInt(SkipWs(f[2]), 0, 0) IN
            IF c[1] < 0 THEN [ok |-> FALSE, next |-> j, es |-> accu]
            ELSE LET e == Entries(SkipWs(c[2]), f[1], c[1], accu) IN
                 IF e.ok THEN Subsections(e.next, e.es) ELSE e
\* the trailer dictionary that follows the table: the top-level dict token that starts after `trailer`
TrailerAfter(i) == LET S == {x \in 1..Len(tails) : tails[x].off - 1 >= i /\ tails[x].v.t = "dict"} IN
                   IF S = {} THEN None ELSE tails[CHOOSE x \in S : \A y \in S : tails[x].off <= tails[y].off].v

\* --- cross-reference stream: entries through /W and /Index
RECURSIVE BEVal(_, _, _, _)
BEVal(bs, i, w, a) == IF w = 0 THEN a ELSE BEVal(bs, i + 1, w - 1, (a % 8388608) * 256 + bs[i])
RECURSIVE XsEntries(_, _, _, _, _, _)
XsEntries(bs, i, w, objn, cnt, accu) ==
  IF cnt = 0 THEN [next |-> i, es |-> accu]
  ELSE LET ty == IF w[1] = 0 THEN 1 ELSE BEVal(bs, i, w[1], 0)
           a == BEVal(bs, i + w[1], w[2], 0)
           b == BEVal(bs, i + w[1] + w[2], w[3], 0)
       IN XsEntries(bs, i + w[1] + w[2] + w[3], w, objn + 1, cnt - 1, Append(accu, [n |-> objn, ty |-> ty, a |-> a, b |-> b]))
RECURSIVE XsSections(_, _, _, _, _)
XsSections(bs, i, w, idx, accu) ==
  IF idx = <<>> THEN [ok |-> i = Len(bs) + 1, es |-> accu]
  ELSE LET r == XsEntries(bs, i, w, idx[1], idx[2], accu) IN XsSections(bs, r.next, w, SubSeq(idx, 3, Len(idx)), r.es)
NatSeq(v) == IF v.t = "arr" /\ \A x \in 1..Len(v.v) : IsNatTok(v.v[x]) THEN [x \in 1..Len(v.v) |-> IntOf(v.v[x])] ELSE <<>>
\* numbers a reader of this file will ever look up: objects present, members of object streams, everything referenced
RECURSIVE RefsV(_)
RefsV(v) == CASE v.t = "ref" -> {v.n}
              [] v.t = "arr" -> UNION {RefsV(v.v[x]) : x \in 1..Len(v.v)}
              [] v.t = "dict" -> UNION {RefsV(v.v[x].v) : x \in 1..Len(v.v)}
              [] v.t = "stream" -> UNION {RefsV(v.dict.v[x].v) : x \in 1..Len(v.dict.v)}
              [] OTHER -> {}
StmN(n) == LET S == {x \in 1..Len(objs) : objs[x].n = n /\ objs[x].val.t = "stream"} IN
           IF S = {} THEN 0 ELSE LET k == NatOf(Get(objs[CHOOSE x \in S : TRUE].val, K_N)) IN IF k < 0 THEN 0 ELSE k
MemberNums == UNION {{IntOf(subs[y].items[2 * x - 1]) : x \in {k \in 1..StmN(subs[y].n) : 2 * k - 1 <= Len(subs[y].items) /\ IsNatTok(subs[y].items[2 * k - 1])}} :
                        y \in {z \in 1..Len(subs) : subs[z].kind = "objstm"}}
Candidates == {0} \cup {objs[x].n : x \in 1..Len(objs)} \cup MemberNums
              \cup UNION {RefsV(objs[x].val) : x \in 1..Len(objs)}
              \cup UNION {UNION {RefsV(subs[y].items[x]) : x \in 1..Len(subs[y].items)} : y \in {z \in 1..Len(subs) : subs[z].kind = "objstm"}}
RECURSIVE SortSet(_)
SortSet(S) == IF S = {} THEN <<>> ELSE LET m == CHOOSE x \in S : \A y \in S : x <= y IN <<m>> \o SortSet(S \ {m})
\* row index of object n in a stream with /Index idx, or -1
RECURSIVE RowOf(_, _, _)
RowOf(n, idx, before) == IF idx = <<>> THEN 0 - 1
                         ELSE IF n >= idx[1] /\ n < idx[1] + idx[2] THEN before + (n - idx[1])
                         ELSE RowOf(n, SubSeq(idx, 3, Len(idx)), before + idx[2])
RECURSIVE CountOf(_)
CountOf(idx) == IF idx = <<>> THEN 0 ELSE idx[2] + CountOf(SubSeq(idx, 3, Len(idx)))
RECURSIVE MaxOfIdx(_)
MaxOfIdx(idx) == IF idx = <<>> THEN 0 ELSE LET m == MaxOfIdx(SubSeq(idx, 3, Len(idx))) h == idx[1] + idx[2] - 1 IN IF idx[2] > 0 /\ h > m THEN h ELSE m
DecodeRow(row, w, n) == [n |-> n, ty |-> IF w[1] = 0 THEN 1 ELSE BEVal(row, 1, w[1], 0), a |-> BEVal(row, 1 + w[1], w[2], 0), b |-> BEVal(row, 1 + w[1] + w[2], w[3], 0)]
IsFlate(o) == LET f == Get(o.val, K_Filter) IN IsName(f, N_Flate) \/ (f.t = "arr" /\ Len(f.v) = 1 /\ IsName(f.v[1], N_Flate))
XrefStreamSection(o) ==
  LET w == NatSeq(Get(o.val, K_W))
      size == NatOf(Get(o.val, K_Size))
      idx == IF Get(o.val, K_Index).t = "none" THEN <<0, size>> ELSE NatSeq(Get(o.val, K_Index))
      bad0 == Len(w) # 3 \/ size < 0 \/ Len(idx) % 2 # 0 \/ (Get(o.val, K_Filter).t # "none" /\ ~IsFlate(o))
  IN IF bad0 THEN [ok |-> FALSE, es |-> <<>>, trailer |-> o.val.dict, kind |-> "stream", maxn |-> 0]
     ELSE IF CountOf(idx) <= 4000
     THEN LET p == PayloadOf(o)
              r == IF p.ok THEN XsSections(p.out, 1, w, idx, <<>>) ELSE [ok |-> FALSE, es |-> <<>>]
              lenok == p.ok /\ Len(p.out) = (w[1] + w[2] + w[3]) * CountOf(idx)
          IN [ok |-> lenok /\ r.ok, es |-> IF lenok THEN r.es ELSE <<>>, trailer |-> o.val.dict, kind |-> "stream", maxn |-> MaxOfIdx(idx)]
     ELSE \* a sparse section: only the rows of numbers that can be looked up are fetched from the zlib primitive
          LET cs == SortSet({c \in Candidates : RowOf(c, idx, 0) >= 0})
              rl == w[1] + w[2] + w[3]
              r == InflateRows(SubSeq(FB, o.data.start, o.data.start + o.data.len - 1), rl, [x \in 1..Len(cs) |-> RowOf(cs[x], idx, 0)], IsFlate(o))
          IN [ok |-> r.ok /\ r.total = rl * CountOf(idx),
              es |-> IF r.ok THEN [x \in 1..Len(cs) |-> DecodeRow(r.rows[x], w, cs[x])] ELSE <<>>,
              trailer |-> o.val.dict, kind |-> "stream", maxn |-> MaxOfIdx(idx)]

\* the section at byte offset s (0-based, as startxref and /Prev give it)
SectionAt(s) ==
  IF HasAt(s + 1, W_xref)
  THEN LET r == Subsections(s + 5, <<>>)
           ns == {r.es[x].n : x \in 1..Len(r.es)}
       IN [ok |-> r.ok /\ TrailerAfter(r.next).t = "dict", es |-> r.es, trailer |-> TrailerAfter(r.next), kind |-> "table",
           maxn |-> IF ns = {} THEN 0 ELSE CHOOSE m \in ns : \A k \in ns : k <= m]
  ELSE LET S == {x \in 1..Len(objs) : objs[x].off - 1 = s /\ objs[x].via = 0} IN
       IF S = {} THEN [ok |-> FALSE, es |-> <<>>, trailer |-> None, kind |-> "missing", maxn |-> 0]
       ELSE LET o == objs[CHOOSE x \in S : TRUE] IN
            IF o.val.t = "stream" /\ TypeIs(o.val, N_XRef) THEN XrefStreamSection(o) ELSE [ok |-> FALSE, es |-> <<>>, trailer |-> None, kind |-> "not-xref", maxn |-> 0]

\* startxref: the last `startxref` keyword at top level, followed by an integer, followed by nothing
StartXref ==
  LET S == {x \in 1..Len(tails) : tails[x].v = [t |-> "kw", s |-> "startxref"]} IN
  IF S = {} THEN 0 - 1
  ELSE LET x == CHOOSE y \in S : \A z \in S : z <= y IN
       IF x + 1 = Len(tails) /\ IsNatTok(tails[x + 1].v) THEN IntOf(tails[x + 1].v) ELSE 0 - 1

\* the chain of sections, newest first (bounded: a /Prev loop ends the chain and is reported)
RECURSIVE Chain(_, _, _)
Chain(s, seen, fuel) ==
  IF s < 0 \/ fuel = 0 \/ s \in seen THEN <<>>
  ELSE LET sec == SectionAt(s)
           prev == IF sec.trailer.t = "none" THEN None ELSE Get(sec.trailer, K_Prev)
           hyb == IF sec.trailer.t = "none" THEN None ELSE Get(sec.trailer, K_XRefStm)
       IN <<[at |-> s] @@ sec>>
          \o (IF IsNatTok(hyb) THEN <<[at |-> IntOf(hyb)] @@ SectionAt(IntOf(hyb))>> ELSE <<>>)
          \o (IF IsNatTok(prev) THEN Chain(IntOf(prev), seen \cup {s}, fuel - 1) ELSE <<>>)
Sections == secs
\* newest-first merge: the first section that mentions n decides
EntryOf(n) ==
  LET RECURSIVE Find(_) Find(k) ==
        IF k > Len(Sections) THEN [ty |-> 0 - 1]
        ELSE LET S == {x \in 1..Len(Sections[k].es) : Sections[k].es[x].n = n} IN
             IF S = {} THEN Find(k + 1) ELSE Sections[k].es[CHOOSE x \in S : \A y \in S : y <= x]
  IN Find(1)
Mentioned == UNION {{Sections[k].es[x].n : x \in 1..Len(Sections[k].es)} : k \in 1..Len(Sections)}
MaxObj == LET M == {Sections[k].maxn : k \in 1..Len(Sections)} IN IF M = {} THEN 0 ELSE CHOOSE m \in M : \A k \in M : k <= m
TrailerDict == IF Sections = <<>> THEN None ELSE Sections[1].trailer

\* the ISO answer to "what is object n now": [found, val, data]
MemberOf(stmN, idx, n) ==
  IF stmN \notin DOMAIN mem THEN [found |-> FALSE]
  ELSE LET ms == mem[stmN] IN
       IF idx + 1 <= Len(ms) /\ ms[idx + 1].n = n THEN [found |-> TRUE, val |-> ms[idx + 1].val, data |-> [start |-> 0, len |-> 0], offok |-> ms[idx + 1].offok]
       ELSE [found |-> FALSE]
ResolveRaw(n) ==
  LET e == EntryOf(n) IN
  IF e.ty = 1 THEN LET S == {x \in 1..Len(objs) : objs[x].n = n /\ objs[x].off - 1 = e.a /\ objs[x].via = 0} IN
                   IF S = {} THEN [found |-> FALSE] ELSE LET o == objs[CHOOSE x \in S : TRUE] IN [found |-> o.g = e.b, val |-> o.val, data |-> o.data, offok |-> TRUE]
  ELSE IF e.ty = 2 THEN MemberOf(e.a, e.b, n)
  ELSE [found |-> FALSE]
Resolve(n) == IF n \in DOMAIN res THEN res[n] ELSE [found |-> FALSE]

\* the two bookkeeping steps between the scan and the verdict
Finish1 == /\ phase = "next" /\ queue = <<>> /\ ~indexed
           /\ secs' = Chain(StartXref, {}, 16) /\ phase' = "index"
           /\ mem' = [k \in {ObjStms[y].n : y \in 1..Len(ObjStms)} |->
                        LET S == {x \in 1..Len(objs) : objs[x].n = k /\ objs[x].via = 0}
                            stm == objs[CHOOSE x \in S : \A y \in S : objs[y].off <= objs[x].off]
                        IN StmMembers(SubOf(k), stm)]
           /\ UNCHANGED <<lexvars, fcase, topstart, offs, lastdata, bad, queue, srcbytes, cursub, res, indexed>>
Finish2 == /\ phase = "index"
           /\ res' = [n \in Mentioned |-> [ty |-> EntryOf(n).ty] @@ ResolveRaw(n)] /\ phase' = "pages"
           /\ UNCHANGED <<lexvars, fcase, topstart, offs, lastdata, bad, queue, srcbytes, cursub, secs, indexed, mem>>

IsNull(n) == EntryOf(n).ty \in {0 - 1, 0}
Deref(v) == IF v.t = "ref" THEN (LET r == Resolve(v.n) IN IF r.found THEN r.val ELSE [t |-> "null"]) ELSE v

\* every reference inside a value
RECURSIVE Refs(_)
Refs(v) == CASE v.t = "ref" -> {v.n}
             [] v.t = "arr" -> UNION {Refs(v.v[x]) : x \in 1..Len(v.v)}
             [] v.t = "dict" -> UNION {Refs(v.v[x].v) : x \in 1..Len(v.v)}
             [] v.t = "stream" -> UNION {Refs(v.dict.v[x].v) : x \in 1..Len(v.dict.v)}
             [] OTHER -> {}

\* --- page tree (7.7.3): leaves in document order with the inheritable attributes of the nearest ancestor
Inheritable == {<<82, 101, 115, 111, 117, 114, 99, 101, 115>>, <<77, 101, 100, 105, 97, 66, 111, 120>>, <<67, 114, 111, 112, 66, 111, 120>>, <<82, 111, 116, 97, 116, 101>>}
Inherit(node, inh) == [k \in Inheritable |-> IF Get(node, k).t # "none" THEN Get(node, k) ELSE inh[k]]
RECURSIVE Leaves(_, _, _, _)
Leaves(ref, inh, seen, fuel) ==        \* seq of [n, node, inh]; a cycle or a non-node ends the walk there
  IF ref.t # "ref" \/ ref.n \in seen \/ fuel = 0 THEN <<>>
  ELSE LET r == Resolve(ref.n) IN
       IF ~r.found \/ r.val.t # "dict" THEN <<>>
       ELSE IF TypeIs(r.val, N_Page) THEN <<[n |-> ref.n, node |-> r.val, inh |-> Inherit(r.val, inh)]>>
       ELSE LET kids == Deref(Get(r.val, K_Kids))
                i2 == Inherit(r.val, inh)
                RECURSIVE Each(_) Each(x) == IF kids.t # "arr" \/ x > Len(kids.v) THEN <<>> ELSE Leaves(kids.v[x], i2, seen \cup {ref.n}, fuel - 1) \o Each(x + 1)
            IN Each(1)
NoInh == [k \in Inheritable |-> None]
Catalog == IF TrailerDict.t = "none" THEN None ELSE Deref(Get(TrailerDict, K_Root))
PageList == IF Catalog.t # "dict" THEN <<>> ELSE Leaves(Get(Catalog, K_Pages), NoInh, {}, 64)

(* ------------------------------ the verdict: structural problems of the file ------------------------------ *)
HeaderOK == Len(FB) >= 8 /\ SubSeq(FB, 1, 5) = <<37, 80, 68, 70, 45>> /\ FB[6] \in {49, 50} /\ FB[7] = 46 /\ IsDigit(FB[8])
EndsWithEOF == LET RECURSIVE Back(_) Back(i) == IF i >= 1 /\ IsWs(FB[i]) THEN Back(i - 1) ELSE i
                   e == Back(Len(FB))
               IN e >= 5 /\ SubSeq(FB, e - 4, e) = <<37, 37, 69, 79, 70>>
InUse == {n \in DOMAIN res : res[n].ty \in {1, 2}}
AllVals == {objs[x].val : x \in {y \in 1..Len(objs) : Resolve(objs[y].n).found /\ Resolve(objs[y].n).val = objs[y].val}}
            \cup UNION {{mem[k][x].val : x \in 1..Len(mem[k])} : k \in DOMAIN mem}
Problems ==
  LET IU == InUse  AV == AllVals IN
  bad
  \cup (IF HeaderOK THEN {} ELSE {"header"})
  \cup (IF EndsWithEOF THEN {} ELSE {"no %%EOF at the end"})
  \cup (IF StartXref >= 0 THEN {} ELSE {"startxref missing or not last"})
  \cup (IF Sections # <<>> /\ \A k \in 1..Len(Sections) : Sections[k].ok THEN {} ELSE {"cross-reference section unreadable at the offset given"})
  \cup (IF \A n \in IU : Resolve(n).found THEN {} ELSE {"cross-reference entry does not point at its object"})
  \cup (IF \A n \in IU : Resolve(n).found => Resolve(n).offok THEN {} ELSE {"object stream offset table wrong"})
  \cup (IF TrailerDict.t = "dict" /\ NatOf(Get(TrailerDict, K_Size)) = MaxObj + 1 THEN {} ELSE {"/Size is not highest object number + 1"})
  \cup (IF 0 \in Mentioned /\ EntryOf(0).ty = 0 THEN {} ELSE {"object 0 is not the head of the free list"})
  \cup (IF Catalog.t = "dict" /\ TypeIs(Catalog, N_Catalog) THEN {} ELSE {"/Root is not a catalog"})
  \cup (IF \A v \in AV : \A r \in Refs(v) : r \in IU /\ Resolve(r).found THEN {} ELSE {"dangling indirect reference"})
  \cup (IF Len(Sections) > 1 \/ \A x, y \in 1..Len(objs) : (x # y /\ objs[x].via = 0 /\ objs[y].via = 0) => objs[x].n # objs[y].n THEN {} ELSE {"object defined twice in one revision"})
  \cup (IF \A x \in 1..Len(subs) : subs[x].ok THEN {} ELSE {"payload does not lex"})
(* ------------------------------ page contents as payloads; the step relation ------------------------------ *)
\* all content streams of a page, decoded and joined by a line feed (7.8.2: they form one stream)
StreamPayload(v) == IF v.t # "ref" THEN [ok |-> FALSE, out |-> <<>>]
                    ELSE LET r == Resolve(v.n) IN
                         IF r.found /\ r.val.t = "stream" THEN PayloadOf([val |-> r.val, data |-> r.data]) ELSE [ok |-> FALSE, out |-> <<>>]
ContentParts(node) == LET c == Get(node, K_Contents) IN
                      IF c.t = "none" THEN <<>>
                      ELSE IF c.t = "arr" THEN c.v
                      ELSE IF c.t = "ref" /\ Deref(c).t = "arr" THEN Deref(c).v
                      ELSE <<c>>
RECURSIVE JoinPayloads(_, _)
JoinPayloads(parts, x) == IF x > Len(parts) THEN [ok |-> TRUE, out |-> <<>>]
                          ELSE LET p == StreamPayload(parts[x]) r == JoinPayloads(parts, x + 1)
                               IN [ok |-> p.ok /\ r.ok, out |-> p.out \o <<10>> \o r.out]
\* `extra`: further payloads the caller wants lexed as content (appearance streams, ...), seq of [kind, n, p]
QueuePagesExtra(want, extra) ==
  /\ phase = "pages"
  /\ queue' = (IF want THEN [x \in 1..Len(PageList) |-> [kind |-> "content", n |-> x, p |-> JoinPayloads(ContentParts(PageList[x].node), 1)]] ELSE <<>>) \o extra
  /\ indexed' = TRUE /\ phase' = "next"
  /\ UNCHANGED <<lexvars, fcase, topstart, offs, lastdata, bad, srcbytes, cursub, secs, res, mem>>
QueuePages(want) == QueuePagesExtra(want, <<>>)
AllDone == /\ phase = "next" /\ queue = <<>> /\ indexed
           /\ phase' = "done"
           /\ UNCHANGED <<lexvars, fcase, topstart, offs, lastdata, bad, queue, srcbytes, cursub, secs, res, indexed, mem>>
ContentOf(x) == LET S == {y \in 1..Len(subs) : subs[y].kind = "content" /\ subs[y].n = x} IN
                IF S = {} THEN [ok |-> FALSE, items |-> <<>>] ELSE subs[CHOOSE y \in S : TRUE]
\* every step but the queueing of object streams (which an encrypted file's reader does with its key)
FileStepCore == ScanStep \/ FlushObj \/ FlushSub \/ EndBody(<<>>) \/ NextSub \/ EndSub \/ Finish1 \/ Finish2 \/ AllDone
FileStepRest(wantContent) == FileStepCore \/ QueuePages(wantContent)
FileStep(wantContent) == FileStepRest(wantContent) \/ QueueStmsD(Clear)
=============================================================================
