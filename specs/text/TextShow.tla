------------------------------ MODULE TextShow ------------------------------
(* C11: what a page SHOWS, as far as text extraction is concerned.

   A page program is a sequence of items over the text-showing vocabulary of ISO 32000-1 9.4: text objects (BT/ET),
   text state and positioning operators (Tf Td TD Tm T* Tc Tw Tz TL Ts Tr), the four show operators (Tj TJ ' "),
   graphics state around them (q Q cm), form XObjects invoked with Do (their content is shown each time, 8.10), and
   marked content (14.6): /Artifact scopes, and /Span scopes whose /ActualText replaces whatever is shown inside.

   Fonts: F1 is a simple font with WinAnsiEncoding - a string is one code per byte; F2 is a Type0 font with
   Identity-H - a string is a sequence of two-byte CIDs, and the ToUnicode CMap gives each CID its Unicode text
   (one code point, several for a ligature, a supplementary-plane one).

   Shown(...) is the sequence of Unicode characters the page shows, in program order.  Positions, spacing, scaling,
   rise and the matrices change WHERE a glyph lands, never WHETHER it is shown; so the conservation law of C11 is
   about the multiset of non-whitespace characters and needs no geometry.                                        *)
EXTENDS Naturals, Sequences, FiniteSets, TLC

\* WinAnsiEncoding (Annex D) for the codes the generator uses; all other codes used are ASCII and map to themselves
WinAnsiU(b) == CASE b = 128 -> 8364 [] b = 146 -> 8217 [] b = 147 -> 8220 [] b = 153 -> 8482 [] b = 140 -> 338 [] OTHER -> b
IsWs(u) == u \in {9, 10, 12, 13, 32, 160}

RECURSIVE Flat(_, _)
Flat(ss, i) == IF i > Len(ss) THEN <<>> ELSE ss[i] \o Flat(ss, i + 1)
F2U(map, cid) == LET S == {x \in 1..Len(map) : map[x].cid = cid} IN IF S = {} THEN <<65533>> ELSE map[CHOOSE x \in S : TRUE].u
\* the characters of one string operand
StrChars(it, map) == IF "cids" \in DOMAIN it THEN Flat([x \in 1..Len(it.cids) |-> F2U(map, it.cids[x])], 1)
                     ELSE [x \in 1..Len(it.s) |-> WinAnsiU(it.s[x])]
ItemChars(it, map) ==
  CASE it.k \in {"show", "quote", "dquote"} -> StrChars(it, map)
    [] it.k = "showtj" -> Flat([x \in 1..Len(it.parts) |-> IF "kern" \in DOMAIN it.parts[x] THEN <<>> ELSE StrChars(it.parts[x], map)], 1)
    [] OTHER -> <<>>
Has(stack, what) == \E x \in 1..Len(stack) : stack[x] = what

(* incl: ExtractionOptions.include_artifacts.  mc: the marked-content scopes open around the item, outermost first. *)
RECURSIVE Walk(_, _, _, _, _, _, _)
Walk(prog, i, mc, forms, map, incl, fuel) ==
  IF i > Len(prog) THEN <<>>
  ELSE LET it == prog[i]
           visible == (incl \/ ~Has(mc, "artifact")) /\ ~Has(mc, "actual")
       IN CASE it.k \in {"artifact", "artifact_props"} -> Walk(prog, i + 1, Append(mc, "artifact"), forms, map, incl, fuel)
            [] it.k = "actual" -> (IF visible THEN it.text ELSE <<>>) \o Walk(prog, i + 1, Append(mc, "actual"), forms, map, incl, fuel)
            [] it.k = "span" -> Walk(prog, i + 1, Append(mc, "span"), forms, map, incl, fuel)
            [] it.k = "emc" -> Walk(prog, i + 1, IF mc = <<>> THEN mc ELSE SubSeq(mc, 1, Len(mc) - 1), forms, map, incl, fuel)
            [] it.k = "form" -> (IF fuel = 0 \/ it.name \notin DOMAIN forms THEN <<>> ELSE Walk(forms[it.name], 1, mc, forms, map, incl, fuel - 1))
                                \o Walk(prog, i + 1, mc, forms, map, incl, fuel)
            [] OTHER -> (IF visible THEN ItemChars(it, map) ELSE <<>>) \o Walk(prog, i + 1, mc, forms, map, incl, fuel)
Shown(c, incl) == Walk(c.prog, 1, <<>>, c.forms, c.f2map, incl, 4)

\* multisets of the non-whitespace characters
Ink(s) == SelectSeq(s, LAMBDA u : ~IsWs(u))
Count(s, u) == Cardinality({x \in 1..Len(s) : s[x] = u})
Range(s) == {s[x] : x \in 1..Len(s)}
SameBag(a, b) == \A u \in Range(a) \cup Range(b) : Count(a, u) = Count(b, u)
\* what is missing / extra, for the report: seq of [u, shown, extracted]
BagDiff(a, b) == LET D == {u \in Range(a) \cup Range(b) : Count(a, u) # Count(b, u)} IN {[u |-> u, shown |-> Count(a, u), extracted |-> Count(b, u)] : u \in D}

\* well-formedness of a program: text operators inside BT..ET, balanced q/Q and marked content
RECURSIVE Balanced(_, _, _, _, _)
Balanced(prog, i, inText, qd, md) ==
  IF i > Len(prog) THEN ~inText /\ qd = 0 /\ md = 0
  ELSE LET it == prog[i] IN
       CASE it.k = "bt" -> ~inText /\ Balanced(prog, i + 1, TRUE, qd, md)
         [] it.k = "et" -> inText /\ Balanced(prog, i + 1, FALSE, qd, md)
         [] it.k = "q" -> ~inText /\ Balanced(prog, i + 1, inText, qd + 1, md)
         [] it.k = "Q" -> ~inText /\ qd > 0 /\ Balanced(prog, i + 1, inText, qd - 1, md)
         [] it.k \in {"artifact", "artifact_props", "actual", "span"} -> Balanced(prog, i + 1, inText, qd, md + 1)
         [] it.k = "emc" -> md > 0 /\ Balanced(prog, i + 1, inText, qd, md - 1)
         [] it.k \in {"show", "quote", "dquote", "showtj", "font"} -> inText /\ Balanced(prog, i + 1, inText, qd, md)
         [] it.k = "form" -> ~inText /\ Balanced(prog, i + 1, inText, qd, md)
         [] OTHER -> Balanced(prog, i + 1, inText, qd, md)
=============================================================================
