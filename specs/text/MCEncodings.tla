----------------------------- MODULE MCEncodings -----------------------------
(* Design-level sanity of the transcribed tables and B1 output (the tables themselves, for the harness to compare
   the library's encoders over every Unicode scalar value).                                                  *)
EXTENDS Encodings, TLC, Json, TextString

\* each table decodes its own reference encoder's output: the table-driven codec satisfies the properties
RefDec(e) == TableOf(e)
RefStrict(e) == {<<c, CHOOSE b \in CodesOf(e, c) : TRUE>> : c \in Repertoire(e)}
ASSUME \A e \in Names : DecodeOK(e, RefDec(e)) /\ StrictOK(e, RefStrict(e)) /\ InverseOK(e, RefDec(e), RefStrict(e)) /\ LossyOK(e, RefStrict(e))
\* printable ASCII is common to all four except the two quote codes of StandardEncoding
ASSUME \A b \in 32..126 : (b \notin {39, 96}) => \A e \in Names : TableOf(e)[b + 1] = b
ASSUME StandardTable[39 + 1] = 8217 /\ StandardTable[96 + 1] = 8216
\* PDFDocEncoding here and the decoder used for text strings (TextString) are the same table
ASSUME \A b \in 0..255 : PDFDocTable[b + 1] # Undefined => PDFDocDecodeByte(b) = PDFDocTable[b + 1]
ASSUME \A b \in 24..255 : PDFDocTable[b + 1] = Undefined => PDFDocDecodeByte(b) = Undefined
\* sizes of the repertoires (Table D.2 lists 149 STD, 208 MAC, 216 WIN + duplicates, 229 PDF characters incl. controls)
ASSUME PrintT(<<"SIZES", ToJson([e \in Names |-> Cardinality(Assigned(e))])>>)

SetToSortSeq(S) == IF S = {} THEN <<>> ELSE LET m == CHOOSE x \in S : \A y \in S : x <= y IN <<m>> \o (IF S = {m} THEN <<>> ELSE <<CHOOSE x \in S \ {m} : TRUE>>)
VARIABLE done
Init == done = FALSE
Next == /\ ~done
        /\ \A e \in Names : PrintT(<<"REPLAY", ToJson([enc |-> e, table |-> TableOf(e),
                                                         alts |-> [b \in 0..255 |-> SetToSortSeq(Alts(e, b))]])>>)
        /\ done' = TRUE
Spec == Init /\ [][Next]_done
=============================================================================
