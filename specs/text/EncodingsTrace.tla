--------------------------- MODULE EncodingsTrace ---------------------------
(* B2 for C25: the three total observations of each encoding of the library (decode of all 256 bytes; the strict
   and the lossy encoder over all 1 114 112 scalar values, reduced to the accepted pairs) judged by Encodings.

   Named deviations describe exactly what the pinned implementation does instead, so that any OTHER deviation of
   the same encoding is still rejected.                                                                      *)
EXTENDS Encodings, TraceLib

VARIABLES l, dec
tvars == <<l, dec>>
IsEvent(e) == l <= NRec /\ Rec[l].ev = e /\ l' = l + 1
E == Rec[l]
PairSet(ps) == {<<ps[i][1], ps[i][2]>> : i \in 1..Len(ps)}

TInit == l = 1 /\ dec = [e \in Names |-> <<>>]

TDecode == /\ IsEvent("decode")
           /\ DecodeOK(E.enc, E.dec)
           /\ dec' = [dec EXCEPT ![E.enc] = E.dec]

TStrict == /\ IsEvent("strict")
           /\ E.scalars = 1112064                                  \* every Unicode scalar value was tried
           /\ StrictOK(E.enc, PairSet(E.pairs))
           /\ InverseOK(E.enc, dec[E.enc], PairSet(E.pairs))
           /\ UNCHANGED dec

TLossy == /\ IsEvent("lossy")
          /\ E.scalars = 1112064
          /\ LossyOK(E.enc, PairSet(E.pairs))
          /\ UNCHANGED dec

(* ---- open finding C25-std-pdfdoc-passthrough: Standard and PDFDoc are not implemented; decode is a lossy UTF-8
        decode of the byte, both encoders pass ASCII through and nothing else ---------------------------------- *)
Utf8LossyByte(b) == IF b < 128 THEN b ELSE 65533
AsciiIdentity == {<<c, c>> : c \in 0..127}
TDecodePassthrough == /\ KnownOpen("KF_C25_PASSTHROUGH") /\ IsEvent("decode")
                      /\ E.enc \in {"Standard", "PdfDoc"}
                      /\ \A b \in 0..255 : E.dec[b + 1] = Utf8LossyByte(b)
                      /\ NoteKnown("KF_C25_PASSTHROUGH", l)
                      /\ dec' = [dec EXCEPT ![E.enc] = E.dec]
TEncodePassthrough == /\ KnownOpen("KF_C25_PASSTHROUGH") /\ (IsEvent("strict") \/ IsEvent("lossy"))
                      /\ E.enc \in {"Standard", "PdfDoc"}
                      /\ E.scalars = 1112064
                      /\ PairSet(E.pairs) = AsciiIdentity
                      /\ NoteKnown("KF_C25_PASSTHROUGH", l)
                      /\ UNCHANGED dec

(* ---- open finding C25-macroman-modern: MacRoman decodes by the Mac OS Roman table of current systems (euro at
        333, the Mac-only mathematical symbols, apple logo) and both encoders stop at code 257 (octal) ----------- *)
TDecodeModernMac == /\ KnownOpen("KF_C25_MACROMAN") /\ IsEvent("decode")
                    /\ E.enc = "MacRoman"
                    /\ \A b \in 0..255 : E.dec[b + 1] = ModernMacRomanTable[b + 1]
                    /\ NoteKnown("KF_C25_MACROMAN", l)
                    /\ dec' = [dec EXCEPT ![E.enc] = E.dec]
\* the parser-side MacRoman decoder: the same modern table, cut off after code 257 (octal), U+FFFD beyond
TDecodeModernMacPartial == /\ KnownOpen("KF_C25_MACROMAN") /\ IsEvent("decode")
                           /\ E.enc = "MacRoman"
                           /\ \A b \in 0..255 : E.dec[b + 1] = (IF b <= 175 THEN ModernMacRomanTable[b + 1] ELSE 65533)
                           /\ NoteKnown("KF_C25_MACROMAN", l)
                           /\ dec' = [dec EXCEPT ![E.enc] = E.dec]
TEncodePartialMac == /\ KnownOpen("KF_C25_MACROMAN") /\ (IsEvent("strict") \/ IsEvent("lossy"))
                     /\ E.enc = "MacRoman"
                     /\ E.scalars = 1112064
                     /\ PairSet(E.pairs) = {<<ModernMacRomanTable[b + 1], b>> : b \in 0..175}
                     /\ NoteKnown("KF_C25_MACROMAN", l)
                     /\ UNCHANGED dec

(* ---- open finding C25-pdfdoc-latin1: the parser-side PDFDocEncoding decoder is ISO 8859-1 (identity) ------------ *)
TDecodePdfDocLatin1 == /\ KnownOpen("KF_C25_PDFDOC_LATIN1") /\ IsEvent("decode")
                       /\ E.enc = "PdfDoc"
                       /\ \A b \in 0..255 : E.dec[b + 1] = b
                       /\ NoteKnown("KF_C25_PDFDOC_LATIN1", l)
                       /\ dec' = [dec EXCEPT ![E.enc] = E.dec]

TNext == TDecodeModernMacPartial \/ TDecodePdfDocLatin1 \/ TDecode \/ TStrict \/ TLossy \/ TDecodePassthrough \/ TEncodePassthrough \/ TDecodeModernMac \/ TEncodePartialMac
TraceSpec == TInit /\ [][TNext]_tvars
Prog == Progress(l)
=============================================================================
