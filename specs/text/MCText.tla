------------------------------- MODULE MCText -------------------------------
(* B1 generator for C11: page programs over the whole text-showing vocabulary, none of which the library's own writer
   emits beyond Tj.  Each case carries the ExtractionOptions combinations to run (bit 0 preserve_layout, 1
   sort_by_position, 2 detect_columns, 3 merge_hyphenated, 4 reconstruct_paragraphs, 5 include_artifacts, 6
   reorder_columns, 7 with_reading_order): all 256 for every seventh case, a spread of 16 otherwise.                                 *)
EXTENDS TextShow, Json

CONSTANTS NCases, Stride

BT == [k |-> "bt"]  ET == [k |-> "et"]  Qs == [k |-> "q"]  QQ == [k |-> "Q"]  EMC == [k |-> "emc"]
Op(op, n) == [k |-> "op", op |-> op, n |-> n]
Font(name, size) == [k |-> "font", name |-> name, size |-> size]
S1(s) == [k |-> "show", s |-> s]
S2(c) == [k |-> "show", cids |-> c]
Quote(s) == [k |-> "quote", s |-> s]
DQuote(aw, ac, s) == [k |-> "dquote", aw |-> aw, ac |-> ac, s |-> s]
TJ(parts) == [k |-> "showtj", parts |-> parts]
P1(s) == [s |-> s]  P2(c) == [cids |-> c]  Kern(n) == [kern |-> n]
Form(name) == [k |-> "form", name |-> name]
Art == [k |-> "artifact"]  ArtP == [k |-> "artifact_props"]  Span == [k |-> "span"]
Actual(t) == [k |-> "actual", text |-> t]

\* F1 strings (WinAnsi codes): words, delimiters and backslash, codes above 127, digits, repeats, inner spaces
W == << <<72, 101, 108, 108, 111>>, <<87, 111, 114, 108, 100, 40, 49, 41, 92>>, <<99, 97, 102, 233, 128, 146, 153>>, <<48, 49, 50, 51, 52, 53, 54, 55, 56, 57>>,
        <<97, 97, 97, 98, 98, 97>>, <<97, 32, 98, 32, 32, 99>>, <<88>>, <<113, 117, 105, 99, 107, 44, 98, 114, 111, 119, 110, 59, 102, 111, 120, 33>>,
        <<84, 104, 101>>, <<101, 110, 100, 46>> >>
Wd(i) == W[(i % Len(W)) + 1]
\* F2: CID -> Unicode
F2Map == << [cid |-> 3, u |-> <<32>>], [cid |-> 36, u |-> <<65>>], [cid |-> 37, u |-> <<66>>], [cid |-> 100, u |-> <<20013>>], [cid |-> 101, u |-> <<25991>>],
            [cid |-> 102, u |-> <<1046>>], [cid |-> 103, u |-> <<937>>], [cid |-> 104, u |-> <<102, 105>>], [cid |-> 105, u |-> <<128512>>], [cid |-> 300, u |-> <<233>>] >>
C == << <<100, 101>>, <<36, 37, 36>>, <<102, 103, 3, 102>>, <<104, 36>>, <<105, 100>>, <<300, 300, 101>> >>
Cd(i) == C[(i % Len(C)) + 1]
Pos == <<"0", "10", "72", "-15", "100.5", "300", "7.25", "-0.5">>
Pn(i) == Pos[(i % Len(Pos)) + 1]
Mats == << <<"1", "0", "0", "1", "100", "900">>, <<"0", "1", "-1", "0", "1200", "300">>, <<"2", "0", "0", "2", "50", "50">>, <<"-1", "0", "0", "1", "1500", "700">>,
           <<"1", "0", "0.5", "1", "300", "1100">>, <<"0.7071", "0.7071", "-0.7071", "0.7071", "900", "200">>, <<"1", "0", "0", "-1", "200", "1500">> >>
Mt(i) == Mats[(i % Len(Mats)) + 1]
Sizes == <<"12", "9", "24", "6.5", "1">>
Sz(i) == Sizes[(i % Len(Sizes)) + 1]

\* ---- program families ----
Lines(k) ==          \* Tj lines moved by Td / TD / T* with a leading
  <<BT, Font("F1", Sz(k)), Op("Td", <<"72", "1700">>), Op("TL", <<"14">>), S1(Wd(k)), Op("Td", <<Pn(k), "-14">>), S1(Wd(k + 1)), Op("TD", <<"0", "-20">>), S1(Wd(k + 2)),
    Op("T*", <<>>), S1(Wd(k + 3)), Op("T*", <<>>), S1(Wd(k + 4)), ET>>
Kerned(k) ==         \* TJ arrays: small kerns, word-sized kerns, positive kerns that move backwards
  <<BT, Font("F1", Sz(k + 1)), Op("Td", <<"100", "1500">>), TJ(<<P1(Wd(k)), Kern("-30"), P1(Wd(k + 1)), Kern("-900"), P1(Wd(k + 2)), Kern("1200"), P1(Wd(k + 3))>>),
    Op("Td", <<"0", "-30">>), TJ(<<Kern("-250"), P1(<<65>>), Kern("-250"), P1(<<66>>), Kern("50"), P1(<<67>>)>>), ET>>
Quotes(k) ==         \* ' and " with character and word spacing, horizontal scaling, rise and render modes
  <<BT, Font("F1", "12"), Op("TL", <<"16">>), Op("Td", <<"80", "1300">>), Op("Tc", <<Pn(k + 6)>>), Op("Tw", <<Pn(k + 1)>>), S1(Wd(k)), Quote(Wd(k + 1)),
    DQuote("3", "1", Wd(k + 2)), Op("Tz", <<IF k % 2 = 0 THEN "50" ELSE "150">>), Quote(Wd(k + 5)), Op("Ts", <<IF k % 3 = 0 THEN "5" ELSE "-3">>), S1(Wd(k + 3)),
    Op("Tr", <<IF k % 3 = 0 THEN "1" ELSE IF k % 3 = 1 THEN "2" ELSE "0">>), Quote(Wd(k + 4)), ET>>
Matrices(k) ==       \* Tm and cm: rotated, scaled, mirrored, sheared text; nested q/Q
  <<Qs, Op("cm", Mt(k)), BT, Font("F1", "10"), Op("Tm", Mt(k + 2)), S1(Wd(k)), Op("Tm", Mt(k + 3)), S1(Wd(k + 1)), ET,
    Qs, Op("cm", Mt(k + 1)), BT, Font("F1", "10"), Op("Td", <<"10", "10">>), S1(Wd(k + 2)), ET, QQ, QQ,
    BT, Font("F1", "10"), Op("Td", <<"400", "400">>), S1(Wd(k + 3)), ET>>
Composite(k) ==      \* the Type0 font, alone and mixed with the simple one, in Tj, TJ and '
  <<BT, Font("F2", Sz(k)), Op("Td", <<"100", "1000">>), S2(Cd(k)), Font("F1", "12"), S1(Wd(k)), Font("F2", "12"), Op("TL", <<"15">>),
    TJ(<<P2(Cd(k + 1)), Kern("-500"), P2(Cd(k + 2))>>), [k |-> "quote", cids |-> Cd(k + 3)], Op("Td", <<"0", "-40">>), S2(Cd(k + 4)), S2(Cd(k + 5)), ET>>
WithForms(k) ==      \* a form shown twice, a form that shows another form, text before and after
  <<BT, Font("F1", "12"), Op("Td", <<"50", "600">>), S1(Wd(k)), ET, Form("Fm1"), Qs, Op("cm", Mt(k)), Form("Fm1"), QQ, Form("Fm2"),
    BT, Font("F1", "12"), Op("Td", <<"50", "500">>), S1(Wd(k + 1)), ET>>
\* inside a form, /F1 names the composite font and /F2 the simple one: the form's own resources, not the page's
FormsOf(k) == [Fm1 |-> <<BT, Font("F2", "11"), Op("Td", <<"20", "20">>), S1(Wd(k + 2)), Font("F1", "11"), S2(Cd(k)), ET>>,
               Fm2 |-> <<Qs, Op("cm", <<"1", "0", "0", "1", "600", "60">>), Form("Fm1"), QQ, BT, Font("F2", "8"), Op("Td", <<"5", "5">>), S1(Wd(k + 3)), ET>>]
Marked(k) ==         \* artifacts (both forms), a plain span, ActualText replacing what is shown
  <<Art, BT, Font("F1", "9"), Op("Td", <<"300", "1900">>), S1(<<72, 69, 65, 68, 69, 82, 55>>), ET, EMC,
    BT, Font("F1", "12"), Op("Td", <<"72", "800">>), S1(Wd(k)), Span, S1(Wd(k + 1)), EMC, Op("Td", <<"0", "-15">>),
    Op("TL", <<"13">>), Actual(IF k % 2 = 0 THEN <<102, 105, 110, 101>> ELSE <<20013, 25991, 33>>)>>
    \o (IF k % 2 = 0 THEN <<S1(<<64, 35>>), Quote(<<36>>)>> ELSE <<Quote(<<64, 35, 36, 37, 38>>), S1(<<36>>)>>)      \* the scope opens with Tj, or with ' (a new line)
    \* other marked-content sequences nested INSIDE the ActualText scope: the replacement stands for all of it, once
    \o (IF k % 3 = 1 THEN <<Span, S1(<<105>>), EMC, S1(<<99, 101>>)>> ELSE IF k % 3 = 2 THEN <<Art, S1(<<72, 101>>), EMC, S1(<<108>>), Span, EMC>> ELSE <<>>)
    \o <<EMC, Op("Td", <<"0", "-15">>), S1(Wd(k + 2)), ET,
    ArtP, BT, Font("F1", "9"), Op("Td", <<"300", "30">>), S1(<<112, 97, 103, 101, 57, 57>>), ET, EMC>>
Dense(k) ==          \* many short shows on one baseline, overlapping positions, tiny font: whatever the layout logic makes of it
  <<BT, Font("F1", "1"), Op("Td", <<"500", "500">>), S1(<<97>>), S1(<<98>>), Op("Td", <<"0", "0">>), S1(<<97>>), Op("Td", <<"-0.5", "0">>), S1(<<99>>), S1(Wd(k)),
    Font("F1", "24"), Op("Td", <<"0", "0.2">>), S1(Wd(k)), Op("Td", <<"1000", "0">>), S1(Wd(k + 1)), Op("Td", <<"-1000", "0.1">>), S1(Wd(k + 2)), ET>>
Families == 8
ProgOf(k) == LET f == k % Families  j == k \div Families IN
  CASE f = 0 -> Lines(j) [] f = 1 -> Kerned(j) [] f = 2 -> Quotes(j) [] f = 3 -> Matrices(j) [] f = 4 -> Composite(j) [] f = 5 -> WithForms(j) [] f = 6 -> Marked(j)
    [] OTHER -> Dense(j)
\* bit 7: TextExtractor::with_reading_order
AllOpts == [x \in 1..256 |-> x - 1]
Spread(k) == <<0, 1, 3, 8, 16, 19, 32, 33, 64 + (k % 2) * 8, 127, 95, (k * 37) % 128, 128, 130, 160, 128 + ((k * 11) % 128)>>
Case(k) == [prog |-> ProgOf(k), forms |-> IF k % Families = 5 THEN FormsOf(k \div Families) ELSE [Fm0 |-> <<>>], f2map |-> F2Map,
            opts |-> IF k % 7 = 0 THEN AllOpts ELSE Spread(k), flate |-> k % 2 = 1,
            \* the ToUnicode CMap written with bfchar entries only, or with bfrange (offset and array forms) where CIDs run
            cmapRanges |-> (k \div 8) % 2 = 1]

VARIABLE done
Init == done = FALSE
Next == /\ ~done
        /\ \A j \in 0..(NCases - 1) : LET c == Case(j * Stride) IN
             /\ Assert(Balanced(c.prog, 1, FALSE, 0, 0), <<"unbalanced program", j>>)
             /\ PrintT(<<"REPLAY", ToJson(c)>>)
        /\ done' = TRUE
Spec == Init /\ [][Next]_done
=============================================================================
