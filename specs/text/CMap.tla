-------------------------------- MODULE CMap --------------------------------
(* C26 - ToUnicode CMaps (ISO 32000-1 9.10.3, Adobe TN 5014/5411).

   A CMap, abstractly:  codespace: sequence of [lo, hi]  (byte strings of equal length)
                        entries  : sequence of   [k |-> "char",  src, dst]
                                              |  [k |-> "range", lo, hi, dst]        dst = first destination; the k-th
                                                                                      code maps to dst + k as a big-endian
                                                                                      integer over dst's width
                                              |  [k |-> "arr",   lo, hi, dsts]       the k-th code maps to dsts[k]
   Codes and destinations are byte strings (sequences of 0..255).  Destinations of a ToUnicode CMap are UTF-16BE.

   Where two entries define the same code the result is not specified by the format; a reader may return any of
   the defined values (Defs is a set).  Generated CMaps avoid entries outside their own codespace and codespace
   ranges whose rectangular (per byte) and linear readings differ.                                        *)
EXTENDS Naturals, Sequences, FiniteSets

RECURSIVE LexLE(_, _)
\* a <= b for byte strings of equal length (big-endian numeric order)
LexLE(a, b) == IF a = <<>> THEN TRUE
               ELSE IF a[1] < b[1] THEN TRUE ELSE IF a[1] > b[1] THEN FALSE ELSE LexLE(Tail(a), Tail(b))

Between(c, lo, hi) == Len(c) = Len(lo) /\ Len(c) = Len(hi) /\ LexLE(lo, c) /\ LexLE(c, hi)

\* c - lo for byte strings of equal length whose difference is small (< 2^24): computed on the last three bytes,
\* the leading bytes may differ by at most a borrow, which the generator guarantees
Tail3(s) == IF Len(s) <= 3 THEN s ELSE SubSeq(s, Len(s) - 2, Len(s))
RECURSIVE Val(_, _)
Val(s, a) == IF s = <<>> THEN a ELSE Val(Tail(s), a * 256 + s[1])
Head3(s) == IF Len(s) <= 3 THEN <<>> ELSE SubSeq(s, 1, Len(s) - 3)
Diff(c, lo) == IF Head3(c) = Head3(lo) THEN Val(Tail3(c), 0) - Val(Tail3(lo), 0)
               ELSE Val(Tail3(c), 0) + 16777216 - Val(Tail3(lo), 0)          \* one borrow from the fourth byte

\* big-endian addition with carry over the width of s (overflow of the whole width is not generated)
RECURSIVE AddBE(_, _)
AddBE(s, k) == IF s = <<>> THEN <<>>
               ELSE LET last == s[Len(s)] + k
                    IN Append(AddBE(SubSeq(s, 1, Len(s) - 1), last \div 256), last % 256)

\* the values an entry defines for code c (empty set: the entry does not concern c)
DefsOf(e, c) ==
  CASE e.k = "char"  -> IF e.src = c THEN {e.dst} ELSE {}
    [] e.k = "range" -> IF Between(c, e.lo, e.hi) THEN {AddBE(e.dst, Diff(c, e.lo))} ELSE {}
    [] e.k = "arr"   -> IF Between(c, e.lo, e.hi) /\ Diff(c, e.lo) + 1 <= Len(e.dsts) THEN {e.dsts[Diff(c, e.lo) + 1]} ELSE {}
    [] OTHER -> {}

Defs(cm, c) == UNION {DefsOf(cm.entries[i], c) : i \in 1..Len(cm.entries)}

InCodespace(cm, c) == \E i \in 1..Len(cm.codespace) : Between(c, cm.codespace[i].lo, cm.codespace[i].hi)

(* a look-up:  result = [some |-> FALSE]  or  [some |-> TRUE, bytes |-> dst] *)
\* `parent` (optional field): the predefined CMap named by `usecmap`.  Identity-H / Identity-V define two-byte codes only
\* (ISO 32000-1 9.7.5.2), so they add nothing for a code of any other length; what a reader makes of an unmapped
\* two-byte code under such a parent is left open here (the library answers with the code itself)
HasIdentityParent(cm) == "parent" \in DOMAIN cm /\ cm.parent \in {"Identity-H", "Identity-V"}
LookupOK(cm, c, r) ==
  IF Defs(cm, c) = {} THEN (IF HasIdentityParent(cm) /\ Len(c) = 2 THEN (~r.some \/ r.bytes = c) ELSE ~r.some)   \* undefined codes - in particular codes outside the codespace - are rejected
  ELSE r.some /\ r.bytes \in Defs(cm, c)
=============================================================================
