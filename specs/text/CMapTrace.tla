------------------------------ MODULE CMapTrace ------------------------------
(* B2 for C26.

   reset     an abstract CMap (the harness rendered it to CMap text and gave it to CMap::parse)
   probe     one code: what map() returned, what to_unicode() made of it, is_valid_code()
   built     a code -> Unicode map handed to ToUnicodeCMapBuilder, and the CMap text it produced
   chk_built the produced text, tokenised by the reference lexer PdfLex (silent steps) and interpreted by the rules
             of CMap, defines exactly the map that went in                                                   *)
EXTENDS CMap, PdfLex, TraceLib, TextString

VARIABLES l, cm, cur
tvars == <<lexvars, l, cm, cur>>
IsEvent(e) == l <= NRec /\ Rec[l].ev = e /\ l' = l + 1
E == Rec[l]
NoCMap == [codespace |-> <<>>, entries |-> <<>>]
LexIdle == UNCHANGED lexvars

TInit == LexInit /\ l = 1 /\ cm = NoCMap /\ cur = 0

TReset == IsEvent("reset") /\ cm' = E.cmap /\ LexIdle /\ UNCHANGED cur

TProbe == /\ IsEvent("probe")
          /\ LookupOK(cm, E.code, E.mapped)
          \* a CMap that inherits from Identity-H / Identity-V also has their two-byte codespace
          /\ E.valid = (InCodespace(cm, E.code) \/ (HasIdentityParent(cm) /\ Len(E.code) = 2))
          \* the mapped bytes are UTF-16BE: to_unicode yields exactly those characters
          /\ E.mapped.some => /\ E.uniSome
                              /\ E.uni = Utf16Decode(E.mapped.bytes)
          /\ LexIdle /\ UNCHANGED <<cm, cur>>

(* ------------------------------- builder ------------------------------- *)
TBuilt == /\ IsEvent("built")
          /\ cur' = l
          /\ pos' = 1 /\ mode' = "top" /\ acc' = <<>> /\ aux' = Aux0 /\ stack' = <<[kind |-> "top", items |-> <<>>]>>
          /\ UNCHANGED cm

TLex == /\ cur > 0 /\ l <= NRec /\ Rec[l].ev = "chk_built"
        /\ LexStep(Rec[cur].bytes)
        /\ UNCHANGED <<l, cm, cur>>

\* interpret a token sequence as CMap sections
IsKw(t, s) == t.t = "kw" /\ t.s = s
RECURSIVE Section(_, _, _, _)
\* collect entries of a bfchar section starting at token i until `endbfchar`
Section(toks, i, kind, accu) ==
  IF i > Len(toks) THEN <<accu, i>>
  ELSE IF IsKw(toks[i], "endbfchar") \/ IsKw(toks[i], "endbfrange") \/ IsKw(toks[i], "endcodespacerange") THEN <<accu, i + 1>>
  ELSE IF kind = "char" /\ i + 1 <= Len(toks) /\ toks[i].t = "str" /\ toks[i + 1].t = "str"
       THEN Section(toks, i + 2, kind, Append(accu, [k |-> "char", src |-> toks[i].b, dst |-> toks[i + 1].b]))
  ELSE IF kind = "cs" /\ i + 1 <= Len(toks) /\ toks[i].t = "str" /\ toks[i + 1].t = "str"
       THEN Section(toks, i + 2, kind, Append(accu, [lo |-> toks[i].b, hi |-> toks[i + 1].b]))
  ELSE IF kind = "range" /\ i + 2 <= Len(toks) /\ toks[i].t = "str" /\ toks[i + 1].t = "str" /\ toks[i + 2].t = "str"
       THEN Section(toks, i + 3, kind, Append(accu, [k |-> "range", lo |-> toks[i].b, hi |-> toks[i + 1].b, dst |-> toks[i + 2].b]))
  ELSE IF kind = "range" /\ i + 2 <= Len(toks) /\ toks[i].t = "str" /\ toks[i + 1].t = "str" /\ toks[i + 2].t = "arr"
       THEN Section(toks, i + 3, kind, Append(accu, [k |-> "arr", lo |-> toks[i].b, hi |-> toks[i + 1].b,
                                                     dsts |-> [j \in 1..Len(toks[i + 2].v) |-> toks[i + 2].v[j].b]]))
  ELSE Section(toks, i + 1, kind, accu)

RECURSIVE Interpret(_, _, _)
Interpret(toks, i, c) ==
  IF i > Len(toks) THEN c
  ELSE IF IsKw(toks[i], "begincodespacerange")
       THEN LET r == Section(toks, i + 1, "cs", <<>>) IN Interpret(toks, r[2], [c EXCEPT !.codespace = @ \o r[1]])
  ELSE IF IsKw(toks[i], "beginbfchar")
       THEN LET r == Section(toks, i + 1, "char", <<>>) IN Interpret(toks, r[2], [c EXCEPT !.entries = @ \o r[1]])
  ELSE IF IsKw(toks[i], "beginbfrange")
       THEN LET r == Section(toks, i + 1, "range", <<>>) IN Interpret(toks, r[2], [c EXCEPT !.entries = @ \o r[1]])
  ELSE Interpret(toks, i + 1, c)

TChkBuilt ==
  /\ IsEvent("chk_built")
  /\ LexClean
  /\ LET B == Rec[cur]
         read == Interpret(Result, 1, NoCMap)
     IN /\ read.codespace # <<>>
        \* every mapping that went in comes out, as a single well-defined value, inside the declared codespace
        /\ \A i \in 1..Len(B.map) :
             /\ InCodespace(read, B.map[i].code)
             /\ Cardinality(Defs(read, B.map[i].code)) = 1
             /\ \A d \in Defs(read, B.map[i].code) : Utf16Decode(d) = B.map[i].cps
             \* ... and the library's own parser reads the same value back from the text it generated
             /\ B.libParsed /\ B.map[i].lib.some /\ Utf16Decode(B.map[i].lib.bytes) = B.map[i].cps
        \* and nothing else is defined: every entry of the text concerns only codes that were put in
        /\ \A j \in 1..Len(read.entries) :
             LET e == read.entries[j] IN
               IF e.k = "char" THEN \E i \in 1..Len(B.map) : B.map[i].code = e.src
               ELSE \A k \in 0..Diff(e.hi, e.lo) : \E i \in 1..Len(B.map) : B.map[i].code = AddBE(e.lo, k)
  /\ LexIdle /\ UNCHANGED <<cm, cur>>

TNext == TReset \/ TProbe \/ TBuilt \/ TLex \/ TChkBuilt
TraceSpec == TInit /\ [][TNext]_tvars
Prog == Progress(l)
=============================================================================
