------------------------------ MODULE TextTrace ------------------------------
(* B2 for C11: each recorded page (program, options, what the library extracted - twice) against TextShow.

     page    the abstract program, its forms, the F2 map, and per options combination: the extracted text as code
             points, and whether a second extraction gave the same text                                        *)
EXTENDS TextShow, TraceLib

VARIABLE l
IsEvent(e) == l <= NRec /\ Rec[l].ev = e /\ l' = l + 1
Incl(bits) == (bits \div 32) % 2 = 1
RunProblems(c, r) ==
  IF ~r.first.ok THEN {[bits |-> r.bits, problem |-> "extraction failed", err |-> r.first.err]}
  ELSE LET want == Ink(Shown(c, Incl(r.bits)))  got == Ink(r.first.text) IN
       (IF SameBag(want, got) THEN {} ELSE {[bits |-> r.bits, problem |-> "characters not conserved", diff |-> BagDiff(want, got)]})
       \cup (IF r.again THEN {} ELSE {[bits |-> r.bits, problem |-> "a second extraction gave different text"]})
PageProblems(c) == UNION {RunProblems(c, c.runs[x]) : x \in 1..Len(c.runs)}
TPage == /\ IsEvent("page")
         /\ Balanced(Rec[l].prog, 1, FALSE, 0, 0)
         /\ Len(Rec[l].runs) = Len(Rec[l].opts)
         /\ LET p == PageProblems(Rec[l]) IN
            IF p = {} THEN TRUE ELSE PrintT(<<"PROBLEMS", ToJson([idx |-> l, problems |-> p])>>) /\ FALSE
TInit == l = 1
TNext == TPage
TraceSpec == TInit /\ [][TNext]_l
Prog == Progress(l)
=============================================================================
