------------------------------ MODULE Encodings ------------------------------
(* C25 - the single-byte encodings of ISO 32000-1 Annex D (Table D.2): StandardEncoding, MacRomanEncoding,
   WinAnsiEncoding, PDFDocEncoding.  The tables are in EncodingTables (generated from the transcription).

   An implementation is observed through three total descriptions, one set per encoding:
     dec     [0..255 -> scalar]                       what decoding each single byte yields
     strict  set of <<scalar, byte>>                  every scalar the strict encoder accepts, with its byte
                                                      (the harness enumerates ALL 1 114 112 scalar values)
     lossy   set of <<scalar, byte>>                  every scalar the lossy encoder maps to one byte other than '?'
   and judged by the operators below.                                                                      *)
EXTENDS Naturals, Sequences, FiniteSets, EncodingTables

Names == {"Standard", "MacRoman", "WinAnsi", "PdfDoc"}
TableOf(e) == CASE e = "Standard" -> StandardTable [] e = "MacRoman" -> MacRomanTable
                [] e = "WinAnsi" -> WinAnsiTable [] OTHER -> PDFDocTable

\* Annex D: the duplicate codes for SPACE (MAC 312, WIN 240) signify a non-breaking space and WIN 255 a (soft)
\* hyphen; the Unicode values NO-BREAK SPACE / SOFT HYPHEN are equally faithful renderings of those codes
Alts(e, b) == {TableOf(e)[b + 1]}
                \cup (IF (e = "WinAnsi" /\ b = 160) \/ (e = "MacRoman" /\ b = 202) THEN {160} ELSE {})
                \cup (IF e = "WinAnsi" /\ b = 173 THEN {173} ELSE {})

Assigned(e) == {b \in 0..255 : TableOf(e)[b + 1] # Undefined}
Repertoire(e) == UNION {Alts(e, b) : b \in Assigned(e)}
CodesOf(e, c) == {b \in Assigned(e) : c \in Alts(e, b)}

\* every assigned code decodes to (an acceptable rendering of) the character the table names
DecodeOK(e, dec) == \A b \in Assigned(e) : dec[b + 1] \in Alts(e, b)

\* Table D.2 is about the Latin character set; it says nothing about C0 controls and DELETE.  Passing such a
\* character through to the identical code is tolerated where the encoding leaves that code unassigned.
ControlPassthrough(e, p) == (p[1] < 32 \/ p[1] = 127) /\ p[2] = p[1] /\ TableOf(e)[p[2] + 1] = Undefined

\* the strict encoder accepts exactly the repertoire, each character going to one of its codes ...
StrictOK(e, strict) ==
  /\ \A p \in strict : \/ (p[1] \in Repertoire(e) /\ p[2] \in CodesOf(e, p[1]))    \* nothing outside, nothing misplaced
                        \/ ControlPassthrough(e, p)
  /\ \A c \in Repertoire(e) : \E p \in strict : p[1] = c                              \* nothing refused that is encodable
\* ... so that encoding and decoding are mutual inverses on the repertoire
InverseOK(e, dec, strict) == \A p \in strict : ControlPassthrough(e, p) \/ (dec[p[2] + 1] \in Alts(e, p[2]) /\ p[1] \in Alts(e, p[2]))

\* the lossy encoder agrees with the table on the repertoire (what it does outside is its documented business)
LossyOK(e, lossy) == \A c \in Repertoire(e) : \E p \in lossy : p[1] = c /\ p[2] \in CodesOf(e, c)
=============================================================================
