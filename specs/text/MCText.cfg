SPECIFICATION Spec
CHECK_DEADLOCK FALSE
CONSTANTS
  NCases = 48
  Stride = 1
