------------------------------- MODULE MCCMap -------------------------------
(* Design-level checks of the CMap arithmetic and B1 generation of abstract CMaps with their probe codes. *)
EXTENDS CMap, TLC, Json

\* big-endian arithmetic sanity on byte strings of width 2..4
Samples == {<<0, 254>>, <<0, 255>>, <<1, 0>>, <<255, 254>>, <<216, 61, 222, 0>>, <<0, 0, 255, 255>>, <<0, 255, 255, 254>>}
ASSUME \A s \in Samples, a \in 0..3, b \in 0..3 : AddBE(AddBE(s, a), b) = AddBE(s, a + b)
ASSUME \A s \in Samples \ {<<255, 254>>}, k \in 0..300 : Len(AddBE(s, k)) = Len(s) /\ Diff(AddBE(s, k), s) = k
ASSUME AddBE(<<0, 254>>, 3) = <<1, 1>> /\ AddBE(<<0, 255, 255, 254>>, 3) = <<1, 0, 0, 1>>
ASSUME LexLE(<<0, 255>>, <<1, 0>>) /\ ~LexLE(<<1, 0>>, <<0, 255>>)

E2 == { [k |-> "char",  src |-> <<0, 65>>, dst |-> <<0, 65>>],
        [k |-> "char",  src |-> <<0, 255>>, dst |-> <<216, 61, 222, 0>>],
        [k |-> "char",  src |-> <<1, 0>>, dst |-> <<0, 102, 0, 102>>],
        [k |-> "range", lo |-> <<0, 254>>, hi |-> <<1, 1>>, dst |-> <<0, 65>>],
        [k |-> "range", lo |-> <<0, 16>>, hi |-> <<0, 19>>, dst |-> <<0, 254>>],
        [k |-> "range", lo |-> <<0, 32>>, hi |-> <<0, 34>>, dst |-> <<216, 61, 222, 0>>],
        [k |-> "range", lo |-> <<48, 0>>, hi |-> <<49, 44>>, dst |-> <<78, 0>>],
        [k |-> "arr",   lo |-> <<0, 255>>, hi |-> <<1, 1>>, dsts |-> <<<<0, 65>>, <<0, 66, 0, 67>>, <<216, 61, 222, 0>>>>],
        [k |-> "arr",   lo |-> <<0, 48>>, hi |-> <<0, 49>>, dsts |-> <<<<0, 97>>, <<0, 98>>>>],
        \* an empty destination string is legal (a glyph that stands for no text); what follows it must not shift
        [k |-> "char",  src |-> <<0, 2>>, dst |-> <<>>],
        [k |-> "arr",   lo |-> <<0, 4>>, hi |-> <<0, 6>>, dsts |-> <<<<0, 65>>, <<>>, <<0, 102, 0, 105>>>>] }
E1 == { [k |-> "char",  src |-> <<65>>, dst |-> <<0, 65>>],
        [k |-> "range", lo |-> <<32>>, hi |-> <<126>>, dst |-> <<0, 32>>],
        [k |-> "range", lo |-> <<250>>, hi |-> <<255>>, dst |-> <<0, 250>>],
        [k |-> "arr",   lo |-> <<128>>, hi |-> <<130>>, dsts |-> <<<<32, 172>>, <<0, 102, 0, 105>>, <<216, 53, 220, 0>>>>] }
E4 == { [k |-> "range", lo |-> <<0, 0, 255, 254>>, hi |-> <<0, 1, 0, 1>>, dst |-> <<0, 65>>],
        [k |-> "char",  src |-> <<128, 0, 0, 1>>, dst |-> <<0, 66>>] }

CS2 == {<<[lo |-> <<0, 0>>, hi |-> <<255, 255>>]>>, <<[lo |-> <<0, 0>>, hi |-> <<1, 255>>], [lo |-> <<48, 0>>, hi |-> <<49, 255>>]>>}
CS1 == {<<[lo |-> <<0>>, hi |-> <<255>>]>>, <<[lo |-> <<32>>, hi |-> <<255>>]>>}
CS4 == {<<[lo |-> <<0, 0, 0, 0>>, hi |-> <<255, 255, 255, 255>>]>>}

SeqOf(S) == {<<>>} \cup {<<a>> : a \in S} \cup {p \in {<<a, b>> : a \in S, b \in S} : p[1] # p[2]}
           \cup {p \in {<<a, b, c>> : a \in S, b \in S, c \in S} : p[1] # p[2] /\ p[1] # p[3] /\ p[2] # p[3]}

\* entries must lie inside the CMap's own codespace (malformed producers are not part of the space)
Inside(cs, e) == LET cm == [codespace |-> cs, entries |-> <<>>] IN
                   IF e.k = "char" THEN InCodespace(cm, e.src) ELSE InCodespace(cm, e.lo) /\ InCodespace(cm, e.hi)

CMapsOf(cs, ES, n) == {[codespace |-> c, entries |-> es] : c \in cs, es \in {s \in SeqOf(ES) : Len(s) <= n}}

CMaps == {cm \in CMapsOf(CS2, E2, 2) \cup CMapsOf(CS1, E1, 3) \cup CMapsOf(CS4, E4, 2) :
            \A i \in 1..Len(cm.entries) : Inside(cm.codespace, cm.entries[i])}

\* probe codes: around every boundary of every entry and of the codespace, plus codes of the wrong length
Sub1(s) == IF \A i \in 1..Len(s) : s[i] = 0 THEN s ELSE
           LET RECURSIVE Dec(_)
               Dec(t) == IF t[Len(t)] > 0 THEN [t EXCEPT ![Len(t)] = @ - 1] ELSE Append(Dec(SubSeq(t, 1, Len(t) - 1)), 255)
           IN Dec(s)
Add1(s) == IF \A i \in 1..Len(s) : s[i] = 255 THEN s ELSE AddBE(s, 1)
Around(s) == {Sub1(s), s, Add1(s)}
ProbesOf(cm) ==
  UNION {IF e.k = "char" THEN Around(e.src) ELSE Around(e.lo) \cup Around(e.hi) \cup {AddBE(e.lo, 1)} : e \in {cm.entries[i] : i \in 1..Len(cm.entries)}}
    \cup UNION {{r.lo, r.hi, Sub1(r.lo), Add1(r.hi)} : r \in {cm.codespace[i] : i \in 1..Len(cm.codespace)}}
    \cup {<<65>>, <<0, 65>>, <<0, 0, 65>>, <<0, 0, 0, 65>>, <<>>}

RECURSIVE SetSeq(_)
SetSeq(S) == IF S = {} THEN <<>> ELSE LET x == CHOOSE y \in S : TRUE IN <<x>> \o SetSeq(S \ {x})

\* CMaps that inherit from a predefined Identity CMap while declaring a codespace of their own width (1, 2, 3 bytes)
CS3 == {<<[lo |-> <<224, 0, 0>>, hi |-> <<224, 255, 255>>]>>}
E3 == { [k |-> "char", src |-> <<224, 0, 66>>, dst |-> <<0, 66>>] }
ParentCMaps == {[codespace |-> c, entries |-> es, parent |-> p] :
                  c \in CS1 \cup CS2 \cup CS3, es \in {<<>>, <<[k |-> "char", src |-> <<65>>, dst |-> <<0, 65>>]>>, <<[k |-> "char", src |-> <<0, 65>>, dst |-> <<0, 66>>]>>, <<[k |-> "char", src |-> <<224, 0, 66>>, dst |-> <<0, 66>>]>>},
                  p \in {"Identity-H", "Identity-V"}}
ParentOK(cm) == \A i \in 1..Len(cm.entries) : Inside(cm.codespace, cm.entries[i])
VARIABLE done
Init == done = FALSE
Next == /\ ~done
        /\ \A cm \in CMaps : PrintT(<<"REPLAY", ToJson([codespace |-> cm.codespace, entries |-> cm.entries, probes |-> SetSeq(ProbesOf(cm))])>>)
        /\ \A cm \in {x \in ParentCMaps : ParentOK(x)} :
              PrintT(<<"REPLAY", ToJson([codespace |-> cm.codespace, entries |-> cm.entries, parent |-> cm.parent,
                                         probes |-> SetSeq(ProbesOf(cm) \cup {<<0>>, <<66>>, <<224, 0, 65>>, <<224, 0, 66>>, <<0, 0, 66>>})])>>)
        /\ PrintT(<<"COUNT", ToJson([n |-> Cardinality(CMaps)])>>)
        /\ done' = TRUE
Spec == Init /\ [][Next]_done
=============================================================================
