SPECIFICATION Spec
CHECK_DEADLOCK FALSE
CONSTANTS
  MaxNodes = 5
  MaxDepth = 3
  Patterns = {1, 2, 5, 6}
