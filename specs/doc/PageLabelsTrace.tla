------------------------- MODULE PageLabelsTrace -------------------------
(* B2 for C27: recorded uses of PageLabelTree (add_range / get_label / to_dict / from_dict and the
   /PageLabels object of a written file) must be behaviours of PageLabels.                       *)
EXTENDS PageLabels, TraceLib, TextString

VARIABLES l,
          pcp        \* starting page |-> the authored prefix as Unicode scalar values
tvars == <<ranges, answer, l, pcp>>

IsEvent(e) == l <= NRec /\ Rec[l].ev = e /\ l' = l + 1

TInit == Init /\ l = 1 /\ pcp = [x \in {} |-> <<>>]

TReset == IsEvent("reset") /\ ranges' = [x \in {} |-> 0] /\ answer' = Absent /\ pcp' = [x \in {} |-> <<>>]

TAdd == /\ IsEvent("add")
        /\ AddRange(Rec[l].page, [style |-> Rec[l].style, prefix |-> Rec[l].prefix, start |-> Rec[l].start])
        /\ pcp' = [x \in (DOMAIN pcp) \cup {Rec[l].page} |-> IF x = Rec[l].page THEN Rec[l].cps ELSE pcp[x]]

\* a look-up returns exactly the label the specification defines
TLabel == /\ IsEvent("label")
          /\ Query(Rec[l].page)
          /\ answer'.absent = ~Rec[l].some
          /\ Rec[l].some => answer'.text = Rec[l].text
          /\ UNCHANGED pcp

(* Named deviation (open finding C27-letters-bijective26): the implementation numbers letter labels
   past Z like spreadsheet columns (27 AA, 28 AB, ... 52 AZ, 53 BA) instead of ISO's AA, BB, ... ZZ, AAA.
   Accepted only for exactly that answer, only for the letter styles, only past 26.              *)
RECURSIVE Bij26(_, _)
Bij26(n, alpha) == IF n = 0 THEN ""
                   ELSE Bij26((n - 1) \div 26, alpha) \o SubSeq(alpha, ((n - 1) % 26) + 1, ((n - 1) % 26) + 1)

TLabelSpreadsheetLetters ==
  /\ KnownOpen("KF_C27_LETTERS")
  /\ IsEvent("label")
  /\ Rec[l].some
  /\ LET S == {r \in DOMAIN ranges : r <= Rec[l].page}
     IN /\ S # {}
        /\ LET r == MaxOf(S)
               n == ranges[r].start + (Rec[l].page - r)
           IN /\ ranges[r].style \in {"A", "a"}
              /\ n > 26
              /\ Rec[l].text = ranges[r].prefix \o Bij26(n, IF ranges[r].style = "A" THEN Upper ELSE Lower)
              /\ Rec[l].text # Label(ranges, Rec[l].page).text
  /\ NoteKnown("KF_C27_LETTERS", l)
  /\ UNCHANGED <<ranges, answer, pcp>>

\* what the library writes, read the way Table 159 says, is the range set that was authored
Canon(rs) == [pg \in DOMAIN rs |-> [style |-> rs[pg].style, prefix |-> rs[pg].prefix, start |-> rs[pg].start]]
TDict == /\ IsEvent("dict")
         /\ ReadNums(Rec[l].nums) = Canon(ranges)
         /\ UNCHANGED <<ranges, answer, pcp>>

(* The /PageLabels object of the written file.  /P is compared as the *bytes in the file* decoded the way
   a conforming reader decodes a text string (TextString!DecodeText) against the authored characters.  *)
FileShape(nums) == /\ {nums[i].page : i \in DOMAIN nums} = DOMAIN ranges
                   /\ \A i \in DOMAIN nums :
                        LET e == nums[i]  r == ranges[e.page] IN
                          /\ ReadStyle(e) = r.style
                          /\ ReadStart(e) = r.start
                          /\ e.hasP = (pcp[e.page] # <<>>)

TFileDict == /\ IsEvent("filedict")
             /\ FileShape(Rec[l].nums)
             /\ \A i \in DOMAIN Rec[l].nums :
                   Rec[l].nums[i].hasP => DecodeText(Rec[l].nums[i].praw) = pcp[Rec[l].nums[i].page]
             /\ UNCHANGED <<ranges, answer, pcp>>

(* Named deviation (open finding TEXT-utf8-raw): the writer emits a text string as the raw UTF-8 bytes of the
   Rust string, without a BOM, so a conforming reader decodes non-ASCII text through PDFDocEncoding and sees
   mojibake.  Accepted only when the bytes are exactly that UTF-8 encoding and the text is not pure ASCII.   *)
TFileDictRawUtf8 ==
  /\ KnownOpen("KF_TEXT_UTF8")
  /\ IsEvent("filedict")
  /\ FileShape(Rec[l].nums)
  /\ \A i \in DOMAIN Rec[l].nums :
        Rec[l].nums[i].hasP => Rec[l].nums[i].praw = Utf8Encode(pcp[Rec[l].nums[i].page])
  /\ \E i \in DOMAIN Rec[l].nums : ~IsAscii(pcp[Rec[l].nums[i].page])
  /\ NoteKnown("KF_TEXT_UTF8", l)
  /\ UNCHANGED <<ranges, answer, pcp>>

\* a call with a large starting value still ends in a value (labels beyond TLC's 32-bit integers are
\* not compared, only the outcome class)
\* decimal digits + a small number (numbers beyond 32 bits are handled as digit sequences)
RECURSIVE AddDigits(_, _, _)
AddDigits(ds, pos, carry) == IF carry = 0 THEN ds
                             ELSE IF pos = 0 THEN AddDigits(<<0>> \o ds, 1, carry)
                             ELSE LET v == ds[pos] + carry IN AddDigits([ds EXCEPT ![pos] = v % 10], pos - 1, v \div 10)
TProbe == /\ IsEvent("probe")
          /\ Rec[l].outcome = "value"
          \* 12.4.2: the label of the page at `offset` within the range is the numeric portion for start + offset
          /\ (Rec[l].style = "D" => Rec[l].digits = AddDigits(Rec[l].startDigits, Len(Rec[l].startDigits), Rec[l].offset))
          /\ UNCHANGED <<ranges, answer, pcp>>

TNext == TReset \/ TAdd \/ TLabel \/ TLabelSpreadsheetLetters \/ TDict \/ TFileDict \/ TFileDictRawUtf8 \/ TProbe

TraceSpec == TInit /\ [][TNext]_tvars

Prog == Progress(l)
=============================================================================
