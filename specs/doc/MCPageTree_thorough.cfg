SPECIFICATION Spec
CHECK_DEADLOCK FALSE
CONSTANTS
  MaxNodes = 6
  MaxDepth = 4
  Patterns = {1, 2, 3, 4, 5, 6}
