SPECIFICATION Spec
CHECK_DEADLOCK FALSE
CONSTANTS
  MaxPages = 4
