CONSTANTS
  MaxN = 20000
  Block = 500
  Starts = {1, 26, 27, 52, 53, 702, 703, 3999, 4000}
  Pages = {0, 1, 2, 3, 4, 5, 6, 7}
  RangeStarts = {0, 1, 2, 5}
  MaxRanges = 2
SPECIFICATION MSpec
VIEW View
INVARIANTS LookupRule EmitTree
CHECK_DEADLOCK FALSE
