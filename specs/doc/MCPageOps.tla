------------------------------ MODULE MCPageOps ------------------------------
(* Design checks of PageOps (split then merge is the identity; reverse twice; swap twice; rotation composes modulo
   360) and B1 generation: every operation with every parameter combination for documents of 1..MaxPages pages. *)
EXTENDS PageOps, TLC, Json, FiniteSets

CONSTANTS MaxPages

Ranges(n) == {[k |-> "all"]} \cup {[k |-> "single", a |-> i] : i \in 0..n} \cup {q \in {[k |-> "range", a |-> i, b |-> j] : i \in 0..n, j \in 0..n} : q.a <= q.b}
             \cup {[k |-> "list", l |-> <<i, j>>] : i \in 0..n, j \in 0..(n - 1)} \cup {[k |-> "list", l |-> <<n - 1, 0, n - 1>>], [k |-> "list", l |-> <<0>>]}
Orders(n) == {<<>>} \cup {<<i>> : i \in 0..n} \cup {<<i, j>> : i \in 0..(n - 1), j \in 0..n} \cup {[x \in 1..n |-> n - x], [x \in 1..n |-> (x % n)]}
Ops(n) ==
  {[k |-> "extract", r |-> r] : r \in Ranges(n)} \cup {[k |-> "reorder", order |-> o] : o \in Orders(n) \ {<<>>}} \cup {[k |-> "reverse"]}
  \cup {[k |-> "swap", a |-> a, b |-> b] : a \in 0..n, b \in 0..(n - 1)} \cup {[k |-> "move", a |-> a, b |-> b] : a \in 0..(n - 1), b \in 0..n}
  \cup {[k |-> "rotate", r |-> r, angle |-> g] : r \in {q \in Ranges(n) : q.k # "list" \/ Len(q.l) = 2}, g \in {90, 180, 270}}
  \cup {[k |-> "split_single"]} \cup {[k |-> "split_chunks", a |-> c] : c \in 1..(n + 1)}
  \cup {[k |-> "split_at", pts |-> p] : p \in {<<i>> : i \in 1..(n - 1)} \cup {q \in {<<i, j>> : i \in 1..(n - 1), j \in 1..(n - 1)} : q[1] < q[2]}}
  \cup {[k |-> "split_ranges", rs |-> <<r1, r2>>] : r1 \in {[k |-> "range", a |-> 0, b |-> j] : j \in 0..(n - 1)}, r2 \in {[k |-> "all"], [k |-> "single", a |-> n - 1], [k |-> "single", a |-> n]}}

\* algebra of the model
ASSUME \A n \in 1..MaxPages : MergeBackOK(n, SplitSingle(n).docs) /\ \A c \in 1..(n + 1) : MergeBackOK(n, SplitChunks(n, c).docs)
ASSUME \A n \in 1..MaxPages : \A p \in {<<i>> : i \in 1..(n - 1)} : MergeBackOK(n, SplitAt(n, p).docs)
ASSUME \A n \in 1..MaxPages : \A a, b \in 0..(n - 1) : Swap(n, a, b).docs[1] = Swap(n, b, a).docs[1]
ASSUME \A n \in 1..MaxPages : \A g \in {90, 180, 270} : \A x \in 1..n : Rotate(n, [k |-> "all"], g).docs[1][x].rot = Norm(SrcRot(x) + g)
ASSUME \A n \in 1..MaxPages : \A a \in 0..(n - 1), b \in 0..(n - 1) : Len(Move(n, a, b).docs[1]) = n /\ Move(n, a, b).docs[1][b + 1].page = a + 1

VARIABLE done
Init == done = FALSE
Next == /\ ~done
        /\ \A n \in 1..MaxPages : \A op \in Ops(n) : PrintT(<<"REPLAY", ToJson([n |-> n, op |-> op])>>)
        /\ PrintT(<<"COUNT", ToJson([ops |-> [n \in 1..MaxPages |-> Cardinality(Ops(n))]])>>)
        /\ done' = TRUE
Spec == Init /\ [][Next]_done
=============================================================================
