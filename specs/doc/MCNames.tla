------------------------------ MODULE MCNames ------------------------------
(* B1 generator for C30: documents whose pages register images, shadings and form XObjects under USER-CHOSEN names
   (given as the UTF-8 bytes of the string handed to the API) and then use them.  The name space: plain, with a
   space, each delimiter, '#', a literal "#20", non-ASCII, NUL, TAB, empty, 130 bytes, and pairs that would
   collide if escaping were dropped on one side only.                                                      *)
EXTENDS Naturals, Sequences, TLC, Json

CONSTANTS Stride

Names == << <<73, 109, 49>>, <<109, 121, 32, 105, 109, 97, 103, 101>>, <<97, 47, 98>>, <<97, 35, 98>>, <<40, 120, 41>>, <<37, 99>>, <<195, 169>>,
            <<>>, [i \in 1..130 |-> 78], <<65, 0, 66>>, <<116, 9, 110>>, <<35, 50, 48>>, <<230, 151, 165, 230, 156, 172>>, <<97, 32, 98>>, <<97, 35, 50, 48, 98>>,
            <<60, 60>>, <<91, 93>>, <<123>>, <<92>>, <<70, 49>>, <<71, 83, 49>> >>
NN == Len(Names)
Num(txt, micro) == [txt |-> txt, micro |-> micro, kind |-> "fin", digits |-> "", neg |-> FALSE]
Box == <<Num("10", 10000000), Num("20", 20000000), Num("30", 30000000), Num("40", 40000000)>>
Cfgs == <<[xref |-> FALSE, objstm |-> FALSE, compress |-> FALSE, version |-> "1.7"], [xref |-> TRUE, objstm |-> TRUE, compress |-> TRUE, version |-> "1.5"],
          [xref |-> FALSE, objstm |-> FALSE, compress |-> TRUE, version |-> "1.4"], [xref |-> TRUE, objstm |-> FALSE, compress |-> FALSE, version |-> "1.7"]>>

DocOf(k) ==
  LET a == Names[(k % NN) + 1]  b == Names[((k * 7 + 3) % NN) + 1]  c == Names[((k * 5 + 11) % NN) + 1]  d == Names[((k + 1) % NN) + 1]
      res == <<[kind |-> "image", name |-> a], [kind |-> "shading", name |-> b], [kind |-> "form", name |-> c]>>
             \o (IF d # a /\ d # c THEN <<[kind |-> "image", name |-> d]>> ELSE <<>>)
      prog == <<[c |-> "draw_image", n |-> Box, name |-> a], [c |-> "paint_shading", n |-> <<>>, name |-> b], [c |-> "draw_image", n |-> Box, name |-> c]>>
              \o (IF d # a /\ d # c THEN <<[c |-> "draw_image", n |-> Box, name |-> d]>> ELSE <<>>)
  IN [pages |-> <<[w |-> 200, h |-> 100, rot |-> 0, kind |-> "g", resources |-> res, prog |-> prog]>>,
      info |-> [title |-> <<72, 105>>], cfg |-> Cfgs[(k % Len(Cfgs)) + 1]]

VARIABLE done
Init == done = FALSE
Next == /\ ~done
        /\ \A k \in 1..(NN * Stride) : PrintT(<<"REPLAY", ToJson(DocOf(k))>>)
        /\ done' = TRUE
Spec == Init /\ [][Next]_done
=============================================================================
