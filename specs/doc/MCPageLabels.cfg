CONSTANTS
  MaxN = 1600
  Block = 100
  Starts = {1, 26, 27, 703}
  Pages = {0, 1, 2, 3, 4, 5, 6, 7}
  RangeStarts = {0, 2, 5}
  MaxRanges = 2
SPECIFICATION MSpec
VIEW View
INVARIANTS LookupRule EmitTree
CHECK_DEADLOCK FALSE
