----------------------------- MODULE OutlineTrace -----------------------------
(* B2 for C28: for each authored forest (reset) the outline objects of the written file (written) must pass
   the reader-side checks of Outline.tla.  The checks are separate events so that a rejection names the
   clause that failed.                                                                                    *)
EXTENDS Outline, TraceLib, TextString

VARIABLES l, au, wr
tvars == <<l, au, wr>>

IsEvent(e) == l <= NRec /\ Rec[l].ev = e /\ l' = l + 1
E == Rec[l]

None == [none |-> TRUE]
TInit == l = 1 /\ au = None /\ wr = None

TReset == IsEvent("reset") /\ au' = E /\ wr' = None

\* objects as a function of their number
W(e) == [root |-> e.root,
         objs |-> [n \in {e.objs[i].id : i \in DOMAIN e.objs} |->
                      LET i == CHOOSE k \in DOMAIN e.objs : e.objs[k].id = n IN e.objs[i]]]

TWritten == IsEvent("written") /\ au # None /\ wr' = [w |-> W(E), pages |-> E.pages, wnamed |-> E.wnamed] /\ UNCHANGED au

Have == au # None /\ wr # None
Keep == UNCHANGED <<au, wr>>

TLinks == IsEvent("chk_links") /\ Have /\ wr.w.root \in DOMAIN wr.w.objs /\ WellLinked(wr.w) /\ Keep

TMatch == IsEvent("chk_match") /\ Have /\ Matches(au.par, au.open, au.page, wr.w, wr.pages) /\ Keep

Order == Walk(wr.w.objs, wr.w.root, Cardinality(DOMAIN wr.w.objs) + 1)

TTitles == /\ IsEvent("chk_titles") /\ Have
           /\ Len(Order) = Len(au.par)
           /\ \A i \in DOMAIN au.par : DecodeText(wr.w.objs[Order[i]].title) = au.titles[i]
           /\ Keep

\* named deviation: titles written as raw UTF-8 (open finding, same root cause as C10)
TTitlesRawUtf8 == /\ KnownOpen("KF_TEXT_UTF8")
                  /\ IsEvent("chk_titles") /\ Have
                  /\ Len(Order) = Len(au.par)
                  /\ \A i \in DOMAIN au.par : wr.w.objs[Order[i]].title = Utf8Encode(au.titles[i])
                  /\ \E i \in DOMAIN au.par : ~IsAscii(au.titles[i])
                  /\ NoteKnown("KF_TEXT_UTF8", l)
                  /\ Keep

\* every authored name is in the name tree exactly once and resolves to the authored page object
NamedOK(dec(_)) ==
  /\ Len(wr.wnamed) = Len(au.named)
  /\ \A i \in DOMAIN au.named :
       \E k \in DOMAIN wr.wnamed :
          /\ dec(wr.wnamed[k].name) = au.named[i].name
          /\ wr.wnamed[k].destKind = "ref"
          /\ au.named[i].page + 1 <= Len(wr.pages)
          /\ wr.wnamed[k].destObj = wr.pages[au.named[i].page + 1]

TNamed == IsEvent("chk_named") /\ Have /\ NamedOK(DecodeText) /\ Keep

TNamedRawUtf8 == /\ KnownOpen("KF_TEXT_UTF8")
                 /\ IsEvent("chk_named") /\ Have
                 /\ NamedOK(Utf8Decode)
                 /\ \E i \in DOMAIN au.named : ~IsAscii(au.named[i].name)
                 /\ NoteKnown("KF_TEXT_UTF8", l)
                 /\ Keep

TNext == TReset \/ TWritten \/ TLinks \/ TMatch \/ TTitles \/ TTitlesRawUtf8 \/ TNamed \/ TNamedRawUtf8

TraceSpec == TInit /\ [][TNext]_tvars
Prog == Progress(l)
=============================================================================
