--------------------------- MODULE MCPageLabels ---------------------------
(* Design-level checks of PageLabels and B1 behaviour generation for C27. *)
EXTENDS PageLabels, Json, SequencesExt

CONSTANTS MaxN,          \* numbers 1..MaxN are formatted in every style
          Block,         \* numbers per REPLAY line
          Starts, Pages, RangeStarts, MaxRanges

VARIABLES nadd

mvars == <<ranges, answer, nadd>>

NumStyles == {"D", "R", "r", "A", "a"}

(* --- sanity of the specification itself ---------------------------------------------------- *)
\* distinct numbers get distinct labels in every numeric style
Injective(style) == \A a, b \in 1..300 : a # b => Fmt(style, a) # Fmt(style, b)
\* the letters style is the one ISO describes
LettersShape == \A n \in 1..800 : /\ Len(Letters(n, Upper)) = ((n - 1) \div 26) + 1
                                  /\ \A i \in 1..Len(Letters(n, Upper)) :
                                        SubSeq(Letters(n, Upper), i, i) = SubSeq(Letters(n, Upper), 1, 1)
RomanAnchors == /\ RomanUpper(4) = "IV" /\ RomanUpper(9) = "IX" /\ RomanUpper(14) = "XIV"
                /\ RomanUpper(40) = "XL" /\ RomanUpper(90) = "XC" /\ RomanUpper(400) = "CD"
                /\ RomanUpper(1994) = "MCMXCIV" /\ RomanUpper(3999) = "MMMCMXCIX" /\ RomanLower(58) = "lviii"
                /\ Letters(1, Upper) = "A" /\ Letters(26, Upper) = "Z" /\ Letters(27, Upper) = "AA"
                /\ Letters(28, Upper) = "BB" /\ Letters(52, Upper) = "ZZ" /\ Letters(53, Lower) = "aaa"
ASSUME \A s \in NumStyles : Injective(s)
ASSUME LettersShape
ASSUME RomanAnchors

(* --- B1, part 1: formatting blocks, printed once ------------------------------------------- *)
Blocks == 0..((MaxN - 1) \div Block)
BlockLabels(style, b) == [i \in 1..Block |-> Fmt(style, b * Block + i)]
ASSUME \A style \in NumStyles, b \in Blocks :
         PrintT(<<"REPLAY", ToJson([kind |-> "fmt", style |-> style, from |-> b * Block + 1,
                                     labels |-> BlockLabels(style, b)])>>)

(* --- B1, part 2: range sets and look-ups ---------------------------------------------------- *)
Labs == [style : Styles, prefix : {"", "p-"}, start : Starts]

MInit == Init /\ nadd = 0

MNext == \/ /\ nadd < MaxRanges
            /\ \E pg \in RangeStarts, lab \in Labs : AddRange(pg, lab)
            /\ nadd' = nadd + 1
         \/ /\ \E p \in Pages : Query(p)
            /\ UNCHANGED nadd

MSpec == MInit /\ [][MNext]_mvars

\* the look-up rule: an answer is absent exactly when no range starts at or before the page,
\* and a page at a range start is labelled with that range's own start value
LookupRule == \A p \in Pages :
                /\ (Label(ranges, p) = Absent) = (\A r \in DOMAIN ranges : r > p)
                /\ p \in DOMAIN ranges =>
                     Label(ranges, p).text = ranges[p].prefix \o Fmt(ranges[p].style, ranges[p].start)

RangeList == SetToSeq({[page |-> r, style |-> ranges[r].style, prefix |-> ranges[r].prefix,
                        start |-> ranges[r].start] : r \in DOMAIN ranges})

EmitTree == nadd > 0 =>
              PrintT(<<"REPLAY", ToJson([kind |-> "tree", ranges |-> RangeList,
                                          labels |-> [i \in 1..Cardinality(Pages) |->
                                                        Label(ranges, i - 1)]])>>)
View == <<ranges, nadd>>
=============================================================================
