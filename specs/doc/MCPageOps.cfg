SPECIFICATION Spec
CHECK_DEADLOCK FALSE
CONSTANTS
  MaxPages = 3
