---------------------------- MODULE PageLabels ----------------------------
(* C27 - page labels, ISO 32000-1 12.4.2 (Table 159).

   A page-label number tree maps a starting page index to a labelling range
   [style, prefix, start].  The label of page p is defined by the range with the greatest
   starting index <= p:   prefix \o Fmt(style, start + (p - rangeStart)).

   Styles:  "D" decimal arabic, "R"/"r" upper/lower-case roman, "A"/"a" letters
            (A to Z for the first 26 pages, AA to ZZ for the next 26, and so on),
            "none" = no numeric portion.                                                      *)
EXTENDS Naturals, Sequences, TLC, FiniteSets

Upper == "ABCDEFGHIJKLMNOPQRSTUVWXYZ"
Lower == "abcdefghijklmnopqrstuvwxyz"

RECURSIVE Rep(_, _)
Rep(s, n) == IF n = 0 THEN "" ELSE s \o Rep(s, n - 1)

\* 27 |-> "AA", 28 |-> "BB", 52 |-> "ZZ", 53 |-> "AAA"
Letters(n, alpha) == LET i == ((n - 1) % 26) + 1
                     IN Rep(SubSeq(alpha, i, i), ((n - 1) \div 26) + 1)

Digit(d, one, five, ten) ==
  CASE d = 0 -> ""
    [] d = 1 -> one
    [] d = 2 -> one \o one
    [] d = 3 -> one \o one \o one
    [] d = 4 -> one \o five
    [] d = 5 -> five
    [] d = 6 -> five \o one
    [] d = 7 -> five \o one \o one
    [] d = 8 -> five \o one \o one \o one
    [] d = 9 -> one \o ten

\* additive-subtractive roman numerals; thousands are repeated M (the usual viewer behaviour past 3999)
RomanWith(n, i, v, x, l, c, d, m) ==
  Rep(m, n \div 1000) \o Digit((n \div 100) % 10, c, d, m) \o Digit((n \div 10) % 10, x, l, c) \o Digit(n % 10, i, v, x)

RomanUpper(n) == RomanWith(n, "I", "V", "X", "L", "C", "D", "M")
RomanLower(n) == RomanWith(n, "i", "v", "x", "l", "c", "d", "m")

Styles == {"D", "R", "r", "A", "a", "none"}

Fmt(style, n) ==
  CASE style = "D" -> ToString(n)
    [] style = "R" -> RomanUpper(n)
    [] style = "r" -> RomanLower(n)
    [] style = "A" -> Letters(n, Upper)
    [] style = "a" -> Letters(n, Lower)
    [] OTHER -> ""

Absent == [absent |-> TRUE]

\* ranges: function from starting page index to [style, prefix, start]
MaxOf(S) == CHOOSE x \in S : \A y \in S : y <= x

Label(ranges, p) ==
  LET S == {r \in DOMAIN ranges : r <= p}
  IN IF S = {} THEN Absent
     ELSE LET r == MaxOf(S)
          IN [absent |-> FALSE, text |-> ranges[r].prefix \o Fmt(ranges[r].style, ranges[r].start + (p - r))]

----------------------------------------------------------------------------
(* Reading a /PageLabels dictionary as an independent reader does (Table 159):
   /S absent -> no numeric portion; /P absent -> empty prefix; /St absent -> 1.
   nums is the flattened /Nums array as a sequence of records
   [page, s, hasP, p, hasSt, st]  with s = "" when /S is absent.                              *)
ReadStyle(e) == IF e.s \in {"D", "R", "r", "A", "a"} THEN e.s ELSE "none"
ReadStart(e) == IF e.hasSt THEN e.st ELSE 1
ReadEntry(e) == [style  |-> ReadStyle(e),
                 prefix |-> IF e.hasP THEN e.p ELSE "",
                 start  |-> ReadStart(e)]

\* later entries with the same key would be a malformed tree; the last one read wins here
ReadNums(nums) == [pg \in {nums[i].page : i \in DOMAIN nums} |->
                     ReadEntry(nums[MaxOf({i \in DOMAIN nums : nums[i].page = pg})])]

----------------------------------------------------------------------------
(* The tree as a state machine: ranges are added one at a time, pages are queried. *)
VARIABLES ranges, answer

Init == ranges = [x \in {} |-> 0] /\ answer = Absent

AddRange(pg, lab) ==
  /\ ranges' = [x \in (DOMAIN ranges) \cup {pg} |-> IF x = pg THEN lab ELSE ranges[x]]
  /\ UNCHANGED answer

Query(p) == answer' = Label(ranges, p) /\ UNCHANGED ranges
=============================================================================
