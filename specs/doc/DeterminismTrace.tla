-------------------------- MODULE DeterminismTrace --------------------------
(* Determinism with a `doc` header event per document (so that a rejection is reported per document). *)
EXTENDS Determinism
Doc == IsEvent("doc") /\ UNCHANGED out
TNext == DNext \/ Doc
TSpec == DInit /\ [][TNext]_<<l, out>>
=============================================================================
