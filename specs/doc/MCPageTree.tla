----------------------------- MODULE MCPageTree -----------------------------
(* Design check and B1 generator for C18: every preorder tree shape up to MaxNodes nodes and MaxDepth levels,
   each with several attribute-placement patterns, kids arrays direct or indirect, /Count right or wrong,
   classic or stream cross-reference; plus cyclic and shared variants.                                      *)
EXTENDS PageTree, TLC, Json

CONSTANTS MaxNodes, MaxDepth, Patterns

\* depth of node i given parents
RECURSIVE Depth(_, _)
Depth(par, i) == IF i = 1 THEN 1 ELSE 1 + Depth(par, par[i])
\* preorder parent vectors: parent[i] lies on the path from the root to i-1
RECURSIVE Path(_, _)
Path(par, i) == IF i = 1 THEN {1} ELSE {i} \cup Path(par, par[i])
RECURSIVE Shapes(_)
Shapes(n) == IF n = 1 THEN {<<0>>}
             ELSE {Append(p, q) : p \in Shapes(n - 1), q \in 1..(n - 1)} \cap
                  {s \in UNION {{Append(p, q) : q \in Path(p, n - 1)} : p \in Shapes(n - 1)} : Depth(s, n) <= MaxDepth}
AllShapes == UNION {Shapes(n) : n \in 1..MaxNodes}

HasKid(par, i) == \E k \in 1..Len(par) : par[k] = i
\* placement patterns: which nodes set which attribute (the root always sets MediaBox: a page must have one)
Sets(par, pat) ==
  LET n == Len(par) IN
  [a \in Attrs |->
     [i \in 1..n |->
        CASE pat = 1 -> (i = 1 /\ a = "mb")
          [] pat = 2 -> TRUE
          [] pat = 3 -> (a = "mb" /\ i = 1) \/ (~HasKid(par, i))                       \* leaves only
          [] pat = 4 -> (a = "mb" /\ i = 1) \/ (HasKid(par, i) /\ Depth(par, i) = 2)      \* second level only
          [] pat = 5 -> (a = "mb" /\ i = 1) \/ ((i + (IF a = "mb" THEN 0 ELSE IF a = "crop" THEN 1 ELSE IF a = "rot" THEN 2 ELSE 3)) % 3 = 0)
          [] OTHER -> (a = "mb" /\ i = 1) \/ (a \in {"rot", "res"} /\ i % 2 = 1)]]
TreeOf(par, pat) ==
  [n |-> Len(par), parent |-> par, kind |-> [i \in 1..Len(par) |-> IF HasKid(par, i) \/ (i = 1) \/ (pat = 6 /\ i = Len(par) /\ Len(par) > 2) THEN "pages" ELSE "page"],
   sets |-> Sets(par, pat)]
Trees == {TreeOf(par, pat) : par \in AllShapes, pat \in Patterns}

ASSUME \A t \in Trees : LeavesOK(t)
ASSUME \A t \in Trees : \A x \in 1..Len(Expected(t)) : Expected(t)[x].mb >= 1           \* a MediaBox always reaches the page

RECURSIVE SetSeq(_)
SetSeq(S) == IF S = {} THEN <<>> ELSE LET x == CHOOSE y \in S : TRUE IN <<x>> \o SetSeq(S \ {x})
TS == SetSeq(Trees)
VARIABLE done
Init == done = FALSE
Next == /\ ~done
        /\ \A k \in 1..Len(TS) :
             PrintT(<<"REPLAY", ToJson([tree |-> TS[k], kidsIndirect |-> (k % 2 = 0), countOff |-> IF k % 5 = 0 THEN 1 ELSE 0,
                                        form |-> IF k % 3 = 0 THEN "stream" ELSE "table", variant |-> "plain",
                                        \* object numbers in document order, or running against it (a /Kids array need not ascend)
                                        reverse |-> (k % 4 >= 2)])>>)
        \* a kid that points back at an ancestor, a page listed twice in one /Kids, a page listed again at the end of the root's /Kids
        /\ \A k \in {j \in 1..Len(TS) : TS[j].n >= 3 /\ j % 7 = 0} :
             /\ PrintT(<<"REPLAY", ToJson([tree |-> TS[k], kidsIndirect |-> FALSE, countOff |-> 0, form |-> "table", variant |-> "cycle", reverse |-> FALSE])>>)
             /\ PrintT(<<"REPLAY", ToJson([tree |-> TS[k], kidsIndirect |-> FALSE, countOff |-> 0, form |-> "table", variant |-> "shared", reverse |-> FALSE])>>)
             /\ PrintT(<<"REPLAY", ToJson([tree |-> TS[k], kidsIndirect |-> (k % 2 = 0), countOff |-> 0, form |-> "table", variant |-> "shared_up", reverse |-> FALSE])>>)
        /\ PrintT(<<"COUNT", ToJson([trees |-> Len(TS)])>>)
        /\ done' = TRUE
Spec == Init /\ [][Next]_done
=============================================================================
