CONSTANTS
  MaxItems = 7
  NPages = 3
SPECIFICATION FSpec
INVARIANTS CorrectWriterOK FlatWriterWrongExactlyThen Emit
CHECK_DEADLOCK FALSE
