---------------------------- MODULE PageOpsTrace ----------------------------
(* B2 for C16.  One case per (source size, operation) of MCPageOps, run on a synthesized source whose pages have
   non-zero box origins, inherited MediaBox and /Rotate, rotations -90 and 450, CropBoxes and per-page font keys:

     op          the operation, its outcome (ok | err | panic) and how many documents it produced
     out         one produced document: its bytes and the library's reading of it
     chk_out     the reference reader PdfFile (silent steps) and the library both find, at every position, the page
                 PageOps prescribes: which source page it is (by what its content shows), that page's MediaBox
                 (origin included), CropBox, font key, rotation = original + requested modulo 360, and the images it
                 draws: samples and soft-mask samples of every Do, through the page's own resources
     merged      the parts of a split merged back: the original sequence
     chk_op      outcome and number of documents are what PageOps prescribes (an invalid request is refused)     *)
EXTENDS PdfFile, PageOps, ContentOps

VARIABLES l, opAt, seen
tvars == <<allvars, l, opAt, seen>>
IsEvent(e) == l <= NRec /\ Rec[l].ev = e /\ l' = l + 1
O == Rec[opAt]
Want == Apply(O.n, O.op)

TInit == l = 1 /\ opAt = 0 /\ seen = 0 /\ LexInit /\ FileIdle
TOp == /\ IsEvent("op") /\ opAt' = l /\ seen' = 0 /\ UNCHANGED allvars
TOut == /\ l <= NRec /\ Rec[l].ev \in {"out", "merged"} /\ FileStart(l) /\ l' = l + 1 /\ UNCHANGED <<opAt, seen>>
TScan == /\ l <= NRec /\ Rec[l].ev \in {"chk_out", "chk_merged"} /\ phase \notin {"idle", "done"}
         /\ FileStep(TRUE) /\ UNCHANGED <<l, opAt, seen>>

K_MediaBox == <<77, 101, 100, 105, 97, 66, 111, 120>>     K_CropBox == <<67, 114, 111, 112, 66, 111, 120>>
K_Rotate == <<82, 111, 116, 97, 116, 101>>                 K_Resources == <<82, 101, 115, 111, 117, 114, 99, 101, 115>>
K_Font == <<70, 111, 110, 116>>
K_XObject == <<88, 79, 98, 106, 101, 99, 116>>             K_SMask == <<83, 77, 97, 115, 107>>
\* the images the content of output page x draws (every Do, in order): decoded samples of the image the name resolves to
\* in the page's resources, and of that image's soft mask
DrawsOf(x, p) == LET g == GroupOps(ContentOf(x).items)
                     xo == Deref(Get(Deref(p.inh[K_Resources]), K_XObject))
                     dos == IF g.ok THEN SelectSeq(g.ops, LAMBDA o : o.op = "Do") ELSE <<>>
                 IN [k \in 1..Len(dos) |-> LET im == Get(xo, dos[k].args[1].b) IN
                                           [data |-> StreamPayload(im), mask |-> StreamPayload(Get(Deref(im), K_SMask))]]
DrawsOK(x, p, i) == LET got == DrawsOf(x, p) want == SrcDraws(i) IN
                    Len(got) = Len(want) /\ \A k \in 1..Len(want) : got[k].data.ok /\ got[k].data.out = want[k].data /\ got[k].mask.ok /\ got[k].mask.out = want[k].mask
Micro(v) == IF IsNum(v) /\ ~NumParts(v).big THEN NumParts(v).micro ELSE 0 - 999
BoxMicro(v) == IF v.t = "arr" /\ Len(v.v) = 4 THEN [x \in 1..4 |-> Micro(Deref(v.v[x]))] ELSE <<>>
Mil(b) == [x \in 1..Len(b) |-> b[x] * 1000000]
FontKeys(resv) == LET f == Deref(Get(Deref(resv), K_Font)) IN IF f.t = "dict" THEN {f.v[x].k : x \in 1..Len(f.v)} ELSE {}
FontKeyOf(i) == <<70, 48 + i>>
\* which source pages a lexed content shows: the digit of every string "PAGE d" given to Tj
Shown(items) == LET g == GroupOps(items) IN
                IF ~g.ok THEN <<0>> ELSE
                LET S == SelectSeq(g.ops, LAMBDA o : o.op = "Tj" /\ Len(o.args[1].b) = 6 /\ SubSeq(o.args[1].b, 1, 5) = <<80, 65, 71, 69, 32>>)
                IN [x \in 1..Len(S) |-> S[x].args[1].b[6] - 48]
RotOf(v) == IF v.t = "none" THEN 0 ELSE IF v.t = "int" THEN Norm(NumParts(v).micro \div 1000000) ELSE 0 - 1

\* the document just scanned (record fcase) against the expected sequence d of [page, rot]
RefDocOK(d) ==
  /\ Problems = {}
  /\ Len(PageList) = Len(d)
  /\ \A x \in 1..Len(d) :
       LET p == PageList[x] i == d[x].page IN
       /\ Shown(ContentOf(x).items) = <<i>>
       /\ BoxMicro(Deref(p.inh[K_MediaBox])) = Mil(SrcBox(i))
       /\ (IF SrcCrop(i) = <<>> THEN p.inh[K_CropBox].t = "none" \/ BoxMicro(Deref(p.inh[K_CropBox])) = Mil(SrcBox(i))
                                ELSE BoxMicro(Deref(p.inh[K_CropBox])) = Mil(SrcCrop(i)))
       /\ RotOf(Deref(p.inh[K_Rotate])) = d[x].rot
       /\ FontKeyOf(i) \in FontKeys(p.inh[K_Resources])
       /\ DrawsOK(x, p, i)
LibDocOK(L, d) ==
  /\ L.open /\ Len(L.pages) = Len(d)
  /\ \A x \in 1..Len(d) :
       LET p == L.pages[x] i == d[x].page IN
       /\ p.ok /\ p.shows = <<i>>
       /\ p.mediaBox = Mil(SrcBox(i))
       /\ (IF SrcCrop(i) = <<>> THEN p.cropBox = <<>> \/ p.cropBox = Mil(SrcBox(i)) ELSE p.cropBox = Mil(SrcCrop(i)))
       /\ Norm(p.rotate) = d[x].rot
       /\ \E y \in 1..Len(p.fonts) : p.fonts[y] = FontKeyOf(i)
DocProblems(d) == (IF RefDocOK(d) THEN {} ELSE {"reference reader: produced document is not the prescribed page sequence"})
                  \cup (IF LibDocOK(Rec[fcase].lib, d) THEN {} ELSE {"library: produced document is not the prescribed page sequence"})
Report(probs) == IF probs = {} THEN TRUE ELSE PrintT(<<"PROBLEMS", ToJson([idx |-> l, problems |-> probs])>>) /\ FALSE

TChkOut == /\ IsEvent("chk_out") /\ phase = "done"
           /\ Want.ok /\ seen + 1 <= Len(Want.docs)
           /\ Report(DocProblems(Want.docs[seen + 1]))
           /\ seen' = seen + 1 /\ UNCHANGED <<allvars, opAt>>
TChkMerged == /\ IsEvent("chk_merged") /\ phase = "done"
              /\ Rec[fcase].ok /\ Report(DocProblems(Src(O.n)))
              /\ UNCHANGED <<allvars, opAt, seen>>
TChkOp == /\ IsEvent("chk_op")
          /\ IF Want.ok THEN O.outcome = "ok" /\ O.outputs = Len(Want.docs) /\ seen = Len(Want.docs)
                        ELSE O.outcome = "err"
          /\ UNCHANGED <<allvars, opAt, seen>>
TNext == TOp \/ TOut \/ TScan \/ TChkOut \/ TChkMerged \/ TChkOp
TraceSpec == TInit /\ [][TNext]_tvars
Prog == Progress(l)
=============================================================================
