------------------------------- MODULE Outline -------------------------------
(* C28 - document outlines, ISO 32000-1 12.3.3 (Tables 152, 153) and destinations 12.3.2.

   Authored side: a forest of items in preorder; item i has
       par[i]   its parent (0 = the outline root), always an earlier item
       open[i]  shown with its children visible
       page[i]  the page the item points at (0-based), or -1 for no destination
   Written side: indirect objects with /First /Last /Next /Prev /Parent /Count /Title /Dest, the
   outline root, and the document's pages in page-tree order.  0 stands for an absent link.

   A reader follows /First and /Next; everything else must be consistent with what that walk finds. *)
EXTENDS Integers, Sequences, FiniteSets, TLC

(* ------------------------------ authored forest ------------------------------ *)
KidsOf(par, p) == {i \in DOMAIN par : par[i] = p}

\* a parent vector lists a forest in preorder iff every item's parent is the previous item or one of the
\* previous item's ancestors (or the root)
RECURSIVE AncOrSelf(_, _)
AncOrSelf(par, i) == IF i = 0 THEN {0} ELSE {i} \cup AncOrSelf(par, par[i])
IsPreorder(par) == \A i \in DOMAIN par : IF i = 1 THEN par[i] = 0 ELSE par[i] \in AncOrSelf(par, i - 1)

\* children in order (= increasing index, since the numbering is preorder)
RECURSIVE SortedSeq(_)
SortedSeq(S) == IF S = {} THEN <<>>
                ELSE LET m == CHOOSE x \in S : \A y \in S : x <= y IN <<m>> \o SortedSeq(S \ {m})
KidSeq(par, p) == SortedSeq(KidsOf(par, p))

\* Table 153 /Count: the number of descendants that are visible when item i is open
RECURSIVE Vis(_, _, _)
Vis(par, open, i) ==
  LET ks == KidSeq(par, i)
      F[k \in 0..Len(ks)] == IF k = 0 THEN 0
                             ELSE F[k - 1] + 1 + (IF open[ks[k]] THEN Vis(par, open, ks[k]) ELSE 0)
  IN F[Len(ks)]

\* expected /Count of item i: absent (represented as [has |-> FALSE]) without children, else signed
ExpectedCount(par, open, i) ==
  IF KidsOf(par, i) = {} THEN [has |-> FALSE, n |-> 0]
  ELSE [has |-> TRUE, n |-> IF open[i] THEN Vis(par, open, i) ELSE 0 - Vis(par, open, i)]

\* the root's /Count: all visible items (the root behaves as an open item)
RootCount(par, open) ==
  LET ks == KidSeq(par, 0)
      F[k \in 0..Len(ks)] == IF k = 0 THEN 0
                             ELSE F[k - 1] + 1 + (IF open[ks[k]] THEN Vis(par, open, ks[k]) ELSE 0)
  IN F[Len(ks)]

(* ------------------------------- written objects ------------------------------ *)
(* w: [root |-> r, objs |-> function objnum |-> [parent, first, last, next, prev, hasCount, count, ...]]
   The root object is in objs too (its parent/next/prev are 0).                                        *)
RECURSIVE Chain(_, _, _)
Chain(objs, x, fuel) == IF x = 0 \/ fuel = 0 \/ x \notin DOMAIN objs THEN <<>>
                        ELSE <<x>> \o Chain(objs, objs[x].next, fuel - 1)

WKids(objs, p) == Chain(objs, objs[p].first, Cardinality(DOMAIN objs) + 1)

\* preorder walk of the written structure, as a sequence of object numbers
RECURSIVE Walk(_, _, _)
Walk(objs, p, fuel) ==
  IF fuel = 0 THEN <<>>
  ELSE LET ks == WKids(objs, p)
           F[k \in 0..Len(ks)] == IF k = 0 THEN <<>> ELSE F[k - 1] \o <<ks[k]>> \o Walk(objs, ks[k], fuel - 1)
       IN F[Len(ks)]

\* link consistency of one node's child list (Tables 152/153)
LinksOK(objs, p) ==
  LET ks == WKids(objs, p) IN
    /\ (ks = <<>>) = (objs[p].first = 0)
    /\ (objs[p].first = 0) = (objs[p].last = 0)
    /\ ks # <<>> => objs[p].last = ks[Len(ks)]
    /\ \A k \in 1..Len(ks) :
         /\ ks[k] \in DOMAIN objs
         /\ objs[ks[k]].parent = p
         /\ objs[ks[k]].prev = (IF k > 1 THEN ks[k - 1] ELSE 0)
         /\ objs[ks[k]].next = (IF k < Len(ks) THEN ks[k + 1] ELSE 0)

NoDup(s) == \A a, b \in 1..Len(s) : a # b => s[a] # s[b]

\* the whole written outline is a well-formed tree reachable from the root
WellLinked(w) ==
  LET order == Walk(w.objs, w.root, Cardinality(DOMAIN w.objs) + 1) IN
    /\ NoDup(order)
    /\ \A x \in DOMAIN w.objs : LinksOK(w.objs, x)
    /\ {order[k] : k \in 1..Len(order)} = (DOMAIN w.objs) \ {w.root}

(* --------------------------- written vs authored --------------------------- *)
\* the k-th item of the walk is authored item k: same parent, same count, same destination page
Matches(par, open, page, w, pages) ==
  LET order == Walk(w.objs, w.root, Cardinality(DOMAIN w.objs) + 1)
      ObjOf(i) == IF i = 0 THEN w.root ELSE order[i]
  IN /\ Len(order) = Len(par)
     /\ \A i \in DOMAIN par :
          LET o == w.objs[order[i]] IN
            /\ o.parent = ObjOf(par[i])
            /\ [has |-> o.hasCount, n |-> o.count] = ExpectedCount(par, open, i)
            /\ IF page[i] < 0 THEN o.destKind = "none"
               ELSE /\ o.destKind = "ref"             \* 12.3.2.2: the page is an indirect reference to a page object
                    /\ page[i] + 1 <= Len(pages)
                    /\ o.destObj = pages[page[i] + 1]
     /\ w.objs[w.root].hasCount => w.objs[w.root].count = RootCount(par, open)
=============================================================================
