---------------------------- MODULE Determinism ----------------------------
(* C20: serialisation is a FUNCTION of (document content, writer configuration, clock).

     ser    one serialisation of document `key` (same content, same configuration, clock held fixed), made in
            process `proc`, repetition `rep`: the SHA-256 of the bytes.  The specification remembers the first
            digest seen for a key; any later serialisation of that key must produce the same one.
     free   two serialisations of one document with the clock running: every byte range in which they differ
            must lie inside a span that holds an explicitly time-dependent field (/CreationDate, /ModDate, the XMP
            date elements).                                                                                 *)
EXTENDS Naturals, Sequences, TraceLib

VARIABLES l, out
IsEvent(e) == l <= NRec /\ Rec[l].ev = e /\ l' = l + 1
Keys == {Rec[i].key : i \in {j \in 1..NRec : Rec[j].ev = "ser"}}

DInit == l = 1 /\ out = [k \in Keys |-> <<>>]
Ser == /\ IsEvent("ser")
       /\ LET e == Rec[l] IN
          /\ Len(e.digest) = 32
          /\ IF out[e.key] = <<>> THEN out' = [out EXCEPT ![e.key] = e.digest]
             ELSE e.digest = out[e.key] /\ UNCHANGED out
Free == /\ IsEvent("free")
        /\ \A d \in 1..Len(Rec[l].diffs) : \E s \in 1..Len(Rec[l].spans) :
              Rec[l].spans[s][1] <= Rec[l].diffs[d][1] /\ Rec[l].diffs[d][2] <= Rec[l].spans[s][2]
        /\ Rec[l].sameLength
        /\ UNCHANGED out
DNext == Ser \/ Free
TraceSpec == DInit /\ [][DNext]_<<l, out>>
Prog == Progress(l)
=============================================================================
