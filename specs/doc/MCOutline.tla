------------------------------ MODULE MCOutline ------------------------------
(* Design-level checking of the outline link rules and B1 generation of authored forests for C28.

   The forest grows one item at a time (AddItem on the right-most path: that is exactly what
   OutlineBuilder push/add/pop can express), so TLC's reachable states are all forests up to MaxItems.
   Two writer algorithms are transcribed:
     OffsetWriter  sibling object numbers computed from subtree sizes (what a correct writer must do);
                   TLC checks WellLinked /\ Matches for every forest in scope.
     FlatWriter    the algorithm of the pinned revision (siblings assumed to be numbered consecutively);
                   kept as a negative control: TLC must find it wrong as soon as an item with a child has a
                   following sibling.                                                                       *)
EXTENDS Outline, Json

CONSTANTS MaxItems, NPages

VARIABLES par, open, page
fvars == <<par, open, page>>

FInit == par = <<>> /\ open = <<>> /\ page = <<>>

PageFor(i, o) == ((3 * i + (IF o THEN 1 ELSE 0)) % (NPages + 1)) - 1

AddItem == /\ Len(par) < MaxItems
           /\ \E p \in (IF par = <<>> THEN {0} ELSE AncOrSelf(par, Len(par))), o \in BOOLEAN :
                /\ par' = Append(par, p)
                /\ open' = Append(open, o)
                /\ page' = Append(page, PageFor(Len(par) + 1, o))

FSpec == FInit /\ [][AddItem]_fvars

Pages == [i \in 1..NPages |-> 100 + i]          \* page objects 101, 102, ...

Size(i) == Cardinality({k \in DOMAIN par : i \in AncOrSelf(par, k)})      \* items in the subtree of i

\* object numbers: root = 10, item i = 10 + i (ids reserved consecutively, consumed in preorder)
Base == 10
ObjNo(i) == Base + i

LinkOf(S) == IF S = {} THEN 0 ELSE ObjNo(CHOOSE x \in S : TRUE)

OffsetWriter ==
  LET Node(i) ==
        LET sibs == KidSeq(par, IF i = 0 THEN 0 ELSE par[i])
            pos == IF i = 0 THEN 0 ELSE CHOOSE k \in 1..Len(sibs) : sibs[k] = i
            ks == KidSeq(par, i)
            c == IF i = 0 THEN [has |-> TRUE, n |-> RootCount(par, open)] ELSE ExpectedCount(par, open, i)
        IN [parent |-> IF i = 0 THEN 0 ELSE ObjNo(par[i]),
            first |-> IF ks = <<>> THEN 0 ELSE ObjNo(ks[1]),
            last |-> IF ks = <<>> THEN 0 ELSE ObjNo(ks[Len(ks)]),
            prev |-> IF i = 0 \/ pos = 1 THEN 0 ELSE ObjNo(sibs[pos - 1]),
            next |-> IF i = 0 \/ pos = Len(sibs) THEN 0 ELSE ObjNo(sibs[pos + 1]),
            hasCount |-> c.has, count |-> c.n,
            destKind |-> IF i = 0 \/ page[i] < 0 THEN "none" ELSE "ref",
            destObj |-> IF i = 0 \/ page[i] < 0 THEN 0 ELSE Pages[page[i] + 1]]
  IN [root |-> Base, objs |-> [o \in {ObjNo(i) : i \in 0..Len(par)} |-> Node(o - Base)]]

\* the pinned algorithm: the k-th child of a node is assumed to be object firstChild + (k - 1)
FlatWriter ==
  LET Node(i) ==
        LET sibs == KidSeq(par, IF i = 0 THEN 0 ELSE par[i])
            pos == IF i = 0 THEN 0 ELSE CHOOSE k \in 1..Len(sibs) : sibs[k] = i
            ks == KidSeq(par, i)
            firstSib == IF i = 0 THEN 0 ELSE sibs[1]
        IN [parent |-> IF i = 0 THEN 0 ELSE ObjNo(par[i]),
            first |-> IF ks = <<>> THEN 0 ELSE ObjNo(ks[1]),
            last |-> IF ks = <<>> THEN 0 ELSE ObjNo(ks[1] + Len(ks) - 1),
            prev |-> IF i = 0 \/ pos = 1 THEN 0 ELSE ObjNo(firstSib + pos - 2),
            next |-> IF i = 0 \/ pos = Len(sibs) THEN 0 ELSE ObjNo(firstSib + pos),
            hasCount |-> FALSE, count |-> 0, destKind |-> "none", destObj |-> 0]
  IN [root |-> Base, objs |-> [o \in {ObjNo(i) : i \in 0..Len(par)} |-> Node(o - Base)]]

CorrectWriterOK == par # <<>> => /\ IsPreorder(par)
                                 /\ WellLinked(OffsetWriter)
                                 /\ Matches(par, open, page, OffsetWriter, Pages)

\* the flat numbering is right exactly when no item that has a child also has a following sibling
HasChildAndNextSibling == \E i \in DOMAIN par : KidsOf(par, i) # {} /\ \E k \in DOMAIN par : k > i /\ par[k] = par[i]
FlatWriterWrongExactlyThen == par # <<>> => (WellLinked(FlatWriter) = ~HasChildAndNextSibling)

Emit == par # <<>> =>
          PrintT(<<"REPLAY", ToJson([par |-> par, open |-> open, page |-> page, npages |-> NPages])>>)
=============================================================================
