SPECIFICATION TSpec
CONSTRAINT Prog
POSTCONDITION Accepted
CHECK_DEADLOCK FALSE
