------------------------------- MODULE PageOps -------------------------------
(* C16 - page operations as functions on page SEQUENCES.

   A source document is the sequence <<1, .., n>> of its pages (a page is identified by its index in the source; what
   a page IS - boxes, rotation, content, resources - is fixed by that index, see SrcPage).  Every operation yields a
   list of output documents, each a sequence of [page, rot] pairs: the source page and the rotation it must now
   show.  Indices are 0-based where the API takes 0-based indices.                                          *)
EXTENDS Naturals, Integers, Sequences

\* ---- the source pages (as the harness serialises them) ----
SrcBox(i) == IF i = 1 THEN <<51, 701, 351, 1101>>       \* high on the sheet: lower edge above the right edge
             ELSE IF i % 2 = 1 THEN <<100 + i, 200 + i, 400 + i, 600 + i>> ELSE <<10, 20, 310, 420>>      \* even pages inherit theirs
SrcCrop(i) == IF i % 3 = 0 THEN <<110, 210, 390, 590>> ELSE <<>>
\* the images a source page draws, in drawing order, each with its samples and the samples of its soft mask: page 1 two
\* images that SHARE one mask object, page 2 one with a mask of its own, page 4 the first image of page 1 again
SrcDraws(i) == CASE i = 1 -> << [data |-> <<10, 20, 30, 40>>, mask |-> <<0, 85, 170, 255>>], [data |-> <<50, 60, 70, 80>>, mask |-> <<0, 85, 170, 255>>] >>
                 [] i = 2 -> << [data |-> <<1, 2, 3, 4>>, mask |-> <<9, 8, 7, 6>>] >>
                 [] i = 4 -> << [data |-> <<10, 20, 30, 40>>, mask |-> <<0, 85, 170, 255>>] >>
                 [] OTHER -> <<>>
SrcRot(i) == CASE i % 4 = 1 -> 0 [] i % 4 = 2 -> 90 [] i % 4 = 3 -> 0 - 90 [] OTHER -> 450
Norm(r) == ((r % 360) + 360) % 360
P(i) == [page |-> i, rot |-> Norm(SrcRot(i))]
Src(n) == [i \in 1..n |-> P(i)]

\* ---- page ranges (the API's PageRange values) and their denotation: 0-based indices, or an error ----
\* r = [k |-> "all"] | [k |-> "single", a |-> i] | [k |-> "range", a |-> i, b |-> j] | [k |-> "list", l |-> <<...>>]
RangeOK(r, n) == CASE r.k = "all" -> TRUE [] r.k = "single" -> r.a < n [] r.k = "range" -> r.a <= r.b /\ r.b < n
                   [] OTHER -> \A x \in 1..Len(r.l) : r.l[x] < n
Indices(r, n) == CASE r.k = "all" -> [x \in 1..n |-> x - 1] [] r.k = "single" -> <<r.a>> [] r.k = "range" -> [x \in 1..(r.b - r.a + 1) |-> r.a + x - 1]
                   [] OTHER -> r.l
Pick(n, idx) == [x \in 1..Len(idx) |-> P(idx[x] + 1)]

\* ---- operations: [ok |-> BOOLEAN, docs |-> <<seq of [page, rot]>>] ----
Err == [ok |-> FALSE, docs |-> <<>>]
Ok1(d) == [ok |-> TRUE, docs |-> <<d>>]
Extract(n, r) == IF RangeOK(r, n) /\ Indices(r, n) # <<>> THEN Ok1(Pick(n, Indices(r, n))) ELSE Err
Reorder(n, order) == IF \A x \in 1..Len(order) : order[x] < n THEN Ok1(Pick(n, order)) ELSE Err      \* `order` need not be a permutation
Reverse(n) == Ok1([x \in 1..n |-> P(n - x + 1)])
Swap(n, a, b) == IF a < n /\ b < n THEN Ok1([x \in 1..n |-> P(IF x - 1 = a THEN b + 1 ELSE IF x - 1 = b THEN a + 1 ELSE x)]) ELSE Err
\* move: take page `from` out, insert it so that it ends up at index `to`
Without(s, k) == [x \in 1..(Len(s) - 1) |-> IF x < k THEN s[x] ELSE s[x + 1]]
InsertAt(s, k, v) == [x \in 1..(Len(s) + 1) |-> IF x < k THEN s[x] ELSE IF x = k THEN v ELSE s[x - 1]]
Move(n, from, to) == IF from < n /\ to < n THEN Ok1(InsertAt(Without(Src(n), from + 1), to + 1, P(from + 1))) ELSE Err
Rotate(n, r, angle) == IF RangeOK(r, n)
                       THEN LET S == {Indices(r, n)[x] : x \in 1..Len(Indices(r, n))}
                            IN Ok1([x \in 1..n |-> [page |-> x, rot |-> IF (x - 1) \in S THEN Norm(SrcRot(x) + angle) ELSE Norm(SrcRot(x))]])
                       ELSE Err
\* split
RECURSIVE Chunks(_, _, _)
Chunks(s, k, at) == IF at > Len(s) THEN <<>> ELSE <<SubSeq(s, at, IF at + k - 1 > Len(s) THEN Len(s) ELSE at + k - 1)>> \o Chunks(s, k, at + k)
SplitSingle(n) == [ok |-> TRUE, docs |-> [x \in 1..n |-> <<P(x)>>]]
SplitChunks(n, k) == IF k >= 1 THEN [ok |-> TRUE, docs |-> Chunks(Src(n), k, 1)] ELSE Err
\* split points are 0-based page indices at which a new part begins (ascending, inside the document)
RECURSIVE Parts(_, _, _)
Parts(s, pts, from) == IF pts = <<>> THEN <<SubSeq(s, from, Len(s))>> ELSE <<SubSeq(s, from, pts[1])>> \o Parts(s, Tail(pts), pts[1] + 1)
SplitAt(n, pts) == IF \A x \in 1..Len(pts) : pts[x] >= 1 /\ pts[x] < n /\ (x > 1 => pts[x - 1] < pts[x]) THEN [ok |-> TRUE, docs |-> Parts(Src(n), pts, 1)] ELSE Err
SplitRanges(n, rs) == IF \A x \in 1..Len(rs) : RangeOK(rs[x], n) THEN [ok |-> TRUE, docs |-> [x \in 1..Len(rs) |-> Pick(n, Indices(rs[x], n))]] ELSE Err
\* merge of the parts of a split gives the original back
RECURSIVE Concat(_)
Concat(ds) == IF ds = <<>> THEN <<>> ELSE ds[1] \o Concat(Tail(ds))
MergeBackOK(n, parts) == Concat(parts) = Src(n)

Apply(n, op) ==
  CASE op.k = "extract" -> Extract(n, op.r) [] op.k = "reorder" -> Reorder(n, op.order) [] op.k = "reverse" -> Reverse(n)
    [] op.k = "swap" -> Swap(n, op.a, op.b) [] op.k = "move" -> Move(n, op.a, op.b) [] op.k = "rotate" -> Rotate(n, op.r, op.angle)
    [] op.k = "split_single" -> SplitSingle(n) [] op.k = "split_chunks" -> SplitChunks(n, op.a) [] op.k = "split_at" -> SplitAt(n, op.pts)
    [] op.k = "split_ranges" -> SplitRanges(n, op.rs) [] OTHER -> Err
=============================================================================
