--------------------------- MODULE PageTreeTrace ---------------------------
(* B2 for C18.  One case per abstract tree (MCPageTree), serialised by the independent writer `synth`:

     tree      the abstract tree, the bytes, and what the library returned under the default, lenient and strict
               presets: outcome (value | error | panic | hang), page count, and per index the page object, boxes,
               rotation and font resource keys
     chk_ref   [premise and second opinion] the reference reader PdfFile finds the file sound and its page list is
               the abstract expectation - document order, nearest-ancestor attributes
     chk_lib   a well-formed tree: every preset returns exactly the expected list; a cyclic, shared or
               miscounted tree: every preset ends in a value or an error (never a panic or a hang), and the
               pages it does return are genuine pages of the tree                                           *)
EXTENDS PdfFile, PageTree

VARIABLES l
tvars == <<allvars, l>>
IsEvent(e) == l <= NRec /\ Rec[l].ev = e /\ l' = l + 1
C == Rec[fcase]

TInit == l = 1 /\ LexInit /\ FileIdle
TTree == IsEvent("tree") /\ FileStart(l)
TScan == /\ l <= NRec /\ Rec[l].ev \in {"chk_ref", "chk_lib"} /\ phase \notin {"idle", "done"}
         /\ FileStep(FALSE) /\ UNCHANGED l

K_MediaBox == <<77, 101, 100, 105, 97, 66, 111, 120>>     K_CropBox == <<67, 114, 111, 112, 66, 111, 120>>
K_Rotate == <<82, 111, 116, 97, 116, 101>>                 K_Resources == <<82, 101, 115, 111, 117, 114, 99, 101, 115>>
K_Font == <<70, 111, 110, 116>>
IntMicro(v) == IF v.t = "int" /\ IsSmallInt(v) THEN IntOf(v) * 1000000 ELSE IF v.t = "int" THEN 0 - IntOf([v EXCEPT !.s = SubSeq(v.s, 2, Len(v.s))]) * 1000000 ELSE 0 - 1
BoxMicro(v) == IF v.t = "arr" /\ Len(v.v) = 4 THEN [x \in 1..4 |-> IntMicro(v.v[x])] ELSE <<>>
FontKeys(resv) == LET f == Deref(Get(Deref(resv), K_Font)) IN IF f.t = "dict" THEN {f.v[x].k : x \in 1..Len(f.v)} ELSE {}

Well == C.variant = "plain" /\ C.countOff = 0
Exp == Expected(C.tree)
\* object number of a node: document order, or (reverse) the nodes below the root numbered against it
NumOf(node) == IF "reverse" \in DOMAIN C /\ C.reverse /\ node > 1 THEN 10 + (C.tree.n + 2 - node) ELSE 10 + node
\* the reference reader's page x against the expectation
RefPageOK(x) ==
  LET p == PageList[x] e == Exp[x] IN
  /\ p.n = NumOf(e.node)
  /\ BoxMicro(Deref(p.inh[K_MediaBox])) = MediaBoxOf(e.mb)
  /\ (IF e.crop = 0 THEN p.inh[K_CropBox].t = "none" ELSE BoxMicro(Deref(p.inh[K_CropBox])) = CropBoxOf(e.crop))
  /\ (IF e.rot = 0 THEN p.inh[K_Rotate].t = "none" ELSE IntMicro(Deref(p.inh[K_Rotate])) = RotateOf(e.rot) * 1000000)
  /\ (IF e.res = 0 THEN p.inh[K_Resources].t = "none" ELSE FontKeys(p.inh[K_Resources]) = {FontKeyOf(e.res)})
TChkRef == /\ IsEvent("chk_ref") /\ phase = "done"
           /\ IF C.variant = "plain"
              THEN /\ IF Problems = {} THEN TRUE ELSE PrintT(<<"PROBLEMS", ToJson([idx |-> l, problems |-> Problems, where |-> "synth file"])>>) /\ FALSE
                   /\ Len(PageList) = Len(Exp) /\ \A x \in 1..Len(Exp) : RefPageOK(x)
              ELSE TRUE
           /\ UNCHANGED allvars

\* the library's page record against an expected entry
LibPageIs(p, e) ==
  /\ p.ok /\ p.obj = NumOf(e.node)
  /\ p.mediaBox = MediaBoxOf(e.mb)
  /\ p.cropBox = (IF e.crop = 0 THEN <<>> ELSE CropBoxOf(e.crop))
  /\ p.rotate % 360 = (IF e.rot = 0 THEN 0 ELSE RotateOf(e.rot))
  /\ p.fonts = (IF e.res = 0 THEN <<>> ELSE <<FontKeyOf(e.res)>>)
\* a page listed twice makes the tree inconsistent; what is returned then is "a truncated list": the pages in the order of
\* their FIRST occurrence in document order, cut anywhere (a page may be reported again where it is listed again)
RECURSIVE FirstOcc(_, _)
FirstOcc(os, sn) == IF os = <<>> THEN <<>> ELSE IF os[1] \in sn THEN FirstOcc(Tail(os), sn) ELSE <<os[1]>> \o FirstOcc(Tail(os), sn \cup {os[1]})
SharedOrderOK(P) == LET got == FirstOcc([x \in 1..Len(P.pages) |-> P.pages[x].obj], {}) IN
                    Len(got) <= Len(Exp) /\ \A x \in 1..Len(got) : got[x] = NumOf(Exp[x].node)
PresetOK(P) ==
  IF Well THEN /\ P.outcome = "value" /\ P.count = Len(Exp) /\ Len(P.pages) = Len(Exp)
               /\ \A x \in 1..Len(Exp) : LibPageIs(P.pages[x], Exp[x])
  ELSE /\ P.outcome \in {"value", "error"}
       \* whatever is returned for a malformed tree, a page that IS returned is one of the tree's pages, as it is
       /\ \A x \in 1..Len(P.pages) : P.pages[x].ok => \E y \in 1..Len(Exp) : LibPageIs(P.pages[x], Exp[y])
       /\ (C.variant \in {"shared", "shared_up"} /\ P.outcome = "value" /\ (\A x \in 1..Len(P.pages) : P.pages[x].ok) => SharedOrderOK(P))
TChkLib == /\ IsEvent("chk_lib") /\ phase = "done"
           /\ LET wrong == {nm \in {"default", "lenient", "strict"} : ~PresetOK(C.lib[nm])}
              IN IF wrong = {} THEN TRUE ELSE PrintT(<<"PROBLEMS", ToJson([idx |-> l, problems |-> wrong])>>) /\ FALSE
           /\ UNCHANGED allvars
TNext == TTree \/ TScan \/ TChkRef \/ TChkLib
TraceSpec == TInit /\ [][TNext]_tvars
Prog == Progress(l)
=============================================================================
