------------------------------ MODULE PageTree ------------------------------
(* C18 - the page tree (ISO 32000-1 7.7.3): what a document's page list IS, abstractly.

   A tree is given in preorder: node 1 is the root, parent[i] < i.  kind[i] is "pages" (intermediate node) or
   "page" (leaf).  Each node may set each inheritable attribute (MediaBox, CropBox, Rotate, Resources); the value
   it sets is determined by its index, so that "which ancestor did this come from" is visible in the value.
   The page list is the sequence of leaves in document order (depth-first, kids left to right); each page
   carries, for every inheritable attribute, the value set by its nearest ancestor-or-self that sets it.   *)
EXTENDS Naturals, Sequences, FiniteSets

Attrs == {"mb", "crop", "rot", "res"}
KidsOf(t, i) == SelectSeq([k \in 1..t.n |-> k], LAMBDA k : k > 1 /\ t.parent[k] = i)      \* in preorder = left to right
RECURSIVE TreeLeavesFrom(_, _)
TreeLeavesFrom(t, i) ==
  IF t.kind[i] = "page" THEN <<i>>
  ELSE LET ks == KidsOf(t, i)
           RECURSIVE Each(_) Each(x) == IF x > Len(ks) THEN <<>> ELSE TreeLeavesFrom(t, ks[x]) \o Each(x + 1)
       IN Each(1)
TreeLeaves(t) == TreeLeavesFrom(t, 1)
\* the node whose value of attribute a page i carries (0 = nobody sets it)
RECURSIVE Source(_, _, _)
Source(t, i, a) == IF i = 0 THEN 0 ELSE IF t.sets[a][i] THEN i ELSE Source(t, t.parent[i], a)

\* the concrete values the generator's serialisation gives node i (millionths for boxes)
MediaBoxOf(i) == <<0, 0, (100 + i) * 1000000, (200 + i) * 1000000>>
CropBoxOf(i) == <<1000000, 2000000, (50 + i) * 1000000, (60 + i) * 1000000>>
RotateOf(i) == ((i % 4) * 90)
FontKeyOf(i) == IF i < 10 THEN <<70, 48 + i>> ELSE <<70, 48 + (i \div 10), 48 + (i % 10)>>      \* the resource dictionary of node i holds exactly one font, /F<i>

\* what the page list must be: one record per leaf
Expected(t) == [x \in 1..Len(TreeLeaves(t)) |->
                 LET p == TreeLeaves(t)[x] IN
                 [node |-> p, mb |-> Source(t, p, "mb"), crop |-> Source(t, p, "crop"), rot |-> Source(t, p, "rot"), res |-> Source(t, p, "res")]]

\* sanity of the abstraction itself (model-checked in MCPageTree): every page is listed once, in preorder
LeavesOK(t) == /\ \A x, y \in 1..Len(TreeLeaves(t)) : x < y => TreeLeaves(t)[x] < TreeLeaves(t)[y]
               /\ {TreeLeaves(t)[x] : x \in 1..Len(TreeLeaves(t))} = {i \in 1..t.n : t.kind[i] = "page"}
=============================================================================
