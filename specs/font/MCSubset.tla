------------------------------ MODULE MCSubset ------------------------------
(* B1 generator for C12: fonts of the repository x character sets of every size (1 .. 150), drawn from pools that hit
   simple glyphs, composite glyphs (accented letters), several scripts, characters the font does not map, and both
   sides of the "skip subsetting" thresholds; plus glyph-driven subsets (by glyph id).                          *)
EXTENDS SfntWriter, Json

CONSTANTS NCases, Stride, NGen
Fonts == <<"roboto", "sourcesans">>
\* pools of code points
Ascii == [i \in 1..94 |-> 32 + i]
Accented == <<192, 193, 194, 195, 196, 197, 199, 200, 201, 202, 203, 209, 210, 214, 217, 220, 224, 225, 226, 228, 229, 231, 232, 233, 234, 235, 241, 242, 246, 249, 252, 255, 256, 262, 268, 282, 321, 337, 350, 352, 366, 381>>
GreekCyr == [i \in 1..40 |-> 913 + i] \o [i \in 1..40 |-> 1040 + i]
\* ... and composites whose components carry their own x / y scale (less-or-equal, greater-or-equal, the long dashes)
Symbols == <<8211, 8212, 8216, 8217, 8220, 8221, 8226, 8230, 8364, 8482, 169, 174, 176, 177, 183, 215, 247, 64257, 64258, 8804, 8805, 11834, 11835>>
Unmapped == <<20013, 25991, 12354, 128512, 57344, 1114111>>
Pool == Ascii \o Accented \o GreekCyr \o Symbols \o Unmapped
SizeOf(k) == <<1, 2, 5, 9, 10, 11, 30, 60, 150>>[(k % 9) + 1]
CharsOf(k) == LET n == SizeOf(k)  step == <<7, 11, 13, 17, 3>>[((k \div 9) % 5) + 1] IN [i \in 1..n |-> Pool[((k * 5 + i * step) % Len(Pool)) + 1]]
\* the same code point may be drawn twice: the harness builds a set
GidsOf(k) == [i \in 1..((k % 7) + 1) |-> (k * 37 + i * 101) % 1200]
VARIABLE done
Init == done = FALSE
Next == /\ ~done
        /\ \A j \in 0..(NCases - 1) : LET k == j * Stride IN
             PrintT(<<"REPLAY", ToJson([font |-> Fonts[(k % 2) + 1], chars |-> CharsOf(k \div 2), k |-> k])>>)
        /\ \A j \in 0..((NCases \div 4) - 1) : PrintT(<<"REPLAY", ToJson([font |-> "roboto", chars |-> <<>>, gids |-> GidsOf(j), k |-> j])>>)
        \* fixed sets: the scaled-component composites together; CFF sets whose charstring data lands on an offset-size boundary
        /\ PrintT(<<"REPLAY", ToJson([font |-> "roboto", chars |-> <<65, 8804, 8805, 11834, 11835, 233>>, k |-> 9001])>>)
        /\ PrintT(<<"REPLAY", ToJson([font |-> "sourcesans", chars |-> <<65, 66>>, k |-> 9002])>>)
        /\ PrintT(<<"REPLAY", ToJson([font |-> "sourcesans", chars |-> <<111, 113>>, k |-> 9003])>>)
        \* generated fonts (SfntWriter): short and long loca, every composite form; subsets of 1, 3 and many characters
        /\ \A g \in 0..(NGen - 1) :
             LET short == g % 2 = 0
                 chars == CASE g % 3 = 0 -> <<193, 8804>> [] g % 3 = 1 -> <<200, 65, 32, 66 + g>> [] OTHER -> SubSeq(GenChars, 1, 6 + g)
             IN PrintT(<<"REPLAY", ToJson([font |-> "generated", fontBytes |-> FontBytes(g, short, 120000), chars |-> chars, k |-> 9100 + g])>>)
        /\ done' = TRUE
Spec == Init /\ [][Next]_done
=============================================================================
