----------------------------- MODULE EmbedTrace -----------------------------
(* B2 for C13: a document written with embedded fonts, read by the reference reader and the font readers.

     file        the authored lines (font, size, text) per page, the written bytes, and the text the library's own
                 extractor returns per page
     chk_fonts   every line against the file (FontEmbed!LineProblems), and the library's text against the author's  *)
EXTENDS FontEmbed

VARIABLES l
tvars == <<allvars, l>>
IsEvent(e) == l <= NRec /\ Rec[l].ev = e /\ l' = l + 1
C == Rec[fcase]
TInit == l = 1 /\ LexInit /\ FileIdle
TFile == IsEvent("file") /\ Rec[l].ok /\ FileStart(l)
TScan == /\ l <= NRec /\ Rec[l].ev = "chk_fonts" /\ phase \notin {"idle", "done"}
         /\ FileStep(TRUE) /\ UNCHANGED l
IsWsU(u) == u \in {9, 10, 12, 13, 32, 160}
InkU(s) == SelectSeq(s, LAMBDA u : ~IsWsU(u))
AllProblems ==
  (IF Problems \subseteq {"dangling indirect reference"} THEN {} ELSE {[problem |-> "the file is not sound", what |-> Problems]})
  \cup (IF Len(PageList) = Len(C.pages) THEN {} ELSE {[problem |-> "page count differs"]})
  \cup UNION {LET shows == PageShows(pg)  lines == C.pages[pg] IN
              (IF Len(shows) = Len(lines) THEN UNION {LineProblems(pg, k, lines[k], shows[k]) : k \in 1..Len(lines)}
               ELSE {[page |-> pg, problem |-> "the page does not show one string per authored line", shows |-> Len(shows)]})
              \cup (IF pg <= Len(C.libText) /\ InkU(C.libText[pg]) = InkU(Flat([k \in 1..Len(lines) |-> lines[k].text], 1)) THEN {}
                    ELSE {[page |-> pg, problem |-> "the library's extractor returns other text"]})
              : pg \in 1..(IF Len(PageList) < Len(C.pages) THEN Len(PageList) ELSE Len(C.pages))}
TChk == /\ IsEvent("chk_fonts") /\ phase = "done"
        /\ IF AllProblems = {} THEN TRUE ELSE PrintT(<<"PROBLEMS", ToJson([idx |-> l, problems |-> AllProblems])>>) /\ FALSE
        /\ UNCHANGED allvars
\* KNOWN (C13-cff-shared-glyph): a CID-keyed CFF subset names one CID per glyph (its charset is a function of the glyph), and
\* the subsetter keeps one of the characters that share a glyph in the original font (hyphen-minus / hyphen, Greek delta /
\* increment in Source Sans 3): the other character's code has no glyph in the embedded program.  Only "glyph not in the
\* embedded font" for such a code of a CFF font is excused.
CharsOfFont(font) == UNION {UNION {IF C.pages[pg][k].font = font THEN {C.pages[pg][k].text[x] : x \in 1..Len(C.pages[pg][k].text)} ELSE {} : k \in 1..Len(C.pages[pg])} : pg \in 1..Len(C.pages)}
SharedGlyph(font, code) == LET orig == Font(FileSrc(OrigPath(font)))  cm == CmapOf(orig)  g == Gid(orig, cm, code) IN
                           g # 0 /\ \E c2 \in CharsOfFont(font) \ {code} : Gid(orig, cm, c2) = g
Excused(p) == /\ "code" \in DOMAIN p /\ p.problem = "the glyph of a shown code is not in the embedded font"
              /\ LET f == C.pages[p.page][p.line].font IN f = "sourcesans" /\ SharedGlyph(f, p.code)
TChkKnown == /\ KnownOpen("KF_C13_CFF_SHARED_GLYPH") /\ IsEvent("chk_fonts") /\ phase = "done"
             /\ AllProblems # {} /\ \A p \in AllProblems : Excused(p)
             /\ NoteKnown("KF_C13_CFF_SHARED_GLYPH", l)
             /\ UNCHANGED allvars
TNext == TFile \/ TScan \/ TChk \/ TChkKnown
TraceSpec == TInit /\ [][TNext]_tvars
Prog == Progress(l)
=============================================================================
