--------------------------------- MODULE Cff ---------------------------------
(* The Compact Font Format (Adobe Technical Note 5176) and Type 2 charstrings (5177), as far as comparing glyphs across
   a subsetter needs them: INDEX and DICT structures, Top DICT (CharStrings, Private, FDArray, FDSelect), Private DICT
   (Subrs, defaultWidthX, nominalWidthX), and the charstring language at TOKEN level.

   Program(font, gid) is the glyph's charstring with every callsubr / callgsubr replaced by the called subroutine's
   own program (bias rule of 5177 section 4.7; hintmask / cntrmask data bytes found by counting stem hints, through
   subroutines) - a sequence of numbers (by value, whatever their encoding) and operators.  Two glyphs with equal
   Program values and equal nominal / default widths draw the same outline with the same advance width, whether the
   font keeps its subroutines or has them expanded in line, as a subsetter may do.                              *)
EXTENDS Sfnt

\* ---- INDEX ----
OffN(b, i, w) == CASE w = 1 -> b[i + 1] [] w = 2 -> U16(b, i) [] w = 3 -> (b[i + 1] * 256 + b[i + 2]) * 256 + b[i + 3] [] OTHER -> U32(b, i)
\* the INDEX at file offset pos: [count, w, offs (file offset of the offset array), base (file offset such that item data = base + offset), end]
Index(path, pos) ==
  LET h == Rd(path, pos, 3)  count == IF Len(h) >= 2 THEN U16(h, 0) ELSE 0 IN
  IF count = 0 THEN [count |-> 0, w |-> 0, offs |-> pos + 2, base |-> pos + 2, end |-> pos + 2]
  ELSE LET w == h[3]  last == Rd(path, pos + 3 + count * w, w) IN
       [count |-> count, w |-> w, offs |-> pos + 3, base |-> pos + 3 + (count + 1) * w - 1, end |-> pos + 3 + (count + 1) * w - 1 + OffN(last, 0, w)]
Item(path, ix, i) ==      \* item i (0-based)
  IF i < 0 \/ i >= ix.count THEN [ok |-> FALSE, b |-> <<>>]
  ELSE LET o == Rd(path, ix.offs + i * ix.w, 2 * ix.w)  a == OffN(o, 0, ix.w)  z == OffN(o, ix.w, ix.w) IN
       IF z < a THEN [ok |-> FALSE, b |-> <<>>] ELSE [ok |-> TRUE, b |-> Rd(path, ix.base + a, z - a)]

\* ---- DICT: a sequence of [op, args]; op = b0, or 1200 + b1 for escaped operators; reals are skipped (value 0) ----
RECURSIVE SkipReal(_, _)
SkipReal(b, i) == IF i >= Len(b) THEN i ELSE IF b[i + 1] % 16 = 15 \/ b[i + 1] \div 16 = 15 THEN i + 1 ELSE SkipReal(b, i + 1)
I32(b, i) == LET hi == b[i + 1] IN (IF hi >= 128 THEN hi - 256 ELSE hi) * 16777216 + (b[i + 2] * 256 + b[i + 3]) * 256 + b[i + 4]
RECURSIVE DictOps(_, _, _)
DictOps(b, i, args) ==
  IF i >= Len(b) THEN <<>>
  ELSE LET b0 == b[i + 1] IN
       IF b0 = 12 THEN <<[op |-> 1200 + b[i + 2], args |-> args]>> \o DictOps(b, i + 2, <<>>)
       ELSE IF b0 <= 21 THEN <<[op |-> b0, args |-> args]>> \o DictOps(b, i + 1, <<>>)
       ELSE IF b0 = 28 THEN DictOps(b, i + 3, Append(args, I16(b, i + 1)))
       ELSE IF b0 = 29 THEN DictOps(b, i + 5, Append(args, I32(b, i + 1)))
       ELSE IF b0 = 30 THEN DictOps(b, SkipReal(b, i + 1), Append(args, 0))
       ELSE IF b0 <= 246 THEN DictOps(b, i + 1, Append(args, b0 - 139))
       ELSE IF b0 <= 250 THEN DictOps(b, i + 2, Append(args, (b0 - 247) * 256 + b[i + 2] + 108))
       ELSE IF b0 <= 254 THEN DictOps(b, i + 2, Append(args, 0 - (b0 - 251) * 256 - b[i + 2] - 108))
       ELSE DictOps(b, i + 1, args)
DictGet(d, op, dflt) == LET S == {i \in 1..Len(d) : d[i].op = op} IN IF S = {} THEN dflt ELSE d[CHOOSE i \in S : TRUE].args

\* ---- a CFF font context: cff = file offset where the CFF data starts ----
Private(path, cff, args) ==       \* args = <<size, offset>> of a Private DICT
  IF Len(args) # 2 THEN [ok |-> FALSE, dw |-> 0, nw |-> 0, subrs |-> [count |-> 0]]
  ELSE LET d == DictOps(Rd(path, cff + args[2], args[1]), 0, <<>>)  so == DictGet(d, 19, <<>>) IN
       [ok |-> TRUE, dw |-> LET v == DictGet(d, 20, <<0>>) IN IF v = <<>> THEN 0 ELSE v[1], nw |-> LET v == DictGet(d, 21, <<0>>) IN IF v = <<>> THEN 0 ELSE v[1],
        subrs |-> IF so = <<>> THEN [count |-> 0] ELSE Index(path, cff + args[2] + so[1])]
CffFont(path, cff) ==
  LET h == Rd(path, cff, 4)
      names == Index(path, cff + h[3])
      tops == Index(path, names.end)
      strs == Index(path, tops.end)
      gsubrs == Index(path, strs.end)
      top == DictOps(Item(path, tops, 0).b, 0, <<>>)
      csAt == DictGet(top, 17, <<>>)
      fdaAt == DictGet(top, 1236, <<>>)
  IN [path |-> path, cff |-> cff, ok |-> Len(h) = 4 /\ h[1] = 1 /\ csAt # <<>>, gsubrs |-> gsubrs, top |-> top,
      cs |-> IF csAt = <<>> THEN [count |-> 0] ELSE Index(path, cff + csAt[1]),
      cid |-> fdaAt # <<>>,
      fda |-> IF fdaAt = <<>> THEN [count |-> 0] ELSE Index(path, cff + fdaAt[1]),
      fdsel |-> LET v == DictGet(top, 1237, <<>>) IN IF v = <<>> THEN 0 - 1 ELSE cff + v[1],
      priv |-> Private(path, cff, DictGet(top, 18, <<>>))]
\* the font dictionary index of a glyph in a CID-keyed font (FDSelect formats 0 and 3)
RECURSIVE Fd3(_, _, _, _)
Fd3(r, i, n, gid) == IF i > n THEN 0 ELSE IF U16(r, 3 * (i - 1)) <= gid /\ gid < U16(r, 3 * i) THEN r[3 * (i - 1) + 3] ELSE Fd3(r, i + 1, n, gid)
FdOf(C, gid) == IF C.fdsel < 0 THEN 0
                ELSE LET h == Rd(C.path, C.fdsel, 3) IN
                     IF h[1] = 0 THEN Rd(C.path, C.fdsel + 1 + gid, 1)[1]
                     ELSE LET n == U16(h, 1) IN Fd3(Rd(C.path, C.fdsel + 3, 3 * n + 2), 1, n, gid)
PrivOf(C, gid) == IF ~C.cid THEN C.priv
                  ELSE LET fd == DictOps(Item(C.path, C.fda, FdOf(C, gid)).b, 0, <<>>) IN Private(C.path, C.cff, DictGet(fd, 18, <<>>))

\* ---- Type 2 charstrings at token level ----
Bias(n) == IF n < 1240 THEN 107 ELSE IF n < 33900 THEN 1131 ELSE 32768
Num(v) == [t |-> "n", v |-> v, f |-> 0]
StemOps == {1, 3, 18, 23}
\* st: [out (tokens), depth (numbers on the stack since the last operator), stems, last (last number), ok, done]
RECURSIVE Run(_, _, _, _, _, _)
Run(C, priv, b, i, st, fuel) ==
  IF ~st.ok \/ st.done \/ i >= Len(b) THEN st
  ELSE LET b0 == b[i + 1] IN
       IF b0 = 28 THEN Run(C, priv, b, i + 3, [st EXCEPT !.out = Append(@, Num(I16(b, i + 1))), !.depth = @ + 1, !.last = I16(b, i + 1)], fuel)
       ELSE IF b0 = 255 THEN Run(C, priv, b, i + 5, [st EXCEPT !.out = Append(@, [t |-> "n", v |-> I16(b, i + 1), f |-> U16(b, i + 3)]), !.depth = @ + 1, !.last = I16(b, i + 1)], fuel)
       ELSE IF b0 >= 32 /\ b0 <= 246 THEN Run(C, priv, b, i + 1, [st EXCEPT !.out = Append(@, Num(b0 - 139)), !.depth = @ + 1, !.last = b0 - 139], fuel)
       ELSE IF b0 >= 247 /\ b0 <= 250 THEN LET v == (b0 - 247) * 256 + b[i + 2] + 108 IN Run(C, priv, b, i + 2, [st EXCEPT !.out = Append(@, Num(v)), !.depth = @ + 1, !.last = v], fuel)
       ELSE IF b0 >= 251 /\ b0 <= 254 THEN LET v == 0 - (b0 - 251) * 256 - b[i + 2] - 108 IN Run(C, priv, b, i + 2, [st EXCEPT !.out = Append(@, Num(v)), !.depth = @ + 1, !.last = v], fuel)
       ELSE IF b0 \in {10, 29} THEN      \* callsubr / callgsubr: the number on top is the biased subroutine number
            LET ix == IF b0 = 10 THEN priv.subrs ELSE C.gsubrs
                it == Item(C.path, ix, st.last + Bias(ix.count))
                st1 == [st EXCEPT !.out = SubSeq(@, 1, Len(@) - 1), !.depth = @ - 1]
            IN IF fuel = 0 \/ st.depth = 0 \/ ~it.ok THEN [st EXCEPT !.ok = FALSE]
               ELSE Run(C, priv, b, i + 1, Run(C, priv, it.b, 0, st1, fuel - 1), fuel)
       ELSE IF b0 = 11 THEN st                                                              \* return
       ELSE IF b0 = 14 THEN [st EXCEPT !.out = Append(@, [t |-> "op", v |-> 14, f |-> 0]), !.done = TRUE]   \* endchar
       ELSE IF b0 \in StemOps THEN Run(C, priv, b, i + 1, [st EXCEPT !.out = Append(@, [t |-> "op", v |-> b0, f |-> 0]), !.stems = @ + (st.depth \div 2), !.depth = 0], fuel)
       ELSE IF b0 \in {19, 20} THEN      \* hintmask / cntrmask: numbers before it are an implicit vstem; then ceil(stems / 8) mask bytes
            LET n == st.stems + (st.depth \div 2)  nb == (n + 7) \div 8 IN
            Run(C, priv, b, i + 1 + nb, [st EXCEPT !.out = Append(@, [t |-> "mask", v |-> b0, f |-> SubSeq(b, i + 2, i + 1 + nb)]), !.stems = n, !.depth = 0], fuel)
       ELSE IF b0 = 12 THEN Run(C, priv, b, i + 2, [st EXCEPT !.out = Append(@, [t |-> "op", v |-> 1200 + b[i + 2], f |-> 0]), !.depth = 0], fuel)
       ELSE Run(C, priv, b, i + 1, [st EXCEPT !.out = Append(@, [t |-> "op", v |-> b0, f |-> 0]), !.depth = 0], fuel)
Program(C, gid) ==
  LET it == Item(C.path, C.cs, gid) IN
  IF ~it.ok THEN [ok |-> FALSE, out |-> <<>>]
  ELSE LET r == Run(C, PrivOf(C, gid), it.b, 0, [out |-> <<>>, depth |-> 0, stems |-> 0, last |-> 0, ok |-> TRUE, done |-> FALSE], 10) IN [ok |-> r.ok /\ r.done, out |-> r.out]
\* the advance width a program declares: a number in front of the first stack-clearing operator beyond what it takes
RECURSIVE FirstOp(_, _)
FirstOp(p, i) == IF i > Len(p) THEN 0 ELSE IF p[i].t # "n" THEN i ELSE FirstOp(p, i + 1)
WidthOf(p, priv) ==
  LET k == FirstOp(p, 1) IN
  IF k = 0 THEN priv.dw
  ELSE LET n == k - 1  op == p[k]
           has == CASE op.t = "mask" \/ (op.t = "op" /\ op.v \in StemOps) -> n % 2 = 1
                    [] op.t = "op" /\ op.v = 21 -> n > 2
                    [] op.t = "op" /\ op.v \in {4, 22} -> n > 1
                    [] op.t = "op" /\ op.v = 14 -> n \in {1, 5}
                    [] OTHER -> FALSE
       IN IF has THEN priv.nw + p[1].v ELSE priv.dw
\* the program without its width argument
Shape(p) == LET k == FirstOp(p, 1) IN
            IF k = 0 THEN p
            ELSE LET n == k - 1  op == p[k]
                     has == CASE op.t = "mask" \/ (op.t = "op" /\ op.v \in StemOps) -> n % 2 = 1 [] op.t = "op" /\ op.v = 21 -> n > 2
                              [] op.t = "op" /\ op.v \in {4, 22} -> n > 1 [] op.t = "op" /\ op.v = 14 -> n \in {1, 5} [] OTHER -> FALSE
                 IN IF has THEN Tail(p) ELSE p

\* ---- a subsetting case over a CFF font: F the original (OpenType container), S the subset (container or bare CFF) ----
CffStart(X, raw) == IF raw THEN 0 ELSE X.cff.off
CffCase(e, F, S) ==
  LET A == CffFont(F.path, F.cff.off)
      B == CffFont(FileSrc(e.subset), IF e.rawCff THEN 0 ELSE S.cff.off)
      cm == CmapOf(F)
      M(c) == LET T == {i \in 1..Len(e.mapping) : e.mapping[i].c = c} IN IF T = {} THEN 0 - 1 ELSE e.mapping[CHOOSE i \in T : TRUE].g
  IN (IF A.ok THEN {} ELSE {[problem |-> "the ORIGINAL CFF cannot be read by the specification (oracle limit)"]})
     \cup (IF B.ok THEN {} ELSE {[problem |-> "the subset is not a readable CFF font"]})
     \cup (IF ~A.ok \/ ~B.ok THEN {}
           ELSE UNION {LET c == e.chars[i]  g == Gid(F, cm, c)  m == M(c) IN
                       IF g = 0 THEN (IF m <= 0 THEN {} ELSE {[what |-> c, problem |-> "a character the font does not map got a glyph"]})
                       ELSE IF m < 0 THEN {[what |-> c, problem |-> "requested character missing from the mapping"]}
                       ELSE LET pa == Program(A, g)  pb == Program(B, m) IN
                            (IF pa.ok THEN {} ELSE {[what |-> c, problem |-> "the ORIGINAL charstring cannot be read by the specification (oracle limit)"]})
                            \cup (IF ~pa.ok \/ (pb.ok /\ Shape(pb.out) = Shape(pa.out)) THEN {} ELSE {[what |-> c, problem |-> "charstring program differs", orig |-> g, sub |-> m]})
                            \cup (IF ~pa.ok \/ ~pb.ok \/ WidthOf(pa.out, PrivOf(A, g)) = WidthOf(pb.out, PrivOf(B, m)) THEN {}
                                  ELSE {[what |-> c, problem |-> "advance width differs", orig |-> WidthOf(pa.out, PrivOf(A, g)), sub |-> WidthOf(pb.out, PrivOf(B, m))]})
                       : i \in 1..Len(e.chars)})
=============================================================================
