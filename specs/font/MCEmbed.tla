------------------------------ MODULE MCEmbed ------------------------------
(* B1 generator for C13: pages of text lines, each with a font (a bundled TrueType or CFF font, or the standard
   Helvetica) and a string over the repertoire the bundled fonts cover (Latin, accented Latin, Greek, Cyrillic,
   punctuation and symbols), with repeated characters, both custom fonts mixed on one page, and several writer
   configurations.                                                                                            *)
EXTENDS Naturals, Sequences, TLC, Json

CONSTANTS NCases, Stride
Pool == [i \in 1..94 |-> 32 + i] \o [i \in 1..23 |-> 191 + i] \o [i \in 1..31 |-> 215 + i] \o [i \in 1..17 |-> 912 + i] \o [i \in 1..25 |-> 944 + i]
        \o [i \in 1..64 |-> 1039 + i] \o <<8211, 8212, 8216, 8217, 8220, 8221, 8226, 8230, 8364, 8482, 32, 32>>
Fonts == <<"roboto", "sourcesans", "roboto", "helvetica", "sourcesans">>
Cfgs == <<[xref |-> FALSE, objstm |-> FALSE, compress |-> FALSE], [xref |-> FALSE, objstm |-> FALSE, compress |-> TRUE], [xref |-> TRUE, objstm |-> TRUE, compress |-> TRUE],
          [xref |-> TRUE, objstm |-> FALSE, compress |-> FALSE]>>
TextOf(k, j, font) == LET n == 1 + ((k * 3 + j * 5) % 14) IN
                      [i \in 1..n |-> IF font = "helvetica" THEN 65 + ((k + i * j) % 26)
                                      ELSE IF i > 2 /\ (i + k) % 5 = 0 THEN Pool[((k * 11 + j * 17) % Len(Pool)) + 1]       \* a repeated character
                                      ELSE Pool[((k * 11 + j * 17 + i * (7 + 2 * (k % 9))) % Len(Pool)) + 1]]
LineOf(k, j) == LET f == Fonts[((k + j) % Len(Fonts)) + 1] IN [font |-> f, size |-> <<12, 9, 24>>[((k + j) % 3) + 1], text |-> TextOf(k, j, f)]
PageOf(k, p) == [j \in 1..(1 + ((k + p) % 4)) |-> LineOf(k + 13 * p, j)]
Case(k) == [pages |-> [p \in 1..(1 + (k % 2)) |-> PageOf(k, p)], cfg |-> Cfgs[((k \div 2) % Len(Cfgs)) + 1], k |-> k]
\* fixed documents: characters that share one glyph (Greek capital delta / increment, omega / ohm; hyphen-minus / hyphen), runs
\* of consecutive code points that cross a 256-code block (U+00FE..U+0101)
Fixed == << [pages |-> << << [font |-> "roboto", size |-> 12, text |-> <<916, 8710, 65, 937, 8486>>], [font |-> "roboto", size |-> 12, text |-> <<254, 255, 256, 257>>] >> >>,
             cfg |-> Cfgs[1], k |-> 9001],
            [pages |-> << << [font |-> "sourcesans", size |-> 12, text |-> <<45, 8208, 65, 916, 8710>>], [font |-> "sourcesans", size |-> 10, text |-> <<255, 256, 33, 34, 35, 256, 255>>] >> >>,
             cfg |-> Cfgs[2], k |-> 9002],
            [pages |-> << << [font |-> "roboto", size |-> 12, text |-> <<255, 256, 33, 34, 35, 256, 255>>] >> >>, cfg |-> Cfgs[4], k |-> 9003],
            \* more than a hundred distinct code points none of which follows another (every ToUnicode entry a bfchar of its own, a second
            \* block of entries), in three lines of one font
            [pages |-> << << [font |-> "roboto", size |-> 9, text |-> [i \in 1..47 |-> 31 + 2 * i]], [font |-> "roboto", size |-> 9, text |-> [i \in 1..31 |-> 191 + 2 * i]],
                             [font |-> "roboto", size |-> 9, text |-> [i \in 1..9 |-> 911 + 2 * i] \o [i \in 1..32 |-> 1039 + 2 * i]] >> >>, cfg |-> Cfgs[1], k |-> 9004],
            \* base letters followed by combining marks: glyphs whose advance width is zero
            [pages |-> << << [font |-> "roboto", size |-> 12, text |-> <<101, 769, 97, 776, 110, 771, 115, 780, 99, 807>>] >> >>, cfg |-> Cfgs[2], k |-> 9005] >>
VARIABLE done
Init == done = FALSE
Next == /\ ~done
        /\ \A j \in 0..(NCases - 1) : PrintT(<<"REPLAY", ToJson(Case(j * Stride))>>)
        /\ \A j \in 1..Len(Fixed) : PrintT(<<"REPLAY", ToJson(Fixed[j])>>)
        /\ done' = TRUE
Spec == Init /\ [][Next]_done
=============================================================================
