--------------------------------- MODULE Sfnt ---------------------------------
(* C12 / C13: an independent reader of sfnt font files (TrueType outlines; the OpenType container of CFF fonts),
   transcribed from the OpenType specification: table directory, head / hhea / maxp / hmtx, loca + glyf with simple
   and composite glyph descriptions, cmap formats 4 and 12.  The file is read a few bytes at a time through the
   file-slice primitive; everything that interprets those bytes is here.

   Outline(F, gid) is the shape of a glyph as a value that does not mention glyph numbers: a simple glyph is its
   contour end points and its points (absolute coordinates, on/off-curve); a composite glyph is the sequence of its
   components, each with its placement (offsets or matching points, the transformation, the flags that bear on
   geometry and metrics) and the OUTLINE of the component glyph.  Two glyphs with equal Outline values flatten to the
   same contours, whatever the glyph ids involved - which is what a subsetter that renumbers glyphs must preserve. *)
EXTENDS Naturals, Integers, Sequences, FiniteSets, TLC, Prim

U16(b, i) == b[i + 1] * 256 + b[i + 2]
I16(b, i) == LET v == U16(b, i) IN IF v >= 32768 THEN v - 65536 ELSE v
I8(b, i) == IF b[i + 1] >= 128 THEN b[i + 1] - 256 ELSE b[i + 1]
\* offsets and lengths of real fonts are far below 2^31 (TLC integers are 32-bit): a larger value reads as -1
U32(b, i) == IF b[i + 1] >= 128 THEN 0 - 1 ELSE ((b[i + 1] * 256 + b[i + 2]) * 256 + b[i + 3]) * 256 + b[i + 4]
Bit(x, k) == (x \div (2 ^ k)) % 2 = 1
\* a font source is a file (read piecewise through the primitive) or bytes already at hand (a font program taken out of a PDF)
FileSrc(path) == [file |-> path, b |-> <<>>]
MemSrc(bytes) == [file |-> "", b |-> bytes]
SrcLen(src) == IF src.file # "" THEN FileLen(src.file) ELSE Len(src.b)
Rd(src, off, len) == IF len <= 0 \/ off < 0 THEN <<>>
                     ELSE IF src.file # "" THEN FileSlice(src.file, off, len)
                     ELSE SubSeq(src.b, off + 1, IF off + len > Len(src.b) THEN Len(src.b) ELSE off + len)

T_head == <<104, 101, 97, 100>>  T_hhea == <<104, 104, 101, 97>>  T_maxp == <<109, 97, 120, 112>>  T_hmtx == <<104, 109, 116, 120>>
T_loca == <<108, 111, 99, 97>>   T_glyf == <<103, 108, 121, 102>> T_cmap == <<99, 109, 97, 112>>   T_CFF == <<67, 70, 70, 32>>
T_OTTO == <<79, 84, 84, 79>>     T_true == <<116, 114, 117, 101>> T_0100 == <<0, 1, 0, 0>>

\* ---- the table directory and the scalar tables: a font context, computed once per file ----
Dir(path) == LET h == Rd(path, 0, 12)  n == IF Len(h) = 12 THEN U16(h, 4) ELSE 0  d == Rd(path, 12, 16 * n) IN
             [i \in 1..(Len(d) \div 16) |-> [tag |-> SubSeq(d, 16 * (i - 1) + 1, 16 * (i - 1) + 4), sum |-> SubSeq(d, 16 * (i - 1) + 5, 16 * (i - 1) + 8),
                                            off |-> U32(d, 16 * (i - 1) + 8), len |-> U32(d, 16 * (i - 1) + 12)]]
NoTable == [tag |-> <<>>, sum |-> <<>>, off |-> 0 - 1, len |-> 0]
Tab(dir, tag) == LET S == {i \in 1..Len(dir) : dir[i].tag = tag} IN IF S = {} THEN NoTable ELSE dir[CHOOSE i \in S : TRUE]
Font(path) ==
  LET dir == Dir(path)
      head == Rd(path, Tab(dir, T_head).off, 54)  hhea == Rd(path, Tab(dir, T_hhea).off, 36)  maxp == Rd(path, Tab(dir, T_maxp).off, 6)
  IN [path |-> path, size |-> SrcLen(path), version |-> Rd(path, 0, 4), dir |-> dir,
      upem |-> IF Len(head) = 54 THEN U16(head, 18) ELSE 0, locFmt |-> IF Len(head) = 54 THEN I16(head, 50) ELSE 0 - 1,
      nHM |-> IF Len(hhea) = 36 THEN U16(hhea, 34) ELSE 0, nGlyphs |-> IF Len(maxp) = 6 THEN U16(maxp, 4) ELSE 0,
      loca |-> Tab(dir, T_loca), glyf |-> Tab(dir, T_glyf), hmtx |-> Tab(dir, T_hmtx), cmap |-> Tab(dir, T_cmap), cff |-> Tab(dir, T_CFF)]

\* ---- horizontal metrics ----
Advance(F, gid) == IF F.nHM = 0 \/ gid >= F.nGlyphs THEN 0 - 1
                   ELSE LET k == IF gid < F.nHM THEN gid ELSE F.nHM - 1  b == Rd(F.path, F.hmtx.off + 4 * k, 2) IN IF Len(b) = 2 THEN U16(b, 0) ELSE 0 - 1

\* ---- loca / glyf ----
GlyphRange(F, gid) ==
  IF gid < 0 \/ gid >= F.nGlyphs THEN [ok |-> FALSE, from |-> 0, to |-> 0]
  ELSE IF F.locFmt = 0 THEN LET b == Rd(F.path, F.loca.off + 2 * gid, 4) IN [ok |-> Len(b) = 4, from |-> 2 * U16(b, 0), to |-> 2 * U16(b, 2)]
  ELSE LET b == Rd(F.path, F.loca.off + 4 * gid, 8) IN [ok |-> Len(b) = 8, from |-> U32(b, 0), to |-> U32(b, 4)]
GlyphBytes(F, gid) == LET r == GlyphRange(F, gid) IN
                      IF ~r.ok \/ r.to < r.from \/ r.to > F.glyf.len THEN [ok |-> FALSE, b |-> <<>>] ELSE [ok |-> TRUE, b |-> Rd(F.path, F.glyf.off + r.from, r.to - r.from)]

\* simple glyph: flags with repeat counts, then x and y deltas
RECURSIVE RdFlags(_, _, _, _)
RdFlags(g, pos, need, acc) ==
  IF need <= 0 THEN [flags |-> acc, pos |-> pos, ok |-> need = 0]
  ELSE IF pos >= Len(g) THEN [flags |-> acc, pos |-> pos, ok |-> FALSE]
  ELSE LET f == g[pos + 1] IN
       IF Bit(f, 3) THEN (IF pos + 1 >= Len(g) THEN [flags |-> acc, pos |-> pos, ok |-> FALSE]
                          ELSE LET n == g[pos + 2] + 1 IN RdFlags(g, pos + 2, need - n, acc \o [i \in 1..n |-> f]))
       ELSE RdFlags(g, pos + 1, need - 1, Append(acc, f))
\* coordinates: shortBit / sameBit select one byte with sign, zero, or a signed word; returns absolute values
RECURSIVE RdCoords(_, _, _, _, _, _, _)
RdCoords(g, flags, i, pos, cur, shortBit, sameBit) ==
  IF i > Len(flags) THEN [vals |-> <<>>, pos |-> pos, ok |-> TRUE]
  ELSE LET f == flags[i] IN
       IF Bit(f, shortBit) THEN (IF pos >= Len(g) THEN [vals |-> <<>>, pos |-> pos, ok |-> FALSE]
                                 ELSE LET v == cur + (IF Bit(f, sameBit) THEN g[pos + 1] ELSE 0 - g[pos + 1])  r == RdCoords(g, flags, i + 1, pos + 1, v, shortBit, sameBit)
                                      IN [vals |-> <<v>> \o r.vals, pos |-> r.pos, ok |-> r.ok])
       ELSE IF Bit(f, sameBit) THEN LET r == RdCoords(g, flags, i + 1, pos, cur, shortBit, sameBit) IN [vals |-> <<cur>> \o r.vals, pos |-> r.pos, ok |-> r.ok]
       ELSE (IF pos + 1 >= Len(g) THEN [vals |-> <<>>, pos |-> pos, ok |-> FALSE]
             ELSE LET v == cur + I16(g, pos)  r == RdCoords(g, flags, i + 1, pos + 2, v, shortBit, sameBit) IN [vals |-> <<v>> \o r.vals, pos |-> r.pos, ok |-> r.ok])
SimpleOutline(g) ==
  LET nc == I16(g, 0) IN
  IF Len(g) < 10 + 2 * nc + 2 THEN [kind |-> "broken"]
  ELSE LET ends == [i \in 1..nc |-> U16(g, 10 + 2 * (i - 1))]
           npts == IF nc = 0 THEN 0 ELSE ends[nc] + 1
           ilen == U16(g, 10 + 2 * nc)
           fl == RdFlags(g, 10 + 2 * nc + 2 + ilen, npts, <<>>)
           xs == RdCoords(g, fl.flags, 1, fl.pos, 0, 1, 4)
           ys == RdCoords(g, fl.flags, 1, xs.pos, 0, 2, 5)
       IN IF ~fl.ok \/ ~xs.ok \/ ~ys.ok THEN [kind |-> "broken"]
          ELSE [kind |-> "simple", bbox |-> <<I16(g, 2), I16(g, 4), I16(g, 6), I16(g, 8)>>, ends |-> ends,
                pts |-> [i \in 1..npts |-> <<xs.vals[i], ys.vals[i], fl.flags[i] % 2>>]]

\* composite glyph: component records.  Flags kept: ARGS_ARE_XY_VALUES (1), ROUND_XY_TO_GRID (2), USE_MY_METRICS (9),
\* OVERLAP_COMPOUND (10), SCALED / UNSCALED_COMPONENT_OFFSET (11, 12); dropped: how the record is encoded
GeomFlags(f) == [b \in {1, 2, 9, 10, 11, 12} |-> Bit(f, b)]
RECURSIVE Outline(_, _, _)
RECURSIVE Components(_, _, _, _)
Components(F, g, pos, fuel) ==
  IF pos + 4 > Len(g) THEN [ok |-> FALSE, comps |-> <<>>]
  ELSE LET fl == U16(g, pos)  gid == U16(g, pos + 2)
           words == Bit(fl, 0)
           a1 == IF words THEN (IF Bit(fl, 1) THEN I16(g, pos + 4) ELSE U16(g, pos + 4)) ELSE (IF Bit(fl, 1) THEN I8(g, pos + 4) ELSE g[pos + 5])
           a2 == IF words THEN (IF Bit(fl, 1) THEN I16(g, pos + 6) ELSE U16(g, pos + 6)) ELSE (IF Bit(fl, 1) THEN I8(g, pos + 5) ELSE g[pos + 6])
           p1 == pos + 4 + (IF words THEN 4 ELSE 2)
           ntr == IF Bit(fl, 3) THEN 1 ELSE IF Bit(fl, 6) THEN 2 ELSE IF Bit(fl, 7) THEN 4 ELSE 0
           tr == [i \in 1..ntr |-> I16(g, p1 + 2 * (i - 1))]
           p2 == p1 + 2 * ntr
           this == [fl |-> GeomFlags(fl), a1 |-> a1, a2 |-> a2, tr |-> tr, sub |-> Outline(F, gid, fuel - 1)]
       IN IF p2 > Len(g) THEN [ok |-> FALSE, comps |-> <<>>]
          ELSE IF Bit(fl, 5) THEN LET r == Components(F, g, p2, fuel) IN [ok |-> r.ok, comps |-> <<this>> \o r.comps]
          ELSE [ok |-> TRUE, comps |-> <<this>>]
Outline(F, gid, fuel) ==
  IF fuel = 0 THEN [kind |-> "too deep"]
  ELSE LET gb == GlyphBytes(F, gid) IN
       IF ~gb.ok THEN [kind |-> "missing"]
       ELSE IF gb.b = <<>> THEN [kind |-> "empty"]
       ELSE IF Len(gb.b) < 10 THEN [kind |-> "broken"]
       ELSE IF I16(gb.b, 0) >= 0 THEN SimpleOutline(gb.b)
       ELSE LET c == Components(F, gb.b, 10, fuel) IN IF c.ok THEN [kind |-> "composite", bbox |-> <<I16(gb.b, 2), I16(gb.b, 4), I16(gb.b, 6), I16(gb.b, 8)>>, comps |-> c.comps] ELSE [kind |-> "broken"]
RECURSIVE Sound(_)
Sound(o) == o.kind \in {"simple", "empty"} \/ (o.kind = "composite" /\ \A i \in 1..Len(o.comps) : Sound(o.comps[i].sub))

\* ---- cmap: Unicode subtables of format 12 (full repertoire) or 4 (BMP) ----
CmapSubs(F) == LET h == Rd(F.path, F.cmap.off, 4)  n == IF Len(h) = 4 THEN U16(h, 2) ELSE 0  recs == Rd(F.path, F.cmap.off + 4, 8 * n) IN
               [i \in 1..(Len(recs) \div 8) |-> LET off == U32(recs, 8 * (i - 1) + 4)  fmt == Rd(F.path, F.cmap.off + off, 2) IN
                                                 [plat |-> U16(recs, 8 * (i - 1)), enc |-> U16(recs, 8 * (i - 1) + 2), off |-> F.cmap.off + off, fmt |-> IF Len(fmt) = 2 THEN U16(fmt, 0) ELSE 0 - 1]]
IsUnicode(s) == s.plat = 0 \/ (s.plat = 3 /\ s.enc \in {1, 10})
RECURSIVE Find12(_, _, _, _)
Find12(groups, i, n, cp) == IF i > n THEN 0
                            ELSE LET s == U32(groups, 12 * (i - 1))  e == U32(groups, 12 * (i - 1) + 4) IN
                                 IF cp >= s /\ cp <= e THEN U32(groups, 12 * (i - 1) + 8) + (cp - s) ELSE IF cp < s THEN 0 ELSE Find12(groups, i + 1, n, cp)
Lookup12(F, s, cp) == LET h == Rd(F.path, s.off, 16)  n == U32(h, 12) IN Find12(Rd(F.path, s.off + 16, 12 * n), 1, n, cp)
RECURSIVE Seg4(_, _, _, _)
Seg4(ends, i, n, cp) == IF i > n THEN 0 ELSE IF U16(ends, 2 * (i - 1)) >= cp THEN i ELSE Seg4(ends, i + 1, n, cp)
Lookup4(F, s, cp) ==
  IF cp > 65535 THEN 0
  ELSE LET h == Rd(F.path, s.off, 14)  n == U16(h, 6) \div 2
           ends == Rd(F.path, s.off + 14, 2 * n)
           k == Seg4(ends, 1, n, cp)
       IN IF k = 0 THEN 0
          ELSE LET st == U16(Rd(F.path, s.off + 16 + 2 * n + 2 * (k - 1), 2), 0)
                   dl == U16(Rd(F.path, s.off + 16 + 4 * n + 2 * (k - 1), 2), 0)
                   roAt == s.off + 16 + 6 * n + 2 * (k - 1)
                   ro == U16(Rd(F.path, roAt, 2), 0)
               IN IF cp < st THEN 0
                  ELSE IF ro = 0 THEN (cp + dl) % 65536
                  ELSE LET g == U16(Rd(F.path, roAt + ro + 2 * (cp - st), 2), 0) IN IF g = 0 THEN 0 ELSE (g + dl) % 65536
\* the glyph a character maps to (0 = not mapped), and whether the font has a Unicode cmap at all
CmapOf(F) == LET subs == CmapSubs(F)  S12 == {i \in 1..Len(subs) : IsUnicode(subs[i]) /\ subs[i].fmt = 12}  S4 == {i \in 1..Len(subs) : IsUnicode(subs[i]) /\ subs[i].fmt = 4} IN
             IF S12 # {} THEN [kind |-> 12, s |-> subs[CHOOSE i \in S12 : TRUE]] ELSE IF S4 # {} THEN [kind |-> 4, s |-> subs[CHOOSE i \in S4 : TRUE]] ELSE [kind |-> 0]
Gid(F, cm, cp) == CASE cm.kind = 12 -> Lookup12(F, cm.s, cp) [] cm.kind = 4 -> Lookup4(F, cm.s, cp) [] OTHER -> 0

\* ---- well-formedness of a TrueType-flavoured sfnt file ----
InFile(F, t) == t.off >= 12 /\ t.len >= 0 /\ t.off + t.len <= F.size
RECURSIVE Monotone(_, _, _, _)
Monotone(b, i, n, w) == i >= n \/ ((IF w = 2 THEN U16(b, 2 * (i - 1)) <= U16(b, 2 * i) ELSE U32(b, 4 * (i - 1)) <= U32(b, 4 * i)) /\ Monotone(b, i + 1, n, w))
TrueTypeProblems(F) ==
  (IF F.version \in {T_0100, T_true} THEN {} ELSE {"sfnt version is not TrueType"})
  \cup {"table missing or outside the file: " \o nm : nm \in {x \in {"head", "hhea", "maxp", "hmtx", "loca", "glyf"} :
          LET t == Tab(F.dir, CASE x = "head" -> T_head [] x = "hhea" -> T_hhea [] x = "maxp" -> T_maxp [] x = "hmtx" -> T_hmtx [] x = "loca" -> T_loca [] OTHER -> T_glyf) IN ~InFile(F, t) \/ t.off < 0}}
  \cup (IF \A i \in 1..Len(F.dir) : InFile(F, F.dir[i]) THEN {} ELSE {"a directory entry points outside the file"})
  \cup (IF F.nGlyphs >= 1 /\ F.upem >= 16 /\ F.locFmt \in {0, 1} THEN {} ELSE {"head / maxp values out of range"})
  \cup (IF F.nHM >= 1 /\ F.nHM <= F.nGlyphs /\ F.hmtx.len >= 4 * F.nHM + 2 * (F.nGlyphs - F.nHM) THEN {} ELSE {"hmtx does not cover the glyphs"})
  \cup (LET w == IF F.locFmt = 0 THEN 2 ELSE 4  lb == Rd(F.path, F.loca.off, w * (F.nGlyphs + 1)) IN
        IF Len(lb) = w * (F.nGlyphs + 1) /\ F.loca.len >= w * (F.nGlyphs + 1) /\ Monotone(lb, 1, F.nGlyphs + 1, w)
           /\ (IF w = 2 THEN 2 * U16(lb, 2 * F.nGlyphs) ELSE U32(lb, 4 * F.nGlyphs)) <= F.glyf.len
        THEN {} ELSE {"loca is short, not monotone or runs past glyf"})
=============================================================================
