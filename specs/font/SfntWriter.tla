----------------------------- MODULE SfntWriter -----------------------------
(* The specification as a FONT WRITER (C12: "generated fonts with composite glyphs and long/short loca"): a small
   TrueType font built table by table from the OpenType specification, in the shapes the bundled fonts do not have -
   short loca format, simple glyphs with repeated flags and every coordinate form, composites with plain offsets, one
   scale, separate x / y scales, a 2x2 matrix, point-matching arguments, a composite of a composite, an empty glyph,
   fewer horizontal metrics than glyphs - padded with an unrelated table beyond the size below which the library
   does not subset at all.                                                                                     *)
EXTENDS Naturals, Integers, Sequences, TLC

RECURSIVE CatW(_, _)
CatW(ss, i) == IF i > Len(ss) THEN <<>> ELSE ss[i] \o CatW(ss, i + 1)
W16(v) == LET u == IF v < 0 THEN v + 65536 ELSE v IN <<u \div 256, u % 256>>
W32(v) == <<(v \div 16777216) % 256, (v \div 65536) % 256, (v \div 256) % 256, v % 256>>
W8s(v) == <<IF v < 0 THEN v + 256 ELSE v>>
Even(b) == IF Len(b) % 2 = 1 THEN b \o <<0>> ELSE b
Pad4(b) == b \o [i \in 1..((4 - (Len(b) % 4)) % 4) |-> 0]
Abs(x) == IF x < 0 THEN 0 - x ELSE x
MinOf(s) == CHOOSE m \in {s[i] : i \in 1..Len(s)} : \A i \in 1..Len(s) : m <= s[i]
MaxOf(s) == CHOOSE m \in {s[i] : i \in 1..Len(s)} : \A i \in 1..Len(s) : m >= s[i]

\* ---- simple glyph: contours = seq of seq of <<x, y, on>> ----
SimpleGlyph(contours) ==
  LET pts == CatW(contours, 1)
      n == Len(pts)
      RECURSIVE EndsOf(_, _) EndsOf(i, acc) == IF i > Len(contours) THEN <<>> ELSE <<acc + Len(contours[i]) - 1>> \o EndsOf(i + 1, acc + Len(contours[i]))
      dx == [i \in 1..n |-> pts[i][1] - (IF i = 1 THEN 0 ELSE pts[i - 1][1])]
      dy == [i \in 1..n |-> pts[i][2] - (IF i = 1 THEN 0 ELSE pts[i - 1][2])]
      Form(d) == IF d = 0 THEN "same" ELSE IF Abs(d) <= 255 THEN "short" ELSE "long"
      flag(i) == pts[i][3] + (IF Form(dx[i]) = "short" THEN 2 + (IF dx[i] > 0 THEN 16 ELSE 0) ELSE IF Form(dx[i]) = "same" THEN 16 ELSE 0)
                           + (IF Form(dy[i]) = "short" THEN 4 + (IF dy[i] > 0 THEN 32 ELSE 0) ELSE IF Form(dy[i]) = "same" THEN 32 ELSE 0)
      enc(d) == CASE Form(d) = "same" -> <<>> [] Form(d) = "short" -> <<Abs(d)>> [] OTHER -> W16(d)
      \* run-length encode equal consecutive flags (REPEAT_FLAG, bit 3)
      RECURSIVE Flags(_) Flags(i) == IF i > n THEN <<>>
                                     ELSE LET RECURSIVE Run(_) Run(j) == IF j <= n /\ flag(j) = flag(i) /\ j - i < 255 THEN Run(j + 1) ELSE j
                                              j == Run(i + 1) IN
                                          IF j - i >= 3 THEN <<flag(i) + 8, j - i - 1>> \o Flags(j) ELSE <<flag(i)>> \o Flags(i + 1)
      xs == [i \in 1..n |-> pts[i][1]]  ys == [i \in 1..n |-> pts[i][2]]
  IN W16(Len(contours)) \o W16(MinOf(xs)) \o W16(MinOf(ys)) \o W16(MaxOf(xs)) \o W16(MaxOf(ys))
     \o CatW([i \in 1..Len(contours) |-> W16(EndsOf(1, 0)[i])], 1) \o W16(0)
     \o Flags(1) \o CatW([i \in 1..n |-> enc(dx[i])], 1) \o CatW([i \in 1..n |-> enc(dy[i])], 1)

\* ---- composite glyph: comps = seq of [gid, words, xy, a1, a2, tr (F2Dot14 integers: 0, 1, 2 or 4 of them), metrics] ----
CompositeGlyph(comps, bbox) ==
  LET rec(i) == LET c == comps[i]
                    fl == (IF c.words THEN 1 ELSE 0) + (IF c.xy THEN 2 ELSE 0) + (IF c.xy THEN 4 ELSE 0)
                          + (CASE Len(c.tr) = 1 -> 8 [] Len(c.tr) = 2 -> 64 [] Len(c.tr) = 4 -> 128 [] OTHER -> 0)
                          + (IF i < Len(comps) THEN 32 ELSE 0) + (IF c.metrics THEN 512 ELSE 0)
                IN W16(fl) \o W16(c.gid)
                   \o (IF c.words THEN W16(c.a1) \o W16(c.a2) ELSE (IF c.xy THEN W8s(c.a1) \o W8s(c.a2) ELSE <<c.a1, c.a2>>))
                   \o CatW([k \in 1..Len(c.tr) |-> W16(c.tr[k])], 1)
  IN W16(0 - 1) \o W16(bbox[1]) \o W16(bbox[2]) \o W16(bbox[3]) \o W16(bbox[4]) \o CatW([i \in 1..Len(comps) |-> rec(i)], 1)

\* ---- the font ----
Tri(x, y, w, h) == << <<x, y, 1>>, <<x + w, y, 1>>, <<x + (w \div 2), y + h, 1>> >>
Comp(gid, words, xy, a1, a2, tr, metrics) == [gid |-> gid, words |-> words, xy |-> xy, a1 |-> a1, a2 |-> a2, tr |-> tr, metrics |-> metrics]
NFill == 40
\* glyph table of the font of variant v (v varies coordinates so that two generated fonts differ)
GlyphsOf(v) ==
  << SimpleGlyph(<< << <<50, 0, 1>>, <<450, 0, 1>>, <<450, 700, 1>>, <<50, 700, 1>> >> >>),                                        \* 0 .notdef
     SimpleGlyph(<< << <<0, 0, 1>>, <<600 + v, 0, 1>>, <<300, 350, 0>>, <<300, 700 + v, 1>>, <<150, 350, 0>> >> >>),                  \* 1 A: on/off curve, long and short deltas
     SimpleGlyph(<< Tri(0, 0, 500, 300), Tri(0, 400, 500, 300 + v), << <<10, 10, 1>>, <<10, 20, 1>>, <<10, 30, 1>>, <<10, 40, 1>>, <<10, 50, 1>>, <<20, 50, 1>> >> >>),  \* 2 B: three contours, repeated flags
     SimpleGlyph(<< Tri(100, 750, 200, 150) >>),                                                                                      \* 3 accent (not in the cmap)
     CompositeGlyph(<<Comp(1, TRUE, TRUE, 0, 0, <<>>, TRUE), Comp(3, FALSE, TRUE, 50, 0 - 20, <<8192>>, FALSE)>>, <<0, 0, 600, 900>>),    \* 4 A acute: offsets; one scale (0.5)
     CompositeGlyph(<<Comp(2, TRUE, TRUE, 300 + v, 0 - 300, <<24576, 12288>>, FALSE), Comp(3, FALSE, TRUE, 10, 10, <<16384, 4096, 0 - 4096, 16384>>, FALSE),
                      Comp(1, FALSE, TRUE, 0, 5, <<>>, FALSE)>>, <<0, 0 - 300, 900, 900>>),                                                  \* 5 x / y scales first, then 2x2
     CompositeGlyph(<<Comp(4, TRUE, TRUE, 0, 0, <<>>, FALSE), Comp(3, FALSE, FALSE, 2, 1, <<>>, FALSE)>>, <<0, 0, 600, 900>>),              \* 6 composite of a composite; point matching
     <<>> >>                                                                                                                            \* 7 space: no outline
  \o [i \in 1..NFill |-> SimpleGlyph(<< Tri(i, i * 3, 400 + i, 500 + 2 * i + v) >>)]                                                    \* 8.. C, D, ... and fill
NGlyphs == 8 + NFill
\* characters: space, A..Z, A acute (193), E grave (200) -> glyph 6, less-or-equal (8804) -> glyph 5
CharGid == [c \in {32} \cup (65..90) \cup {193, 200, 8804} |->
              CASE c = 32 -> 7 [] c = 65 -> 1 [] c = 66 -> 2 [] c = 193 -> 4 [] c = 200 -> 6 [] c = 8804 -> 5 [] OTHER -> 8 + (c - 67)]
AdvanceOf(g) == 500 + 7 * g
NHM == NGlyphs - 3        \* the last three glyphs share the advance of the last full entry

Loca(gl, short) == LET RECURSIVE Offs(_, _) Offs(i, at) == IF i > Len(gl) THEN <<at>> ELSE <<at>> \o Offs(i + 1, at + Len(Even(gl[i]))) IN
                   CatW([i \in 1..(Len(gl) + 1) |-> IF short THEN W16(Offs(1, 0)[i] \div 2) ELSE W32(Offs(1, 0)[i])], 1)
Cmap4 ==       \* segments: 32; 65..90 (through glyphIdArray); 193; 200; 8804; 0xFFFF
  LET segs == << [s |-> 32, e |-> 32, d |-> 7 - 32 + 65536, ro |-> 0], [s |-> 65, e |-> 90, d |-> 0, ro |-> 1], [s |-> 193, e |-> 193, d |-> (4 - 193) + 65536, ro |-> 0],
                 [s |-> 200, e |-> 200, d |-> (6 - 200) + 65536, ro |-> 0], [s |-> 8804, e |-> 8804, d |-> (5 - 8804) + 65536, ro |-> 0], [s |-> 65535, e |-> 65535, d |-> 1, ro |-> 0] >>
      n == Len(segs)
      ga == CatW([c \in 1..26 |-> W16(CharGid[64 + c])], 1)
      \* idRangeOffset of segment 2 (index k = 2): distance from its own slot to the glyphIdArray = 2 * (n - (k - 1)) bytes
      roOf(k) == IF segs[k].ro = 1 THEN 2 * (n - (k - 1)) ELSE 0
      sub == W16(4) \o W16(16 + 8 * n + Len(ga)) \o W16(0) \o W16(2 * n) \o W16(8) \o W16(2) \o W16(2 * n - 8)
             \o CatW([k \in 1..n |-> W16(segs[k].e)], 1) \o W16(0) \o CatW([k \in 1..n |-> W16(segs[k].s)], 1)
             \o CatW([k \in 1..n |-> W16(segs[k].d % 65536)], 1) \o CatW([k \in 1..n |-> W16(roOf(k))], 1) \o ga
  IN W16(0) \o W16(1) \o W16(3) \o W16(1) \o W32(12) \o sub
FontBytes(v, short, pad) ==
  LET gl == GlyphsOf(v)
      glyf == CatW([i \in 1..Len(gl) |-> Even(gl[i])], 1)
      head == W32(65536) \o W32(65536) \o W32(0) \o <<95, 15, 60, 245>> \o W16(3) \o W16(1000) \o W32(0) \o W32(0) \o W32(0) \o W32(0)
              \o W16(0) \o W16(0 - 300) \o W16(1000) \o W16(1000) \o W16(0) \o W16(8) \o W16(2) \o W16(IF short THEN 0 ELSE 1) \o W16(0)
      hhea == W32(65536) \o W16(900) \o W16(0 - 300) \o W16(0) \o W16(1000) \o W16(0) \o W16(0) \o W16(1000) \o W16(1) \o W16(0) \o W16(0)
              \o W16(0) \o W16(0) \o W16(0) \o W16(0) \o W16(0) \o W16(NHM)
      maxp == W32(65536) \o W16(NGlyphs) \o W16(10) \o W16(3) \o W16(20) \o W16(6) \o W16(1) \o W16(0) \o W16(0) \o W16(0) \o W16(0) \o W16(0) \o W16(0) \o W16(3) \o W16(2)
      hmtx == CatW([g \in 1..NHM |-> W16(AdvanceOf(g - 1)) \o W16(0)], 1) \o CatW([g \in 1..(NGlyphs - NHM) |-> W16(0)], 1)
      tabs == << <<"DSIG", [i \in 1..pad |-> 0]>>, <<"cmap", Cmap4>>, <<"glyf", glyf>>, <<"head", head>>, <<"hhea", hhea>>, <<"hmtx", hmtx>>, <<"loca", Loca(gl, short)>>, <<"maxp", maxp>> >>
      n == Len(tabs)
      Tag(s) == CASE s = "DSIG" -> <<68, 83, 73, 71>> [] s = "cmap" -> <<99, 109, 97, 112>> [] s = "glyf" -> <<103, 108, 121, 102>> [] s = "head" -> <<104, 101, 97, 100>>
                  [] s = "hhea" -> <<104, 104, 101, 97>> [] s = "hmtx" -> <<104, 109, 116, 120>> [] s = "loca" -> <<108, 111, 99, 97>> [] OTHER -> <<109, 97, 120, 112>>
      RECURSIVE OffT(_) OffT(i) == IF i = 1 THEN 12 + 16 * n ELSE OffT(i - 1) + Len(Pad4(tabs[i - 1][2]))
  IN W32(65536) \o W16(n) \o W16(128) \o W16(3) \o W16(0)
     \o CatW([i \in 1..n |-> Tag(tabs[i][1]) \o W32(0) \o W32(OffT(i)) \o W32(Len(tabs[i][2]))], 1)
     \o CatW([i \in 1..n |-> Pad4(tabs[i][2])], 1)
GenChars == <<32, 65, 66, 193, 200, 8804>> \o [i \in 1..24 |-> 66 + i]
=============================================================================
