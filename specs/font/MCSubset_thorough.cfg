SPECIFICATION Spec
CHECK_DEADLOCK FALSE
CONSTANTS
  NCases = 120
  Stride = 1
  NGen = 12
