SPECIFICATION Spec
CHECK_DEADLOCK FALSE
CONSTANTS
  NCases = 60
  Stride = 1
