----------------------------- MODULE FontEmbed -----------------------------
(* C13: text drawn with an embedded font, read back by the specification alone.

   From the file (PdfFile) : the page's content stream, its show operators and the font each uses; the Type0 font, its
   descendant CIDFont, /W and /DW, /CIDToGIDMap, the ToUnicode CMap (bfchar / bfrange sections), the embedded font
   program (FontFile2: TrueType, read by Sfnt; FontFile3: bare CFF, read by Cff).
   What must hold for every line of text the author wrote with a custom font:
     - the codes shown, mapped through ToUnicode, are the author's text (an extractor that knows nothing but the file
       recovers it);
     - every code's glyph exists in the embedded program and IS the glyph the original font has for that character
       (same outline / charstring program);
     - the width the document declares for the code is the glyph's advance width in thousandths of the em.        *)
EXTENDS PdfFile, Cff

KF_Font == <<70, 111, 110, 116>>
KF_DescendantFonts == <<68, 101, 115, 99, 101, 110, 100, 97, 110, 116, 70, 111, 110, 116, 115>>
KF_FontDescriptor == <<70, 111, 110, 116, 68, 101, 115, 99, 114, 105, 112, 116, 111, 114>>
KF_FontFile2 == <<70, 111, 110, 116, 70, 105, 108, 101, 50>>
KF_FontFile3 == <<70, 111, 110, 116, 70, 105, 108, 101, 51>>
KF_ToUnicode == <<84, 111, 85, 110, 105, 99, 111, 100, 101>>
KF_CIDToGIDMap == <<67, 73, 68, 84, 111, 71, 73, 68, 77, 97, 112>>
KF_W == <<87>>
KF_DW == <<68, 87>>
KF_Subtype == <<83, 117, 98, 116, 121, 112, 101>>
KF_Encoding == <<69, 110, 99, 111, 100, 105, 110, 103>>
KF_Resources == <<82, 101, 115, 111, 117, 114, 99, 101, 115>>
KF_Identity == <<73, 100, 101, 110, 116, 105, 116, 121>>
KF_Type0 == <<84, 121, 112, 101, 48>>
KF_BaseFont == <<66, 97, 115, 101, 70, 111, 110, 116>>
W_beginbfchar == <<98, 101, 103, 105, 110, 98, 102, 99, 104, 97, 114>>  W_endbfchar == <<101, 110, 100, 98, 102, 99, 104, 97, 114>>  W_beginbfrange == <<98, 101, 103, 105, 110, 98, 102, 114, 97, 110, 103, 101>>  W_endbfrange == <<101, 110, 100, 98, 102, 114, 97, 110, 103, 101>>

RECURSIVE Flat(_, _)
Flat(ss, i) == IF i > Len(ss) THEN <<>> ELSE ss[i] \o Flat(ss, i + 1)
OrigPath(name) == CASE name = "roboto" -> "/repo/test-pdfs/Roboto-Regular.ttf" [] name = "sourcesans" -> "/repo/test-pdfs/SourceSans3-Regular.otf" [] OTHER -> ""
StreamOf(v) == IF v.t # "ref" THEN [ok |-> FALSE, out |-> <<>>]
               ELSE LET r == Resolve(v.n) IN IF r.found /\ r.val.t = "stream" THEN PayloadOf([val |-> r.val, data |-> r.data]) ELSE [ok |-> FALSE, out |-> <<>>]

\* ---- show operators of a page, in order: [font (name bytes), s (string bytes)] ----
StrOfTJ(v) == IF v.t = "str" THEN v.b ELSE IF v.t = "arr" THEN Flat([x \in 1..Len(v.v) |-> IF v.v[x].t = "str" THEN v.v[x].b ELSE <<>>], 1) ELSE <<>>
RECURSIVE Shows(_, _, _)
Shows(items, i, cur) ==
  IF i > Len(items) THEN <<>>
  ELSE LET it == items[i] IN
       IF it.t = "kw" /\ it.s = "Tf" /\ i >= 3 /\ items[i - 2].t = "name" THEN Shows(items, i + 1, items[i - 2].b)
       ELSE IF it.t = "kw" /\ it.s \in {"Tj", "TJ", "'", "\""} /\ i >= 2 THEN <<[font |-> cur, s |-> StrOfTJ(items[i - 1])]>> \o Shows(items, i + 1, cur)
       ELSE Shows(items, i + 1, cur)
PageShows(pg) == LET c == ContentOf(pg) IN IF c.ok THEN Shows(c.items, 1, <<>>) ELSE <<>>
PageFont(pg, name) == LET rsrc == Deref(PageList[pg].inh[KF_Resources]) IN Deref(Get(Deref(Get(rsrc, KF_Font)), name))

\* ---- ToUnicode: hex tokens of the bfchar / bfrange sections ----
FindAt(b, w, from) == LET S == {i \in from..(Len(b) - Len(w) + 1) : SubSeq(b, i, i + Len(w) - 1) = w} IN IF S = {} THEN 0 ELSE CHOOSE i \in S : \A j \in S : i <= j
HexV(c) == IF c >= 48 /\ c <= 57 THEN c - 48 ELSE IF c >= 65 /\ c <= 70 THEN c - 55 ELSE IF c >= 97 /\ c <= 102 THEN c - 87 ELSE 0 - 1
RECURSIVE HexDigits(_, _, _)
HexDigits(b, i, hd) == IF i > Len(b) \/ b[i] = 62 THEN [ds |-> hd, next |-> i + 1] ELSE HexDigits(b, i + 1, IF HexV(b[i]) >= 0 THEN Append(hd, HexV(b[i])) ELSE hd)
RECURSIVE HexToks(_, _, _)      \* the <...> tokens of b[i..to], each as its 16-bit units
HexToks(b, i, to) ==
  IF i > to THEN <<>>
  ELSE IF b[i] = 60 THEN LET h == HexDigits(b, i + 1, <<>>)  n == Len(h.ds) \div 4 IN
                         <<[k \in 1..n |-> ((h.ds[4 * k - 3] * 16 + h.ds[4 * k - 2]) * 16 + h.ds[4 * k - 1]) * 16 + h.ds[4 * k]]>> \o HexToks(b, h.next, to)
  ELSE HexToks(b, i + 1, to)
\* UTF-16 units to code points
RECURSIVE U16ToCp(_, _)
U16ToCp(u, i) == IF i > Len(u) THEN <<>>
                 ELSE IF u[i] >= 55296 /\ u[i] <= 56319 /\ i < Len(u) THEN <<65536 + (u[i] - 55296) * 1024 + (u[i + 1] - 56320)>> \o U16ToCp(u, i + 2)
                 ELSE <<u[i]>> \o U16ToCp(u, i + 1)
RECURSIVE BfSections(_, _, _, _)   \* all sections opened by `open` and closed by `close`: seq of seq of hex tokens
BfSections(b, from, open, close) == LET s == FindAt(b, open, from) IN
                                  IF s = 0 THEN <<>> ELSE LET e == FindAt(b, close, s) IN
                                       IF e = 0 THEN <<>> ELSE <<HexToks(b, s + Len(open), e - 1)>> \o BfSections(b, e + Len(close), open, close)
\* cid -> code points, or <<>> when the CMap is silent about it
RECURSIVE InChars(_, _, _)
InChars(toks, i, cid) == IF i + 1 > Len(toks) THEN <<>> ELSE IF toks[i] = <<cid>> THEN U16ToCp(toks[i + 1], 1) ELSE InChars(toks, i + 2, cid)
RECURSIVE InRanges(_, _, _)
InRanges(toks, i, cid) == IF i + 2 > Len(toks) THEN <<>>
                          ELSE IF Len(toks[i]) = 1 /\ Len(toks[i + 1]) = 1 /\ toks[i][1] <= cid /\ cid <= toks[i + 1][1]
                               THEN LET base == U16ToCp(toks[i + 2], 1) IN IF base = <<>> THEN <<>> ELSE SubSeq(base, 1, Len(base) - 1) \o <<base[Len(base)] + (cid - toks[i][1])>>
                          ELSE InRanges(toks, i + 3, cid)
ToUni(cmap, cid) ==      \* cmap: [chars |-> seq of token seqs, ranges |-> seq of token seqs]
  LET RECURSIVE Try(_, _) Try(bsecs, k) == IF k > Len(bsecs) THEN <<>> ELSE LET r == InChars(bsecs[k], 1, cid) IN IF r # <<>> THEN r ELSE Try(bsecs, k + 1)
      RECURSIVE TryR(_, _) TryR(bsecs, k) == IF k > Len(bsecs) THEN <<>> ELSE LET r == InRanges(bsecs[k], 1, cid) IN IF r # <<>> THEN r ELSE TryR(bsecs, k + 1)
      a == Try(cmap.chars, 1)
  IN IF a # <<>> THEN a ELSE TryR(cmap.ranges, 1)
CMapOf(font) == LET p == StreamOf(Get(font, KF_ToUnicode)) IN
                [ok |-> p.ok, chars |-> BfSections(p.out, 1, W_beginbfchar, W_endbfchar), ranges |-> BfSections(p.out, 1, W_beginbfrange, W_endbfrange)]

\* ---- /W of a CIDFont: c [w1 w2 ...]  |  cfirst clast w ----
RECURSIVE WLook(_, _, _)
WLook(w, i, cid) ==
  IF i + 1 > Len(w) THEN 0 - 1
  ELSE IF w[i + 1].t = "arr" THEN (IF IsNatTok(w[i]) /\ cid >= IntOf(w[i]) /\ cid < IntOf(w[i]) + Len(w[i + 1].v) THEN LET x == w[i + 1].v[cid - IntOf(w[i]) + 1] IN IF IsNatTok(x) THEN IntOf(x) ELSE 0 - 2
                                   ELSE WLook(w, i + 2, cid))
  ELSE IF i + 2 <= Len(w) /\ IsNatTok(w[i]) /\ IsNatTok(w[i + 1]) THEN (IF cid >= IntOf(w[i]) /\ cid <= IntOf(w[i + 1]) THEN (IF IsNatTok(w[i + 2]) THEN IntOf(w[i + 2]) ELSE 0 - 2) ELSE WLook(w, i + 3, cid))
  ELSE 0 - 1
WidthDeclared(cidfont, cid) == LET w == Deref(Get(cidfont, KF_W))  r == IF w.t = "arr" THEN WLook(w.v, 1, cid) ELSE 0 - 1  dw == Deref(Get(cidfont, KF_DW)) IN
                               IF r >= 0 THEN r ELSE IF r = 0 - 2 THEN 0 - 2 ELSE IF IsNatTok(dw) THEN IntOf(dw) ELSE 1000

\* ---- CFF charset: the glyph index of a CID (CID-keyed fonts; 5176 section 13) ----
RECURSIVE Cs0(_, _, _, _)
Cs0(b, i, n, cid) == IF i > n THEN 0 - 1 ELSE IF U16(b, 2 * (i - 1)) = cid THEN i ELSE Cs0(b, i + 1, n, cid)
RECURSIVE CsR(_, _, _, _, _, _)
CsR(src, at, w, gid, nGlyphs, cid) ==
  IF gid >= nGlyphs THEN 0 - 1
  ELSE LET r == Rd(src, at, 2 + w)  first == U16(r, 0)  left == IF w = 1 THEN r[3] ELSE U16(r, 2) IN
       IF cid >= first /\ cid <= first + left THEN gid + (cid - first) ELSE CsR(src, at + 2 + w, w, gid + left + 1, nGlyphs, cid)
CharsetGid(C, cid) ==
  IF cid = 0 THEN 0
  ELSE LET at == DictGet(C.top, 15, <<0>>)  fmtb == Rd(C.path, C.cff + at[1], 1) IN
       IF at[1] <= 2 \/ fmtb = <<>> THEN 0 - 1
       ELSE IF fmtb[1] = 0 THEN Cs0(Rd(C.path, C.cff + at[1] + 1, 2 * (C.cs.count - 1)), 1, C.cs.count - 1, cid)
       ELSE CsR(C.path, C.cff + at[1] + 1, IF fmtb[1] = 1 THEN 1 ELSE 2, 1, C.cs.count, cid)

\* ---- one line of authored text against the file ----
RECURSIVE CodePairs(_, _)
CodePairs(s, i) == IF i + 1 > Len(s) THEN <<>> ELSE <<s[i] * 256 + s[i + 1]>> \o CodePairs(s, i + 2)
Near(a, b, tol) == a - b <= tol /\ b - a <= tol
LineProblems(pg, k, line, show) ==
  IF line.font = "helvetica" THEN (IF show.s = line.text THEN {} ELSE {[page |-> pg, line |-> k, problem |-> "standard-font string differs"]})
  ELSE
  LET f0 == PageFont(pg, show.font)
      cf == IF Deref(Get(f0, KF_DescendantFonts)).t = "arr" THEN Deref(Deref(Get(f0, KF_DescendantFonts)).v[1]) ELSE None
      fd == Deref(Get(cf, KF_FontDescriptor))
      tt == StreamOf(Get(fd, KF_FontFile2))  cff == StreamOf(Get(fd, KF_FontFile3))
      cids == CodePairs(show.s, 1)
      cmap == CMapOf(f0)
      orig == Font(FileSrc(OrigPath(line.font)))
      ocm == CmapOf(orig)
      c2g == Get(cf, KF_CIDToGIDMap)
      c2gs == StreamOf(c2g)
      GidOf(cid) == IF c2g.t = "ref" THEN (IF c2gs.ok /\ 2 * cid + 2 <= Len(c2gs.out) THEN U16(c2gs.out, 2 * cid) ELSE 0 - 1) ELSE cid
      text == Flat([x \in 1..Len(cids) |-> ToUni(cmap, cids[x])], 1)
  IN (IF f0.t = "dict" /\ IsName(Get(f0, KF_Subtype), KF_Type0) /\ cf.t = "dict" /\ fd.t = "dict" /\ (tt.ok \/ cff.ok) /\ Len(show.s) % 2 = 0 THEN {}
      ELSE {[page |-> pg, line |-> k, problem |-> "not a Type0 font with a descendant, a descriptor and an embedded program"]})
     \cup (IF cmap.ok /\ text = line.text THEN {} ELSE {[page |-> pg, line |-> k, problem |-> "ToUnicode does not give the text back", got |-> text, want |-> line.text]})
     \cup (IF tt.ok
           THEN LET S == Font(MemSrc(tt.out)) IN
                {[page |-> pg, line |-> k, problem |-> p] : p \in TrueTypeProblems(S)}
                \cup UNION {LET cid == cids[x]  g == GidOf(cid)  og == Gid(orig, ocm, line.text[x])  a == Outline(S, g, 6)  w == WidthDeclared(cf, cid) IN
                            (IF g >= 0 /\ g < S.nGlyphs /\ Sound(a) THEN {} ELSE {[page |-> pg, line |-> k, code |-> cid, problem |-> "the glyph of a shown code is not in the embedded font"]})
                            \cup (IF Len(text) # Len(cids) \/ og = 0 \/ a = Outline(orig, og, 6) THEN {} ELSE {[page |-> pg, line |-> k, code |-> cid, problem |-> "the embedded glyph is not the original font's glyph for the character"]})
                            \cup (IF g < 0 \/ g >= S.nGlyphs \/ S.upem = 0 \/ Near(w * S.upem, Advance(S, g) * 1000, S.upem) THEN {}
                                  ELSE {[page |-> pg, line |-> k, code |-> cid, problem |-> "declared width differs from the advance width", declared |-> w, advance |-> Advance(S, g), upem |-> S.upem]})
                            : x \in 1..Len(cids)}
           ELSE IF cff.ok
           THEN LET B == CffFont(MemSrc(cff.out), 0)  A == CffFont(orig.path, orig.cff.off) IN
                (IF B.ok THEN {} ELSE {[page |-> pg, line |-> k, problem |-> "the embedded CFF program cannot be read"]})
                \cup UNION {LET cid == cids[x]  g == IF B.cid THEN CharsetGid(B, cid) ELSE GidOf(cid)  og == Gid(orig, ocm, line.text[x])
                                pb == IF g >= 0 THEN Program(B, g) ELSE [ok |-> FALSE, out |-> <<>>]  w == WidthDeclared(cf, cid) IN
                            (IF pb.ok THEN {} ELSE {[page |-> pg, line |-> k, code |-> cid, problem |-> "the glyph of a shown code is not in the embedded font"]})
                            \cup (IF ~pb.ok \/ Len(text) # Len(cids) \/ og = 0 \/ LET pa == Program(A, og) IN ~pa.ok \/ Shape(pa.out) = Shape(pb.out) THEN {}
                                  ELSE {[page |-> pg, line |-> k, code |-> cid, problem |-> "the embedded glyph is not the original font's glyph for the character"]})
                            \cup (IF ~pb.ok \/ Near(w, WidthOf(pb.out, PrivOf(B, g)), 1) THEN {}
                                  ELSE {[page |-> pg, line |-> k, code |-> cid, problem |-> "declared width differs from the advance width", declared |-> w, advance |-> WidthOf(pb.out, PrivOf(B, g))]})
                            : x \in 1..Len(cids)}
           ELSE {})
=============================================================================
