SPECIFICATION Spec
CHECK_DEADLOCK FALSE
CONSTANTS
  NCases = 10
  Stride = 7
  NGen = 3
