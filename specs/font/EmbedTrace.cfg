SPECIFICATION TraceSpec
CONSTRAINT Prog
POSTCONDITION Accepted
CHECK_DEADLOCK FALSE
