----------------------------- MODULE SubsetTrace -----------------------------
(* B2 for C12: each recorded subsetting (font, requested characters or glyph ids, the subset file, the mapping the
   library returned) against the specification's font readers: Sfnt.tla for TrueType outlines, Cff.tla for CFF. *)
EXTENDS Cff, TraceLib, Json

VARIABLE l
IsEvent(e) == l <= NRec /\ Rec[l].ev = e /\ l' = l + 1
MapOf(e, key) == LET S == {i \in 1..Len(e.mapping) : e.mapping[i].c = key} IN IF S = {} THEN 0 - 1 ELSE e.mapping[CHOOSE i \in S : TRUE].g
Depth == 6
\* one requested glyph: original glyph g of F against glyph m of the subset S
GlyphProblems(F, S, what, g, m) ==
  LET a == Outline(F, g, Depth)  b == Outline(S, m, Depth) IN
  (IF Sound(a) THEN {} ELSE {[what |-> what, problem |-> "the ORIGINAL glyph cannot be read by the specification (oracle limit)", kind |-> a.kind]})
  \cup (IF ~Sound(a) \/ a = b THEN {} ELSE {[what |-> what, problem |-> "outline differs", orig |-> g, sub |-> m, origKind |-> a.kind, subKind |-> b.kind]})
  \cup (IF Advance(F, g) = Advance(S, m) THEN {} ELSE {[what |-> what, problem |-> "advance width differs", orig |-> Advance(F, g), sub |-> Advance(S, m)]})
TrueTypeCase(e, F, S) ==
  LET cm == CmapOf(F) IN
  {[problem |-> p] : p \in TrueTypeProblems(S)}
  \cup (IF S.upem = F.upem THEN {} ELSE {[problem |-> "unitsPerEm differs"]})
  \cup (IF "gids" \in DOMAIN e
        THEN UNION {LET g == e.gids[i]  m == MapOf(e, g) IN
                    IF g >= F.nGlyphs THEN {} ELSE IF m < 0 THEN {[what |-> g, problem |-> "requested glyph has no place in the subset"]} ELSE GlyphProblems(F, S, g, g, m) : i \in 1..Len(e.gids)}
        ELSE UNION {LET c == e.chars[i]  g == Gid(F, cm, c)  m == MapOf(e, c) IN
                    IF g = 0 THEN (IF m <= 0 THEN {} ELSE {[what |-> c, problem |-> "a character the font does not map got a glyph"]})
                    ELSE IF m < 0 THEN {[what |-> c, problem |-> "requested character missing from the mapping"]}
                    ELSE GlyphProblems(F, S, c, g, m) : i \in 1..Len(e.chars)})
CaseProblems(e) ==
  IF ~e.ok THEN {[problem |-> "subsetting failed: " \o e.err]}
  ELSE LET F == Font(FileSrc(e.orig))  S == Font(FileSrc(e.subset)) IN
       IF F.version \in {T_0100, T_true} THEN TrueTypeCase(e, F, S) ELSE CffCase(e, F, S)
TSub == /\ IsEvent("subset")
        /\ LET p == CaseProblems(Rec[l]) IN IF p = {} THEN TRUE ELSE PrintT(<<"PROBLEMS", ToJson([idx |-> l, problems |-> p])>>) /\ FALSE
TInit == l = 1
TNext == TSub
TraceSpec == TInit /\ [][TNext]_l
Prog == Progress(l)
=============================================================================
