SPECIFICATION Spec
CHECK_DEADLOCK FALSE
CONSTANTS
  NCases = 8
  Stride = 7
