-------------------------------- MODULE Crypto --------------------------------
(* The standard security handler's algorithms (ISO 32000-1 7.6.2-7.6.3 for revisions 2-4, Adobe Supplement /
   ISO 32000-2 7.6.4 for revisions 5-6), transcribed.  Byte strings are sequences of 0..255; /P is carried as
   its four little-endian bytes (it does not fit a TLC integer).  MD5, SHA-2 and the AES block function are
   third-party primitives (Prim.tla); RC4 is specified in full (Rc4.tla); everything else - padding, what is
   hashed and how often, key truncation, CBC chaining, PKCS#7, IV placement, the 2.B loop - is here.        *)
EXTENDS Rc4, Prim

Padding == <<40, 191, 78, 94, 78, 117, 138, 65, 100, 0, 78, 86, 255, 250, 1, 8,
             46, 46, 0, 182, 208, 104, 62, 128, 47, 12, 169, 254, 100, 83, 105, 122>>
Min(a, b) == IF a < b THEN a ELSE b
Take(s, n) == SubSeq(s, 1, Min(n, Len(s)))
PadPw(pw) == Take(pw, 32) \o SubSeq(Padding, 1, 32 - Min(Len(pw), 32))
XorKey(key, i) == [k \in 1..Len(key) |-> key[k] ^^ i]
Le3(n) == <<n % 256, (n \div 256) % 256, (n \div 65536) % 256>>
Le2(n) == <<n % 256, (n \div 256) % 256>>

Md5Iter(h, times, n) == MD5Times(h, times, n)

(* ---- revisions 2-4 ---- *)
\* Algorithm 2: file encryption key.  n = key length in bytes; encMeta matters for R >= 4 only
FileKey(R, n, pw, O, P, id, encMeta) ==
  LET h0 == MD5(PadPw(pw) \o O \o P \o id \o (IF R >= 4 /\ ~encMeta THEN <<255, 255, 255, 255>> ELSE <<>>))
  IN Take(IF R >= 3 THEN Md5Iter(h0, 50, n) ELSE h0, n)

\* the same from an already padded 32-byte password (what Algorithm 7 recovers from /O)
FileKeyPadded(R, n, padded, O, P, id, encMeta) ==
  LET h0 == MD5(padded \o O \o P \o id \o (IF R >= 4 /\ ~encMeta THEN <<255, 255, 255, 255>> ELSE <<>>))
  IN Take(IF R >= 3 THEN Md5Iter(h0, 50, n) ELSE h0, n)

RECURSIVE Rc4Up(_, _, _, _)       \* RC4 with key XOR i for i = from..to (ascending)
Rc4Up(key, x, i, to) == IF i > to THEN x ELSE Rc4Up(key, Rc4(XorKey(key, i), x), i + 1, to)
RECURSIVE Rc4Down(_, _, _)        \* RC4 with key XOR i for i = from..0 (descending)
Rc4Down(key, x, i) == LET y == Rc4(XorKey(key, i), x) IN IF i = 0 THEN y ELSE Rc4Down(key, y, i - 1)

\* Algorithm 3: /O.  An absent owner password is replaced by the user password
OwnerKey(R, n, opw) == Take(IF R >= 3 THEN Md5Iter(MD5(PadPw(opw)), 50, 16) ELSE MD5(PadPw(opw)), n)
OwnerEntry(R, n, opw, upw) ==
  LET key == OwnerKey(R, n, IF opw = <<>> THEN upw ELSE opw)
      x == Rc4(key, PadPw(upw))
  IN IF R >= 3 THEN Rc4Up(key, x, 1, 19) ELSE x

\* the same with an owner password given explicitly as the empty string (what an API computes when the caller
\* passes "" rather than leaving the owner password out)
Rc4OwnerEmpty(R, n, upw) ==
  LET key == OwnerKey(R, n, <<>>) x == Rc4(key, PadPw(upw)) IN IF R >= 3 THEN Rc4Up(key, x, 1, 19) ELSE x

\* Algorithms 4 and 5: /U (for R >= 3 only the first 16 bytes are defined)
UserEntry16(R, key, id) == IF R = 2 THEN Rc4(key, Padding) ELSE Rc4Up(key, Rc4(key, MD5(Padding \o id)), 1, 19)

\* Algorithm 7: the padded user password recovered from /O with the owner password
RecoverUserPad(R, n, opw, O) ==
  LET key == OwnerKey(R, n, opw) IN IF R = 2 THEN Rc4(key, O) ELSE Rc4Down(key, O, 19)

\* Algorithm 1: per-object key (aes adds the salt "sAlT")
ObjectKey(key, num, gen, aes) ==
  Take(MD5(key \o Le3(num) \o Le2(gen) \o (IF aes THEN <<115, 65, 108, 84>> ELSE <<>>)), Min(Len(key) + 5, 16))

(* ---- AES-CBC with PKCS#7 ---- *)
Pkcs7(d) == LET p == 16 - (Len(d) % 16) IN d \o [i \in 1..p |-> p]
XorSeq(a, b) == [i \in 1..Len(a) |-> a[i] ^^ b[i]]
\* CBC chaining over the block function (short inputs); CbcEnc is the same through the whole-message primitive
RECURSIVE CbcBlocks(_, _, _, _)
CbcBlocks(key, prev, d, i) ==
  IF i > Len(d) THEN <<>>
  ELSE LET c == AesEcbEnc(key, XorSeq(SubSeq(d, i, i + 15), prev)) IN c \o CbcBlocks(key, c, d, i + 16)
CbcEncBlocks(key, iv, d) == CbcBlocks(key, iv, Pkcs7(d), 1)
CbcEnc(key, iv, d) == AesCbcEncNoPad(key, iv, Pkcs7(d))
\* [ok, out]: decryption fails on a length that is not a positive multiple of 16 or on bad padding
CbcDec(key, iv, c) ==
  IF Len(c) = 0 \/ Len(c) % 16 # 0 THEN [ok |-> FALSE, out |-> <<>>]
  ELSE LET p == AesCbcDecNoPad(key, iv, c)
           k == p[Len(p)]
       IN IF k < 1 \/ k > 16 \/ \E i \in (Len(p) - k + 1)..Len(p) : p[i] # k THEN [ok |-> FALSE, out |-> <<>>]
          ELSE [ok |-> TRUE, out |-> SubSeq(p, 1, Len(p) - k)]
\* what a string/stream looks like on disk under AESV2/AESV3: IV then ciphertext
AesObjDec(key, data) == IF Len(data) < 32 THEN [ok |-> FALSE, out |-> <<>>] ELSE CbcDec(key, SubSeq(data, 1, 16), SubSeq(data, 17, Len(data)))

(* ---- revision 5 (Adobe Supplement ExtensionLevel 3) and revision 6 (ISO 32000-2) ---- *)
Zero16 == [i \in 1..16 |-> 0]
RECURSIVE Rep(_, _)
Rep(s, n) == IF n = 0 THEN <<>> ELSE s \o Rep(s, n - 1)
RECURSIVE SumSeq(_, _)
SumSeq(s, i) == IF i > Len(s) THEN 0 ELSE s[i] + SumSeq(s, i + 1)

\* Algorithm 2.B; u = <<>> for the user password, the 48-byte /U for the owner password
RECURSIVE Hash2BLoop(_, _, _, _)
Hash2BLoop(pw, u, K, round) ==
  LET E == AesCbcRep(SubSeq(K, 1, 16), SubSeq(K, 17, 32), pw \o K \o u, 64, "e2b")     \* [head, last, len]; E itself stays with the primitive
      sel == SumSeq(E.head, 1) % 3
      K2 == IF E.len = 0 THEN <<>> ELSE ShaBuf(CASE sel = 0 -> "sha256" [] sel = 1 -> "sha384" [] OTHER -> "sha512", "e2b")
      r2 == round + 1
  IN IF r2 >= 64 /\ E.last + 32 <= r2 THEN Take(K2, 32) ELSE Hash2BLoop(pw, u, K2, r2)
Hash2B(pw, salt, u) == Hash2BLoop(pw, u, SHA256(pw \o salt \o u), 0)

Hash56(R, pw, salt, u) == IF R = 5 THEN SHA256(pw \o salt \o u) ELSE Hash2B(pw, salt, u)
Pw127(pw) == Take(pw, 127)
\* checks of the 48-byte entries and the wrapped keys
VSalt(e) == SubSeq(e, 33, 40)
KSalt(e) == SubSeq(e, 41, 48)
UserEntryOK(R, pw, U) == Len(U) = 48 /\ SubSeq(U, 1, 32) = Hash56(R, Pw127(pw), VSalt(U), <<>>)
OwnerEntryOK(R, pw, O, U) == Len(O) = 48 /\ SubSeq(O, 1, 32) = Hash56(R, Pw127(pw), VSalt(O), U)
UnwrapUE(R, pw, U, UE) == AesCbcDecNoPad(Hash56(R, Pw127(pw), KSalt(U), <<>>), Zero16, UE)
UnwrapOE(R, pw, O, U, OE) == AesCbcDecNoPad(Hash56(R, Pw127(pw), KSalt(O), U), Zero16, OE)
\* /Perms: AES-256-ECB of  P(4, LE) FF FF FF FF  T|F  a d b  + 4 arbitrary bytes
PermsOK(key, perms, P, encMeta) ==
  LET x == AesEcbDec(key, perms)
  IN Len(perms) = 16 /\ SubSeq(x, 1, 4) = P /\ SubSeq(x, 5, 8) = <<255, 255, 255, 255>>
     /\ x[9] = (IF encMeta THEN 84 ELSE 70) /\ SubSeq(x, 10, 12) = <<97, 100, 98>>
=============================================================================
