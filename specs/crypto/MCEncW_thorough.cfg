SPECIFICATION Spec
CHECK_DEADLOCK FALSE
CONSTANTS
  Count = 72
  Stride = 5
