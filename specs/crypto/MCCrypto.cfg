SPECIFICATION Spec
CHECK_DEADLOCK FALSE
CONSTANTS
  Stride234 = 131
  Stride5 = 37
  N6 = 2
