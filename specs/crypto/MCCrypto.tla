------------------------------ MODULE MCCrypto ------------------------------
(* B1 generator for C23: the input space of the cryptographic building blocks, enumerated by classes.
   Only inputs are printed; the expected values are computed by Crypto.tla when the library's answers are
   validated (CryptoTrace), so that values the library draws at random (IVs, salts) can be inverted there. *)
EXTENDS Naturals, Sequences, FiniteSets, TLC, Json

CONSTANTS Stride234, Stride5, N6

Bytes(n, a, b) == [i \in 1..n |-> (a * i + b) % 256]

Rc4Keys == {<<1>>, Bytes(5, 37, 1), Bytes(16, 11, 200), Bytes(32, 91, 7), Bytes(256, 1, 255), <<0, 0, 0, 0, 0>>}
DataLens == {0, 1, 15, 16, 17, 31, 32, 33, 100, 300}
AesKeys == {Bytes(16, 3, 5), Bytes(16, 0, 0), Bytes(32, 7, 250), Bytes(32, 0, 255)}
Ivs == {Bytes(16, 0, 0), Bytes(16, 29, 13)}

\* passwords as code points (the API takes text); ASCII classes, then Latin-1 and beyond
PwAscii == {<<>>, <<97>>, <<117, 115, 101, 114>>, <<112, 40, 119, 41, 92>>,
            [i \in 1..31 |-> 65 + (i % 26)], [i \in 1..32 |-> 65 + (i % 26)], [i \in 1..33 |-> 65 + (i % 26)], [i \in 1..40 |-> 48 + (i % 10)]}
PwLatin1 == {<<233>>, <<112, 228, 223>>, [i \in 1..36 |-> IF i = 32 THEN 233 ELSE 97]}     \* the last: byte 32 of the UTF-8 form falls inside a character
PwWide == {<<20013, 25991>>, <<128512, 97>>}
PwLong == {[i \in 1..127 |-> 33 + (i % 90)]}

Perms == {<<252, 255, 255, 255>>, <<192, 240, 255, 255>>, <<0, 0, 0, 0>>, <<4, 0, 0, 128>>}
Ids == {Bytes(16, 5, 9), <<>>, Bytes(32, 3, 3)}
Revs234 == {[R |-> 2, n |-> 5], [R |-> 3, n |-> 5], [R |-> 3, n |-> 8], [R |-> 3, n |-> 16], [R |-> 4, n |-> 16]}
Objs == {[num |-> 1, gen |-> 0], [num |-> 70000, gen |-> 3], [num |-> 16777215, gen |-> 65535]}

ObjSeq == <<[num |-> 1, gen |-> 0], [num |-> 70000, gen |-> 3], [num |-> 16777215, gen |-> 65535]>>
RECURSIVE SetSeq(_)
SetSeq(S) == IF S = {} THEN <<>> ELSE LET x == CHOOSE y \in S : TRUE IN <<x>> \o SetSeq(S \ {x})
Emit(r) == PrintT(<<"REPLAY", ToJson(r)>>)
\* every k-th element of a product, deterministically
Pick(seq, k, off) == {seq[i] : i \in {j \in 1..Len(seq) : j % k = off % k}}

C234 == SetSeq({[alg |-> "r234", R |-> r.R, n |-> r.n, user |-> u, owner |-> o, P |-> p, id |-> id, obj |-> ObjSeq[((Len(u) + Len(o) + r.n) % 3) + 1], data |-> Bytes(Len(u) + 3, 7, 1)] :
                  r \in Revs234, u \in PwAscii \cup PwLatin1, o \in PwAscii \cup PwLatin1, p \in Perms, id \in Ids})
C5 == SetSeq({[alg |-> "r56", R |-> 5, user |-> u, owner |-> o, P |-> p, encMeta |-> m, key |-> Bytes(32, 17, Len(u))] :
                  u \in PwAscii \cup PwLatin1 \cup PwWide \cup PwLong, o \in PwAscii \cup PwWide, p \in Perms, m \in BOOLEAN})
C6 == <<[alg |-> "r56", R |-> 6, user |-> <<117, 115, 101, 114>>, owner |-> <<111, 119, 110>>, P |-> <<192, 240, 255, 255>>, encMeta |-> TRUE, key |-> Bytes(32, 17, 4)],
        [alg |-> "r56", R |-> 6, user |-> <<>>, owner |-> <<20013, 25991>>, P |-> <<252, 255, 255, 255>>, encMeta |-> FALSE, key |-> Bytes(32, 5, 1)],
        [alg |-> "r56", R |-> 6, user |-> <<233, 128512>>, owner |-> <<>>, P |-> <<0, 0, 0, 0>>, encMeta |-> TRUE, key |-> Bytes(32, 1, 0)],
        [alg |-> "r56", R |-> 6, user |-> [i \in 1..127 |-> 33 + (i % 90)], owner |-> [i \in 1..64 |-> 97], P |-> <<4, 0, 0, 128>>, encMeta |-> TRUE, key |-> Bytes(32, 9, 9)],
        [alg |-> "r56", R |-> 6, user |-> <<97>>, owner |-> <<97>>, P |-> <<252, 255, 255, 255>>, encMeta |-> TRUE, key |-> Bytes(32, 0, 0)],
        [alg |-> "r56", R |-> 6, user |-> [i \in 1..32 |-> 65 + (i % 26)], owner |-> <<112, 40, 119, 41, 92>>, P |-> <<192, 240, 255, 255>>, encMeta |-> FALSE, key |-> Bytes(32, 255, 3)]>>

VARIABLE done
Init == done = FALSE
Next == /\ ~done
        /\ \A k \in Rc4Keys, n \in DataLens : Emit([alg |-> "rc4", key |-> k, data |-> Bytes(n, 13, Len(k))])
        /\ \A k \in AesKeys, iv \in Ivs, n \in DataLens : Emit([alg |-> "aes", key |-> k, iv |-> iv, data |-> Bytes(n, 31, Len(k))])
        /\ \A c \in Pick(C234, Stride234, 1) : Emit(c)
        /\ \A c \in Pick(C5, Stride5, 1) : Emit(c)
        /\ \A i \in 1..N6 : Emit(C6[i])
        /\ PrintT(<<"COUNT", ToJson([r234 |-> Len(C234), r5 |-> Len(C5)])>>)
        /\ done' = TRUE
Spec == Init /\ [][Next]_done
=============================================================================
