SPECIFICATION Spec
CHECK_DEADLOCK FALSE
CONSTANTS
  Stride234 = 13
  Stride5 = 5
  N6 = 6
