--------------------------------- MODULE Rc4 ---------------------------------
(* RC4 in full (key-scheduling and pseudo-random generation): oxidizePdf carries its own implementation
   (encryption/rc4.rs), so the reference is specified here rather than called.  S is a function on 0..255. *)
EXTENDS Naturals, Sequences, Bitwise

Swap(S, i, j) == [S EXCEPT ![i] = S[j], ![j] = S[i]]
Identity256 == [i \in 0..255 |-> i]

RECURSIVE Ksa(_, _, _, _)
Ksa(S, key, i, j) ==
  IF i = 256 THEN S
  ELSE LET j2 == (j + S[i] + key[(i % Len(key)) + 1]) % 256 IN Ksa(Swap(S, i, j2), key, i + 1, j2)

RECURSIVE Prga(_, _, _, _, _, _)
Prga(S, i, j, data, k, out) ==
  IF k > Len(data) THEN out
  ELSE LET i2 == (i + 1) % 256
           j2 == (j + S[i2]) % 256
           S2 == Swap(S, i2, j2)
           ks == S2[(S2[i2] + S2[j2]) % 256]
       IN Prga(S2, i2, j2, data, k + 1, Append(out, data[k] ^^ ks))

\* encryption and decryption are the same operation; the key is 1..256 bytes
Rc4(key, data) == Prga(Ksa(Identity256, key, 0, 0), 0, 0, data, 1, <<>>)
=============================================================================
