------------------------------ MODULE EncTrace ------------------------------
(* B2 for C05 / C06: encrypted files read by the reference reader (PdfFile + EncEnvelope + Crypto).

     file        an encrypted file (written by the library, by qpdf/pypdf - fixtures -, or by the specification's own
                 encryptor through synth), the passwords, the plaintext it must contain (marker byte strings expected
                 in named places), and what the library did with it
     chk_spec    [independent implementation decrypts it] the envelope is well-formed; the user and owner passwords
                 authenticate by the algorithms, a wrong password does not; every marker is found in the decrypted
                 place it belongs to and nowhere in the clear
     chk_lib     [library round trip] the library reports the file encrypted, refuses a wrong password, errors (or
                 returns nothing readable) while locked, unlocks with each password, and then reads every marker
                 and the permissions that were written                                                          *)
EXTENDS EncEnvelope

VARIABLES l
tvars == <<encvars, l>>
IsEvent(e) == l <= NRec /\ Rec[l].ev = e /\ l' = l + 1
C == Rec[fcase]
TInit == l = 1 /\ LexInit /\ FileIdle /\ enc = Enc0
TFile == IsEvent("file") /\ Rec[l].built /\ EncFileStart(l)
TScan == /\ l <= NRec /\ Rec[l].ev \in {"chk_spec", "chk_lib"} /\ phase \notin {"idle", "done"}
         /\ EncFileStep(C.user) /\ UNCHANGED l
Report(probs) == IF probs = {} THEN TRUE ELSE PrintT(<<"PROBLEMS", ToJson([idx |-> l, problems |-> probs])>>) /\ FALSE

\* markers: [where |-> "stream" | "string", n |-> object number, key |-> dictionary key (strings), bytes |-> plaintext bytes]
\* markers: where = "stream" (object n) | "string" (object n, key) | "info" (trailer /Info, key) | "content" (page number)
\*          | "anywhere" (some string of some object) | "anystream" (the data of some stream object)
ContentRefsOf(pg) == LET c == Get(PageList[pg].node, K_Contents) IN
                     IF c.t = "ref" /\ Deref(c).t = "arr" THEN Deref(c).v ELSE IF c.t = "arr" THEN c.v ELSE <<c>>
RECURSIVE StrIn(_, _)
StrIn(bytes, v) == CASE v.t = "str" -> Occurs(bytes, v.b)
                     [] v.t = "arr" -> \E x \in 1..Len(v.v) : StrIn(bytes, v.v[x])
                     [] v.t = "dict" -> \E x \in 1..Len(v.v) : StrIn(bytes, v.v[x].v)
                     [] v.t = "stream" -> StrIn(bytes, v.dict)
                     [] OTHER -> FALSE
MarkerFound(key, m) ==
  CASE m.where = "anywhere" -> \E n \in DOMAIN res : res[n].found /\ StrIn(m.bytes, PlainObject(key, n))
    [] m.where = "stream" -> LET s == PlainStream(key, m.n) IN s.ok /\ Occurs(m.bytes, s.out)
    [] m.where = "anystream" -> \E n \in DOMAIN res : res[n].found /\ res[n].val.t = "stream" /\ (LET s == PlainStream(key, n) IN s.ok /\ Occurs(m.bytes, s.out))
    [] m.where = "content" -> m.page <= Len(PageList) /\ \E x \in 1..Len(ContentRefsOf(m.page)) :
                                LET c == ContentRefsOf(m.page)[x] s == IF c.t = "ref" THEN PlainStream(key, c.n) ELSE [ok |-> FALSE, out |-> <<>>]
                                IN s.ok /\ Occurs(m.bytes, s.out)
    [] m.where = "info" -> LET i == Get(TrailerDict, K_Info) v == IF i.t = "ref" THEN Get(PlainObject(key, i.n), m.key) ELSE None
                           IN v.t = "str" /\ (v.b = m.bytes \/ Occurs(m.bytes, v.b))
    [] OTHER -> LET v == Get(PlainObject(key, m.n), m.key) IN v.t = "str" /\ (v.b = m.bytes \/ Occurs(m.bytes, v.b))
InClear(m) == Occurs(m.bytes, FB)
SpecProblems ==
  LET ku == KeyFromUser(C.user) ko == KeyFromOwner(C.owner) IN
  IF EnvelopeProblems # {} THEN EnvelopeProblems       \* nothing to authenticate against
  ELSE
  (IF Problems \subseteq {"dangling indirect reference"} THEN {} ELSE Problems)
  \cup (IF UserOK(C.user) THEN {} ELSE {"the user password does not authenticate by the algorithms"})
  \cup (IF OwnerOK(C.owner) THEN {} ELSE {"the owner password does not authenticate by the algorithms"})
  \cup (IF UserOK(C.wrong) \/ (Rev < 5 /\ OwnerOK(C.wrong)) THEN {"a wrong password authenticates"} ELSE {})
  \cup (IF ku = ko THEN {} ELSE {"user and owner passwords give different file keys"})
  \cup (IF \A x \in 1..Len(C.markers) : MarkerFound(ku, C.markers[x]) THEN {} ELSE {"a marker is not where decryption should find it"})
  \cup (IF \E x \in 1..Len(C.markers) : C.markers[x].secret /\ InClear(C.markers[x]) THEN {"plaintext left in the clear"} ELSE {})
  \cup (IF Rev >= 5 /\ ~PermsOK(ku, EntPerms, PBytes, EncMeta) THEN {"/Perms does not decrypt to /P and EncryptMetadata"} ELSE {})
TChkSpec == /\ IsEvent("chk_spec") /\ phase = "done"
            /\ Report(SpecProblems)
            /\ UNCHANGED encvars

LibProblems ==
  LET L == C.lib IN
  (IF L.encrypted THEN {} ELSE {"library: is_encrypted() = false"})
  \cup (IF L.wrongRefused THEN {} ELSE {"library: a wrong password unlocked the file"})
  \cup (IF L.lockedLeak THEN {"library: content readable while locked"} ELSE {})
  \cup (IF L.userUnlock /\ L.ownerUnlock THEN {} ELSE {"library: a correct password was refused"})
  \cup (IF \A x \in 1..Len(L.userMarkers) : L.userMarkers[x] THEN {} ELSE {"library: a marker is missing after unlocking with the user password"})
  \cup (IF \A x \in 1..Len(L.ownerMarkers) : L.ownerMarkers[x] THEN {} ELSE {"library: a marker is missing after unlocking with the owner password"})
  \cup (IF "p" \in DOMAIN C /\ L.permBits # C.p THEN {"library: permissions differ from those written"} ELSE {})
TChkLib == /\ IsEvent("chk_lib") /\ phase = "done"
           /\ Report(LibProblems)
           /\ UNCHANGED encvars
\* KNOWN (C06-r234-password-encoding, same root as C23-r234-password-utf8): for revisions 2-4 the library feeds a non-ASCII
\* password to the algorithms as UTF-8 instead of PDFDocEncoding, so a file an independent implementation encrypted with
\* such a password is refused.  Nothing else is excused: the file must still be recognised as encrypted and stay closed.
HasHigh(b) == \E x \in 1..Len(b) : b[x] >= 128
PwExcuse == {"library: a correct password was refused", "library: a marker is missing after unlocking with the user password",
             "library: a marker is missing after unlocking with the owner password"}
TChkLibKnownPw == /\ KnownOpen("KF_C06_PW_UTF8") /\ IsEvent("chk_lib") /\ phase = "done"
                  /\ Rev < 5 /\ (HasHigh(C.user) \/ HasHigh(C.owner))
                  /\ LibProblems # {} /\ LibProblems \subseteq PwExcuse
                  /\ NoteKnown("KF_C06_PW_UTF8", l)
                  /\ UNCHANGED encvars
TNext == TFile \/ TScan \/ TChkSpec \/ TChkLib \/ TChkLibKnownPw
TraceSpec == TInit /\ [][TNext]_tvars
Prog == Progress(l)
=============================================================================
