----------------------------- MODULE CryptoTrace -----------------------------
(* B2 for C23: one `case` event per input of MCCrypto carrying everything the library computed for it.
   The expected values are computed here by Crypto.tla / Rc4.tla; values that depend on random IVs or salts
   are checked by inverting them (decrypt with the specified key, recompute the verifier from the salts the
   library chose).  Results come as [ok, v, err] (bytes) or [ok, b, err] (booleans).                      *)
EXTENDS Crypto, TraceLib

VARIABLES l
IsEvent(e) == l <= NRec /\ Rec[l].ev = e /\ l' = l + 1
Ok(r, v) == r.ok /\ r.v = v
OkB(r, b) == r.ok /\ r.b = b

Rc4OK(e) == e.out = Rc4(e.key, e.data) /\ e.back = e.data /\ e.streamed = e.out

AesOK(e) ==
  /\ Ok(e.enc, CbcEnc(e.key, e.iv, e.data))
  /\ (Len(e.data) <= 33 => CbcEncBlocks(e.key, e.iv, e.data) = e.enc.v)        \* chaining over the block function
  /\ Ok(e.back, e.data)
  /\ ~e.truncated.ok
  /\ ("raw" \in DOMAIN e =>
        /\ Ok(e.raw, AesCbcEncNoPad(e.key, e.iv, e.data)) /\ Ok(e.rawback, e.data)
        /\ Ok(e.ecb, AesEcbEnc(e.key, e.data)) /\ Ok(e.ecbback, e.data))

\* revisions 2-4 with the password bytes upw/opw
R234OK(e, upw, opw) ==
  LET O == IF opw = <<>> THEN Rc4OwnerEmpty(e.R, e.n, upw) ELSE OwnerEntry(e.R, e.n, opw, upw)   \* "" is a password like any other here
      key == FileKey(e.R, e.n, upw, O, e.P, e.id, TRUE)
      okey == ObjectKey(key, e.obj.num, e.obj.gen, FALSE)
  IN /\ e.O = O
     /\ Ok(e.key, key)
     /\ e.U.ok /\ (IF e.R = 2 THEN e.U.v = UserEntry16(2, key, e.id) ELSE Len(e.U.v) = 32 /\ SubSeq(e.U.v, 1, 16) = UserEntry16(e.R, key, e.id))
     /\ e.objkey = okey
     /\ (IF e.R = 4 THEN LET d == AesObjDec(ObjectKey(key, e.obj.num, e.obj.gen, TRUE), e.ct) IN d.ok /\ d.out = e.data
                    ELSE e.ct = Rc4(okey, e.data))
     /\ e.pt = e.data /\ e.pt2 = e.data
     /\ OkB(e.vUser, TRUE) /\ OkB(e.vUserWrong, Len(upw) >= 32)
     /\ OkB(e.vOwner, TRUE) /\ OkB(e.vOwnerWrong, Len(opw) >= 32)
     /\ OkB(e.vOwnerU, TRUE) /\ OkB(e.vOwnerUWrong, Len(opw) >= 32)
     /\ RecoverUserPad(e.R, e.n, opw, e.O) = PadPw(upw)                      \* Algorithm 7 on the library's /O

R56OK(e) ==
  LET upw == e.userUtf8  opw == e.ownerUtf8  R == e.R IN
  /\ e.U.ok /\ UserEntryOK(R, upw, e.U.v)
  /\ e.UE.ok /\ Len(e.UE.v) = 32 /\ UnwrapUE(R, upw, e.U.v, e.UE.v) = e.key
  /\ e.O.ok /\ OwnerEntryOK(R, opw, e.O.v, e.U.v)
  /\ e.OE.ok /\ Len(e.OE.v) = 32 /\ UnwrapOE(R, opw, e.O.v, e.U.v, e.OE.v) = e.key
  /\ e.Perms.ok /\ PermsOK(e.key, e.Perms.v, e.P, e.encMeta)
  /\ Ok(e.userKey, e.key) /\ Ok(e.ownerKey, e.key)
  /\ OkB(e.vUser, TRUE) /\ OkB(e.vOwner, TRUE)
  /\ (Len(upw) < 127 => OkB(e.vUserWrong, FALSE)) /\ (Len(opw) < 127 => OkB(e.vOwnerWrong, FALSE))
  /\ OkB(e.vPerms, TRUE) /\ OkB(e.vPermsWrong, FALSE) /\ OkB(e.metaFlag, e.encMeta)
  /\ LET d == AesObjDec(e.key, e.ct) IN d.ok /\ d.out = e.data
  /\ e.pt = e.data
  /\ (R = 6 => Ok(e.h2b, Hash2B(upw, e.h2bSalt, <<>>)))

\* text -> password bytes for revisions 2-4: PDFDocEncoding, which is the code point itself for the characters
\* the generator uses (ASCII and U+00A1..U+00FF)
PdfDoc(cps) == cps

TCase == /\ IsEvent("case")
         /\ "panic" \notin DOMAIN Rec[l]
         /\ LET e == Rec[l] IN
            CASE e.alg = "rc4" -> Rc4OK(e)
              [] e.alg = "aes" -> AesOK(e)
              [] e.alg = "r234" -> R234OK(e, PdfDoc(e.user), PdfDoc(e.owner))
              [] e.alg = "r56" -> R56OK(e)
              [] e.alg = "h2b" -> Ok(e.h2b, Hash2B(e.pw, e.salt, e.u))

(* Named deviation (open finding): for revisions 2-4 the library feeds the UTF-8 bytes of a non-ASCII password
   into the algorithms instead of its PDFDocEncoding bytes.  Accepted only when that - and nothing else -
   explains the recorded values.                                                                          *)
TCaseKnownUtf8 ==
  /\ KnownOpen("KF_C23_PW_UTF8")
  /\ IsEvent("case")
  /\ "panic" \notin DOMAIN Rec[l]
  /\ LET e == Rec[l] IN
     /\ e.alg = "r234"
     /\ (e.userUtf8 # PdfDoc(e.user) \/ e.ownerUtf8 # PdfDoc(e.owner))
     /\ R234OK(e, e.userUtf8, e.ownerUtf8)
     /\ NoteKnown("KF_C23_PW_UTF8", l)

TNext == TCase \/ TCaseKnownUtf8
TraceSpec == l = 1 /\ [][TNext]_l
Prog == Progress(l)
=============================================================================
