------------------------------ MODULE EncWriter ------------------------------
(* The specification as the ENCRYPTING implementation (C06, and the converse direction of C05): a small document
   - catalog with a text string, page tree, one page, content stream, font, information dictionary, XMP metadata
   stream, a stream with a string in its dictionary - is serialized and encrypted BY THE SPECIFICATION, byte for
   byte, in every shape ISO 32000 allows the envelope to take:

     revision    2 (RC4-40) | 3 (RC4-128) | 4 with a V2 crypt filter | 4 with AESV2 | 5 | 6 (AESV3)
     layout      classic table | cross-reference stream | cross-reference stream + object stream
     streams     raw | FlateDecode (the zlib primitive) - encryption is applied after the filter (7.6.1)
     metadata    encrypted | left in the clear (/EncryptMetadata false, R >= 4)

   What is encrypted and with which key follows 7.6.1-7.6.2: strings and stream data of a DIRECT indirect object
   with that object's key; strings of objects inside an object stream not at all (the object stream is encrypted
   as a stream); the /Encrypt dictionary, the /ID, the cross-reference stream never.  The library must open every
   such file with either password and find the plaintext; the specification's own reader (EncEnvelope) must too. *)
EXTENDS Crypto

T_Title == <<84, 73, 84, 76, 69, 95, 77, 65, 82, 75, 69, 82, 95, 52, 55, 49, 49>>   \* 'TITLE_MARKER_4711'
T_Body == <<66, 79, 68, 89, 95, 77, 65, 82, 75, 69, 82, 95, 48, 56, 49, 53>>   \* 'BODY_MARKER_0815'
T_Lang == <<76, 65, 78, 71, 95, 77, 65, 82, 75, 69, 82, 95, 55, 55>>   \* 'LANG_MARKER_77'
T_Meta == <<60, 120, 58, 120, 109, 112, 109, 101, 116, 97, 62, 77, 69, 84, 65, 95, 77, 65, 82, 75, 69, 82, 95, 51, 49, 60, 47, 120, 58, 120, 109, 112, 109, 101, 116, 97, 62>>   \* '<x:xmpmeta>META_MARKER_31</x:xmpmeta>'
T_MetaMark == <<77, 69, 84, 65, 95, 77, 65, 82, 75, 69, 82, 95, 51, 49>>   \* 'META_MARKER_31'
T_Custom == <<68, 73, 67, 84, 83, 84, 82, 95, 77, 65, 82, 75, 69, 82, 95, 53>>   \* 'DICTSTR_MARKER_5'
T_Data8 == <<82, 65, 87, 83, 84, 82, 69, 65, 77, 95, 77, 65, 82, 75, 69, 82, 95, 57, 32, 48, 49, 50, 51, 52, 53, 54, 55, 56, 57>>   \* 'RAWSTREAM_MARKER_9 0123456789'
T_Raw8 == <<82, 65, 87, 83, 84, 82, 69, 65, 77, 95, 77, 65, 82, 75, 69, 82, 95, 57>>   \* 'RAWSTREAM_MARKER_9'
T_ContentA == <<66, 84, 32, 47, 70, 49, 32, 49, 50, 32, 84, 102, 32, 49, 48, 32, 53, 48, 32, 84, 100, 32, 40>>   \* 'BT /F1 12 Tf 10 50 Td ('
T_ContentB == <<41, 32, 84, 106, 32, 69, 84>>   \* ') Tj ET'
W_obj == <<32, 48, 32, 111, 98, 106, 10>>   \* ' 0 obj\n'
W_endobj == <<10, 101, 110, 100, 111, 98, 106, 10>>   \* '\nendobj\n'
W_stream == <<10, 115, 116, 114, 101, 97, 109, 10>>   \* '\nstream\n'
W_endstream == <<10, 101, 110, 100, 115, 116, 114, 101, 97, 109>>   \* '\nendstream'
W_Hdr == <<37, 80, 68, 70, 45, 49, 46, 55, 10, 37, 226, 227, 207, 211, 10>>   \* '%PDF-1.7\n%âãÏÓ\n'
W_xrefkw == <<120, 114, 101, 102, 10>>   \* 'xref\n'
W_trailer == <<116, 114, 97, 105, 108, 101, 114, 10>>   \* 'trailer\n'
W_startxref == <<10, 115, 116, 97, 114, 116, 120, 114, 101, 102, 10>>   \* '\nstartxref\n'
W_EOF == <<10, 37, 37, 69, 79, 70, 10>>   \* '\n%%EOF\n'
W_free == <<48, 48, 48, 48, 48, 48, 48, 48, 48, 48, 32, 54, 53, 53, 51, 53, 32, 102, 32, 10>>   \* '0000000000 65535 f \n'
W_n == <<32, 48, 48, 48, 48, 48, 32, 110, 32, 10>>   \* ' 00000 n \n'
W_R == <<32, 48, 32, 82>>   \* ' 0 R'
n_Type == <<84, 121, 112, 101>>  n_Catalog == <<67, 97, 116, 97, 108, 111, 103>>  n_Pages == <<80, 97, 103, 101, 115>>
n_Page == <<80, 97, 103, 101>>  n_Kids == <<75, 105, 100, 115>>  n_Count == <<67, 111, 117, 110, 116>>
n_Parent == <<80, 97, 114, 101, 110, 116>>  n_MediaBox == <<77, 101, 100, 105, 97, 66, 111, 120>>  n_Contents == <<67, 111, 110, 116, 101, 110, 116, 115>>
n_Resources == <<82, 101, 115, 111, 117, 114, 99, 101, 115>>  n_Font == <<70, 111, 110, 116>>  n_F1 == <<70, 49>>
n_Subtype == <<83, 117, 98, 116, 121, 112, 101>>  n_Type1 == <<84, 121, 112, 101, 49>>  n_BaseFont == <<66, 97, 115, 101, 70, 111, 110, 116>>
n_Helvetica == <<72, 101, 108, 118, 101, 116, 105, 99, 97>>  n_Title == <<84, 105, 116, 108, 101>>  n_Lang == <<76, 97, 110, 103>>
n_Metadata == <<77, 101, 116, 97, 100, 97, 116, 97>>  n_XML == <<88, 77, 76>>  n_Custom == <<67, 117, 115, 116, 111, 109>>
n_Length == <<76, 101, 110, 103, 116, 104>>  n_Filter == <<70, 105, 108, 116, 101, 114>>  n_FlateDecode == <<70, 108, 97, 116, 101, 68, 101, 99, 111, 100, 101>>
n_Standard == <<83, 116, 97, 110, 100, 97, 114, 100>>  n_V == <<86>>  n_R == <<82>>
n_O == <<79>>  n_U == <<85>>  n_P == <<80>>
n_OE == <<79, 69>>  n_UE == <<85, 69>>  n_Perms == <<80, 101, 114, 109, 115>>
n_CF == <<67, 70>>  n_StmF == <<83, 116, 109, 70>>  n_StrF == <<83, 116, 114, 70>>
n_StdCF == <<83, 116, 100, 67, 70>>  n_CFM == <<67, 70, 77>>  n_AESV2 == <<65, 69, 83, 86, 50>>
n_AESV3 == <<65, 69, 83, 86, 51>>  n_V2 == <<86, 50>>  n_AuthEvent == <<65, 117, 116, 104, 69, 118, 101, 110, 116>>
n_DocOpen == <<68, 111, 99, 79, 112, 101, 110>>  n_EncryptMetadata == <<69, 110, 99, 114, 121, 112, 116, 77, 101, 116, 97, 100, 97, 116, 97>>  n_ObjStm == <<79, 98, 106, 83, 116, 109>>
n_N == <<78>>  n_First == <<70, 105, 114, 115, 116>>  n_XRef == <<88, 82, 101, 102>>
n_W == <<87>>  n_Size == <<83, 105, 122, 101>>  n_Root == <<82, 111, 111, 116>>
n_Info == <<73, 110, 102, 111>>  n_Encrypt == <<69, 110, 99, 114, 121, 112, 116>>  n_ID == <<73, 68>>

\* ---- values and their serialization ----
Nm(b) == [t |-> "name", b |-> b]
I(i) == [t |-> "int", i |-> i]
St(b) == [t |-> "str", b |-> b]
Rf(n) == [t |-> "ref", n |-> n]
Ar(v) == [t |-> "arr", v |-> v]
Dc(v) == [t |-> "dict", v |-> v]          \* seq of <<key bytes, value>>
Bo(b) == [t |-> "bool", v |-> b]
RECURSIVE Digits(_)
Digits(n) == IF n < 10 THEN <<48 + n>> ELSE Digits(n \div 10) \o <<48 + (n % 10)>>
IntB(i) == IF i < 0 THEN <<45>> \o Digits(0 - i) ELSE Digits(i)
HexD(x) == IF x < 10 THEN 48 + x ELSE 55 + x
RECURSIVE HexB(_, _)
HexB(b, i) == IF i > Len(b) THEN <<>> ELSE <<HexD(b[i] \div 16), HexD(b[i] % 16)>> \o HexB(b, i + 1)
RECURSIVE Cat(_, _)
Cat(ss, i) == IF i > Len(ss) THEN <<>> ELSE ss[i] \o Cat(ss, i + 1)
RECURSIVE Ser(_)
Ser(v) == CASE v.t = "name" -> <<47>> \o v.b
            [] v.t = "int" -> IntB(v.i)
            [] v.t = "str" -> <<60>> \o HexB(v.b, 1) \o <<62>>
            [] v.t = "ref" -> Digits(v.n) \o W_R
            [] v.t = "bool" -> IF v.v THEN <<116, 114, 117, 101>> ELSE <<102, 97, 108, 115, 101>>
            [] v.t = "arr" -> <<91>> \o Cat([x \in 1..Len(v.v) |-> (IF x > 1 THEN <<32>> ELSE <<>>) \o Ser(v.v[x])], 1) \o <<93>>
            [] OTHER -> <<60, 60>> \o Cat([x \in 1..Len(v.v) |-> <<47>> \o v.v[x][1] \o <<32>> \o Ser(v.v[x][2])], 1) \o <<62, 62>>

\* ---- the security handler: options -> context ----
\* opt: [rev, aes, layout, flate, encMeta, user, owner, p]; ctx adds the /Encrypt entries and the file key
PB(p) == <<p % 256, (p \div 256) % 256, (p \div 65536) % 256, (p \div 16777216) % 256>>
FileId == [i \in 1..16 |-> (i * 37 + 11) % 256]
KeyLen(o) == IF o.rev = 2 THEN 5 ELSE IF o.rev >= 5 THEN 32 ELSE 16
MethodOf(o) == IF o.rev >= 5 THEN "AESV3" ELSE IF o.rev = 4 /\ o.aes THEN "AESV2" ELSE "RC4"
\* arbitrary but fixed "random" material: salts, the R >= 5 file key, IVs
Salt(k) == [i \in 1..8 |-> (k * 53 + i * 29) % 256]
FileKey56 == [i \in 1..32 |-> (i * 73 + 5) % 256]
IV(n, slot) == [i \in 1..16 |-> (n * 31 + slot * 17 + i * 7) % 256]
Ctx234(o) ==
  LET O == OwnerEntry(o.rev, KeyLen(o), o.owner, o.user)
      key == FileKey(o.rev, KeyLen(o), o.user, O, PB(o.p), FileId, o.encMeta)
      u16 == UserEntry16(o.rev, key, FileId)
  IN [key |-> key, O |-> O, U |-> IF o.rev = 2 THEN u16 ELSE u16 \o [i \in 1..16 |-> 0]]
Ctx56(o) ==
  LET up == Pw127(o.user) op == Pw127(o.owner)
      U == Hash56(o.rev, up, Salt(1), <<>>) \o Salt(1) \o Salt(2)
      UE == AesCbcEncNoPad(Hash56(o.rev, up, Salt(2), <<>>), Zero16, FileKey56)
      O == Hash56(o.rev, op, Salt(3), U) \o Salt(3) \o Salt(4)
      OE == AesCbcEncNoPad(Hash56(o.rev, op, Salt(4), U), Zero16, FileKey56)
      perms == AesEcbEnc(FileKey56, PB(o.p) \o <<255, 255, 255, 255, IF o.encMeta THEN 84 ELSE 70, 97, 100, 98, 1, 2, 3, 4>>)
  IN [key |-> FileKey56, O |-> O, U |-> U, OE |-> OE, UE |-> UE, Perms |-> perms]
CtxOf(o) == IF o.rev >= 5 THEN Ctx56(o) ELSE Ctx234(o)
CF(o) == Dc(<< <<n_StdCF, Dc(<< <<n_CFM, Nm(IF o.rev >= 5 THEN n_AESV3 ELSE IF o.aes THEN n_AESV2 ELSE n_V2)>>, <<n_AuthEvent, Nm(n_DocOpen)>>,
                                <<n_Length, I(IF o.rev >= 5 THEN 32 ELSE 16)>> >>)>> >>)
EncryptDict(o, c) ==
  Dc(<< <<n_Filter, Nm(n_Standard)>>, <<n_V, I(CASE o.rev = 2 -> 1 [] o.rev = 3 -> 2 [] o.rev = 4 -> 4 [] OTHER -> 5)>>, <<n_R, I(o.rev)>>,
        <<n_Length, I(KeyLen(o) * 8)>>, <<n_O, St(c.O)>>, <<n_U, St(c.U)>>, <<n_P, I(o.p)>> >>
     \o (IF o.rev >= 4 THEN << <<n_CF, CF(o)>>, <<n_StmF, Nm(n_StdCF)>>, <<n_StrF, Nm(n_StdCF)>> >> ELSE <<>>)
     \o (IF o.rev >= 4 /\ ~o.encMeta THEN << <<n_EncryptMetadata, Bo(FALSE)>> >> ELSE <<>>)
     \o (IF o.rev >= 5 THEN << <<n_OE, St(c.OE)>>, <<n_UE, St(c.UE)>>, <<n_Perms, St(c.Perms)>> >> ELSE <<>>))

\* ---- encrypting what belongs to direct object n ----
EncB(o, c, n, slot, b) ==
  CASE MethodOf(o) = "RC4" -> Rc4(ObjectKey(c.key, n, 0, FALSE), b)
    [] MethodOf(o) = "AESV2" -> IV(n, slot) \o CbcEnc(ObjectKey(c.key, n, 0, TRUE), IV(n, slot), b)
    [] OTHER -> IV(n, slot) \o CbcEnc(c.key, IV(n, slot), b)
RECURSIVE EncV(_, _, _, _, _)
EncV(o, c, n, slot, v) ==
  CASE v.t = "str" -> St(EncB(o, c, n, slot, v.b))
    [] v.t = "arr" -> Ar([x \in 1..Len(v.v) |-> EncV(o, c, n, slot * 8 + x, v.v[x])])
    [] v.t = "dict" -> Dc([x \in 1..Len(v.v) |-> <<v.v[x][1], EncV(o, c, n, slot * 8 + x, v.v[x][2])>>])
    [] OTHER -> v

\* ---- the document ----
Content == T_ContentA \o T_Body \o T_ContentB
Plain(n) ==     \* [d |-> dictionary, data |-> stream data or "none", meta |-> is the metadata stream]
  CASE n = 1 -> [d |-> Dc(<< <<n_Type, Nm(n_Catalog)>>, <<n_Pages, Rf(2)>>, <<n_Lang, St(T_Lang)>>, <<n_Metadata, Rf(7)>> >>), s |-> FALSE]
    [] n = 2 -> [d |-> Dc(<< <<n_Type, Nm(n_Pages)>>, <<n_Kids, Ar(<<Rf(3)>>)>>, <<n_Count, I(1)>> >>), s |-> FALSE]
    [] n = 3 -> [d |-> Dc(<< <<n_Type, Nm(n_Page)>>, <<n_Parent, Rf(2)>>, <<n_MediaBox, Ar(<<I(0), I(0), I(200), I(100)>>)>>, <<n_Contents, Rf(4)>>,
                            <<n_Resources, Dc(<< <<n_Font, Dc(<< <<n_F1, Rf(5)>> >>)>> >>)>> >>), s |-> FALSE]
    [] n = 4 -> [d |-> Dc(<<>>), s |-> TRUE, data |-> Content, flate |-> TRUE, meta |-> FALSE]
    [] n = 5 -> [d |-> Dc(<< <<n_Type, Nm(n_Font)>>, <<n_Subtype, Nm(n_Type1)>>, <<n_BaseFont, Nm(n_Helvetica)>> >>), s |-> FALSE]
    [] n = 6 -> [d |-> Dc(<< <<n_Title, St(T_Title)>> >>), s |-> FALSE]
    [] n = 7 -> [d |-> Dc(<< <<n_Type, Nm(n_Metadata)>>, <<n_Subtype, Nm(n_XML)>> >>), s |-> TRUE, data |-> T_Meta, flate |-> FALSE, meta |-> TRUE]
    [] OTHER -> [d |-> Dc(<< <<n_Custom, St(T_Custom)>> >>), s |-> TRUE, data |-> T_Data8, flate |-> FALSE, meta |-> FALSE]
NEnc == 9  NStm == 10  NXref == 11
InStm(o) == IF o.layout = "objstm" THEN <<1, 2, 3, 5, 6>> ELSE <<>>
IsIn(n, s) == \E x \in 1..Len(s) : s[x] = n

\* a stream object's bytes: the filter first, then the encryption (7.6.1), /Length of what is written
StreamBody(o, c, n, dict, data, flate, clear) ==
  LET f == IF flate /\ o.flate THEN Deflate(data) ELSE data
      e == IF clear THEN f ELSE EncB(o, c, n, 1, f)
      d2 == Dc((IF clear THEN dict.v ELSE EncV(o, c, n, 2, dict).v)
               \o (IF flate /\ o.flate THEN << <<n_Filter, Nm(n_FlateDecode)>> >> ELSE <<>>) \o << <<n_Length, I(Len(e))>> >>)
  IN Ser(d2) \o W_stream \o e \o W_endstream
ObjBytes(n, body) == Digits(n) \o W_obj \o body \o W_endobj
DirectBody(o, c, n) ==
  LET p == Plain(n) IN
  IF p.s THEN StreamBody(o, c, n, p.d, p.data, p.flate, p.meta /\ ~o.encMeta)
  ELSE Ser(EncV(o, c, n, 2, p.d))
\* the object stream: "n off" pairs, then the members in PLAIN form; flate; encrypted as stream NStm
StmPayload(o) ==
  LET ms == InStm(o)
      bodies == [x \in 1..Len(ms) |-> Ser(Plain(ms[x]).d) \o <<10>>]
      RECURSIVE OffAt(_) OffAt(x) == IF x = 1 THEN 0 ELSE OffAt(x - 1) + Len(bodies[x - 1])
      head == Cat([x \in 1..Len(ms) |-> Digits(ms[x]) \o <<32>> \o Digits(OffAt(x)) \o <<32>>], 1)
  IN [first |-> Len(head), bytes |-> head \o Cat(bodies, 1), n |-> Len(ms)]
StmBody(o, c) ==
  LET p == StmPayload(o) IN
  StreamBody(o, c, NStm, Dc(<< <<n_Type, Nm(n_ObjStm)>>, <<n_N, I(p.n)>>, <<n_First, I(p.first)>> >>), p.bytes, TRUE, FALSE)

\* ---- the file ----
DirectNums(o) == SelectSeq(<<1, 2, 3, 4, 5, 6, 7, 8>>, LAMBDA n : ~IsIn(n, InStm(o))) \o <<NEnc>> \o (IF o.layout = "objstm" THEN <<NStm>> ELSE <<>>)
RECURSIVE Place(_, _, _, _)     \* [bytes, offs: seq of <<n, offset>>]
Place(parts, i, acc, offs) ==
  IF i > Len(parts) THEN [bytes |-> acc, offs |-> offs]
  ELSE Place(parts, i + 1, acc \o parts[i][2], Append(offs, <<parts[i][1], Len(acc)>>))
OffOf(offs, n) == LET S == {x \in 1..Len(offs) : offs[x][1] = n} IN IF S = {} THEN 0 - 1 ELSE offs[CHOOSE x \in S : TRUE][2]
RECURSIVE Pad10(_)
Pad10(b) == IF Len(b) >= 10 THEN b ELSE Pad10(<<48>> \o b)
TrailerEntries(o, size) ==
  << <<n_Size, I(size)>>, <<n_Root, Rf(1)>>, <<n_Info, Rf(6)>>, <<n_Encrypt, Rf(NEnc)>>, <<n_ID, Ar(<<St(FileId), St(FileId)>>)>> >>
BE(v, w) == [i \in 1..w |-> (v \div (256 ^ (w - i))) % 256]
IdxIn(n, s) == CHOOSE x \in 1..Len(s) : s[x] = n
BuildFile(o) ==
  LET c == CtxOf(o)
      nums == DirectNums(o)
      parts == [x \in 1..Len(nums) |->
                  <<nums[x], ObjBytes(nums[x], CASE nums[x] = NEnc -> Ser(EncryptDict(o, c))
                                                 [] nums[x] = NStm -> StmBody(o, c)
                                                 [] OTHER -> DirectBody(o, c, nums[x]))>>]
      body == Place(parts, 1, W_Hdr, <<>>)
      at == Len(body.bytes)
  IN IF o.layout = "table"
     THEN body.bytes \o W_xrefkw \o <<48, 32>> \o Digits(NEnc + 1) \o <<10>> \o W_free
          \o Cat([n \in 1..NEnc |-> Pad10(Digits(OffOf(body.offs, n))) \o W_n], 1)
          \o W_trailer \o Ser(Dc(TrailerEntries(o, NEnc + 1))) \o W_startxref \o Digits(at) \o W_EOF
     ELSE LET row(n) == IF n = 0 THEN <<0, 0, 0, 0, 255>>
                        ELSE IF n = NXref THEN <<1>> \o BE(at, 3) \o <<0>>
                        ELSE IF IsIn(n, InStm(o)) THEN <<2>> \o BE(NStm, 3) \o <<IdxIn(n, InStm(o)) - 1>>
                        ELSE IF OffOf(body.offs, n) < 0 THEN <<0, 0, 0, 0, 0>>
                        ELSE <<1>> \o BE(OffOf(body.offs, n), 3) \o <<0>>
              rows == Cat([x \in 1..(NXref + 1) |-> row(x - 1)], 1)
              data == IF o.flate THEN Deflate(rows) ELSE rows
              d == Dc(<< <<n_Type, Nm(n_XRef)>>, <<n_W, Ar(<<I(1), I(3), I(1)>>)>> >> \o TrailerEntries(o, NXref + 1)
                      \o (IF o.flate THEN << <<n_Filter, Nm(n_FlateDecode)>> >> ELSE <<>>) \o << <<n_Length, I(Len(data))>> >>)
          IN body.bytes \o ObjBytes(NXref, Ser(d) \o W_stream \o data \o W_endstream) \o <<115, 116, 97, 114, 116, 120, 114, 101, 102, 10>> \o Digits(at) \o W_EOF

\* where the plaintext must be found again (EncTrace markers); `secret`: must not occur in the file in the clear
Markers(o) ==
  << [where |-> "info", page |-> 0, n |-> 0, key |-> n_Title, bytes |-> T_Title, secret |-> TRUE],
     [where |-> "content", page |-> 1, n |-> 0, key |-> <<>>, bytes |-> T_Body, secret |-> TRUE],
     [where |-> "string", page |-> 0, n |-> 1, key |-> n_Lang, bytes |-> T_Lang, secret |-> TRUE],
     [where |-> "stream", page |-> 0, n |-> 7, key |-> <<>>, bytes |-> T_MetaMark, secret |-> o.encMeta],
     [where |-> "string", page |-> 0, n |-> 8, key |-> n_Custom, bytes |-> T_Custom, secret |-> TRUE],
     [where |-> "stream", page |-> 0, n |-> 8, key |-> <<>>, bytes |-> T_Raw8, secret |-> TRUE] >>
=============================================================================
