SPECIFICATION Spec
CHECK_DEADLOCK FALSE
CONSTANTS
  Count = 12
  Stride = 7
