SPECIFICATION Spec
CHECK_DEADLOCK FALSE
CONSTANTS
  Count = 9
  Stride = 7
