---------------------------- MODULE EncEnvelope ----------------------------
(* The standard security handler AT FILE LEVEL (ISO 32000-1 7.6.1-7.6.5, ISO 32000-2 7.6.4): what an encrypted file
   looks like and how a conforming reader decrypts it.  Built on the reference file reader PdfFile (which has
   scanned the file: strings and stream data are still ciphertext) and on the algorithms of Crypto.

     - the trailer (classic, or the cross-reference stream dictionary) carries /Encrypt and /ID;
     - the /Encrypt dictionary itself is not encrypted; neither is the cross-reference stream;
     - every other string and stream is encrypted with the key of the INDIRECT OBJECT that holds it
       (Algorithm 1; for AESV3 the file key itself), RC4 or AES-CBC with the IV in front;
     - the file key follows from the user password (Algorithm 2 / 2.A) or from the owner password.          *)
EXTENDS PdfFile, Crypto

K_O == <<79>>  K_U == <<85>>  K_P == <<80>>  K_R == <<82>>  K_V2 == <<86>>  K_OE == <<79, 69>>  K_UE == <<85, 69>>  K_Perms == <<80, 101, 114, 109, 115>>
K_CF == <<67, 70>>  K_StmF == <<83, 116, 109, 70>>  K_StrF == <<83, 116, 114, 70>>  K_CFM == <<67, 70, 77>>
K_EncryptMetadata == <<69, 110, 99, 114, 121, 112, 116, 77, 101, 116, 97, 100, 97, 116, 97>>
N_AESV2 == <<65, 69, 83, 86, 50>>  N_AESV3 == <<65, 69, 83, 86, 51>>  N_V2 == <<86, 50>>  N_Identity == <<73, 100, 101, 110, 116, 105, 116, 121>>

(* A reader meets /Encrypt BEFORE it can read anything else: object streams are encrypted as streams (7.6.1), so
   the cross-reference data behind them is not available yet.  `enc` is what the reader holds from the moment the
   top level of the file is known (phase "trailer" of PdfFile): the /Encrypt dictionary - a direct object, 7.5.7 -
   and the first /ID string of the newest section's trailer, then the file key derived from the password. *)
VARIABLE enc
encvars == <<allvars, enc>>
Enc0 == [st |-> 0, dict |-> None, id1 |-> <<>>, key |-> <<>>]
EarlyTrailer == SectionAt(StartXref).trailer
EarlyDirect(v) == IF v.t # "ref" THEN v
                  ELSE LET S == {x \in 1..Len(objs) : objs[x].n = v.n /\ objs[x].via = 0} IN
                       IF S = {} THEN None ELSE objs[CHOOSE x \in S : \A y \in S : y <= x].val
EncRef == Get(TrailerDict, K_Encrypt)
EncDict == enc.dict
Encrypted == EncDict.t = "dict"
IdOf(tr) == LET a == EarlyDirect(Get(tr, K_ID)) IN IF a.t = "arr" /\ Len(a.v) >= 1 /\ a.v[1].t = "str" THEN a.v[1].b ELSE <<>>
Id1 == enc.id1
StrOf(v) == IF v.t = "str" THEN v.b ELSE <<>>
\* a (possibly negative) integer token as a TLC integer
SignedOf(v) == IF v.t # "int" THEN 0 ELSE IF SubSeq(v.s, 1, 1) = "-" THEN 0 - IntOf([v EXCEPT !.s = SubSeq(v.s, 2, Len(v.s))]) ELSE IntOf(v)
\* /P as four little-endian bytes of its 32-bit two's complement form (floor division and modulus do that)
PBytes == LET p == SignedOf(Get(EncDict, K_P)) IN <<p % 256, (p \div 256) % 256, (p \div 65536) % 256, (p \div 16777216) % 256>>
Rev == SignedOf(Get(EncDict, K_R))
KeyBytes == IF Rev >= 5 THEN 32 ELSE IF Get(EncDict, K_Length).t = "int" THEN SignedOf(Get(EncDict, K_Length)) \div 8 ELSE 5
EncMeta == LET m == Get(EncDict, K_EncryptMetadata) IN ~(m.t = "bool" /\ m.v = FALSE)
\* the crypt filter method used for strings and streams
Method == LET cf == Get(EncDict, K_CF)  sf == Get(EncDict, K_StmF) IN
          IF SignedOf(Get(EncDict, K_V2)) < 4 THEN "RC4"
          ELSE IF sf.t # "name" \/ sf.b = N_Identity THEN "Identity"
          ELSE LET m == Get(Get(cf, sf.b), K_CFM) IN
               IF IsName(m, N_AESV3) THEN "AESV3" ELSE IF IsName(m, N_AESV2) THEN "AESV2" ELSE "RC4"
EntO == StrOf(Get(EncDict, K_O))    EntU == StrOf(Get(EncDict, K_U))
EntOE == StrOf(Get(EncDict, K_OE))  EntUE == StrOf(Get(EncDict, K_UE))   EntPerms == StrOf(Get(EncDict, K_Perms))

\* ---- authentication and the file key ----
UserOK(pw) == IF Rev >= 5 THEN UserEntryOK(Rev, pw, SubSeq(EntU, 1, 48))
              ELSE LET k == FileKey(Rev, KeyBytes, pw, SubSeq(EntO, 1, 32), PBytes, Id1, EncMeta) IN
                   IF Rev = 2 THEN SubSeq(EntU, 1, 32) = UserEntry16(2, k, Id1) ELSE SubSeq(EntU, 1, 16) = UserEntry16(Rev, k, Id1)
OwnerOK(pw) == IF Rev >= 5 THEN OwnerEntryOK(Rev, pw, SubSeq(EntO, 1, 48), SubSeq(EntU, 1, 48))
               ELSE LET up == RecoverUserPad(Rev, KeyBytes, pw, SubSeq(EntO, 1, 32))
                        k == FileKeyPadded(Rev, KeyBytes, up, SubSeq(EntO, 1, 32), PBytes, Id1, EncMeta)
                    IN IF Rev = 2 THEN SubSeq(EntU, 1, 32) = UserEntry16(2, k, Id1) ELSE SubSeq(EntU, 1, 16) = UserEntry16(Rev, k, Id1)
KeyFromUser(pw) == IF Rev >= 5 THEN UnwrapUE(Rev, pw, SubSeq(EntU, 1, 48), EntUE)
                   ELSE FileKey(Rev, KeyBytes, pw, SubSeq(EntO, 1, 32), PBytes, Id1, EncMeta)
KeyFromOwner(pw) == IF Rev >= 5 THEN UnwrapOE(Rev, pw, SubSeq(EntO, 1, 48), SubSeq(EntU, 1, 48), EntOE)
                    ELSE FileKeyPadded(Rev, KeyBytes, RecoverUserPad(Rev, KeyBytes, pw, SubSeq(EntO, 1, 32)), SubSeq(EntO, 1, 32), PBytes, Id1, EncMeta)

\* ---- decrypting what belongs to indirect object (n, g) ----
DecBytes(key, n, g, bytes) ==
  CASE Method = "Identity" -> [ok |-> TRUE, out |-> bytes]
    [] Method = "RC4" -> [ok |-> TRUE, out |-> Rc4(ObjectKey(key, n, g, FALSE), bytes)]
    [] Method = "AESV2" -> IF bytes = <<>> THEN [ok |-> TRUE, out |-> <<>>] ELSE AesObjDec(ObjectKey(key, n, g, TRUE), bytes)
    [] OTHER -> IF bytes = <<>> THEN [ok |-> TRUE, out |-> <<>>] ELSE AesObjDec(key, bytes)
RECURSIVE DecValue(_, _, _, _)
DecValue(key, n, g, v) ==
  CASE v.t = "str" -> LET d == DecBytes(key, n, g, v.b) IN IF d.ok THEN [v EXCEPT !.b = d.out] ELSE [t |-> "undecryptable"]
    [] v.t = "arr" -> [v EXCEPT !.v = [x \in 1..Len(v.v) |-> DecValue(key, n, g, v.v[x])]]
    [] v.t = "dict" -> [v EXCEPT !.v = [x \in 1..Len(v.v) |-> [k |-> v.v[x].k, v |-> DecValue(key, n, g, v.v[x].v)]]]
    [] v.t = "stream" -> [v EXCEPT !.dict = DecValue(key, n, g, v.dict)]
    [] OTHER -> v
\* the decrypted value of direct object n (the /Encrypt dictionary is left as it is)
ObjGen(n) == LET S == {x \in 1..Len(objs) : objs[x].n = n /\ objs[x].via = 0} IN IF S = {} THEN 0 ELSE objs[CHOOSE x \in S : TRUE].g
PlainObject(key, n) ==
  LET r == Resolve(n) IN
  IF ~r.found THEN [t |-> "null"]
  ELSE IF EncRef.t = "ref" /\ EncRef.n = n THEN r.val
  ELSE IF r.ty = 2 THEN r.val      \* came out of an object stream, which was decrypted as a whole (7.6.1)
  ELSE DecValue(key, n, ObjGen(n), r.val)
\* the decrypted and decoded data of stream object n: [ok, out]
N_XRefT == <<88, 82, 101, 102>>
N_MetadataT == <<77, 101, 116, 97, 100, 97, 116, 97>>
N_Crypt == <<67, 114, 121, 112, 116>>  K_Name == <<78, 97, 109, 101>>
\* a stream that names the Crypt filter chooses its crypt filter itself (7.4.10): Identity unless /DecodeParms /Name says otherwise
FilterList(v) == LET f == Get(v, K_Filter) IN IF f.t = "none" THEN <<>> ELSE IF f.t = "arr" THEN f.v ELSE <<f>>
ParmsList(v) == LET d == Get(v, K_DecodeParms) IN IF d.t = "none" THEN <<>> ELSE IF d.t = "arr" THEN d.v ELSE <<d>>
CryptIdentity(v) == LET fl == FilterList(v) pl == ParmsList(v) IN
                    /\ fl # <<>> /\ IsName(fl[1], N_Crypt)
                    /\ LET nm == IF pl = <<>> THEN None ELSE Get(pl[1], K_Name) IN nm.t # "name" \/ nm.b = N_Identity
\* what stands between the bytes of stream object o (a record with n, g, val) and its filters
DecStream(key, o, raw) ==
  IF ~Encrypted \/ TypeIs(o.val, N_XRefT) \/ CryptIdentity(o.val)
     \/ (Rev >= 4 /\ ~EncMeta /\ TypeIs(o.val, N_MetadataT))      \* Table 21: the metadata stream stays in the clear
  THEN [ok |-> TRUE, out |-> raw]
  ELSE DecBytes(key, o.n, o.g, raw)
PlainStream(key, n) ==
  LET r == Resolve(n) IN
  IF ~r.found \/ r.val.t # "stream" \/ r.ty # 1 THEN [ok |-> FALSE, out |-> <<>>]
  ELSE LET raw == SubSeq(FB, r.data.start, r.data.start + r.data.len - 1)
           d == DecStream(key, [n |-> n, g |-> ObjGen(n), val |-> r.val], raw)
           fl == LET l == FilterList(r.val) IN IF l # <<>> /\ IsName(l[1], N_Crypt) THEN Tail(l) ELSE l
       IN IF ~d.ok THEN d
          ELSE IF fl = <<>> THEN d
          ELSE IF Len(fl) = 1 /\ IsName(fl[1], N_Flate) THEN InflateR(d.out)
          ELSE [ok |-> FALSE, out |-> <<>>]

\* ---- the reader's steps: PdfFile's, with the key found before the object streams are opened ----
EncFileStart(c) == FileStart(c) /\ enc' = Enc0
EncFind == /\ phase = "trailer" /\ enc.st = 0
           /\ enc' = [st |-> 1, dict |-> EarlyDirect(Get(EarlyTrailer, K_Encrypt)), id1 |-> IdOf(EarlyTrailer), key |-> <<>>]
           /\ UNCHANGED allvars
EncKey(pw) == /\ phase = "trailer" /\ enc.st = 1
              /\ enc' = [enc EXCEPT !.st = 2, !.key = IF Encrypted THEN KeyFromUser(pw) ELSE <<>>]
              /\ UNCHANGED allvars
StmDec(o, raw) == DecStream(enc.key, o, raw)
EncQueue == phase = "trailer" /\ enc.st = 2 /\ QueueStmsD(StmDec) /\ UNCHANGED enc
EncFileStep(pw) == EncFind \/ EncKey(pw) \/ EncQueue \/ (FileStepRest(FALSE) /\ UNCHANGED enc)

\* ---- what an encrypted file must look like ----
EnvelopeProblems ==
  (IF Encrypted THEN {} ELSE {"trailer has no /Encrypt dictionary (a direct object)"})
  \cup (IF Encrypted /\ (Deref(EncRef) # EncDict \/ IdOf(TrailerDict) # Id1) THEN {"/Encrypt or /ID differ between the first look at the trailer and the resolved file"} ELSE {})
  \cup (IF EncRef.t = "ref" /\ Resolve(EncRef.n).found /\ Resolve(EncRef.n).ty = 2 THEN {"the /Encrypt dictionary is stored in an object stream"} ELSE {})
  \cup (IF Id1 # <<>> THEN {} ELSE {"trailer has no /ID"})
  \cup (IF Encrypted /\ Rev \in 2..6 /\ Len(EntO) >= (IF Rev >= 5 THEN 48 ELSE 32) /\ Len(EntU) >= (IF Rev >= 5 THEN 48 ELSE 32) THEN {} ELSE {"/Encrypt entries malformed"})
  \cup (IF Encrypted /\ Rev >= 5 /\ ~(Len(EntOE) = 32 /\ Len(EntUE) = 32 /\ Len(EntPerms) = 16) THEN {"/OE /UE /Perms malformed"} ELSE {})
\* does byte string `needle` occur in `hay`?
Occurs(needle, hay) == \E x \in 1..(Len(hay) - Len(needle) + 1) : SubSeq(hay, x, x + Len(needle) - 1) = needle
=============================================================================
