SPECIFICATION Spec
CHECK_DEADLOCK FALSE
CONSTANTS
  Stride = 1
