------------------------------- MODULE MCEnc -------------------------------
(* B1 generator for C05: encryption configurations - strength x writer configuration x user/owner password class x
   permission pattern (a deterministic stride of the product).  /P is given as the signed 32-bit integer that the
   /Encrypt dictionary carries.                                                                              *)
EXTENDS Naturals, Integers, Sequences, FiniteSets, TLC, Json

CONSTANTS Stride

Strengths == <<"rc4_40", "rc4_128", "aes128", "aes256">>
Cfgs == <<[xref |-> FALSE, objstm |-> FALSE, compress |-> TRUE, version |-> "1.7"], [xref |-> TRUE, objstm |-> FALSE, compress |-> TRUE, version |-> "1.5"],
          [xref |-> TRUE, objstm |-> TRUE, compress |-> TRUE, version |-> "1.5"], [xref |-> FALSE, objstm |-> FALSE, compress |-> FALSE, version |-> "1.4"],
          [xref |-> TRUE, objstm |-> FALSE, compress |-> FALSE, version |-> "1.7"]>>
\* passwords as code points: empty, ASCII, with delimiters, Latin-1, CJK + astral, 40 characters
\* ... and 31 ASCII characters followed by U+00E9: in UTF-8 the 32-byte cut of revisions 2-4 falls inside that character
Pws == << <<>>, <<117, 115, 101, 114>>, <<112, 40, 119, 41, 92>>, <<112, 228, 223>>, <<20013, 128512>>, [i \in 1..40 |-> 65 + (i % 26)],
          [i \in 1..31 |-> 97 + (i % 26)] \o <<233, 120, 121>> >>
\* permissions: everything, nothing (only the reserved bits), print only, copy only, fill forms only
Ps == <<0 - 4, 0 - 3904, 0 - 3900, 0 - 3888, 0 - 3648>>
Case(k) == [strength |-> Strengths[(k % 4) + 1], cfg |-> Cfgs[((k \div 4) % Len(Cfgs)) + 1],
            user |-> Pws[((k \div 3) % Len(Pws)) + 1], owner |-> Pws[((k \div 5 + 1) % Len(Pws)) + 1], p |-> Ps[((k \div 7) % Len(Ps)) + 1]]
\* corners the stride may step over: a long password on ONE side only (the other password must not open the file through
\* the same derivation), for each revision 2-4 strength
Straddle == Pws[7]
Corners == << [strength |-> "rc4_40", cfg |-> Cfgs[1], user |-> Pws[2], owner |-> Straddle, p |-> 0 - 4],
              [strength |-> "aes128", cfg |-> Cfgs[2], user |-> Straddle, owner |-> Pws[3], p |-> 0 - 3904],
              [strength |-> "rc4_128", cfg |-> Cfgs[4], user |-> Pws[6], owner |-> Straddle, p |-> 0 - 3900],
              [strength |-> "aes128", cfg |-> Cfgs[1], user |-> <<>>, owner |-> Pws[6], p |-> 0 - 3888] >>
VARIABLE done
Init == done = FALSE
Next == /\ ~done
        /\ \A k \in 1..(16 * Stride) : PrintT(<<"REPLAY", ToJson(Case(k * 3 + (k \div 20)))>>)
        /\ \A k \in 1..Len(Corners) : PrintT(<<"REPLAY", ToJson(Corners[k])>>)
        /\ done' = TRUE
Spec == Init /\ [][Next]_done
=============================================================================
