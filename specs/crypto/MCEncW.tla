------------------------------- MODULE MCEncW -------------------------------
(* B1 generator for C06: files ENCRYPTED BY THE SPECIFICATION (EncWriter), one per chosen point of
   revision x layout x filter x EncryptMetadata x password pair x permissions.                              *)
EXTENDS EncWriter, Json, IOUtils

CONSTANTS Count, Stride

Revs == <<[rev |-> 2, aes |-> FALSE], [rev |-> 6, aes |-> TRUE], [rev |-> 4, aes |-> TRUE], [rev |-> 3, aes |-> FALSE], [rev |-> 4, aes |-> FALSE], [rev |-> 5, aes |-> TRUE]>>
Layouts == <<"objstm", "table", "xrefstm">>
\* passwords as BYTES (PDFDocEncoding for R <= 4, UTF-8 for R >= 5): plain, empty user, non-ASCII, longer than 32
Pairs(r) == << [u |-> <<117, 115, 101, 114, 112, 119>>, o |-> <<111, 119, 110, 101, 114, 112, 119>>],
               [u |-> <<>>, o |-> <<111, 119, 110, 101, 114, 112, 119>>],
               IF r >= 5 THEN [u |-> <<112, 195, 164, 195, 159>>, o |-> <<228, 184, 173, 240, 159, 152, 128>>]
                         ELSE [u |-> <<112, 228, 223>>, o |-> <<100, 117, 101, 241, 111>>],
               [u |-> [i \in 1..40 |-> 65 + (i % 26)], o |-> [i \in 1..36 |-> 97 + (i % 26)]] >>
Ps == <<0 - 4, 0 - 3904, 0 - 1340, 0 - 3392>>
Opt(k) ==
  LET rv == Revs[(k % 6) + 1]
      pr == Pairs(rv.rev)[((k \div 2) % 4) + 1]
  IN [rev |-> rv.rev, aes |-> rv.aes, layout |-> Layouts[((k \div 6) % 3) + 1], flate |-> (k \div 3) % 2 = 0,
      encMeta |-> rv.rev < 4 \/ (k \div 4) % 2 = 0, user |-> pr.u, owner |-> pr.o, p |-> Ps[((k \div 5) % 4) + 1]]
Wrong(o) == <<35, 120>> \o o.user
\* revision 6 files whose user password puts Algorithm 2.B exactly on its termination boundary for the validation salt
\* of EncWriter (found by the driver with the primitives; $BOUNDARY: one JSON line {"pw": [bytes]} each)
Boundary == IF "BOUNDARY" \in DOMAIN IOEnv THEN ndJsonDeserialize(IOEnv.BOUNDARY) ELSE <<>>
BoundaryOpt(i) == [rev |-> 6, aes |-> TRUE, layout |-> IF i % 2 = 1 THEN "table" ELSE "objstm", flate |-> TRUE, encMeta |-> TRUE,
                   user |-> Boundary[i].pw, owner |-> <<111, 119, 110, 101, 114>>, p |-> 0 - 3904]
VARIABLE done
Init == done = FALSE
Next == /\ ~done
        /\ \A j \in 0..(Count - 1) :
             LET o == Opt(j * Stride) IN
             PrintT(<<"REPLAY", ToJson([opt |-> o, bytes |-> BuildFile(o), user |-> o.user, owner |-> o.owner, wrong |-> Wrong(o), markers |-> Markers(o)])>>)
        /\ \A i \in 1..Len(Boundary) :
             LET o == BoundaryOpt(i) IN
             PrintT(<<"REPLAY", ToJson([opt |-> o, bytes |-> BuildFile(o), user |-> o.user, owner |-> o.owner, wrong |-> Wrong(o), markers |-> Markers(o)])>>)
        /\ done' = TRUE
Spec == Init /\ [][Next]_done
=============================================================================
