---------------------------- MODULE FaultGrammar ----------------------------
(* C01: the grammar of hostile inputs and what a reader owes them.

   A CASE is a base file (a valid PDF of known structure) with one or more FAULTS injected, or plain random bytes.
   The bases come with their NUMERIC SLOTS: every number token a reader will interpret - cross-reference subsection
   starts and counts, entry offsets and generations, startxref, object headers, /Size /Prev /W /Index /N /First
   /Length, predictor and image parameters, /Rotate /Count, operands of content operators - plus octal escapes, hex
   strings and ASCII85 groups, each labelled with its class.

     Slot(i, v)            slot i of the base is overwritten with the boundary literal v of its class
     Structural(k, at, n)  truncate / delete / duplicate / zero / 0xFF / bit-flip n bytes at at/64 of the file
     Keyword(a, b, occ)    the occ-th structural keyword a is replaced by b
     Random(n, len, hdr)   len pseudo-random bytes (seeded by n), optionally behind a %PDF header
     Ref(site, to)         the site-th indirect reference of the base retargeted: to the object that holds it, or to the first
                           catalog / page-tree node / page / font / stream of the file (cycles and objects of the wrong kind)
     Bomb(name)            a file of a few KB that declares much: 100 000 unbalanced q, a /Kids array naming one page
                           200 000 times under /Count 2 000 000 000, an object stream announcing 10^8 members, a TJ array
                           of a million elements, 48 MB of content behind 48 KB of zlib, a cross-reference stream of two
                           million free entries behind 10 KB; or whose structure asks for unbounded work: a composite
                           font that is its own descendant, a page-tree node that is its own kid, a form XObject that paints
                           itself ten times, 200 000 closing brackets in a marked-content property list, 400 000 usecmap operators,
                           a /Length of 2^62 on a dictionary that does not parse, CCITT geometry of 4 GB over no data, a 100 KB
                           ToUnicode destination shown a million times, one 10 MB content stream named 100 000 times, an object stream whose
                           20 000 header pairs all name one 100 000-element array, a linearization dictionary announcing 2^32 - 1 pages over no page tree
     Run(place, filler, n) a small valid file with a run of n copies of a token every reader skips (a comment, a blank, a
                           line end, a NUL or form feed, a stray delimiter, a control or Latin-1 byte tolerated in lenient modes) at one syntactic place: between an object header and its value, inside a
                           dictionary or an array, before endobj, between objects, in the cross-reference table, around
                           the trailer keyword, after startxref, in a content stream, before the header, after %%EOF
     Tail(s, v)            the last bytes of unfiltered content stream s overwritten by the cut-short token v
     XrefCut(n, pad)       the startxref block moved in front of the cross-reference section it names (its offset follows
                           the move) and that section cut after n lines, followed by nothing, blank lines or comments: a
                           valid pointer leads the reader into a section that ends with the file
     Body(o, v)            the body of non-stream object o replaced: a reference to itself / to the next object,
                           nesting 3000 deep, a scalar, a dictionary whose /Kids is an indirect reference

   What the reader owes every case, under every strictness preset (Robust): an answer that is a VALUE or an ERROR -
   never a panic, an abort, a stack overflow - within a processor-time budget and a memory budget that do not depend
   on the numbers written in the file.                                                                          *)
EXTENDS Naturals, Sequences, FiniteSets, TLC

Boundary == << "-1", "0", "1", "2", "7", "8", "9", "16", "17", "32", "33", "255", "256", "65535", "65536", "16777216",
               "2147483647", "2147483648", "4294967295", "4294967296", "9223372036854775807", "9223372036854775808",
               "18446744073709551615", "18446744073709551616", "340282366920938463463374607431768211456",
               "-2147483648", "-2147483649", "-9223372036854775808", "-9223372036854775809", "-4294967296",
               "0.5", "-0.0", "1e5", "00000000000000000000001", "+5", ".", "-" >>
OctalVals == << "0", "7", "8", "377", "400", "777", "0000" >>
HexVals == << "", "0", "G", "FFFFFFFFFFFFFFFFFFFFFFFF", "4 8", "48656C6C6F0" >>
A85Vals == << "s8W-!", "s8W-\"", "uuuuu", "zzzzz", "!!!!!", "~>~>~", "s8W-z", "s8W" >>
ValuesFor(class) == CASE class = "octal" -> OctalVals [] class = "hexstring" -> HexVals [] class = "a85group" -> A85Vals [] OTHER -> Boundary
InSeq(x, s) == \E i \in 1..Len(s) : s[i] = x

StructKinds == {"truncate", "delete", "dup", "zero", "ff", "flip"}
Lens == {1, 7, 64}
Keywords == << <<"endobj", "endobx">>, <<"obj", "obk">>, <<"endstream", "endstrean">>, <<"stream", "strean">>, <<"xref", "xrez">>, <<"trailer", "trailex">>,
              <<"startxref", "startxrez">>, <<"%%EOF", "%%EOG">>, <<">>", "> ">>, <<"<<", "< ">>, <<" R", " Q">>, <<"[", " ">>, <<"]", " ">>, <<"(", " ">>, <<")", " ">>,
              <<"/Type", "/Typo">>, <<"/Kids", "/Kidz">>, <<"/Pages", "/Pagez">>, <<"/Root", "/Roox">>, <<"/Length", "/Lengtx">>, <<"/Filter", "/Filtex">> >>
\* hostile endings of a content stream: tokens cut short at the last byte
ContentTails == << "/Span#4", "/A#", "/A#4G", "(abc", "(a\\", "(\\1", "<4", "<", "[1 2", " BT", " /", " 1.", " -", "<<", "<</A", " ID ", "BI /W 1 ID x", " 0 0 m", "%c", "'", "\"" >>
\* what may stand where an object's body should be: references that lead nowhere or in circles, nesting beyond any stack, scalars
BodyVals == << "self", "next", "deep", "deepdict", "null", "[ ]", "<< >>", "42", "(s)", "/N", "true", "99 0 R", "[ 1 0 R 1 0 R ]", "<< /Kids 2 0 R >>" >>
\* small files that ask for much (built by the harness): counts, sizes and nesting far beyond what the bytes can back
BombNames == << "font_ring", "font_ring2", "pages_ring", "bdc_brackets", "bdc_nested", "form_ring", "usecmap_run", "length_recon", "ccitt_columns", "ccitt_rows", "objstm_repeat", "linearized_n",
                "tounicode_expansion", "contents_repeat",
                "deep_q", "wide_kids", "objstm_n", "huge_tj", "flate_content", "xref_entries" >>
\* what an indirect reference may be turned to: the object that holds it, or the first object of a kind
RefTargets == << "self", "catalog", "pages", "page", "font", "stream" >>
RunPlaces == << "before_header", "content", "dict_inside", "dict_value", "array_inside", "before_stream_kw", "between_objs", "obj_before_value", "before_endobj",
               "xref_after_kw", "xref_between_entries", "before_trailer_kw", "before_trailer_dict", "after_startxref_kw", "before_eof", "after_eof" >>
RunFillers == << "comment", "commentcr", "space", "nl", "crlf", "nul", "ff", "semicolon", "rparen", "lbrace", "rbrace", "latin1", "bell", "c1" >>
RunLengths == {4000, 200000}
Presets == {"strict", "default", "tolerant", "lenient", "skip_errors"}

\* a fault is well-formed for a base b = [name, nslots, classes (seq of class names, one per slot)]
WellFormed(b, f) ==
  CASE f.k = "slot" -> f.slot \in 0..(b.nslots - 1) /\ InSeq(f.val, ValuesFor(b.classes[f.slot + 1]))
    [] f.k \in StructKinds -> f.at \in 0..63 /\ (f.k = "truncate" \/ f.len \in Lens)
    [] f.k = "keyword" -> \E i \in 1..Len(Keywords) : Keywords[i] = <<f.from, f.to>>
    [] f.k = "random" -> f.len \in 0..4096
    [] f.k = "bomb" -> InSeq(f.name, BombNames)
    [] f.k = "ref" -> b.nrefs > 0 /\ f.site \in 0..(b.nrefs - 1) /\ InSeq(f.to, RefTargets)
    [] f.k = "tail" -> b.ntails > 0 /\ f.stream \in 0..(b.ntails - 1) /\ InSeq(f.val, ContentTails)
    [] f.k = "run" -> InSeq(f.place, RunPlaces) /\ InSeq(f.filler, RunFillers) /\ f.n \in RunLengths
    [] f.k = "xrefcut" -> f.lines \in 0..12 /\ f.pad \in {"none", "blank", "comment"}
    [] f.k = "body" -> b.nbodies > 0 /\ f.obj \in 0..(b.nbodies - 1) /\ InSeq(f.val, BodyVals)
    [] OTHER -> FALSE

\* the reader's obligation
Answers == {"ok", "err"}
CpuBudgetMs == 60000                         \* of an unoptimised build with overflow checks, for inputs of a few KB
MemBudgetKb(len) == 1048576 + 64 * len       \* 1 GB plus a constant factor of the input
Robust(ev) == /\ \A p \in Presets : p \in DOMAIN ev.outcomes /\ ev.outcomes[p] \in Answers
              /\ ev.cpu_ms <= CpuBudgetMs
              /\ ev.peak_kb <= MemBudgetKb(ev.len)

(* The design as a state machine: faults accumulate on a base, the reader answers.  TLC checks that the reader's
   obligation is satisfiable for every reachable input (the budget does not shrink with the faults) - the binding to
   the code is RobustTrace. *)
CONSTANTS MaxFaults
VARIABLES nfaults, answered
Init == nfaults = 0 /\ answered = FALSE
Inject == ~answered /\ nfaults < MaxFaults /\ nfaults' = nfaults + 1 /\ UNCHANGED answered
Read == ~answered /\ answered' = TRUE /\ UNCHANGED nfaults
Reset == answered /\ nfaults' = 0 /\ answered' = FALSE
Next == Inject \/ Read \/ Reset
Spec == Init /\ [][Next]_<<nfaults, answered>>
TypeOK == nfaults \in 0..MaxFaults /\ answered \in BOOLEAN
=============================================================================
