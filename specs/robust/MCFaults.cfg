SPECIFICATION MCSpec
CHECK_DEADLOCK FALSE
CONSTANTS
  MaxFaults = 2
  Stride = 7
  Pairs = 40
  Randoms = 60
  NBombs = 17
  RefStride = 1
