SPECIFICATION MCSpec
CHECK_DEADLOCK FALSE
CONSTANTS
  MaxFaults = 2
  Stride = 5
  Pairs = 40
  Randoms = 60
  NBombs = 3
