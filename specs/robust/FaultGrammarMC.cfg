SPECIFICATION Spec
INVARIANT TypeOK
CONSTANTS
  MaxFaults = 3
