----------------------------- MODULE RobustTrace -----------------------------
(* B2 for C01: every recorded case is a case of the grammar, and the reader met its obligation on it.

     base    a base file: name, number of slots, their classes
     case    the faults injected, the answer under each preset ("ok" | "err" | "panic" | "abort" | "timeout"),
             processor time and peak live memory of the worst preset                                       *)
EXTENDS FaultGrammar, TraceLib

VARIABLES l, bases
tvars == <<l, bases, nfaults, answered>>
IsEvent(e) == l <= NRec /\ Rec[l].ev = e /\ l' = l + 1
TInit == l = 1 /\ bases = <<>> /\ Init
TBase == /\ IsEvent("base")
         /\ bases' = Append(bases, [name |-> Rec[l].name, nslots |-> Rec[l].nslots, classes |-> Rec[l].classes, ntails |-> Rec[l].ntails, nbodies |-> Rec[l].nbodies, nrefs |-> Rec[l].nrefs])
         /\ UNCHANGED <<nfaults, answered>>
BaseOf(name) == LET S == {i \in 1..Len(bases) : bases[i].name = name} IN bases[CHOOSE i \in S : TRUE]
Problems(ev) ==
  {"answer under preset " \o p \o " is " \o ev.outcomes[p] : p \in {q \in Presets : q \in DOMAIN ev.outcomes /\ ev.outcomes[q] \notin Answers}}
  \cup (IF ev.cpu_ms > CpuBudgetMs THEN {"processor time beyond the budget"} ELSE {})
  \cup (IF ev.peak_kb > MemBudgetKb(ev.len) THEN {"live memory beyond the budget"} ELSE {})
TCase == /\ IsEvent("case")
         /\ \E i \in 1..Len(bases) : bases[i].name = Rec[l].base
         /\ Len(Rec[l].faults) \in 1..MaxFaults
         /\ \A i \in 1..Len(Rec[l].faults) : WellFormed(BaseOf(Rec[l].base), Rec[l].faults[i])
         /\ IF Robust(Rec[l]) THEN TRUE ELSE PrintT(<<"PROBLEMS", ToJson([idx |-> l, problems |-> Problems(Rec[l])])>>) /\ FALSE
         /\ nfaults' = 0 /\ answered' = FALSE
         /\ UNCHANGED bases
TNext == TBase \/ TCase
TraceSpec == TInit /\ [][TNext]_tvars
Prog == Progress(l)
=============================================================================
