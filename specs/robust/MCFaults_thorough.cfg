SPECIFICATION MCSpec
CHECK_DEADLOCK FALSE
CONSTANTS
  MaxFaults = 2
  Stride = 1
  Pairs = 600
  Randoms = 600
  NBombs = 20
  RefStride = 1
