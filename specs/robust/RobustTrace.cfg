SPECIFICATION TraceSpec
CONSTRAINT Prog
POSTCONDITION Accepted
CHECK_DEADLOCK FALSE
CONSTANTS
  MaxFaults = 2
