------------------------------ MODULE MCFaults ------------------------------
(* B1 generator for C01: enumerates the cases of FaultGrammar over the bases the harness described ($BASES: one JSON
   line per base with its slot classes).  Stride thins the slot x value product deterministically; Pairs adds
   two-fault cases (two slots of one base); Randoms random-byte cases.                                          *)
EXTENDS FaultGrammar, Json, IOUtils

CONSTANTS Stride, Pairs, Randoms, NBombs, RefStride
BaseRecs == ndJsonDeserialize(IOEnv.BASES)
B(i) == [name |-> BaseRecs[i].name, nslots |-> BaseRecs[i].nslots, classes |-> BaseRecs[i].classes, ntails |-> BaseRecs[i].ntails, nbodies |-> BaseRecs[i].nbodies, nrefs |-> BaseRecs[i].nrefs]
Emit(b, fs) == PrintT(<<"REPLAY", ToJson([base |-> b.name, faults |-> fs])>>)
SlotF(i, v) == [k |-> "slot", slot |-> i, val |-> v]
SlotCases(b, bi) ==
  \A i \in 0..(b.nslots - 1) : LET vs == ValuesFor(b.classes[i + 1]) IN
    \A j \in 1..Len(vs) : ((i * 41 + j * 7 + bi) % Stride = 0) => (WellFormed(b, SlotF(i, vs[j])) /\ Emit(b, <<SlotF(i, vs[j])>>))
StructCases(b, bi) ==
  \A k \in StructKinds : \A at \in 0..63 : \A n \in Lens :
     ((at + n + bi) % Stride = 0 /\ (k # "truncate" \/ n = 1)) => Emit(b, <<[k |-> k, at |-> at, len |-> n]>>)
KeywordCases(b, bi) ==
  \A i \in 1..Len(Keywords) : \A occ \in 0..3 : ((i + occ + bi) % Stride = 0) => Emit(b, <<[k |-> "keyword", from |-> Keywords[i][1], to |-> Keywords[i][2], occ |-> occ]>>)
PairCases(b, bi) ==
  \A p \in 1..Pairs : LET i == (p * 37 + bi * 11) % b.nslots  j == (p * 101 + 13) % b.nslots
                          vi == ValuesFor(b.classes[i + 1]) vj == ValuesFor(b.classes[j + 1]) IN
                      i # j => Emit(b, <<SlotF(i, vi[(p % Len(vi)) + 1]), SlotF(j, vj[((p \div 3) % Len(vj)) + 1])>>)
\* tails and bodies are few: all of them in every tier
TailCases(b) == \A s \in 0..(b.ntails - 1) : \A j \in 1..Len(ContentTails) : Emit(b, <<[k |-> "tail", stream |-> s, val |-> ContentTails[j]]>>)
BodyCases(b) == \A o \in 0..(b.nbodies - 1) : \A j \in 1..Len(BodyVals) : Emit(b, <<[k |-> "body", obj |-> o, val |-> BodyVals[j]]>>)
\* few: all of them in every tier
XrefCutCases(b) == \A n \in 0..12 : \A pad \in {"none", "blank", "comment"} :
                     LET f == [k |-> "xrefcut", lines |-> n, pad |-> pad] IN WellFormed(b, f) /\ Emit(b, <<f>>)
RefCases(b, bi) == \A i \in 0..(b.nrefs - 1) : \A t \in 1..Len(RefTargets) :
                     ((i * 5 + t + bi) % RefStride = 0) => (LET f == [k |-> "ref", site |-> i, to |-> RefTargets[t]] IN WellFormed(b, f) /\ Emit(b, <<f>>))
RunCases(b) == \A i \in 1..Len(RunPlaces) : \A j \in 1..Len(RunFillers) : \A n \in RunLengths :
                 LET f == [k |-> "run", place |-> RunPlaces[i], filler |-> RunFillers[j], n |-> n] IN WellFormed(b, f) /\ Emit(b, <<f>>)
RandomCases(b) == \A n \in 1..Randoms : Emit(b, <<[k |-> "random", n |-> n, len |-> (n * 97) % 2048, header |-> n % 2 = 0]>>)

VARIABLE done
MCInit == done = FALSE /\ Init
MCNext == /\ ~done
          /\ \A bi \in 1..Len(BaseRecs) : LET b == B(bi) IN SlotCases(b, bi) /\ StructCases(b, bi) /\ KeywordCases(b, bi) /\ PairCases(b, bi) /\ TailCases(b) /\ BodyCases(b) /\ XrefCutCases(b) /\ RefCases(b, bi)
          /\ RandomCases(B(1)) /\ RunCases(B(1))
          /\ \A i \in 1..NBombs : Emit(B(1), <<[k |-> "bomb", name |-> BombNames[i]]>>)
          /\ done' = TRUE /\ UNCHANGED <<nfaults, answered>>
MCSpec == MCInit /\ [][MCNext]_<<done, nfaults, answered>>
=============================================================================
