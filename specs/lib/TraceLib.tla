---------------------------- MODULE TraceLib ----------------------------
(* Shared trace-acceptance idiom for every *Trace module (DESIGN A.7).

   Rec        the recorded execution: one JSON object per line of $TRACE.
   Progress   used as a CONSTRAINT: remembers the highest trace position reached (register 1),
              so acceptance also works when the trace spec takes silent steps.
   Accepted   used as POSTCONDITION: every line was consumed by some behaviour of the spec;
              otherwise prints <<"REJECT", json>> naming the first event nobody could match.
   Run with -workers 1 (the register is per worker).                                         *)
EXTENDS Naturals, Sequences, TLC, Json, IOUtils

Rec == ndJsonDeserialize(IOEnv.TRACE)
NRec == Len(Rec)

ASSUME TLCSet(1, 1)

(* Named deviations.  A trace module may contain an action that accepts what the code is KNOWN to do
   wrong (a genuine defect recorded in /verif/known_findings.json).  Such an action is enabled only
   when the driver exports the finding's variable (it does so only for findings listed as open), and
   it prints <<"KNOWN", json>> so that every use is counted and reported as KNOWN-FINDING.         *)
KnownOpen(id) == id \in DOMAIN IOEnv /\ IOEnv[id] = "1"
NoteKnown(id, l) == PrintT(<<"KNOWN", ToJson([id |-> id, idx |-> l])>>)

Progress(l) == IF TLCGet(1) < l THEN TLCSet(1, l) ELSE TRUE

Accepted ==
  IF TLCGet(1) = NRec + 1 THEN TRUE
  ELSE /\ PrintT(<<"REJECT", ToJson([idx |-> TLCGet(1), event |-> Rec[TLCGet(1)]])>>)
       /\ FALSE
=============================================================================
