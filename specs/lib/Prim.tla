------------------------------- MODULE Prim -------------------------------
(* Third-party primitives (DESIGN 1.1).  zlib, MD5, SHA-2 and the AES block function are not oxidizePdf code;
   the specifications call an independent implementation of each (python hashlib/zlib, openssl CLI) through
   IOExec and keep everything oxidizePdf owns - which bytes go in, how often, in which order - in TLA+.

   $VERIF_PRIM is the helper (bin/prim), $VERIF_WORK a scratch directory; run TLC with -workers 1 when a
   specification uses these (one result file).                                                          *)
EXTENDS Naturals, Sequences, TLC, Json, IOUtils

PrimOut == IOEnv.VERIF_WORK \o "/prim_out.json"

PrimIn == IOEnv.VERIF_WORK \o "/prim_in.json"
\* arguments travel on the command line; long ones (a single argument is limited to 128 KB) through a file
PrimCall(op, args) ==
  LET js == ToJson(args)
      r == IF Len(js) < 60000 THEN IOExec(<<IOEnv.VERIF_PRIM, op, js, PrimOut>>)
           ELSE IF JsonSerialize(PrimIn, args) THEN IOExec(<<IOEnv.VERIF_PRIM, op, "@" \o PrimIn, PrimOut>>)
           ELSE Assert(FALSE, <<"cannot write", PrimIn>>)
  IN IF r.exitValue = 0 THEN JsonDeserialize(PrimOut)
     ELSE Assert(FALSE, <<"primitive failed", op, r.stderr>>)

Deflate(bytes) == PrimCall("deflate", <<bytes>>)
InflateR(bytes) == PrimCall("inflate", <<bytes>>)          \* [ok, out]
Inflate(bytes) == InflateR(bytes).out
\* rows (by 0-based index, `rowlen` bytes each) of a zlib stream - or of the bytes themselves when ~z: [ok, total, rows]
InflateRows(bytes, rowlen, indices, z) == PrimCall("inflate-rows", <<bytes, rowlen, indices, z>>)
\* a file read piecewise (fonts): bytes [off, off + len), its length, the sfnt checksum of a range (four bytes)
FileSlice(path, off, len) == PrimCall("slice", <<path, off, len>>)
FileLen(path) == PrimCall("filelen", <<path>>)
FileSum32(path, off, len) == PrimCall("sum32", <<path, off, len>>)
CRC32(bytes)   == PrimCall("crc32", <<bytes>>)       \* four big-endian bytes
MD5(bytes)     == PrimCall("md5", <<bytes>>)
\* MD5 applied `times` times, each time to the first n bytes of the previous value (the loop itself, nothing else)
MD5Times(bytes, times, n) == IF times = 0 THEN bytes ELSE PrimCall("md5-times", <<bytes, times, n>>)
SHA256(bytes)  == PrimCall("sha256", <<bytes>>)
SHA384(bytes)  == PrimCall("sha384", <<bytes>>)
SHA512(bytes)  == PrimCall("sha512", <<bytes>>)
AesEcbEnc(key, blocks) == PrimCall("aes-ecb-enc", <<key, blocks>>)
AesEcbDec(key, blocks) == PrimCall("aes-ecb-dec", <<key, blocks>>)
AesCbcEncNoPad(key, iv, bytes) == PrimCall("aes-cbc-enc-nopad", <<key, iv, bytes>>)
AesCbcDecNoPad(key, iv, bytes) == PrimCall("aes-cbc-dec-nopad", <<key, iv, bytes>>)
\* AES-CBC (no padding) of `unit` repeated `reps` times; the ciphertext stays with the helper under `tag`, only
\* [head (first 16 bytes), last (last byte), len] come back; ShaBuf hashes that buffer
AesCbcRep(key, iv, unit, reps, tag) == PrimCall("aes-cbc-rep", <<key, iv, unit, reps, tag>>)
ShaBuf(alg, tag) == PrimCall("sha-buf", <<alg, tag>>)
=============================================================================
