CONSTANTS
  N = 2
  AllowUserCancel = TRUE
  W = 2
SPECIFICATION Spec
INVARIANTS OneResultEach CountsMatch RunsAtMostOnce StopOnError StopOnErrorFinal ResultsTruthful Channels Emit
PROPERTY Terminates
CHECK_DEADLOCK FALSE
