---------------------------- MODULE LruLinTrace ----------------------------
(* B2 for C29, concurrent: invoke/return events of real threads on one ObjectCache, ordered by a
   global sequence number (taken before the call starts / after it returns).  TLC searches for the
   linearization points: Linearize(t) is a silent step between a thread's inv and ret events.      *)
EXTENDS LruLin, TraceLib

VARIABLE l
tvars == <<lvars, l>>

IsEvent(e) == l <= NRec /\ Rec[l].ev = e /\ l' = l + 1

TInit == /\ l = 1
         /\ order = <<>> /\ map = EmptyMap /\ cap = 0 /\ ret = None /\ op = "new"
         /\ lastPut = [k \in Keys |-> None]
         /\ pend = [t \in Threads |-> Idle]

TReset == /\ IsEvent("reset")
          /\ \A t \in Threads : pend[t] = Idle
          /\ order' = <<>> /\ map' = EmptyMap /\ cap' = Rec[l].cap /\ ret' = None /\ op' = "new"
          /\ lastPut' = [k \in Keys |-> None]
          /\ UNCHANGED pend

TInvoke == /\ IsEvent("inv")
           /\ Invoke(Rec[l].t, Rec[l].op, Rec[l].k, Rec[l].v)

TLin == /\ \E t \in Threads : Linearize(t)
        /\ UNCHANGED l

TReturn == /\ IsEvent("ret")
           /\ Return(Rec[l].t)
           /\ pend[Rec[l].t].res = Rec[l].ret

TEnd == /\ IsEvent("end")
        /\ \A t \in Threads : pend[t] = Idle
        /\ Len(order) = Rec[l].size
        /\ cap = Rec[l].capacity
        /\ UNCHANGED lvars

\* the state left behind by an unlogged concurrent history (writers evicting while readers hit): whatever
\* happened, it is a reachable state of Lru, hence Bounded - no more entries than the capacity
TStress == /\ IsEvent("stress")
           /\ Rec[l].capacity = Rec[l].cap
           /\ Rec[l].size <= Rec[l].cap /\ Rec[l].present <= Rec[l].cap
           /\ UNCHANGED lvars

TNext == TReset \/ TInvoke \/ TLin \/ TReturn \/ TEnd \/ TStress

TraceSpec == TInit /\ [][TNext]_tvars

Prog == Progress(l)
=============================================================================
