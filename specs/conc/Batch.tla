------------------------------- MODULE Batch -------------------------------
(* C22 - batch processing reports every job exactly once under any schedule.

   The worker pool of oxidize_pdf::batch, one action per critical section:

     dispatcher (the calling thread)   DCheck  -> DSend ... DClose -> DJoined -> Summarize
     W workers sharing one job channel WRecvJob / WRecvClosed, then the job wrapper on that worker:
                                       JStart -> JLoad -> [JOpBegin -> JOpEnd] -> {JProgress, JSend, JStore}* -> JDone
     result collector                  CRecv

   Shared state: the cancel flag, the job channel, the result channel, the progress counters.
   A user operation either succeeds, returns an error or panics; a panic is contained by the job
   wrapper and counts as a failure of that job (it must not take the worker or the result with it).

   "Failure recorded" (stop-on-error) is the store to the shared cancel flag: JStore.  A failed job
   may perform its three closing steps in any order but has recorded the failure before it is done. *)
EXTENDS Naturals, Sequences, FiniteSets

CONSTANTS N,      \* jobs are 1..N, in submission order
          W,      \* workers are 1..W
          AllowUserCancel   \* whether the user may set the cancel flag while the batch runs

Jobs == 1..N
Workers == 1..W

VARIABLES
  outcome,        \* [Jobs -> {"ok", "err", "panic"}] what the user's operation does when it is run
  stopOnError,    \* BOOLEAN, option of the batch
  cancel,         \* the shared cancel flag
  di, dpc,        \* dispatcher: next job to consider, program counter
  queue,          \* job channel (sequence of jobs)
  chanOpen,       \* the dispatcher still holds the sending end of the job channel
  wst, wjob,      \* worker state "idle" | "busy" | "exited", and the job it holds (0: none)
  jst,            \* [Jobs -> "new" | "cancelled" | "queued" | "taken" | "started" | "loaded" | "running" | "post" | "finished"]
  jres,           \* [Jobs -> "none" | "ok" | "fail" | "cancelled"]  verdict of the job wrapper
  todo,           \* [Jobs -> SUBSET {"progress", "send"}] closing steps still to do
  running, completed, failed,   \* progress counters
  resq,           \* result channel: sequence of [job, kind]
  senders,        \* live sending ends of the result channel
  results,        \* [Jobs -> "none" | "ok" | "fail" | "cancelled"] the collector's table
  summary,        \* NoSummary or the record returned to the caller
  \* history variables (not implementation state)
  opRuns,         \* [Jobs -> Nat] how often the user's operation was entered
  recorded,       \* a stop-on-error failure has been recorded in the flag
  startedAtRecord, \* the jobs that had started when the first failure was recorded
  preCancel       \* the user cancelled before execute()

vars == <<outcome, stopOnError, cancel, di, dpc, queue, chanOpen, wst, wjob, jst, jres, todo,
          running, completed, failed, resq, senders, results, summary, opRuns, recorded, startedAtRecord, preCancel>>

NoSummary == [total |-> 0]

Started(j) == jst[j] \in {"started", "loaded", "running", "post", "finished"}

Init == /\ outcome \in [Jobs -> {"ok", "err", "panic"}]
        /\ stopOnError \in BOOLEAN
        /\ cancel \in BOOLEAN               \* TRUE: the user called cancel() before execute()
        /\ preCancel = cancel
        /\ di = 1 /\ dpc = "check"
        /\ queue = <<>> /\ chanOpen = TRUE
        /\ wst = [w \in Workers |-> "idle"] /\ wjob = [w \in Workers |-> 0]
        /\ jst = [j \in Jobs |-> "new"] /\ jres = [j \in Jobs |-> "none"] /\ todo = [j \in Jobs |-> {}]
        /\ running = 0 /\ completed = 0 /\ failed = 0
        /\ resq = <<>> /\ senders = 1 /\ results = [j \in Jobs |-> "none"]
        /\ summary = NoSummary
        /\ opRuns = [j \in Jobs |-> 0] /\ recorded = FALSE /\ startedAtRecord = {}

(* ------------------------------- dispatcher ------------------------------- *)
\* look at the flag; a cancelled batch reports the job as cancelled instead of enqueueing it
DCheck == /\ dpc = "check" /\ di <= N
          /\ IF cancel
             THEN /\ resq' = Append(resq, [job |-> di, kind |-> "cancelled"])
                  /\ jst' = [jst EXCEPT ![di] = "cancelled"]
                  /\ di' = di + 1
                  /\ UNCHANGED dpc
             ELSE /\ dpc' = "send"
                  /\ UNCHANGED <<resq, jst, di>>
          /\ UNCHANGED <<outcome, stopOnError, cancel, queue, chanOpen, wst, wjob, jres, todo, running, completed,
                         failed, senders, results, summary, opRuns, recorded, startedAtRecord, preCancel>>

\* enqueue the wrapped job; the wrapper owns one sending end of the result channel
DSend == /\ dpc = "send"
         /\ queue' = Append(queue, di)
         /\ jst' = [jst EXCEPT ![di] = "queued"]
         /\ senders' = senders + 1
         /\ di' = di + 1
         /\ dpc' = "check"
         /\ UNCHANGED <<outcome, stopOnError, cancel, chanOpen, wst, wjob, jres, todo, running, completed, failed,
                        resq, results, summary, opRuns, recorded, startedAtRecord, preCancel>>

\* drop both sending ends held by the dispatcher
DClose == /\ dpc = "check" /\ di = N + 1
          /\ chanOpen' = FALSE
          /\ senders' = senders - 1
          /\ dpc' = "joining"
          /\ UNCHANGED <<outcome, stopOnError, cancel, di, queue, wst, wjob, jst, jres, todo, running, completed,
                         failed, resq, results, summary, opRuns, recorded, startedAtRecord, preCancel>>

DJoined == /\ dpc = "joining"
           /\ \A w \in Workers : wst[w] = "exited"
           /\ dpc' = "joined"
           /\ UNCHANGED <<outcome, stopOnError, cancel, di, queue, chanOpen, wst, wjob, jst, jres, todo, running,
                          completed, failed, resq, senders, results, summary, opRuns, recorded, startedAtRecord, preCancel>>

Count(kind) == Cardinality({j \in Jobs : results[j] = kind})

\* the collector has drained the result channel (every sending end is gone); build the summary:
\* one entry per slot the collector filled, in job order
Summarize == /\ dpc = "joined"
             /\ resq = <<>> /\ senders = 0
             /\ summary' = [total |-> N,
                            results |-> [j \in Jobs |-> results[j]],
                            successful |-> Count("ok"),
                            failed |-> Count("fail"),
                            running |-> running, completed |-> completed, failedJobs |-> failed]
             /\ dpc' = "done"
             /\ UNCHANGED <<outcome, stopOnError, cancel, di, queue, chanOpen, wst, wjob, jst, jres, todo, running,
                            completed, failed, resq, senders, results, opRuns, recorded, startedAtRecord, preCancel>>

(* --------------------------------- workers --------------------------------- *)
WRecvJob(w) == /\ wst[w] = "idle" /\ queue # <<>>
               /\ wjob' = [wjob EXCEPT ![w] = Head(queue)]
               /\ queue' = Tail(queue)
               /\ wst' = [wst EXCEPT ![w] = "busy"]
               /\ jst' = [jst EXCEPT ![Head(queue)] = "taken"]
               /\ UNCHANGED <<outcome, stopOnError, cancel, di, dpc, chanOpen, jres, todo, running, completed, failed,
                              resq, senders, results, summary, opRuns, recorded, startedAtRecord, preCancel>>

WRecvClosed(w) == /\ wst[w] = "idle" /\ queue = <<>> /\ ~chanOpen
                  /\ wst' = [wst EXCEPT ![w] = "exited"]
                  /\ UNCHANGED <<outcome, stopOnError, cancel, di, dpc, queue, chanOpen, wjob, jst, jres, todo, running,
                                 completed, failed, resq, senders, results, summary, opRuns, recorded, startedAtRecord, preCancel>>

(* ---------------------- the job wrapper, on the worker ---------------------- *)
JStart(j) == /\ jst[j] = "taken"
             /\ jst' = [jst EXCEPT ![j] = "started"]
             /\ running' = running + 1
             /\ UNCHANGED <<outcome, stopOnError, cancel, di, dpc, queue, chanOpen, wst, wjob, jres, todo, completed,
                            failed, resq, senders, results, summary, opRuns, recorded, startedAtRecord, preCancel>>

\* read the flag after having started; a cancelled batch skips the operation and the job is cancelled
JLoad(j) == /\ jst[j] = "started"
            /\ IF cancel
               THEN /\ jst' = [jst EXCEPT ![j] = "post"]
                    /\ jres' = [jres EXCEPT ![j] = "cancelled"]
                    /\ todo' = [todo EXCEPT ![j] = {"progress", "send"}]
               ELSE /\ jst' = [jst EXCEPT ![j] = "loaded"]
                    /\ UNCHANGED <<jres, todo>>
            /\ UNCHANGED <<outcome, stopOnError, cancel, di, dpc, queue, chanOpen, wst, wjob, running, completed, failed,
                           resq, senders, results, summary, opRuns, recorded, startedAtRecord, preCancel>>

JOpBegin(j) == /\ jst[j] = "loaded"
               /\ jst' = [jst EXCEPT ![j] = "running"]
               /\ opRuns' = [opRuns EXCEPT ![j] = @ + 1]
               /\ UNCHANGED <<outcome, stopOnError, cancel, di, dpc, queue, chanOpen, wst, wjob, jres, todo, running,
                              completed, failed, resq, senders, results, summary, recorded, startedAtRecord, preCancel>>

\* the operation returns (or its panic is contained)
JOpEnd(j) == /\ jst[j] = "running"
             /\ jst' = [jst EXCEPT ![j] = "post"]
             /\ jres' = [jres EXCEPT ![j] = IF outcome[j] = "ok" THEN "ok" ELSE "fail"]
             /\ todo' = [todo EXCEPT ![j] = {"progress", "send"}]
             /\ UNCHANGED <<outcome, stopOnError, cancel, di, dpc, queue, chanOpen, wst, wjob, running, completed, failed,
                            resq, senders, results, summary, opRuns, recorded, startedAtRecord, preCancel>>

JProgress(j) == /\ jst[j] = "post" /\ "progress" \in todo[j]
                /\ todo' = [todo EXCEPT ![j] = @ \ {"progress"}]
                /\ running' = running - 1
                /\ CASE jres[j] = "ok" -> completed' = completed + 1 /\ UNCHANGED failed
                     [] jres[j] = "fail" -> failed' = failed + 1 /\ UNCHANGED completed
                     [] OTHER -> UNCHANGED <<completed, failed>>        \* cancelled: neither
                /\ UNCHANGED <<outcome, stopOnError, cancel, di, dpc, queue, chanOpen, wst, wjob, jst, jres, resq,
                               senders, results, summary, opRuns, recorded, startedAtRecord, preCancel>>

JSend(j) == /\ jst[j] = "post" /\ "send" \in todo[j]
            /\ todo' = [todo EXCEPT ![j] = @ \ {"send"}]
            /\ resq' = Append(resq, [job |-> j, kind |-> jres[j]])
            /\ UNCHANGED <<outcome, stopOnError, cancel, di, dpc, queue, chanOpen, wst, wjob, jst, jres, running,
                           completed, failed, senders, results, summary, opRuns, recorded, startedAtRecord, preCancel>>

\* record the failure: from here on no job that has not started yet may run its operation
JStore(j) == /\ jst[j] = "post" /\ jres[j] = "fail" /\ stopOnError
             /\ cancel' = TRUE
             /\ UNCHANGED preCancel
             /\ IF recorded THEN UNCHANGED <<recorded, startedAtRecord>>
                ELSE /\ recorded' = TRUE
                     /\ startedAtRecord' = {k \in Jobs : Started(k)}
             /\ UNCHANGED <<outcome, stopOnError, di, dpc, queue, chanOpen, wst, wjob, jst, jres, todo, running,
                            completed, failed, resq, senders, results, summary, opRuns>>

\* the wrapper returns to the worker loop: its sending end is dropped, the worker is idle again
JDone(w) == /\ wst[w] = "busy"
            /\ LET j == wjob[w] IN
                 /\ jst[j] = "post" /\ todo[j] = {}
                 /\ (stopOnError /\ jres[j] = "fail") => cancel
                 /\ jst' = [jst EXCEPT ![j] = "finished"]
            /\ senders' = senders - 1
            /\ wst' = [wst EXCEPT ![w] = "idle"]
            /\ wjob' = [wjob EXCEPT ![w] = 0]
            /\ UNCHANGED <<outcome, stopOnError, cancel, di, dpc, queue, chanOpen, jres, todo, running, completed,
                           failed, resq, results, summary, opRuns, recorded, startedAtRecord, preCancel>>

(* -------------------------------- collector -------------------------------- *)
CRecv == /\ resq # <<>>
         /\ results' = [results EXCEPT ![Head(resq).job] = Head(resq).kind]
         /\ resq' = Tail(resq)
         /\ UNCHANGED <<outcome, stopOnError, cancel, di, dpc, queue, chanOpen, wst, wjob, jst, jres, todo, running,
                        completed, failed, senders, summary, opRuns, recorded, startedAtRecord, preCancel>>

\* the user cancels the batch (possible at any moment through the shared flag).  cancel() is a plain store of
\* TRUE: it may come after a stop-on-error failure (or an earlier cancel()) has already set the flag, and is then
\* a stuttering step - it is NOT disabled.  (A guard ~cancel here once made BatchTrace reject the legal execution
\* "job 1 fails and records, job 2 - already running - cancels": specs/conc/selftest/batch_cancel_after_store.ndjson.)
UserCancel == /\ AllowUserCancel
              /\ cancel' = TRUE
              /\ UNCHANGED <<outcome, stopOnError, di, dpc, queue, chanOpen, wst, wjob, jst, jres, todo, running,
                             completed, failed, resq, senders, results, summary, opRuns, recorded, startedAtRecord, preCancel>>

JobStep(j) == JStart(j) \/ JLoad(j) \/ JOpBegin(j) \/ JOpEnd(j) \/ JProgress(j) \/ JSend(j) \/ JStore(j)

Next == \/ DCheck \/ DSend \/ DClose \/ DJoined \/ Summarize
        \/ \E w \in Workers : WRecvJob(w) \/ WRecvClosed(w) \/ JDone(w)
        \/ \E j \in Jobs : JobStep(j)
        \/ CRecv
        \/ UserCancel

Fairness == /\ WF_vars(DCheck \/ DSend \/ DClose \/ DJoined \/ Summarize)
            /\ \A w \in Workers : WF_vars(WRecvJob(w) \/ WRecvClosed(w) \/ JDone(w))
            /\ \A j \in Jobs : WF_vars(JStart(j) \/ JLoad(j) \/ JOpBegin(j) \/ JOpEnd(j) \/ JProgress(j) \/ JSend(j))
            /\ \A j \in Jobs : WF_vars(JStore(j))
            /\ WF_vars(CRecv)

Spec == Init /\ [][Next]_vars /\ Fairness

-----------------------------------------------------------------------------
(* The properties of C22 *)
Done == dpc = "done"

\* exactly one result per submitted job, in submission order
OneResultEach == Done => \A j \in Jobs : summary.results[j] # "none"

\* the counts match the results, and the progress counters end consistent with them
CountsMatch == Done => /\ summary.successful = Cardinality({j \in Jobs : summary.results[j] = "ok"})
                       /\ summary.failed = Cardinality({j \in Jobs : summary.results[j] = "fail"})
                       /\ summary.running = 0
                       /\ summary.completed = summary.successful
                       /\ summary.failedJobs = summary.failed

RunsAtMostOnce == \A j \in Jobs : opRuns[j] <= 1

\* stop-on-error: a job that had not started when the first failure was recorded never enters its operation
StopOnError == stopOnError => \A j \in Jobs : (recorded /\ jst[j] = "running") => j \in startedAtRecord
StopOnErrorFinal == (Done /\ stopOnError /\ recorded) => \A j \in Jobs : opRuns[j] > 0 => j \in startedAtRecord

\* a result never reports success for an operation that was not run or did not succeed
ResultsTruthful == \A j \in Jobs : results[j] = "ok" => (opRuns[j] = 1 /\ outcome[j] = "ok")

Channels == /\ senders >= 0 /\ running >= 0
            /\ \A i \in 1..Len(queue) : jst[queue[i]] = "queued"

Terminates == <>Done
=============================================================================
