CONSTANTS
  Keys = {1,2,3,4}
  Vals = {1}
  MaxCap = 4
  None = 0
  Threads = {1,2,3,4}
SPECIFICATION TraceSpec
CONSTRAINT Prog
INVARIANT LinInv
POSTCONDITION Accepted
CHECK_DEADLOCK FALSE
