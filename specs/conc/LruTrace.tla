----------------------------- MODULE LruTrace -----------------------------
(* B2 for C29, sequential: a recorded execution of the real LruCache (one event per public call,
   logged at the call's return: arguments, result, len) must be a behaviour of Lru.             *)
EXTENDS Lru, TraceLib

VARIABLE l
tvars == <<vars, l>>

IsEvent(e) == l <= NRec /\ Rec[l].ev = e /\ l' = l + 1

TInit == /\ l = 1
         /\ order = <<>> /\ map = EmptyMap /\ cap = 0 /\ ret = None /\ op = "new"
         /\ lastPut = [k \in Keys |-> None]

TReset == /\ IsEvent("reset")
          /\ order' = <<>> /\ map' = EmptyMap /\ cap' = Rec[l].cap /\ ret' = None /\ op' = "new"
          /\ lastPut' = [k \in Keys |-> None]

TGet == /\ IsEvent("get")
        /\ Get(Rec[l].k)
        /\ ret' = Rec[l].ret
        /\ Len(order') = Rec[l].len

TPut == /\ IsEvent("put")
        /\ Put(Rec[l].k, Rec[l].v)
        /\ Len(order') = Rec[l].len

TClear == /\ IsEvent("clear")
          /\ Clear
          /\ Len(order') = Rec[l].len

TNext == TReset \/ TGet \/ TPut \/ TClear

TraceSpec == TInit /\ [][TNext]_tvars

Prog == Progress(l)
=============================================================================
