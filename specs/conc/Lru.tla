------------------------------- MODULE Lru -------------------------------
(* C29 - the object cache is a bounded least-recently-used map.

   Abstract state of oxidize_pdf::memory::LruCache<K,V>:
     order   keys, most recently used first
     map     key |-> value for the keys held
     cap     capacity (fixed at creation)
   One action per public call; `ret` / `op` record what the call returned.                    *)
EXTENDS Naturals, Sequences, FiniteSets, SequencesExt

CONSTANTS Keys, Vals, MaxCap, None

VARIABLES order, map, cap, ret, op, lastPut

vars == <<order, map, cap, ret, op, lastPut>>

EmptyMap == [x \in {} |-> None]
Without(s, k) == SelectSeq(s, LAMBDA x : x # k)

Init == /\ order = <<>>
        /\ map = EmptyMap
        /\ cap \in 0..MaxCap
        /\ ret = None
        /\ op = "new"
        /\ lastPut = [k \in Keys |-> None]

Get(k) == /\ op' = "get"
          /\ ret' = IF k \in DOMAIN map THEN map[k] ELSE None
          /\ order' = IF k \in DOMAIN map THEN <<k>> \o Without(order, k) ELSE order
          /\ UNCHANGED <<map, cap, lastPut>>

\* the key evicted by Put(k, _) from the current state, as a set (empty: nothing is evicted)
Victim(k) == IF k \notin DOMAIN map /\ Len(order) >= cap /\ Len(order) > 0
             THEN {order[Len(order)]} ELSE {}

Put(k, v) == /\ op' = "put"
             /\ ret' = None
             /\ lastPut' = [lastPut EXCEPT ![k] = v]
             /\ UNCHANGED cap
             /\ IF cap = 0
                THEN UNCHANGED <<order, map>>
                ELSE LET keep == ((DOMAIN map) \ Victim(k)) \cup {k}
                     IN /\ map' = [x \in keep |-> IF x = k THEN v ELSE map[x]]
                        /\ order' = <<k>> \o SelectSeq(order, LAMBDA x : x # k /\ x \notin Victim(k))

Clear == /\ op' = "clear"
         /\ ret' = None
         /\ order' = <<>>
         /\ map' = EmptyMap
         /\ UNCHANGED <<cap, lastPut>>

Next == \/ \E k \in Keys : Get(k)
        \/ \E k \in Keys, v \in Vals : Put(k, v)
        \/ Clear

Spec == Init /\ [][Next]_vars

----------------------------------------------------------------------------
(* The properties of C29 *)

\* never more entries than the capacity; order and map describe the same key set, no duplicates
Bounded == /\ Len(order) <= cap
           /\ ToSet(order) = DOMAIN map
           /\ Cardinality(ToSet(order)) = Len(order)

\* a key that is present holds the value most recently stored for it
LatestWins == \A k \in DOMAIN map : map[k] = lastPut[k]

\* a lookup returns exactly the held value (checked on the step that performed it)
GetReturnsHeld == [][op' = "get" => (ret' = None \/ \E k \in DOMAIN map : ret' = map[k])]_vars

\* entries only disappear through Clear or by evicting the least recently used key, one at a time,
\* and only when the cache is full and the key being stored is new
EvictsLRU == [][op' = "put" =>
                  LET gone == (DOMAIN map) \ (DOMAIN map')
                  IN /\ Cardinality(gone) <= 1
                     /\ \A g \in gone : /\ g = order[Len(order)]
                                        /\ Len(order) = cap
                                        /\ Cardinality((DOMAIN map') \ (DOMAIN map)) = 1]_vars

\* a stored key is present right after the store (when the cache can hold anything at all)
PutTakesEffect == [][op' = "put" /\ cap > 0 => order' # <<>> /\ map'[order'[1]] = lastPut'[order'[1]]]_vars
=============================================================================
