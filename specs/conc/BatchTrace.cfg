CONSTANTS
  N = 6
  W = 4
  AllowUserCancel = TRUE
SPECIFICATION TraceSpec
CONSTRAINT Prog
INVARIANT TraceInv
POSTCONDITION Accepted
CHECK_DEADLOCK FALSE
