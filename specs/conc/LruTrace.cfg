CONSTANTS
  Keys = {1,2,3,4,5,6,7,8}
  Vals = {1}
  MaxCap = 4
  None = 0
SPECIFICATION TraceSpec
CONSTRAINT Prog
INVARIANTS Bounded LatestWins
POSTCONDITION Accepted
CHECK_DEADLOCK FALSE
