------------------------------ MODULE LruLin ------------------------------
(* C29, concurrent half: ObjectCache = LruCache behind one lock.  Each call of a thread is
   Invoke -> Linearize -> Return; the Lru action happens atomically at Linearize, somewhere
   between the invocation and the response.  A concurrent history is correct iff some choice of
   linearization points makes every response the one Lru gives (Herlihy-Wing).                 *)
EXTENDS Lru

CONSTANTS Threads
Idle == [op |-> "idle"]

VARIABLE pend      \* thread |-> Idle or [op, k, v, done, res]

lvars == <<vars, pend>>

LInit == Init /\ pend = [t \in Threads |-> Idle]

Invoke(t, o, k, v) == /\ pend[t] = Idle
                      /\ pend' = [pend EXCEPT ![t] = [op |-> o, k |-> k, v |-> v, done |-> FALSE, res |-> None]]
                      /\ UNCHANGED vars

Linearize(t) == /\ pend[t] # Idle
                /\ ~pend[t].done
                /\ CASE pend[t].op = "get" -> Get(pend[t].k)
                     [] pend[t].op = "put" -> Put(pend[t].k, pend[t].v)
                     [] OTHER -> Clear
                /\ pend' = [pend EXCEPT ![t].done = TRUE, ![t].res = ret']

Return(t) == /\ pend[t] # Idle
             /\ pend[t].done
             /\ pend' = [pend EXCEPT ![t] = Idle]
             /\ UNCHANGED vars

LNext == \E t \in Threads :
            \/ \E k \in Keys : Invoke(t, "get", k, None)
            \/ \E k \in Keys, v \in Vals : Invoke(t, "put", k, v)
            \/ Invoke(t, "clear", None, None)
            \/ Linearize(t)
            \/ Return(t)

LSpec == LInit /\ [][LNext]_lvars

\* a completed lookup reports a value that was the latest stored for its key at its linearization point;
\* at the design level this is LatestWins + Bounded holding in every reachable state
LinInv == Bounded /\ LatestWins
=============================================================================
