------------------------------ MODULE MCLru ------------------------------
(* Model-checking and behaviour generation (B1) for Lru.

   Mode = "hist"  : every history of exactly MaxLen calls (values made distinguishable by position);
                    the history variable is part of the state, leaves are printed for replay.
   Mode = "graph" : the history is hidden by a VIEW, so TLC visits every abstract state once and every
                    transition out of it once; each transition is printed with one access path.      *)
EXTENDS Lru, TLC, Json

CONSTANTS Mode, MaxLen

VARIABLE hist

mcvars == <<vars, hist>>

Step(o, k, v) == [op |-> o, k |-> k, v |-> v, ret |-> ret', len |-> Len(order')]

PutVals == IF Mode = "hist" THEN {Len(hist) + 1} ELSE Vals

MCInit == Init /\ hist = <<>>

Emit == Mode = "graph" =>
          PrintT(<<"REPLAY", ToJson([cap |-> cap, hist |-> hist', final |-> order'])>>)

MCNext == /\ \/ \E k \in Keys : Get(k) /\ hist' = Append(hist, Step("get", k, 0))
             \/ \E k \in Keys, v \in PutVals : Put(k, v) /\ hist' = Append(hist, Step("put", k, v))
             \/ Clear /\ hist' = Append(hist, Step("clear", 0, 0))
          /\ Emit

MCSpec == MCInit /\ [][MCNext]_mcvars

LenBound == Len(hist) <= MaxLen          \* CONSTRAINT in "hist" mode
View == <<order, map, cap>>              \* VIEW in "graph" mode

Leaf == (Mode = "hist" /\ Len(hist) = MaxLen) =>
          PrintT(<<"REPLAY", ToJson([cap |-> cap, hist |-> hist, final |-> order])>>)

\* the same safety properties, phrased over MCSpec's variable tuple
MCGetReturnsHeld == [][op' = "get" => (ret' = None \/ \E k \in DOMAIN map : ret' = map[k])]_mcvars
MCEvictsLRU == [][op' = "put" =>
                  LET gone == (DOMAIN map) \ (DOMAIN map')
                  IN /\ Cardinality(gone) <= 1
                     /\ \A g \in gone : /\ g = order[Len(order)]
                                        /\ Len(order) = cap
                                        /\ Cardinality((DOMAIN map') \ (DOMAIN map)) = 1]_mcvars
MCPutTakesEffect == [][op' = "put" /\ cap > 0 =>
                        order' # <<>> /\ map'[order'[1]] = lastPut'[order'[1]]]_mcvars
=============================================================================
