CONSTANTS
  N = 3
  AllowUserCancel = FALSE
  W = 3
SPECIFICATION Spec
INVARIANTS OneResultEach CountsMatch RunsAtMostOnce StopOnError StopOnErrorFinal ResultsTruthful Channels Emit
CHECK_DEADLOCK FALSE
