----------------------------- MODULE MCLruLin -----------------------------
EXTENDS LruLin
CONSTANT MaxOps
VARIABLE nops                    \* calls invoked so far, per thread
mvars == <<lvars, nops>>
MInit == LInit /\ nops = [t \in Threads |-> 0]
MNext == \E t \in Threads :
            \/ /\ nops[t] < MaxOps
               /\ \/ \E k \in Keys : Invoke(t, "get", k, None)
                  \/ \E k \in Keys, v \in Vals : Invoke(t, "put", k, v)
                  \/ Invoke(t, "clear", None, None)
               /\ nops' = [nops EXCEPT ![t] = @ + 1]
            \/ Linearize(t) /\ UNCHANGED nops
            \/ Return(t) /\ UNCHANGED nops
MSpec == MInit /\ [][MNext]_mvars
=============================================================================
