CONSTANTS
  N = 2
  AllowUserCancel = FALSE
  W = 2
SPECIFICATION Spec
INVARIANTS OneResultEach CountsMatch RunsAtMostOnce StopOnError StopOnErrorFinal ResultsTruthful Channels Emit
CHECK_DEADLOCK FALSE
