------------------------------ MODULE MCBatch ------------------------------
(* Exhaustive exploration of Batch and B1 generation: the set of final summaries the design allows for
   each configuration (outcome vector, stop-on-error, pre-cancel), printed once per terminal state.   *)
EXTENDS Batch, TLC, Json

Emit == Done => PrintT(<<"REPLAY", ToJson([n |-> N, w |-> W,
                                            outcome |-> outcome, stopOnError |-> stopOnError, preCancel |-> preCancel,
                                            results |-> summary.results, successful |-> summary.successful,
                                            failed |-> summary.failed, running |-> summary.running,
                                            completed |-> summary.completed, failedJobs |-> summary.failedJobs,
                                            opRuns |-> opRuns, cancelFlag |-> cancel])>>)
=============================================================================
